package main

import (
	"encoding/json"
	"fmt"
	"os"
	"path/filepath"
	"regexp"
	"runtime/debug"
	"sort"
	"strconv"
	"strings"
	"time"

	"golang.org/x/tools/go/ssa"

	"obsa/eng"
	"obsa/props"
)

func envOr(k, d string) string {
	if v := os.Getenv(k); v != "" {
		return v
	}
	return d
}

func main() {
	if len(os.Args) < 2 {
		fmt.Println("usage: obsa check <Cxx> <quick|thorough> | dump <func-regexp> | list <regexp>")
		os.Exit(2)
	}
	repo := envOr("OBSA_REPO", "/repo")
	verif := envOr("OBSA_VERIF", "/verif")
	eng.NamesFile = envOr("OBSA_NAMES", verif+"/obsa/names.json")
	switch os.Args[1] {
	case "names":
		// freeze the variable names the rules are written against (see eng/names.go)
		eng.NamesFile = ""
		p, err := eng.Load(repo, nil)
		if err != nil {
			fmt.Println(err)
			os.Exit(1)
		}
		b, _ := json.Marshal(p.NamesSnapshot())
		os.Stdout.Write(b)
		// the anonymous-function descriptors go next to names.json (see eng/closures.go)
		if len(os.Args) > 2 {
			cb, _ := json.Marshal(p.ClosuresSnapshot())
			if err := os.WriteFile(os.Args[2], cb, 0o644); err != nil {
				fmt.Fprintln(os.Stderr, err)
				os.Exit(1)
			}
			// ... and the function descriptors (see eng/funcalias.go)
			fb, _ := json.Marshal(p.FuncsSnapshot())
			if err := os.WriteFile(filepath.Join(filepath.Dir(os.Args[2]), "funcs.json"), fb, 0o644); err != nil {
				fmt.Fprintln(os.Stderr, err)
				os.Exit(1)
			}
			// ... and the functions with named results and no defer (see eng/nodefer.go)
			nb, _ := json.Marshal(p.NoDeferSnapshot())
			if err := os.WriteFile(filepath.Join(filepath.Dir(os.Args[2]), "nodefer.json"), nb, 0o644); err != nil {
				fmt.Fprintln(os.Stderr, err)
				os.Exit(1)
			}
		}
	case "check":
		os.Exit(check(repo, verif, os.Args[2], os.Args[3]))
	case "mutants":
		// checker self-test only: obsa mutants <Cxx>
		id := os.Args[2]
		base, err := runObls(repo, id)
		if err != nil || base.Status != "ok" {
			fmt.Println("base run failed:", err, base)
			os.Exit(2)
		}
		baseOpen := map[string]bool{}
		for _, o := range base.Open {
			baseOpen[o.Key] = true
		}
		r := selftest(repo, verif, id, baseOpen)
		fmt.Printf("applied=%v caught=%v missed=%v skipped=%v errors=%v\n", r["applied"], r["caught"], r["missed"], r["skipped"], r["errors"])
	case "errsweep":
		// exploration aid: call sites whose error result is dropped, for callees matching the regexp
		p, err := eng.Load(repo, nil)
		if err != nil {
			fmt.Println(err)
			os.Exit(1)
		}
		c := eng.NewCtx("SWEEP", p)
		c.Clause("R11", "sweep")
		n := 0
		for _, fn := range p.Funcs {
			for _, cl := range eng.Calls(fn, os.Args[2]) {
				sig := cl.Common().Signature()
				if sig.Results().Len() == 0 || sig.Results().At(sig.Results().Len()-1).Type().String() != "error" {
					continue
				}
				n++
				if !c.ErrChecked(fn, cl) {
					fmt.Printf("%s\t%s\t%s\n", eng.FuncName(fn), p.Pos(cl.Pos()), eng.InstrStr(cl))
				}
			}
		}
		fmt.Printf("%d call sites\n", n)
	case "renametest":
		id := os.Args[2]
		p, err := eng.Load(repo, nil)
		if err != nil {
			fmt.Println(err)
			os.Exit(1)
		}
		c := eng.NewCtx(id, p)
		props.Registry[id].Run(c, false)
		baseOpen := map[string]bool{}
		for _, o := range c.Obls {
			if o.Status != eng.Discharged {
				baseOpen[o.Key()] = true
			}
		}
		r := renameTest(repo, id, c, baseOpen)
		for _, a := range r["false_alarms"].([]string) {
			fmt.Println("  ", a)
		}
	case "neutral":
		// checker self-test only: obsa neutral <Cxx> — archived property-preserving patches
		id := os.Args[2]
		base, err := runObls(repo, id)
		if err != nil || base.Status != "ok" {
			fmt.Println("base run failed:", err, base)
			os.Exit(2)
		}
		baseOpen := map[string]bool{}
		for _, o := range base.Open {
			baseOpen[o.Key] = true
		}
		r := neutralPatchTest(repo, verif, id, baseOpen)
		fmt.Printf("patches=%v silent=%v alarmed=%v skipped=%v\n", r["patches"], r["silent"], r["alarmed"], r["skipped"])
	case "obls":
		os.Exit(obls(repo, os.Args[2]))
	case "manifest":
		na := map[string]string{}
		if b, err := os.ReadFile(verif + "/not_applicable.json"); err == nil {
			json.Unmarshal(b, &na)
		}
		os.Stdout.Write(props.Manifest(na))
	case "dump":
		p, err := eng.Load(repo, envOverlay(repo), dumpPatterns()...)
		if err != nil {
			fmt.Println(err)
			os.Exit(1)
		}
		re := regexp.MustCompile(os.Args[2])
		for _, fn := range p.Funcs {
			if re.MatchString(eng.FuncName(fn)) {
				dump(p, fn)
			}
		}
	case "list":
		p, err := eng.Load(repo, envOverlay(repo), dumpPatterns()...)
		if err != nil {
			fmt.Println(err)
			os.Exit(1)
		}
		re := regexp.MustCompile(os.Args[2])
		for _, fn := range p.Funcs {
			if re.MatchString(eng.FuncName(fn)) {
				fmt.Printf("%s\t%s\t%d blocks\n", eng.FuncName(fn), p.Pos(fn.Pos()), len(fn.Blocks))
			}
		}
	case "callers":
		p, err := eng.Load(repo, envOverlay(repo), dumpPatterns()...)
		if err != nil {
			fmt.Println(err)
			os.Exit(1)
		}
		re := regexp.MustCompile(os.Args[2])
		for _, fn := range p.Funcs {
			for _, c := range eng.Calls(fn, os.Args[2]) {
				_ = re
				fmt.Printf("%s\t%s\t%s\n", eng.FuncName(fn), p.Pos(c.Pos()), eng.InstrStr(c))
			}
		}
	default:
		fmt.Println("unknown command")
		os.Exit(2)
	}
}

func dumpPatterns() []string {
	if v := os.Getenv("OBSA_PATTERNS"); v != "" {
		return strings.Fields(v)
	}
	return nil
}

func check(repo, verif, id, tier string) (code int) {
	t0 := time.Now()
	seed, _ := strconv.ParseInt(envOr("VERIF_SEED", "0"), 10, 64)
	pr := props.Registry[id]
	if pr == nil {
		fmt.Printf("no rules registered for %s\n", id)
		return 2
	}
	defer func() {
		if r := recover(); r != nil {
			code = eng.FailHard(verif, id, tier, seed, time.Since(t0).Seconds(), fmt.Sprintf("checker panic (counts as failure): %v\n%s", r, debug.Stack()))
		}
	}()
	p, err := eng.Load(repo, nil)
	if err != nil {
		return eng.FailHard(verif, id, tier, seed, time.Since(t0).Seconds(), err.Error())
	}
	if p.NPkgs < 200 {
		return eng.FailHard(verif, id, tier, seed, time.Since(t0).Seconds(), fmt.Sprintf("only %d packages loaded, expected >= 200", p.NPkgs))
	}
	c := eng.NewCtx(id, p)
	pr.Run(c, tier == "thorough")
	for _, r := range p.Renames {
		c.Notes = append(c.Notes, "renamed variable mapped back to the name the rules were written against: "+r)
	}
	c.Notes = append(c.Notes, fmt.Sprintf("SSA normalisations applied program-wide before the rules ran: %d defer-spilled result cells folded back (eng/despill.go), %d directly-invoked bound method values analysed as the direct call (eng/debound.go), %d function(s) with named results analysed without the defer they gained since the rules were written (eng/nodefer.go)%s", eng.Despilled, eng.Debound, len(eng.NoDeferNormalised), func() string {
		if len(eng.NoDeferNormalised) == 0 {
			return ""
		}
		return ": " + strings.Join(eng.NoDeferNormalised, ", ")
	}()))
	var extra map[string]any
	if tier == "thorough" {
		extra = map[string]any{}
		baseOpen := map[string]bool{}
		for _, o := range c.Obls {
			if o.Status != eng.Discharged {
				baseOpen[o.Key()] = true
			}
		}
		// (a) second build configuration: linux/386 selects the build-tagged siblings
		// (raft vars_32bit.go etc.); its open obligations count like any other
		v, err := runObls(repo, id, "OBSA_GOARCH=386")
		if err != nil || v.Status != "ok" {
			msg := ""
			if err != nil {
				msg = err.Error()
			} else {
				msg = v.Status + ": " + v.Msg
			}
			return eng.FailHard(verif, id, tier, seed, time.Since(t0).Seconds(), "linux/386 configuration could not be analysed: "+msg)
		}
		n386 := 0
		for _, op := range v.Open {
			if !baseOpen[op.Key] {
				n386++
				c.AddOpen(op.Key, op.Status, op.Clause, op.Pos, "[linux/386 build configuration] "+op.Fact)
			}
		}
		extra["configurations"] = []map[string]any{
			{"goos": "linux", "goarch": "amd64", "packages": p.NPkgs, "functions": len(p.Funcs), "obligations": len(c.Obls) - n386},
			{"goos": "linux", "goarch": "386", "packages": v.NPkgs, "functions": v.NFuncs, "obligations": v.Total, "open_only_here": n386},
		}
		// (b) checker self-test on overlays of the current tree
		extra["selftest"] = selftest(repo, verif, id, baseOpen)
		// (c) neutral change: rename every variable of the analysed functions; the rules must stay silent
		extra["neutral_rename"] = renameTest(repo, id, c, baseOpen)
		// (d) archived property-preserving patches written by sub-agents: the rules should stay silent
		extra["neutral_patches"] = neutralPatchTest(repo, verif, id, baseOpen)
	}
	return c.Finish(verif, tier, seed, time.Since(t0).Seconds(),
		pr.Explanation+" NOT DECIDED: "+pr.NotDecided,
		[]string{
			"go/types, go/ssa (golang.org/x/tools v0.50.0) model the program faithfully; reflection, unsafe, cgo and out-of-process plugins are outside the model",
			"CFG paths over-approximate executions; only facts tested on identical SSA operands are correlated",
			"standard library and third-party libraries (crypto/cipher, bbolt, hashicorp/raft) behave as documented",
			"linux/amd64 build configuration without extra build tags, non-test files (thorough: also linux/386)",
		}, extra)
}

func dump(p *eng.Prog, fn *ssa.Function) {
	fmt.Printf("=== %s  %s  (%d blocks)\n", eng.FuncName(fn), p.Pos(fn.Pos()), len(fn.Blocks))
	for _, b := range fn.Blocks {
		var preds []string
		for _, pb := range b.Preds {
			preds = append(preds, strconv.Itoa(pb.Index))
		}
		sort.Strings(preds)
		fmt.Printf(" b%d %s  <- %s\n", b.Index, b.Comment, strings.Join(preds, ","))
		for _, in := range b.Instrs {
			switch x := in.(type) {
			case *ssa.If:
				nc := eng.Normalize(x.Cond)
				if os.Getenv("OBSA_DEEP") != "" {
					nc = eng.NormalizeDeep(x.Cond)
				}
				fmt.Printf("    IF [%s]==%v  -> T:b%d F:b%d   @%s\n", nc.Base, nc.Pol, b.Succs[0].Index, b.Succs[1].Index, p.Pos(x.Cond.Pos()))
			case ssa.CallInstruction:
				fmt.Printf("    %s   args=%s @%s\n", eng.InstrStr(in), argsStr(x.Common()), p.Pos(in.Pos()))
			case *ssa.Store:
				fmt.Printf("    %s   @%s\n", eng.InstrStr(in), p.Pos(in.Pos()))
			case *ssa.Return:
				fmt.Printf("    %s   @%s\n", eng.InstrStr(in), p.Pos(in.Pos()))
			case *ssa.Jump:
				fmt.Printf("    jump b%d\n", b.Succs[0].Index)
			case *ssa.Phi:
				fmt.Printf("    %s = %s\n", x.Name(), eng.Expr(x))
			case *ssa.MapUpdate:
				fmt.Printf("    mapupdate %s[%s] = %s @%s\n", eng.Expr(x.Map), eng.Expr(x.Key), eng.Expr(x.Value), p.Pos(in.Pos()))
			case *ssa.RunDefers:
				fmt.Printf("    rundefers\n")
			case *ssa.Panic:
				fmt.Printf("    panic %s\n", eng.Expr(x.X))
			}
		}
	}
}

func argsStr(c *ssa.CallCommon) string {
	var a []string
	if c.IsInvoke() {
		a = append(a, "recv="+eng.Expr(c.Value))
	}
	for _, x := range c.Args {
		a = append(a, eng.Expr(x))
	}
	return "(" + strings.Join(a, "; ") + ")"
}

// envOverlay: authoring aid — OBSA_OVERLAY_DIR also applies to dump/list/callers.
func envOverlay(repo string) map[string][]byte {
	if d := os.Getenv("OBSA_OVERLAY_DIR"); d != "" {
		if ov, err := overlayFromDir(repo, d); err == nil {
			return ov
		}
	}
	return nil
}
