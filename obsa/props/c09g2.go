package props

import (
	"fmt"
	"go/token"
	"go/types"
	"regexp"
	"sort"
	"strings"

	"golang.org/x/tools/go/ssa"

	"obsa/eng"
)

// runC09Gaps2: second-tier mechanisms of C09 (bookkeeping behind the shipped
// trim bound, recording of every applied write, who writes the data bucket,
// where the cursor comes from, the verdict the leader reports, the per-command
// state constructor).
func runC09Gaps2(c *eng.Ctx) {
	c09g2TrackerBookkeeping(c, "C09.3")
	c08g2Caps(c, "C09.3") // shared with C08.7: node-local trim bounds and the bound applyLog ships are capped, unconditionally
	c09g2WritesRecorded(c)
	c09g2RecordOperands(c)
	c09g2BucketWriters(c)
	c09g2Cursor(c)
	c09g2LeaderVerdict(c)
	c09g2ApplyState(c)
	c09g2SnapshotComplete(c)
	c09g2Decodes(c)
}

func c09g2Unconv(v ssa.Value) ssa.Value {
	for {
		switch x := v.(type) {
		case *ssa.Convert:
			v = x.X
		case *ssa.ChangeType:
			v = x.X
		default:
			return v
		}
	}
}

// c09g2TrackerBookkeeping: the leader derives the trim bound it ships (C09.3)
// and its node-local bounds (C08.7) from a count of open write transactions per
// start index; trimming removes exactly the entries below the bound.
func c09g2TrackerBookkeeping(c *eng.Ctx, clause string) {
	sameMapLookup := func(mu *ssa.MapUpdate, v ssa.Value) bool {
		lk, ok := v.(*ssa.Lookup)
		return ok && eng.ExprDeep(lk.X) == eng.ExprDeep(mu.Map) && eng.ExprDeep(lk.Index) == eng.ExprDeep(mu.Key)
	}
	isOne := func(v ssa.Value) bool { return eng.Expr(v) == "1" }
	if f := c.Fn("raft.(*fsmTxnCommitIndexTracker).trackTransaction"); f != nil {
		c.Clause("R12", clause)
		var ups []*ssa.MapUpdate
		for _, in := range eng.Instrs(f, func(in ssa.Instruction) bool {
			mu, ok := in.(*ssa.MapUpdate)
			return ok && strings.HasSuffix(eng.Expr(mu.Map), ".sourceIndexMap")
		}) {
			ups = append(ups, in.(*ssa.MapUpdate))
		}
		if c.Floor(f, "sourceIndexMap update", len(ups), 1) {
			for _, mu := range ups {
				site := "registration increments the count of its start index"
				bo, ok := mu.Value.(*ssa.BinOp)
				inc := ok && bo.Op == token.ADD && ((sameMapLookup(mu, bo.X) && isOne(bo.Y)) || (sameMapLookup(mu, bo.Y) && isOne(bo.X)))
				if inc && eng.Expr(mu.Key) == "index" {
					c.OK(f, site, mu.Pos(), eng.ExprDeep(mu.Value))
				} else {
					c.Violation(f, site, mu.Pos(), "trackTransaction stores "+eng.ExprDeep(mu.Value)+" under "+eng.Expr(mu.Key)+" instead of the previous count of the start index plus one: with two transactions open at one index the first to finish makes the index look inactive", nil)
				}
			}
		}
	}
	if f := c.Fn("raft.(*fsmTxnCommitIndexTracker).completeTransaction"); f != nil {
		c.Clause("R2", clause)
		var drops []ssa.Instruction
		for _, d := range eng.Calls(f, `^delete$`) {
			if strings.HasSuffix(eng.Expr(d.Common().Args[0]), ".sourceIndexMap") {
				drops = append(drops, d)
			}
		}
		if c.Floor(f, "delete(sourceIndexMap, index)", len(drops), 1) {
			c.Cut(f, "start index forgotten", drops, eng.G(f, `^1 < t\.sourceIndexMap\[index\]$`, false), nil)
		}
		c.Clause("R12", clause)
		dec := 0
		for _, in := range eng.Instrs(f, func(in ssa.Instruction) bool {
			mu, ok := in.(*ssa.MapUpdate)
			return ok && strings.HasSuffix(eng.Expr(mu.Map), ".sourceIndexMap")
		}) {
			mu := in.(*ssa.MapUpdate)
			bo, ok := mu.Value.(*ssa.BinOp)
			if ok && bo.Op == token.SUB && sameMapLookup(mu, bo.X) && isOne(bo.Y) {
				dec++
			} else {
				c.Violation(f, "completion decrements the count of its start index", mu.Pos(), "completeTransaction stores "+eng.ExprDeep(mu.Value), nil)
			}
		}
		if c.Floor(f, "decrement of the count", dec, 1) {
			c.OK(f, "completion decrements the count of its start index", f.Pos(), "count - 1 while siblings remain")
		}
	}
	if f := c.Fn("raft.(*fsmTxnCommitIndexTracker).clearOldEntries"); f != nil {
		c.Clause("R12", clause)
		dfs := eng.Calls(f, `^maps\.DeleteFunc`)
		if c.Floor(f, "maps.DeleteFunc over the record", len(dfs), 1) {
			for _, df := range dfs {
				a := df.Common().Args
				site := "trimming removes exactly the entries below the bound"
				if !strings.HasSuffix(eng.Expr(a[0]), ".indexModifiedMap") {
					c.Violation(f, site, df.Pos(), "DeleteFunc runs over "+eng.Expr(a[0]), nil)
					continue
				}
				mc, ok := a[1].(*ssa.MakeClosure)
				if !ok {
					c.Undecided(f, site, df.Pos(), "the predicate is not a closure literal")
					continue
				}
				pred := mc.Fn.(*ssa.Function)
				okShape := len(pred.Params) >= 1
				for _, r := range eng.Returns(pred) {
					bo, isB := r.Results[0].(*ssa.BinOp)
					if !isB {
						okShape = false
						continue
					}
					x, y := bo.X, bo.Y
					if bo.Op == token.GTR {
						x, y = y, x
					} else if bo.Op != token.LSS {
						okShape = false
						continue
					}
					if x != ssa.Value(pred.Params[0]) {
						okShape = false
					}
					if ok, _, _ := eng.OriginsMatch(y, `^freevar:lowestActiveIndex$`, `^param:lowestActiveIndex$`); !ok {
						okShape = false
					}
				}
				if okShape {
					c.OK(pred, site, df.Pos(), "predicate is key < bound")
				} else {
					c.Violation(pred, site, df.Pos(), "the trimming predicate is not 'index < bound': entries at or above the replicated bound can be dropped (or the decision depends on node-local state), so replicas disagree on 'unmodified'", nil)
				}
			}
		}
	}
}

// c09g2WritesRecorded (C09.6): every write to the data bucket on the apply
// path is recorded in the per-command state under the key written, before the
// next write or the end of the command. The record is what lets other replicas
// (and later commands) skip verification.
func c09g2WritesRecorded(c *eng.Ctx) {
	for _, fn := range []string{"raft.(*FSM).applyBatchNonTxOps", "raft.(*FSM).applyBatchTxOps"} {
		root := c.Fn(fn)
		if root == nil {
			continue
		}
		// the function itself and the functions of the package it calls that write the bucket
		// (a write loop extracted into a helper is held to the same rule)
		fs := []*ssa.Function{root}
		for _, cl := range eng.Calls(root, `^raft\.`) {
			if g := cl.Common().StaticCallee(); g != nil && g != root && g.Blocks != nil && len(eng.Calls(g, `bbolt\.Bucket\)\.(Put|Delete)$`)) > 0 {
				dup := false
				for _, h := range fs {
					dup = dup || h == g
				}
				if !dup {
					fs = append(fs, g)
				}
			}
		}
		total := 0
		for _, f := range fs {
			total += len(eng.Calls(f, `bbolt\.Bucket\)\.(Put|Delete)$`))
		}
		c.Clause("R3", "C09.6")
		if !c.Floor(root, "bucket writes", total, 2) {
			continue
		}
		for _, f := range fs {
			writes := eng.Calls(f, `bbolt\.Bucket\)\.(Put|Delete)$`)
			logs := eng.Calls(f, `fsmTxnCommitIndexApplicationState\)\.logWrite$`)
			succ := eng.SuccessReturns(f, 0)
			for _, w := range writes {
				key := eng.ExprDeep(c09g2Unconv(w.Common().Args[1]))
				var rec []ssa.Instruction
				for _, l := range logs {
					if eng.ExprDeep(c09g2Unconv(l.Common().Args[1])) == key {
						rec = append(rec, l)
					}
				}
				site := "applied write recorded under its key"
				target := func(in ssa.Instruction) bool {
					for _, o := range writes {
						if in == ssa.Instruction(o) {
							return true
						}
					}
					for _, r := range succ {
						if in == r {
							return true
						}
					}
					return false
				}
				if h := eng.Reach(eng.Query{Fn: f, StartAfter: w, Barriers: rec, Blocked: eng.CallFailEdges(w), Target: target}); h != nil {
					c.Violation(f, site, w.Pos(), eng.CalleeName(w.Common())+" of "+key+" can be followed by the next write or a successful return without logWrite("+key+"): the write is missing from the record that lets transactions skip verification", h.Witness)
				} else {
					c.OK(f, site, w.Pos(), "logWrite("+key+") follows on every non-failing path")
				}
			}
		}
	}
}

// c09g2BucketWriters (C09.7): the data bucket of the state machine is written
// by applying log entries only. Every bolt write of the package is tabled, and
// the direct (unlogged) writers have no caller outside chunk bookkeeping.
func c09g2BucketWriters(c *eng.Ctx) {
	c.Clause("R1", "C09.7")
	table := map[string]string{
		"raft.(*FSM).ApplyBatch":                   "cursor and configuration (config bucket) inside the batch update",
		"raft.(*FSM).applyBatchNonTxOps":           "apply path",
		"raft.(*FSM).applyBatchTxOps":              "apply path",
		"raft.(*FSM).persistDesiredSuffrage":       "node-local config bucket",
		"raft.writeSnapshotMetaToDB":               "config bucket (cursor, configuration)",
		"raft.(*FSMChunkStorage).StoreChunk":       "chunk bookkeeping (outside this claim)",
		"raft.(*FSM).DeletePrefix":                 "direct writer; callers tabled below",
		"raft.(*FSM).Put":                          "direct writer; no caller allowed",
		"raft.(*FSM).Delete":                       "direct writer; no caller allowed",
		"raft.(*BoltSnapshotSink).writeBoltDBFile": "fills the database file of a snapshot being received",
	}
	var sites []eng.CallSite
	for _, f := range c.P.Funcs {
		if !eng.InPkg(f, "raft") {
			continue
		}
		for _, w := range eng.Calls(f, `bbolt\.(Bucket\)\.(Put|Delete)|Cursor\)\.Delete|Bucket\)\.DeleteBucket|Tx\)\.DeleteBucket)$`) {
			sites = append(sites, eng.CallSite{Fn: f, Call: w})
		}
	}
	// a function outside the table whose every caller (program-wide, function values included) is a
	// tabled apply-path function is that function's helper: its writes happen on the apply path too
	applyPath := map[string]bool{"raft.(*FSM).applyBatchNonTxOps": true, "raft.(*FSM).applyBatchTxOps": true}
	var tabledSites []eng.CallSite
	for _, st := range sites {
		top := eng.TopFunc(st.Fn)
		n := eng.FuncName(top)
		if _, ok := table[n]; ok {
			tabledSites = append(tabledSites, st)
			continue
		}
		var callers []eng.CallSite
		if m, miss := c.P.StaticCallee(n); len(miss) == 0 {
			callers = append(c.P.FindCalls(m, nil), c.P.FuncValueUses(n)...)
		}
		inherits := len(callers) > 0
		var who []string
		for _, cs := range callers {
			cn := eng.FuncName(eng.TopFunc(cs.Fn))
			who = append(who, cn)
			if !applyPath[cn] {
				inherits = false
			}
		}
		if inherits {
			c.OK(top, "callers{bolt bucket writes in package raft}", st.Call.Pos(), "not tabled, but only called from "+strings.Join(uniqStr(who), ", ")+": a helper of the apply path")
		} else {
			tabledSites = append(tabledSites, st) // reported by the table below
		}
	}
	c.CallerTable("bolt bucket writes in package raft", tabledSites, table, 10)
	for fn, allowed := range map[string]map[string]string{
		"raft.(*FSM).Put":    {},
		"raft.(*FSM).Delete": {},
		"raft.(*FSM).DeletePrefix": {
			"raft.(*FSMChunkStorage).FinalizeOp":    "chunk bookkeeping",
			"raft.(*FSMChunkStorage).RestoreChunks": "chunk bookkeeping",
		},
	} {
		m, miss := c.P.StaticCallee(fn)
		if len(miss) > 0 {
			c.Unresolved(fn)
			continue
		}
		cs := append(c.P.FindCalls(m, nil), c.P.FuncValueUses(fn)...)
		c.CallerTable(fn+" (writes the data bucket without a log entry)", cs, allowed, 0)
		if len(cs) == 0 {
			c.OK(c.P.Func(fn), "callers{"+fn+"}", c.P.Func(fn).Pos(), "no call site")
		}
	}
}

// c09g2Cursor (C09.8): a replica resumes after its persisted cursor. The
// cursor written with a batch (and mirrored in memory) is the index of the
// batch's last entry; the synthetic snapshot raft is shown at start-up, and the
// cursor written into a snapshot's database, carry that index unchanged.
func c09g2Cursor(c *eng.Ctx) {
	idxField := func(f *ssa.Function, structName, field string) []*ssa.Store {
		var out []*ssa.Store
		for _, st := range eng.Stores(f, `^&complit\.`+field+`$`) {
			if fa, ok := st.Addr.(*ssa.FieldAddr); ok && strings.HasSuffix(structTypeName(fa.X.Type()), structName) {
				out = append(out, st)
			}
		}
		return out
	}
	expect := func(f *ssa.Function, site string, at ssa.Instruction, v ssa.Value, pat, why string) {
		s := eng.ExprDeep(v)
		if ok, _ := regexp.MatchString(pat, s); ok {
			c.OK(f, site, at.Pos(), s)
		} else {
			c.Violation(f, site, at.Pos(), "value is "+s+"; "+why, nil)
		}
	}
	if f := c.Fn("raft.(*FSM).ApplyBatch"); f != nil {
		c.Clause("R5", "C09.8")
		const last = `^logs\[len\(logs\) - 1\]\.`
		why := "the cursor of a batch is the index/term of its last entry: a lower value makes a restarted replica apply entries twice, and transactions start below what their snapshot contains"
		ix := idxField(f, "raft.IndexValue", "Index")
		if c.Floor(f, "IndexValue{Index} marshalled for the persisted cursor", len(ix), 1) {
			for _, st := range ix {
				expect(f, "persisted cursor index", st, st.Val, last+`Index$`, why)
			}
		}
		for _, st := range idxField(f, "raft.IndexValue", "Term") {
			expect(f, "persisted cursor term", st, st.Val, last+`Term$`, why)
		}
		for _, s := range eng.Calls(f, `atomic\.Uint64\)\.Store$`) {
			switch {
			case strings.HasSuffix(eng.Expr(s.Common().Args[0]), ".latestIndex"):
				expect(f, "in-memory cursor index", s, s.Common().Args[1], last+`Index$`, why)
			case strings.HasSuffix(eng.Expr(s.Common().Args[0]), ".latestTerm"):
				expect(f, "in-memory cursor term", s, s.Common().Args[1], last+`Term$`, why)
			}
		}
	}
	if f := c.Fn("raft.(*BoltSnapshotStore).getMetaFromFSM"); f != nil {
		c.Clause("R5", "C09.8")
		why := "the synthetic snapshot tells raft where replay starts: it must be the state machine's cursor"
		ix := idxField(f, "raft.SnapshotMeta", "Index")
		if c.Floor(f, "SnapshotMeta{Index}", len(ix), 1) {
			for _, st := range ix {
				expect(f, "synthetic snapshot index", st, st.Val, `FSM\)\.LatestState\(.*\)#0\.Index$`, why)
			}
		}
		for _, st := range idxField(f, "raft.SnapshotMeta", "Term") {
			expect(f, "synthetic snapshot term", st, st.Val, `FSM\)\.LatestState\(.*\)#0\.Term$`, why)
		}
	}
	if f := c.Fn("raft.writeSnapshotMetaToDB"); f != nil {
		c.Clause("R5", "C09.8")
		why := "the cursor of a snapshot's database is the snapshot's index/term"
		ix := idxField(f, "raft.IndexValue", "Index")
		if c.Floor(f, "IndexValue{Index}", len(ix), 1) {
			for _, st := range ix {
				expect(f, "snapshot cursor index", st, st.Val, `^metadata\.Index$`, why)
			}
		}
		for _, st := range idxField(f, "raft.IndexValue", "Term") {
			expect(f, "snapshot cursor term", st, st.Val, `^metadata\.Term$`, why)
		}
	}
	if f := c.Fn("raft.(*FSM).witnessSnapshot"); f != nil {
		c.Clause("R5", "C09.8")
		var mem []ssa.Instruction
		for _, s := range eng.Calls(f, `atomic\.Uint64\)\.(Store|CompareAndSwap)$`) {
			a := s.Common().Args
			if strings.HasSuffix(eng.Expr(a[0]), ".latestIndex") {
				mem = append(mem, s)
				expect(f, "witnessed cursor index", s, a[len(a)-1], `^metadata\.Index$`, "the in-memory cursor mirrors what was persisted")
			}
		}
		c.Clause("R2", "C09.8")
		if c.Floor(f, "write of f.latestIndex", len(mem), 1) {
			c.Cut(f, "in-memory cursor moved by a snapshot", mem, eng.GCallOK(f, `^raft\.writeSnapshotMetaToDB$`), nil)
			// raft persists a snapshot (runSnapshots goroutine) while the state machine keeps
			// applying batches (runFSM goroutine): the snapshot's index may be behind the
			// cursor by then, and the cursor may only move forwards
			c.Cut(f, "in-memory cursor moved by a snapshot", mem, c09g2Forward(f, `Load\([^)]*latestIndex|LatestState\(`), nil)
		}
		// ... and the persisted cursor of the live database likewise, decided inside the
		// bolt update that writes it (bolt serialises it against the batch update)
		for _, wc := range eng.Calls(f, `^raft\.writeSnapshotMetaToDB$`) {
			w := wc.Common().StaticCallee()
			if w == nil {
				continue
			}
			assume := map[string]bool{}
			for i, a := range wc.Common().Args {
				if cst, ok := a.(*ssa.Const); ok && i < len(w.Params) && cst.Value != nil && (eng.Expr(cst) == "true" || eng.Expr(cst) == "false") {
					assume[`^\^?`+reQuote(eng.VarName(w.Params[i]))+`$`] = eng.Expr(cst) == "true"
				}
			}
			n := 0
			for _, clo := range eng.Closures(w) {
				var puts []ssa.Instruction
				for _, p := range eng.Calls(clo, `bbolt\.Bucket\)\.Put$`) {
					if strings.Contains(eng.ExprDeep(p.Common().Args[1]), "latestIndexKey") {
						puts = append(puts, p)
					}
				}
				if len(puts) == 0 {
					continue
				}
				n += len(puts)
				// (a database that records no cursor yet has nothing to compare with)
				c.Cut(clo, "persisted cursor of the live database moved by a snapshot", puts, eng.Or(c09g2Forward(clo, `\.Index$`), eng.GD(clo, `Bucket\)\.Get\(.*latestIndexKey\)\)? == nil$`, true)), assume)
			}
			c.Floor(w, "write of latestIndexKey on behalf of witnessSnapshot", n, 1)
		}
	}
}

// c09g2Forward: the edges of fn on which an ordered comparison between
// metadata.Index and the current cursor (a value rendering matching curPat)
// has established that the snapshot's index is not behind the cursor.
func c09g2Forward(fn *ssa.Function, curPat string) eng.Guard {
	re := regexp.MustCompile(curPat)
	isNew := func(v ssa.Value) bool { return strings.HasSuffix(eng.ExprDeep(v), "metadata.Index") }
	isCur := func(v ssa.Value) bool { return !isNew(v) && re.MatchString(eng.ExprDeep(v)) }
	g := eng.Guard{Desc: "comparison of metadata.Index with the current cursor says 'not behind'"}
	for _, b := range fn.Blocks {
		ifi := eng.IfOf(b)
		if ifi == nil {
			continue
		}
		bo, ok := ifi.Cond.(*ssa.BinOp)
		if !ok {
			// the comparison made by a function of the package that returns its outcome as a bool
			// (possibly with an error): every return is the comparison, or the constant that means
			// 'not behind' (nothing recorded to compare with)
			tested := eng.Normalize(ifi.Cond).Val
			res := tested
			if ex, isEx := res.(*ssa.Extract); isEx && ex.Index == 0 {
				res = ex.Tuple
			}
			cl, isCall := res.(*ssa.Call)
			if !isCall {
				continue
			}
			callee := cl.Call.StaticCallee()
			if callee == nil || len(callee.Blocks) == 0 || callee.Pkg != eng.TopFunc(fn).Pkg {
				continue
			}
			argIsNew := func(v ssa.Value) bool {
				p, isP := v.(*ssa.Parameter)
				if !isP {
					return false
				}
				for i, q := range callee.Params {
					if q == p && i < len(cl.Call.Args) {
						return isNew(cl.Call.Args[i])
					}
				}
				return false
			}
			dir, okAll, n := 0, true, 0 // dir: +1 the helper answers 'not behind', -1 it answers 'behind'
			for _, r := range eng.Returns(callee) {
				if r.Block().Comment == "recover" || len(r.Results) == 0 {
					continue
				}
				if ev := len(r.Results) - 1; ev > 0 && !eng.IsNilConst(r.Results[ev]) {
					continue // an error return: the caller does not act on the flag
				}
				n++
				switch x := r.Results[0].(type) {
				case *ssa.Const:
					// decided below, once the direction is known
				case *ssa.BinOp:
					d := 0
					switch {
					case (x.Op == token.LSS || x.Op == token.LEQ) && re.MatchString(eng.ExprDeep(x.X)) && argIsNew(x.Y),
						(x.Op == token.GTR || x.Op == token.GEQ) && argIsNew(x.X) && re.MatchString(eng.ExprDeep(x.Y)):
						d = 1
					case (x.Op == token.LSS || x.Op == token.LEQ) && argIsNew(x.X) && re.MatchString(eng.ExprDeep(x.Y)),
						(x.Op == token.GTR || x.Op == token.GEQ) && re.MatchString(eng.ExprDeep(x.X)) && argIsNew(x.Y):
						d = -1
					}
					if d == 0 || (dir != 0 && d != dir) {
						okAll = false
					}
					dir = d
				default:
					okAll = false
				}
			}
			if !okAll || dir == 0 || n == 0 {
				continue
			}
			// constants must mean 'not behind'
			for _, r := range eng.Returns(callee) {
				if r.Block().Comment == "recover" || len(r.Results) == 0 {
					continue
				}
				if ev := len(r.Results) - 1; ev > 0 && !eng.IsNilConst(r.Results[ev]) {
					continue
				}
				if k, isC := r.Results[0].(*ssa.Const); isC {
					if (eng.Expr(k) == "true") != (dir == 1) {
						okAll = false
					}
				}
			}
			if okAll {
				g.Edges = append(g.Edges, eng.BoolEdges(tested, dir == 1)...)
			}
			continue
		}
		fwdOnTrue := false
		switch {
		case (bo.Op == token.LSS || bo.Op == token.LEQ) && isCur(bo.X) && isNew(bo.Y):
			fwdOnTrue = true
		case (bo.Op == token.GTR || bo.Op == token.GEQ) && isNew(bo.X) && isCur(bo.Y):
			fwdOnTrue = true
		case (bo.Op == token.LSS || bo.Op == token.LEQ) && isNew(bo.X) && isCur(bo.Y):
		case (bo.Op == token.GTR || bo.Op == token.GEQ) && isCur(bo.X) && isNew(bo.Y):
		default:
			continue
		}
		succ := 1
		if fwdOnTrue {
			succ = 0
		}
		g.Edges = append(g.Edges, eng.Edge{From: b, Succ: succ})
	}
	return g
}

// c09g2LeaderVerdict (C09.9): the verdict applyLog reports for a transaction
// is the state machine's: a nil return for a transaction entry requires that
// the response was inspected and carries no conflict sentinel.
func c09g2LeaderVerdict(c *eng.Ctx) {
	f := c.Fn("raft.(*RaftBackend).applyLog")
	if f == nil {
		return
	}
	c.Clause("R2", "C09.9")
	begin, ok := c.P.ConstValue("raft.beginTxOp")
	if !ok {
		c.Unresolved("raft.beginTxOp")
		return
	}
	var nilRets []ssa.Instruction
	for _, r := range eng.SuccessReturns(f, 0) {
		vals, _, _ := eng.ReturnVals(r.(*ssa.Return), 0)
		for _, v := range vals {
			if v == nil || eng.IsNilConst(v) {
				nilRets = append(nilRets, r)
				break
			}
		}
	}
	if !c.Floor(f, "nil returns", len(nilRets), 1) {
		return
	}
	notTx := eng.GD(f, `^φ&&\{(false\|)?command\.Operations\[0\]\.OpType == `+reQuote(begin)+`(\|false)?\}$`, false)
	noSentinel := eng.GD(f, `^\(?len\(.*\.EntrySlice\)\)? == 1$`, false)
	site := "success of a transaction entry needs a response without conflict sentinel"
	if len(notTx.Edges) == 0 || len(noSentinel.Edges) == 0 {
		c.Violation(f, site, f.Pos(), "applyLog no longer tests 'is a transaction' ("+notTx.Desc+") and 'one response entry' ("+noSentinel.Desc+")", nil)
		return
	}
	c.Cut(f, "applyLog reports success", nilRets, eng.Or(notTx, noSentinel), nil)
	// the sentinel arm returns the state machine's error
	c.Clause("R4", "C09.9")
	sent := eng.CondEdgesDeep(f, `^\(?len\(.*\.EntrySlice\)\)? == 1$`, true)
	c.CleanupOnEdges(f, "one response entry for a transaction", sent, "FSMEntry.IsTxError consulted", instrsOf(eng.Calls(f, `raft\.\(\*FSMEntry\)\.IsTxError$`)))
	for _, r := range eng.ReturnsFrom(f, eng.CondEdgesDeep(f, `FSMEntry\)\.IsTxError\(.*\)$`, true), nil, nil) {
		vals, _, _ := eng.ReturnVals(r, 0)
		for _, v := range vals {
			c.Clause("R5", "C09.9")
			c.Prov(f, "error reported for a conflicted transaction", r, v, `^call:raft\.\(\*FSMEntry\)\.AsTxError$`)
		}
	}
}

// c09g2ApplyState (C09.4): the per-command state is built from its own
// arguments: batch-start index, offset in the batch, replicated log index; a
// command starts outside a transaction.
func c09g2ApplyState(c *eng.Ctx) {
	f := c.Fn("raft.(*fsmTxnCommitIndexTracker).applyState")
	if f == nil {
		return
	}
	c.Clause("R5", "C09.4")
	// stores into the fields of the state being built (a composite literal or a fresh allocation filled field by field)
	fieldStores := func(fld string) []*ssa.Store {
		var out []*ssa.Store
		for _, in := range eng.Instrs(f, func(in ssa.Instruction) bool {
			st, ok := in.(*ssa.Store)
			if !ok {
				return false
			}
			fa, ok := st.Addr.(*ssa.FieldAddr)
			if !ok || eng.FieldVar(fa) == nil || eng.FieldVar(fa).Name() != fld || !strings.HasSuffix(structTypeName(fa.X.Type()), "fsmTxnCommitIndexApplicationState") {
				return false
			}
			_, fresh := fa.X.(*ssa.Alloc)
			return fresh
		}) {
			out = append(out, in.(*ssa.Store))
		}
		return out
	}
	n := 0
	for _, fld := range []string{"latestAppliedIndex", "commandOffset", "commandIndex"} {
		for _, st := range fieldStores(fld) {
			n++
			c.Prov(f, "applyState."+fld, st, st.Val, `^param:`+fld+`$`)
		}
	}
	sts := fieldStores("inTx")
	if len(sts) == 0 {
		c.OK(f, "applyState.inTx", f.Pos(), "left at its zero value: a command starts outside a transaction")
	}
	for _, st := range sts {
		if eng.Expr(st.Val) == "false" {
			c.OK(f, "applyState.inTx", st.Pos(), "a command starts outside a transaction")
		} else {
			c.Violation(f, "applyState.inTx", st.Pos(), "a command's state starts with inTx="+eng.Expr(st.Val)+": writes of non-transactional commands would be collected per command and never reach the record", nil)
		}
	}
	c.Floor(f, "fields of the per-command state set by applyState", n, 3)
}

// c09g2RecordOperands (C09.6): the helpers between the apply path and the
// record hand on what they were given: the written key, the transaction's own
// write set, and - on the consulting side - the key / prefix that was read.
func c09g2RecordOperands(c *eng.Ctx) {
	mapUpdates := func(f *ssa.Function, mapPat string) []*ssa.MapUpdate {
		re := regexp.MustCompile(mapPat)
		var out []*ssa.MapUpdate
		for _, in := range eng.Instrs(f, func(in ssa.Instruction) bool { _, ok := in.(*ssa.MapUpdate); return ok }) {
			if mu := in.(*ssa.MapUpdate); re.MatchString(eng.Expr(mu.Map)) {
				out = append(out, mu)
			}
		}
		return out
	}
	c.Clause("R5", "C09.6")
	if f := c.Fn("raft.(*fsmTxnCommitIndexTracker).logTxnWrites"); f != nil {
		ups := mapUpdates(f, `\.indexModifiedMap$`)
		if c.Floor(f, "record of a transaction's writes", len(ups), 1) {
			for _, mu := range ups {
				c.Prov(f, "write set stored for a transaction", mu, mu.Value, `^param:writes$`)
			}
		}
	}
	// a value is (an alias of) the given field of the receiver, also through a captured local
	isField := func(v ssa.Value, fld string) bool {
		fv := c.P.Field(fld)
		os := nfOrigins(v, nil)
		if fv == nil || len(os) == 0 {
			return false
		}
		for _, o := range os {
			ld, ok := o.Val.(*ssa.UnOp)
			if !ok || ld.Op != token.MUL {
				return false
			}
			fa, ok := ld.X.(*ssa.FieldAddr)
			if !ok || eng.FieldVar(fa) != fv {
				return false
			}
		}
		return true
	}
	allUpdates := func(f *ssa.Function) []*ssa.MapUpdate {
		var out []*ssa.MapUpdate
		for _, in := range eng.Instrs(f, func(in ssa.Instruction) bool { _, ok := in.(*ssa.MapUpdate); return ok }) {
			out = append(out, in.(*ssa.MapUpdate))
		}
		return out
	}
	if f := c.Fn("raft.(*fsmTxnCommitIndexTracker).logWrite"); f != nil {
		const rec = "raft.fsmTxnCommitIndexTracker.indexModifiedMap"
		// the per-index set that ends up in the record: t.indexModifiedMap[index] looked up again,
		// or the fresh map that is stored under the index
		stored := map[ssa.Value]bool{}
		for _, mu := range allUpdates(f) {
			if isField(mu.Map, rec) {
				stored[mu.Value] = true
			}
		}
		var ups []*ssa.MapUpdate
		for _, mu := range allUpdates(f) {
			if lk, ok := mu.Map.(*ssa.Lookup); (ok && isField(lk.X, rec)) || stored[mu.Map] {
				ups = append(ups, mu)
			}
		}
		if c.Floor(f, "record of a plain write", len(ups), 1) {
			for _, mu := range ups {
				c.Prov(f, "key recorded for a plain write", mu, mu.Key, `^param:key$`)
			}
		}
	}
	if f := c.Fn("raft.(*fsmTxnCommitIndexApplicationState).logWrite"); f != nil {
		// the two effects, in logWrite itself or in a function literal of it
		type eff struct {
			fn *ssa.Function
			in ssa.Instruction
			k  ssa.Value
		}
		var own, direct []eff
		fs := append([]*ssa.Function{f}, eng.Closures(f)...)
		for _, g := range fs {
			for _, mu := range allUpdates(g) {
				if isField(mu.Map, "raft.fsmTxnCommitIndexApplicationState.modifiedMap") {
					own = append(own, eff{g, mu, mu.Key})
				}
			}
			for _, d := range eng.Calls(g, `fsmTxnCommitIndexTracker\)\.logWrite$`) {
				direct = append(direct, eff{g, d, d.Common().Args[2]})
			}
		}
		if c.Floor(f, "write collected for the transaction", len(own), 1) && c.Floor(f, "write recorded directly", len(direct), 1) {
			for _, pr := range []struct {
				es   []eff
				site string
			}{{own, "key collected for the transaction"}, {direct, "key recorded directly"}} {
				for _, e := range pr.es {
					if bad := c09OwnArgument(f, e.fn, e.k); bad == "" {
						c.OK(e.fn, pr.site, e.in.Pos(), "logWrite's own key argument")
					} else {
						c.Violation(e.fn, pr.site, e.in.Pos(), "the key is "+bad+", not the key logWrite was given", nil)
					}
				}
			}
			// which effect runs is decided by inTx: with the flag fixed either way, the other effect is
			// neither executed in logWrite nor in a function literal the call then made may denote
			c.Clause("R2", "C09.6")
			mayRun := func(inTx bool, es []eff) *eff {
				fe := eng.Feasible(f, map[string]bool{`^s\.inTx$`: inTx})
				for i := range es {
					e := &es[i]
					if e.fn == f {
						if fe.Reach[e.in.Block()] {
							return e
						}
						continue
					}
					for _, ci := range nfAllCalls(f) {
						if !fe.Reach[ci.Block()] {
							continue
						}
						for _, r := range eng.Roots(ci.Common().Value, fe) {
							if g, _ := nfFuncValue(r); g == e.fn {
								return e
							}
						}
					}
				}
				return nil
			}
			tested := len(eng.CondEdges(f, `^s\.inTx$`, true)) > 0
			for _, pr := range []struct {
				inTx bool
				es   []eff
				site string
				msg  string
			}{
				{false, own, "write collected in the transaction's own set", "a write of a plain command can be collected in the per-command set, which is never handed to the record"},
				{true, direct, "write recorded directly under the command's index", "a write of a transaction can be recorded directly: each write replaces the record of the index and only the last survives"},
			} {
				switch e := mayRun(pr.inTx, pr.es); {
				case !tested:
					c.Violation(f, pr.site, f.Pos(), "logWrite no longer branches on the state's inTx flag", nil)
				case e != nil:
					c.Violation(f, pr.site, e.in.Pos(), pr.msg, nil)
				default:
					c.OK(f, pr.site, pr.es[0].in.Pos(), "not executed when inTx is "+map[bool]string{true: "true", false: "false"}[pr.inTx])
				}
			}
			c.Clause("R5", "C09.6")
		}
	}
	if f := c.Fn("raft.(*fsmTxnCommitIndexApplicationState).finishTxn"); f != nil {
		for _, cl := range eng.Calls(f, `fsmTxnCommitIndexTracker\)\.logTxnWrites$`) {
			c.Prov(f, "write set handed to the record", cl, cl.Common().Args[2], `^field:s\.modifiedMap$`)
		}
	}
	// the record decides 'may this write have changed the listing' with the test the listing itself
	// uses: raw prefix match of the written key against the listed prefix (ListPage/listPageInner
	// list "foobar" under "foo"); a prefix derived from it (e.g. with "/" appended) misses such keys
	if f := c.Fn("raft.(*fsmTxnCommitIndexTracker).hasModifiedListEntry"); f != nil {
		hp := eng.Calls(f, `^strings\.HasPrefix$`)
		if c.Floor(f, "prefix test of a recorded write", len(hp), 1) {
			for _, cl := range hp {
				a := cl.Common().Args
				c.Prov(f, "prefix a recorded write is tested against", cl, a[1], `^param:key$`)
			}
		}
	}
	if f := c.Fn("raft.(*fsmTxnCommitIndexApplicationState).doVerifyRead"); f != nil {
		for _, cl := range eng.Calls(f, `canFastWriteBypassRead$|fsmTxnCommitIndexTracker\)\.hasModifiedEntry$`) {
			a := cl.Common().Args
			c.Prov(f, "key the record is asked about", cl, a[len(a)-1], `^field:op\.Key$`)
		}
		for _, cl := range eng.Calls(f, `bbolt\.Bucket\)\.Get$`) {
			c.Prov(f, "key read back from storage", cl, cl.Common().Args[1], `^field:op\.Key$`)
		}
		for _, cl := range eng.Calls(f, `^raft\.doVerifyEntry$`) {
			a := cl.Common().Args
			c.Prov(f, "key verified", cl, a[0], `^field:op\.Key$`)
			c.Prov(f, "value verified", cl, a[1], `^call:.*bbolt\.Bucket\)\.Get$`)
			c.Prov(f, "hash verified against", cl, a[2], `^field:op\.Value$`)
		}
	}
	if f := c.Fn("raft.(*fsmTxnCommitIndexApplicationState).doVerifyList"); f != nil {
		qs := eng.Calls(f, `canFastWriteBypassList$|fsmTxnCommitIndexTracker\)\.hasModifiedListEntry$`)
		if c.Floor(f, "record asked about the listed prefix", len(qs), 1) {
			for _, cl := range qs {
				a := cl.Common().Args
				s := eng.ExprDeep(a[len(a)-1])
				site := "prefix the record is asked about"
				if ok, _ := regexp.MatchString(`^raft\.parseListVerifyParams\(op\.Key\)#0\.Prefix$`, s); ok {
					c.OK(f, site, cl.Pos(), s)
				} else {
					c.Violation(f, site, cl.Pos(), "the record of recent writes is asked about "+s+", not the prefix that was listed (parseListVerifyParams(op.Key).Prefix): writes under the prefix are not found and verification is skipped where the record is complete", nil)
				}
			}
		}
		for _, cl := range eng.Calls(f, `^raft\.doVerifyList$`) {
			a := cl.Common().Args
			c.Prov(f, "listing parameters verified", cl, a[0], `^field:op\.Key$`)
			c.Prov(f, "listing verified", cl, a[1], `^call:raft\.listPageInner#0$`)
			c.Prov(f, "hash verified against", cl, a[2], `^field:op\.Value$`)
		}
	}
}

// c09g2SnapshotComplete (C09.10): a replica initialised from a snapshot must
// hold what a replica that applied the log holds. The snapshot stream is
// produced by FSM.writeTo: every key/value its cursor yields is written to the
// sink (no entry is skipped, whatever its key: in-flight chunk reassembly state
// lives in the same bucket), the bucket it copies is the bucket the apply path
// writes and the receiver fills, and what the apply path keeps in the other
// bucket (cursor, configuration) is what the snapshot metadata re-creates.
func c09g2SnapshotComplete(c *eng.Ctx) {
	wt := c.Fn("raft.(*FSM).writeTo")
	if wt == nil {
		return
	}
	var view *ssa.Function
	for _, v := range eng.Calls(wt, `bbolt\.DB\)\.View$`) {
		a := v.Common().Args
		if mc, ok := a[len(a)-1].(*ssa.MakeClosure); ok {
			view = mc.Fn.(*ssa.Function)
		}
	}
	c.Clause("R3", "C09.10")
	if view == nil {
		c.Undecided(wt, "snapshot scan", wt.Pos(), "writeTo no longer reads the database through a db.View closure literal")
		return
	}
	isKey := func(v ssa.Value) bool {
		ok, _, _ := eng.OriginsMatch(v, `^call:.*bbolt\.Cursor\)\.(First|Next|Seek)#0$`)
		return ok
	}
	writes := instrsOf(eng.Calls(view, `\.WriteMsg$`))
	steps := eng.Calls(view, `bbolt\.Cursor\)\.Next$`)
	if !c.Floor(view, "WriteMsg to a sink", len(writes), 2) || !c.Floor(view, "cursor steps", len(steps), 2) {
		return
	}
	// every entry the cursor yields is written before the cursor moves on
	nLoops := 0
	for _, b := range view.Blocks {
		ifi := eng.IfOf(b)
		if ifi == nil {
			continue
		}
		bo, ok := ifi.Cond.(*ssa.BinOp)
		if !ok || !(bo.Op == token.NEQ || bo.Op == token.EQL) || !(isKey(bo.X) && eng.IsNilConst(bo.Y) || isKey(bo.Y) && eng.IsNilConst(bo.X)) {
			continue
		}
		nLoops++
		succ := 0
		if bo.Op == token.EQL {
			succ = 1
		}
		body := []eng.Edge{{From: b, Succ: succ}}
		site := fmt.Sprintf("every entry of scan %d is written to the sink", nLoops)
		target := func(in ssa.Instruction) bool {
			if in == ssa.Instruction(ifi) {
				return true
			}
			for _, st := range steps {
				if in == ssa.Instruction(st) {
					return true
				}
			}
			return false
		}
		if h := eng.Reach(eng.Query{Fn: view, StartEdges: body, Barriers: writes, Target: target}); h != nil {
			c.Violation(view, site, ifi.Pos(), "the scan can move on to the next entry without having written the current one to the sink: a snapshot that leaves out part of the bucket (for instance in-flight chunks) initialises a replica that never reaches the state of those that applied the log", h.Witness)
		} else {
			c.OK(view, site, ifi.Pos(), "no path from a yielded entry to the next cursor step avoids WriteMsg")
		}
	}
	c.Floor(view, "scans of the bucket (key != nil loops)", nLoops, 2)
	// no other branch looks at the key
	c.Clause("R8", "C09.10")
	for _, b := range view.Blocks {
		ifi := eng.IfOf(b)
		if ifi == nil {
			continue
		}
		dep := false
		var walk func(v ssa.Value, d int)
		walk = func(v ssa.Value, d int) {
			if v == nil || d > 6 || dep {
				return
			}
			if isKey(v) {
				dep = true
				return
			}
			if in, ok := v.(ssa.Instruction); ok {
				var ops []*ssa.Value
				for _, op := range in.Operands(ops) {
					if op != nil && *op != nil {
						walk(*op, d+1)
					}
				}
			}
		}
		walk(ifi.Cond, 0)
		if !dep {
			continue
		}
		if bo, ok := ifi.Cond.(*ssa.BinOp); ok && (bo.Op == token.NEQ || bo.Op == token.EQL) && (eng.IsNilConst(bo.X) || eng.IsNilConst(bo.Y)) {
			c.OK(view, "branch on the scanned key", ifi.Pos(), "end-of-bucket test")
			continue
		}
		c.Violation(view, "branch on the scanned key", ifi.Pos(), "the snapshot scan branches on the key it is looking at ("+eng.ExprDeep(ifi.Cond)+"): a snapshot is a complete copy, no key is special", nil)
	}
	// what is written is the entry itself
	c.Clause("R5", "C09.10")
	for _, w := range eng.Calls(view, `\.WriteMsg$`) {
		a := w.Common().Args
		msg := a[len(a)-1]
		if mi, ok := msg.(*ssa.MakeInterface); ok {
			msg = mi.X
		}
		ks, vs := eng.StructLitField(msg, "Key"), eng.StructLitField(msg, "Value")
		if len(ks) == 0 || len(vs) == 0 {
			c.Undecided(view, "entry written to the sink", w.Pos(), "the message is not a local StorageEntry literal")
			continue
		}
		for _, k := range ks {
			c.Prov(view, "key written to the sink", w, k, `^call:.*bbolt\.Cursor\)\.(First|Next)#0$`)
		}
		for _, v := range vs {
			c.Prov(view, "value written to the sink", w, v, `^call:.*bbolt\.Cursor\)\.(First|Next)#1$`)
		}
	}
	// table agreement: buckets
	c.Clause("R8", "C09.10")
	bucketNames := func(f *ssa.Function, pat string) map[string]bool {
		out := map[string]bool{}
		for _, cl := range eng.Calls(f, pat) {
			a := cl.Common().Args
			out[eng.ExprDeep(a[len(a)-1])] = true
		}
		return out
	}
	copied := map[string]bool{}
	for _, cur := range eng.Calls(view, `bbolt\.Bucket\)\.Cursor$`) {
		if bc, ok := cur.Common().Args[0].(*ssa.Call); ok && strings.HasSuffix(eng.CalleeName(bc.Common()), "bbolt.Tx).Bucket") {
			copied[eng.ExprDeep(bc.Call.Args[len(bc.Call.Args)-1])] = true
		} else {
			c.Undecided(view, "bucket scanned by the snapshot", cur.Pos(), "cursor over "+eng.ExprDeep(cur.Common().Args[0]))
		}
	}
	c.Floor(view, "buckets scanned by the snapshot", len(copied), 1)
	var applyClo *ssa.Function
	if apply := c.Fn("raft.(*FSM).ApplyBatch"); apply != nil {
		for _, u := range eng.Calls(apply, `bbolt\.DB\)\.Update$`) {
			a := u.Common().Args
			if mc, ok := a[len(a)-1].(*ssa.MakeClosure); ok {
				applyClo = mc.Fn.(*ssa.Function)
			}
		}
	}
	meta := c.Fn("raft.writeSnapshotMetaToDB")
	if applyClo == nil || meta == nil {
		c.Undecided(wt, "bucket table", wt.Pos(), "apply closure or writeSnapshotMetaToDB not found")
		return
	}
	metaBuckets, metaKeys := map[string]bool{}, map[string]bool{}
	for _, clo := range eng.Closures(meta) {
		for n := range bucketNames(clo, `bbolt\.Tx\)\.(Bucket|CreateBucketIfNotExists)$`) {
			metaBuckets[n] = true
		}
		for _, p := range eng.Calls(clo, `bbolt\.Bucket\)\.Put$`) {
			metaKeys[eng.ExprDeep(p.Common().Args[1])] = true
		}
	}
	applied := bucketNames(applyClo, `bbolt\.Tx\)\.(Bucket|CreateBucketIfNotExists)$`)
	c.Floor(applyClo, "buckets opened by the apply path", len(applied), 2)
	for n := range applied {
		site := "bucket{" + n + "} written by the apply path reaches a replica initialised from a snapshot"
		switch {
		case copied[n]:
			c.OK(applyClo, site, applyClo.Pos(), "copied entry by entry by writeTo")
		case metaBuckets[n]:
			// only keys the snapshot metadata re-creates may be written there by the apply path
			bad := ""
			for _, p := range eng.Calls(applyClo, `bbolt\.Bucket\)\.Put$`) {
				rc, ok := p.Common().Args[0].(*ssa.Call)
				if ok && eng.ExprDeep(rc.Call.Args[len(rc.Call.Args)-1]) == n && !metaKeys[eng.ExprDeep(p.Common().Args[1])] {
					bad = eng.ExprDeep(p.Common().Args[1])
				}
			}
			if bad != "" {
				c.Violation(applyClo, site, applyClo.Pos(), "the apply path writes key "+bad+" into a bucket the snapshot does not copy, and writeSnapshotMetaToDB does not re-create that key", nil)
			} else {
				c.OK(applyClo, site, applyClo.Pos(), "not copied; its keys written by the apply path are re-created from the snapshot metadata (writeSnapshotMetaToDB)")
			}
		default:
			c.Violation(applyClo, site, applyClo.Pos(), "the apply path writes a bucket that is neither copied by writeTo nor re-created from the snapshot metadata", nil)
		}
	}
	// the receiver fills the bucket that was copied
	if rcv := c.Fn("raft.(*BoltSnapshotSink).writeBoltDBFile"); rcv != nil {
		filled := map[string]bool{}
		var walkClo func(f *ssa.Function)
		walkClo = func(f *ssa.Function) {
			if len(eng.Calls(f, `bbolt\.Bucket\)\.Put$`)) > 0 {
				for n := range bucketNames(f, `bbolt\.Tx\)\.(Bucket|CreateBucketIfNotExists)$`) {
					filled[n] = true
				}
			}
			for _, a := range f.AnonFuncs {
				walkClo(a)
			}
		}
		walkClo(rcv)
		site := "bucket filled from a received snapshot = bucket copied by writeTo"
		same := len(filled) == len(copied) && len(filled) > 0
		for n := range filled {
			if !copied[n] {
				same = false
			}
		}
		if same {
			c.OK(rcv, site, rcv.Pos(), "same bucket on both sides")
		} else {
			c.Violation(rcv, site, rcv.Pos(), "writeTo copies a different set of buckets than the receiver fills", nil)
		}
	}
}

// c09g2Decodes (C09.11): a replica installed from a snapshot (and one reading
// its own bolt file back) holds byte-identical state only if every record is
// decoded on its own: a protobuf decode in package raft either resets the
// message (plain proto.Unmarshal; UnmarshalOptions whose Merge field is not
// set), or - where it merges into the message it is given (Merge set, or not
// decidable; proto.Merge) - the message is freshly allocated or Reset for each
// record. The snapshot sink decodes the whole stream into ONE StorageEntry, so
// a merging decode lets a record with an empty value inherit the previous
// record's value. Both ends of the snapshot framing are held to floors.
func c09g2Decodes(c *eng.Ctx) {
	const decPat = `protobuf/proto\.Unmarshal$|protobuf/proto\.UnmarshalOptions\)\.Unmarshal(State)?$|protobuf/proto\.Merge$`
	type site struct {
		fn *ssa.Function
		cl ssa.CallInstruction
	}
	var sites []site
	for _, f := range c.P.Funcs {
		if !eng.InPkg(f, "raft") {
			continue
		}
		for _, cl := range eng.Calls(f, decPat) {
			sites = append(sites, site{f, cl})
		}
	}
	sort.Slice(sites, func(i, j int) bool { return sites[i].cl.Pos() < sites[j].cl.Pos() })
	// may the decode merge into what the message already holds?
	merges := func(cl ssa.CallInstruction) (bool, string) {
		n := eng.CalleeName(cl.Common())
		switch {
		case strings.HasSuffix(n, "proto.Unmarshal"):
			return false, "proto.Unmarshal resets the message before decoding"
		case strings.HasSuffix(n, "proto.Merge"):
			return true, "proto.Merge merges into the destination"
		}
		// UnmarshalOptions{...}.Unmarshal: the options value is the receiver; look at the Merge field of a locally built literal
		opts := cl.Common().Args[0]
		ld, ok := opts.(*ssa.UnOp)
		var al *ssa.Alloc
		if ok && ld.Op == token.MUL {
			al, _ = ld.X.(*ssa.Alloc)
		}
		if al == nil || al.Referrers() == nil {
			return true, "the decode options are not a literal built here (" + eng.ExprDeep(opts) + "): whether they merge is not decidable"
		}
		for _, r := range *al.Referrers() {
			fa, isFa := r.(*ssa.FieldAddr)
			if !isFa || eng.FieldVar(fa) == nil || eng.FieldVar(fa).Name() != "Merge" || fa.Referrers() == nil {
				continue
			}
			for _, fr := range *fa.Referrers() {
				if st, isSt := fr.(*ssa.Store); isSt && st.Addr == ssa.Value(fa) && eng.Expr(st.Val) != "false" {
					return true, "UnmarshalOptions.Merge = " + eng.Expr(st.Val)
				}
			}
		}
		return false, "UnmarshalOptions without Merge resets the message before decoding"
	}
	// the message operand of a decode
	msgOf := func(cl ssa.CallInstruction) ssa.Value {
		a := cl.Common().Args
		if strings.HasSuffix(eng.CalleeName(cl.Common()), "proto.Merge") {
			return a[0]
		}
		return a[len(a)-1]
	}
	// v, used as the message of call `at` in fn, is a fresh message for every execution of `at`:
	// every origin is an allocation made in fn itself, and `at` cannot be reached again from `at`
	// without passing that allocation or a Reset of the message
	freshAt := func(fn *ssa.Function, at ssa.Instruction, v ssa.Value) (bool, string) {
		var barriers []ssa.Instruction
		for _, o := range eng.Origins(v) {
			al, isAlloc := o.Val.(*ssa.Alloc)
			if !isAlloc || al.Parent() != fn {
				return false, o.Kind + ":" + o.Desc
			}
			barriers = append(barriers, al)
		}
		if len(barriers) == 0 {
			return false, "no origin"
		}
		barriers = append(barriers, instrsOf(eng.Calls(fn, `protobuf/proto\.Reset$|\)\.Reset$`))...)
		again := func(in ssa.Instruction) bool { return in == at }
		if h := eng.Reach(eng.Query{Fn: fn, StartAfter: at, Barriers: barriers, Target: again}); h != nil {
			return false, "the same message is decoded into again on the next iteration"
		}
		return true, ""
	}
	c.Clause("R12", "C09.11")
	nth := map[*ssa.Function]int{}
	for _, s := range sites {
		nth[s.fn]++
		key := fmt.Sprintf("record decoded on its own{decode %d of %s}", nth[s.fn], eng.FuncName(s.fn))
		mg, why := merges(s.cl)
		if !mg {
			c.OK(s.fn, key, s.cl.Pos(), why)
			continue
		}
		msg := msgOf(s.cl)
		// the message is the decoder's own, or handed in by its callers
		type use struct {
			fn *ssa.Function
			at ssa.Instruction
			v  ssa.Value
		}
		var uses []use
		if p, isParam := c09g2Unconv(msg).(*ssa.Parameter); isParam {
			pi := -1
			for i, q := range s.fn.Params {
				if q == p {
					pi = i
				}
			}
			recv := s.fn.Signature.Recv()
			for _, g := range c.P.Funcs {
				for _, ci := range nfAllCalls(g) {
					cc := ci.Common()
					switch {
					case cc.IsInvoke():
						if recv == nil || cc.Method.Name() != s.fn.Name() || pi < 1 {
							continue
						}
						it, isI := cc.Value.Type().Underlying().(*types.Interface)
						if !isI || !types.Implements(recv.Type(), it) || pi-1 >= len(cc.Args) {
							continue
						}
						uses = append(uses, use{g, ci, cc.Args[pi-1]})
					default:
						if nc := nfCallOf(ci); nc.Name == eng.FuncName(s.fn) && pi < len(nc.Args) {
							uses = append(uses, use{g, ci, nc.Args[pi]})
						}
					}
				}
			}
			if len(uses) == 0 {
				c.Undecided(s.fn, key, s.cl.Pos(), why+"; the message is a parameter and no caller was found: whether it is fresh per record cannot be evaluated")
				continue
			}
		} else {
			uses = []use{{s.fn, s.cl, msg}}
		}
		bad := ""
		for _, u := range uses {
			if ok, what := freshAt(u.fn, u.at, c09g2Unconv(u.v)); !ok {
				bad = eng.FuncName(u.fn) + " passes " + eng.ExprDeep(u.v) + " (" + what + ")"
			}
		}
		if bad != "" {
			c.Violation(s.fn, key, s.cl.Pos(), why+", and the message is not fresh for every record: "+bad+". Fields a record leaves empty keep the previous record's content, so the decoded state differs from what was written", nil)
		} else {
			c.OK(s.fn, key, s.cl.Pos(), why+"; every caller hands in a freshly allocated / Reset message")
		}
	}
	c.Floor(nil, "protobuf decodes in package raft", len(sites), 8)

	// the two ends of the snapshot framing
	c.Clause("R8", "C09.11")
	msgType := func(v ssa.Value) string {
		if mi, ok := v.(*ssa.MakeInterface); ok {
			v = mi.X
		}
		return v.Type().String()
	}
	var wTypes, rTypes []string
	nW, nR := 0, 0
	if wt := c.Fn("raft.(*FSM).writeTo"); wt != nil {
		fs := append([]*ssa.Function{wt}, eng.Closures(wt)...)
		for _, f := range fs {
			nW += len(eng.Calls(f, `^raft\.NewDelimitedWriter$`))
			for _, w := range eng.Calls(f, `\.WriteMsg$`) {
				a := w.Common().Args
				wTypes = append(wTypes, msgType(a[len(a)-1]))
			}
		}
		c.Floor(wt, "delimited writer of the snapshot stream", nW, 1)
	}
	if rd := c.Fn("raft.(*BoltSnapshotSink).writeBoltDBFile"); rd != nil {
		var walk func(f *ssa.Function)
		walk = func(f *ssa.Function) {
			nR += len(eng.Calls(f, `^raft\.NewDelimitedReader$`))
			for _, r := range eng.Calls(f, `\.ReadMsg$`) {
				a := r.Common().Args
				rTypes = append(rTypes, msgType(a[len(a)-1]))
			}
			for _, a := range f.AnonFuncs {
				walk(a)
			}
		}
		walk(rd)
		c.Floor(rd, "delimited reader of the snapshot stream", nR, 1)
		site := "snapshot writer and reader agree on the record type"
		wT, rT := uniqStr(wTypes), uniqStr(rTypes)
		if len(wT) == 1 && len(rT) == 1 && wT[0] == rT[0] {
			c.OK(rd, site, rd.Pos(), wT[0])
		} else {
			c.Violation(rd, site, rd.Pos(), "FSM.writeTo writes "+strings.Join(wT, ", ")+" but the snapshot sink reads "+strings.Join(rT, ", "), nil)
		}
	}
	// the frame: length prefix + one marshalled message, read back as length prefix + exactly that many bytes + one decode
	for _, pr := range []struct {
		fn   string
		must []string
	}{
		{"raft.(*varintWriter).WriteMsg", []string{`^encoding/binary\.PutUvarint$`, `protobuf/proto\.Marshal`}},
		{"raft.(*varintReader).ReadMsg", []string{`^encoding/binary\.ReadUvarint$`, `^io\.ReadFull$`, decPat}},
	} {
		f := c.Fn(pr.fn)
		if f == nil {
			continue
		}
		missing := ""
		for _, m := range pr.must {
			if len(eng.Calls(f, m)) == 0 {
				missing = m
			}
		}
		if missing != "" {
			c.Violation(f, "length-delimited frame", f.Pos(), "no call matching "+missing+": the two ends of the snapshot framing no longer agree", nil)
		} else {
			c.OK(f, "length-delimited frame", f.Pos(), "uvarint length + one protobuf message")
		}
	}
}
