package props

import (
	"go/token"
	"regexp"
	"sort"
	"strings"

	"golang.org/x/tools/go/ssa"

	"obsa/eng"
)

// Second-tier mechanisms of C07 (clauses C07.9 .. C07.15): the role/request
// merge of lifetime bounds, the role upgrade path, entity aliases, the role's
// use limit, the sudo oracle, the login token literal and renewal.

func runC07Gaps2(c *eng.Ctx) {
	c07gMerge(c)
	c07gRoleUpgrade(c)
	c07gEntityAlias(c)
	c07gNumUses(c)
	c07gSudo(c)
	c07gLoginLiteral(c)
	c07gRenew(c)
	c07gCopyBack(c)
}

// ---------------------------------------------------------------------------
// C07.9 role bounds cap the request's bounds

func c07gMerge(c *eng.Ctx) {
	f := c.Fn("vault.(*TokenStore).parseAndMergeTTLPeriod")
	if f == nil {
		return
	}
	batch, ok := c.P.ConstValue("logical.TokenTypeBatch")
	if !ok {
		c.Unresolved("logical.TokenTypeBatch")
		return
	}
	succ := eng.SuccessReturns(f, 3)
	c.Floor(f, "success returns of the merged bounds", len(succ), 1)
	for _, b := range []struct{ local, field string }{
		{"explicitMaxTTLToUse", "TokenExplicitMaxTTL"},
		{"periodToUse", "TokenPeriod"},
	} {
		roleFld := `role\.TokenParams\.` + b.field
		c.Clause("R2", "C07.9")
		assign := eng.PhiEdges(f, b.local, func(v ssa.Value) bool { return strings.HasSuffix(eng.Expr(v), "."+b.field) })
		if c.Floor(f, b.local+" = role."+b.field+" assignments", len(assign), 2) {
			c.CutEdges(f, b.local+" = role."+b.field, assign, eng.Or(
				eng.G(f, `^φ`+b.local+`\{.*\} == 0$`, true),
				eng.G(f, `^`+roleFld+` < φ`+b.local+`\{.*\}$`, true)))
		}
		// the role's bound is looked at whenever there is a role and the token is not a batch token
		if len(succ) > 0 {
			c.Cut(f, "return of the merged bounds ("+b.local+")", succ, eng.Or(
				eng.G(f, `^role == nil$`, true),
				eng.G(f, `^te\.Type == `+batch+`$`, true),
				eng.G(f, `^`+roleFld+` == 0$`, true),
				eng.G(f, `^`+roleFld+` == 0$`, false)), nil)
		}
	}
}

// ---------------------------------------------------------------------------
// C07.10 roles written by older versions: legacy fields are carried over on load

func c07gRoleUpgrade(c *eng.Ctx) {
	f := c.Fn("vault.(*TokenStore).tokenStoreRole")
	if f == nil {
		return
	}
	var rets []ssa.Instruction
	for _, r := range eng.SuccessReturns(f, 1) {
		if !eng.IsNilConst(r.(*ssa.Return).Results[0]) {
			rets = append(rets, r)
		}
	}
	if !c.Floor(f, "returns of a loaded role", len(rets), 1) {
		return
	}
	c.Clause("R3", "C07.10")
	for _, p := range []struct{ legacy, tok, legacySet, tokUnset string }{
		{"Period", "TokenPeriod", `^0 < &result\.Period$`, `^&result\.TokenParams\.TokenPeriod == 0$`},
		{"ExplicitMaxTTL", "TokenExplicitMaxTTL", `^0 < &result\.ExplicitMaxTTL$`, `^&result\.TokenParams\.TokenExplicitMaxTTL == 0$`},
		{"BoundCIDRs", "TokenBoundCIDRs", `^0 < len\(&result\.BoundCIDRs\)$`, `^len\(&result\.TokenParams\.TokenBoundCIDRs\) == 0$`},
	} {
		var up []ssa.Instruction
		for _, st := range eng.Stores(f, `^&result\.TokenParams\.`+p.tok+`$`) {
			if eng.Expr(st.Val) == "&result."+p.legacy {
				up = append(up, st)
			}
		}
		site := "legacy " + p.legacy + " carried over to " + p.tok
		blocked := append(eng.CondEdges(f, p.legacySet, false), eng.CondEdges(f, p.tokUnset, false)...)
		if h := eng.Reach(eng.Query{Fn: f, Blocked: blocked, Barriers: up, Target: eng.IsTarget(rets)}); h != nil {
			fact := "a role whose " + p.legacy + " is set and whose " + p.tok + " is not can be returned without the upgrade assignment " + p.tok + " = " + p.legacy
			if len(up) == 0 {
				fact = "no assignment " + p.tok + " = " + p.legacy + " exists; " + fact
			}
			c.Violation(f, site, h.Instr.Pos(), fact, h.Witness)
		} else {
			pos := f.Pos()
			if len(up) > 0 {
				pos = up[0].Pos()
			}
			c.OK(f, site, pos, "every return of a loaded role passed the upgrade assignment or saw the legacy field unset / the new field set")
		}
	}
}

// ---------------------------------------------------------------------------
// C07.11 entity aliases

func c07gEntityAlias(c *eng.Ctx) {
	if f := c.Fn("vault.(*TokenStore).resolveEntityAlias"); f != nil {
		var bind []ssa.Instruction
		for _, r := range eng.Returns(f) {
			if len(r.Results) == 3 {
				if _, isConst := r.Results[1].(*ssa.Const); !isConst {
					bind = append(bind, r)
				}
			}
		}
		if c.Floor(f, "returns of an entity ID", len(bind), 1) {
			c.Clause("R2", "C07.11")
			c.Cut(f, "entity ID handed to token creation", bind, eng.G(f, `^role == nil$`, false), nil)
			member := append(c03gCallCondEdges(f, `^slices\.Contains\[`, 0, `^role\.AllowedEntityAliases$`, true),
				c03gCallCondEdges(f, `strutil\.StrListContainsGlob$`, 0, `^role\.AllowedEntityAliases$`, true)...)
			c.Cut(f, "entity ID handed to token creation", bind, eng.Guard{Desc: "requested alias is in (or matches a glob of) role.AllowedEntityAliases", Edges: member}, nil)
			c.Cut(f, "entity ID handed to token creation", bind, eng.GCallOK(f, `identity\.\(\*IdentityStore\)\.CreateOrFetchEntity$`), nil)
			c.Cut(f, "entity ID handed to token creation", bind, eng.G(f, `CreateOrFetchEntity\(\)#0\.Disabled$`, false), nil)
			c.Clause("R5", "C07.11")
			for _, r := range bind {
				c.Prov(f, "entity ID returned", r, r.(*ssa.Return).Results[1], `^field:identity\.\(\*IdentityStore\)\.CreateOrFetchEntity\(\)#0\.ID$`)
			}
			for _, cl := range eng.Calls(f, `^slices\.Contains\[|strutil\.StrListContainsGlob$`) {
				a := cl.Common().Args
				if eng.Expr(a[0]) == "role.AllowedEntityAliases" {
					c.Prov(f, "alias tested against the role's list", cl, a[1], `^call:strings\.ToLower$`)
				}
			}
			for _, cl := range eng.Calls(f, `identity\.\(\*IdentityStore\)\.CreateOrFetchEntity$`) {
				a := cl.Common().Args
				for _, v := range eng.StructLitField(a[len(a)-1], "Name") {
					c.Prov(f, "alias whose entity is fetched", cl, v, `^call:framework\.\(\*FieldData\)\.Get$`)
				}
			}
		}
	}
	if f := c.Fn("vault.(*TokenStore).handleCreateCommon"); f != nil {
		c.Clause("R5", "C07.11")
		var inherit []ssa.Instruction
		n := 0
		for _, st := range eng.Stores(f, `^&te\.EntityID$`) {
			n++
			c.Prov(f, "te.EntityID", st, st.Val, `^call:vault\.\(\*TokenStore\)\.resolveEntityAlias#1$`, `^field:vault\.\(\*TokenStore\)\.Lookup\(\)#0\.EntityID$`)
			if ok, _, _ := eng.OriginsMatch(st.Val, `^field:vault\.\(\*TokenStore\)\.Lookup\(\)#0\.EntityID$`); ok {
				inherit = append(inherit, st)
			}
		}
		c.Floor(f, "te.EntityID stores", n, 2)
		if len(inherit) > 0 {
			c.Clause("R2", "C07.11")
			c.Cut(f, "te.EntityID = parent.EntityID", inherit, eng.G(f, `^&te\.Parent == ""$`, false), nil)
		}
	}
}

// ---------------------------------------------------------------------------
// C07.12 the role's use limit caps the request's

func c07gNumUses(c *eng.Ctx) {
	f := c.Fn("vault.(*TokenStore).handleCreateCommon")
	if f == nil {
		return
	}
	c.Clause("R2", "C07.12")
	var st []ssa.Instruction
	for _, s := range eng.Stores(f, `^&te\.NumUses$`) {
		if eng.Expr(s.Val) == "role.TokenParams.TokenNumUses" {
			st = append(st, s)
		} else {
			c.Violation(f, "te.NumUses store", s.Pos(), "te.NumUses is overwritten with "+eng.ExprDeep(s.Val)+": only the role's token_num_uses may replace the requested count", nil)
		}
	}
	if c.Floor(f, "te.NumUses = role.TokenNumUses", len(st), 1) {
		c.Cut(f, "te.NumUses = role.TokenNumUses", st, eng.G(f, `^role\.TokenParams\.TokenNumUses == 0$`, false), nil)
		c.Cut(f, "te.NumUses = role.TokenNumUses", st, eng.Or(
			eng.G(f, `^&te\.NumUses == 0$`, true),
			eng.G(f, `^role\.TokenParams\.TokenNumUses < &te\.NumUses$`, true)), nil)
	}
	// with a role that limits uses, creation is reached only after the role's limit was compared
	create := gcIns(f, `vault\.\(\*TokenStore\)\.create$`)
	if len(create) > 0 {
		c.Cut(f, "ts.create (role present)", create, eng.Or(
			eng.G(f, `^role\.TokenParams\.TokenNumUses == 0$`, true),
			eng.G(f, `^role\.TokenParams\.TokenNumUses == 0$`, false)), map[string]bool{`^role == nil$`: false})
	}
}

// ---------------------------------------------------------------------------
// C07.13 the sudo oracle

func c07gSudo(c *eng.Ctx) {
	f := c.Fn("vault.(extendedSystemViewImpl).SudoPrivilege")
	if f == nil {
		return
	}
	te := `vault\.\(\*TokenStore\)\.Lookup\(\)#0`
	c.Clause("R5", "C07.13")
	nTrue := 0
	for _, r := range eng.Returns(f) {
		if len(r.Results) != 1 {
			continue
		}
		switch s := eng.Expr(r.Results[0]); {
		case s == "false":
		case s == "policy.(*ACL).AllowOperation().RootPrivs":
			nTrue++
			c.OK(f, "sudo answer", r.Pos(), s)
		default:
			c.Violation(f, "sudo answer", r.Pos(), "SudoPrivilege may answer "+eng.ExprDeep(r.Results[0])+": only the RootPrivs of the ACL decision (or false) may be returned", nil)
		}
	}
	c.Floor(f, "returns of AllowOperation().RootPrivs", nTrue, 1)
	for _, l := range eng.Calls(f, `vault\.\(\*TokenStore\)\.Lookup$`) {
		c.Prov(f, "token whose sudo is asked", l, l.Common().Args[2], `^param:token$`)
	}
	for _, fe := range eng.Calls(f, `vault\.\(\*Core\)\.fetchEntityAndDerivedPolicies$`) {
		a := fe.Common().Args
		c.Prov(f, "entity whose identity policies count", fe, a[3], `^field:`+te+`\.EntityID$`)
		c.Prov(f, "no_identity_policies honoured", fe, a[4], `^field:`+te+`\.NoIdentityPolicies$`)
	}
	acls := eng.Calls(f, `policy\.\(\*Store\)\.ACL$`)
	c.Floor(f, "policyStore.ACL call (sudo)", len(acls), 1)
	for _, ao := range eng.Calls(f, `policy\.\(\*ACL\)\.AllowOperation$`) {
		a := ao.Common().Args
		c.Prov(f, "ACL asked for sudo", ao, a[0], `^call:policy\.\(\*Store\)\.ACL#0$`)
		for _, v := range eng.StructLitField(a[2], "Path") {
			c.Prov(f, "path asked for sudo", ao, v, `^param:path$`)
		}
	}
	// the policy names the ACL is built from: the token's own and its identity policies
	for _, in := range eng.Instrs(f, func(in ssa.Instruction) bool { _, ok := in.(*ssa.MapUpdate); return ok }) {
		mu := in.(*ssa.MapUpdate)
		if !strings.HasPrefix(eng.Expr(mu.Map), "makemap") {
			continue
		}
		ap, ok := mu.Value.(*ssa.Call)
		if !ok || eng.CalleeName(&ap.Call) != "append" {
			c.Violation(f, "policy names of the sudo ACL", in.Pos(), "policy names are set from "+eng.ExprDeep(mu.Value), nil)
			continue
		}
		c.Prov(f, "policy names of the sudo ACL", in, ap.Call.Args[1], `^field:`+te+`\.Policies$`, `^other:next\(range\(vault\.\(\*Core\)\.fetchEntityAndDerivedPolicies\(\)#1\)\)#2$`)
	}
}

// ---------------------------------------------------------------------------
// C07.14 the login token literal

func c07gLoginLiteral(c *eng.Ctx) {
	f := c.Fn("vault.(*Core).RegisterAuth")
	if f == nil {
		return
	}
	c.Clause("R5", "C07.14")
	for _, cr := range eng.Calls(f, `vault\.\(\*TokenStore\)\.create$`) {
		te := cr.Common().Args[2]
		for _, fld := range []struct{ name, origin string }{
			{"TTL", `^param:tokenTTL$`},
			{"Policies", `^field:auth\.TokenPolicies$`},
			{"Period", `^field:auth\.Period$`},
			{"NumUses", `^field:auth\.NumUses$`},
			{"NamespaceID", `^field:namespace\.FromContext\(\)#0\.ID$`},
		} {
			vals := eng.StructLitField(te, fld.name)
			if len(vals) == 0 {
				c.Violation(f, "prov{login token "+fld.name+"}", cr.Pos(), "the login token entry leaves "+fld.name+" at its zero value", nil)
			}
			for _, v := range vals {
				c.Prov(f, "login token "+fld.name, cr, v, fld.origin)
			}
		}
		for _, p := range eng.StructLitField(te, "Parent") {
			c.Violation(f, "login token Parent", cr.Pos(), "a login token is given a parent: "+eng.ExprDeep(p), nil)
		}
	}
}

// ---------------------------------------------------------------------------
// C07.15 renewal re-imposes the token's (or its role's) bounds

func c07gRenew(c *eng.Ctx) {
	f := c.Fn("vault.(*TokenStore).authRenew")
	if f == nil {
		return
	}
	te := `vault\.\(\*TokenStore\)\.Lookup\(\)#0`
	role := `vault\.\(\*TokenStore\)\.tokenStoreRole\(\)#0\.TokenParams`
	var rets []ssa.Instruction
	for _, r := range eng.SuccessReturns(f, 1) {
		if !eng.IsNilConst(r.(*ssa.Return).Results[0]) {
			rets = append(rets, r)
		}
	}
	if !c.Floor(f, "renewal responses", len(rets), 2) {
		return
	}
	for _, b := range []struct{ fld, roleFld string }{{"ExplicitMaxTTL", "TokenExplicitMaxTTL"}, {"Period", "TokenPeriod"}} {
		st := eng.Stores(f, `^req\.Auth\.`+b.fld+`$`)
		c.Clause("R5", "C07.15")
		var own, byRole []ssa.Instruction
		for _, s := range st {
			c.Prov(f, "renewed "+b.fld, s, s.Val, `^field:`+te+`\.`+b.fld+`$`, `^field:`+role+`\.`+b.roleFld+`$`)
			if ok, _, _ := eng.OriginsMatch(s.Val, `^field:`+te+`\.`+b.fld+`$`); ok {
				own = append(own, s)
			} else {
				byRole = append(byRole, s)
			}
		}
		c.Clause("R3", "C07.15")
		c.Before(f, "req.Auth."+b.fld+" re-imposed", instrsOf(st), "renewal response", rets)
		c.Clause("R2", "C07.15")
		if len(byRole) > 0 {
			// the role's value replaces the token's own only for tokens made through a role
			c.Cut(f, "req.Auth."+b.fld+" = role's", byRole, eng.G(f, `^`+te+`\.Role == ""$`, false), nil)
		}
		// a role token stays bound by its own explicit max TTL as well: on the
		// role arm every response is preceded by a read of the stored value, and
		// the stored value replaces the role's only when the role's is unset or larger
		if b.fld == "ExplicitMaxTTL" {
			roleArm := eng.CondEdges(f, `^`+te+`\.Role == ""$`, false)
			var reads []ssa.Instruction
			for _, in := range eng.Instrs(f, func(in ssa.Instruction) bool {
				u, ok := in.(*ssa.UnOp)
				if !ok {
					return false
				}
				m, _ := regexpMatch(`^`+te+`\.ExplicitMaxTTL$`, eng.Expr(u))
				_, isFA := u.X.(*ssa.FieldAddr)
				return m && isFA
			}) {
				reads = append(reads, in)
			}
			site := "role token renewed under its own ExplicitMaxTTL too"
			if len(roleArm) == 0 {
				c.Undecided(f, site, f.Pos(), "no branch on the token's role name: re-read")
			} else if h := eng.Reach(eng.Query{Fn: f, StartEdges: roleArm, Barriers: reads, Target: eng.IsTarget(rets)}); h != nil {
				c.Violation(f, site, h.Instr.Pos(), "a token created through a role is renewed without consulting its own stored explicit_max_ttl: a smaller explicit_max_ttl chosen at creation is replaced by the role's (or none)", h.Witness)
			} else {
				c.OK(f, site, roleArm[0].From.Instrs[len(roleArm[0].From.Instrs)-1].Pos(), "on the role arm every response is preceded by a read of te.ExplicitMaxTTL")
			}
			var ownOnRoleArm []ssa.Instruction
			for _, s := range own {
				if len(roleArm) > 0 && eng.Reach(eng.Query{Fn: f, StartEdges: roleArm, Target: func(in ssa.Instruction) bool { return in == s }}) != nil {
					ownOnRoleArm = append(ownOnRoleArm, s)
				}
			}
			if len(ownOnRoleArm) > 0 {
				c.Cut(f, "req.Auth.ExplicitMaxTTL = te.ExplicitMaxTTL (role token)", ownOnRoleArm, eng.Or(
					eng.G(f, `^req\.Auth\.ExplicitMaxTTL == 0$`, true),
					eng.G(f, `^`+te+`\.ExplicitMaxTTL < req\.Auth\.ExplicitMaxTTL$`, true)),
					map[string]bool{`^` + te + `\.Role == ""$`: false})
			}
		}
		// a role-less token is renewed under its own bound
		if h := eng.Reach(eng.Query{Fn: f, StartEdges: eng.CondEdges(f, `^`+te+`\.Role == ""$`, true), Barriers: own, Target: eng.IsTarget(rets)}); h != nil {
			c.Violation(f, "role-less token renewed under its own "+b.fld, h.Instr.Pos(), "a token created without a role can be renewed without re-imposing its stored "+b.fld, h.Witness)
		} else {
			c.OK(f, "role-less token renewed under its own "+b.fld, f.Pos(), "on the Role == \"\" edge every response passes req.Auth."+b.fld+" = te."+b.fld)
		}
	}
}

// ---------------------------------------------------------------------------
// helpers shared with c07.go: forwarding closures and an extracted root guard

// c07gFwd: v is a call satisfying pred, or a call of a closure of the same
// function all of whose returns are such calls (hasSudoOn := func(p string)
// bool { return view.SudoPrivilege(ctx, p, tok) }).
func c07gFwd(v ssa.Value, pred func(*ssa.Call) bool, depth int) bool {
	return gcFwdVal(v, func(x ssa.Value) bool { cl, ok := x.(*ssa.Call); return ok && pred(cl) }, depth)
}

// c07gFwdCondEdges: the edges of the branches of f whose condition is (the
// negation of) such a call, on which the call's result is want.
func c07gFwdCondEdges(f *ssa.Function, pred func(*ssa.Call) bool, want bool) []eng.Edge {
	return gcFwdCondEdges(f, func(x ssa.Value) bool { cl, ok := x.(*ssa.Call); return ok && pred(cl) }, want)
}

func c07gIsSudoCall(cl *ssa.Call) bool {
	return strings.HasSuffix(nfCallOf(cl).Name, "extendedSystemView>.SudoPrivilege") || strings.HasSuffix(nfCallOf(cl).Name, "extendedSystemView).SudoPrivilege")
}

// c07gIsNonAssignableTest: slices.Contains(policy.NonAssignablePolicies, x).
func c07gIsNonAssignableTest(cl *ssa.Call) bool {
	if !strings.HasPrefix(eng.CalleeName(&cl.Call), "slices.Contains[") || len(cl.Call.Args) != 2 {
		return false
	}
	ok, _, _ := eng.OriginsMatch(cl.Call.Args[0], `^global:policy\.NonAssignablePolicies$`)
	return ok
}

// c07gIsTokenPolicies: v is append(X, …) where X is auth.TokenPolicies or the
// very value stored into a TokenPolicies field in f.
func c07gIsTokenPolicies(f *ssa.Function, v ssa.Value) bool {
	ap, ok := v.(*ssa.Call)
	if !ok || eng.CalleeName(&ap.Call) != "append" || len(ap.Call.Args) == 0 {
		return false
	}
	x := ap.Call.Args[0]
	if strings.HasSuffix(eng.Expr(x), ".TokenPolicies") {
		return true
	}
	for _, st := range eng.Stores(f, `\.TokenPolicies$`) {
		if st.Val == x {
			return true
		}
	}
	return false
}

// c07gRootGuardInHelper: the root guard of handleCreateCommon extracted into a
// function of the same package that is handed &te and the parent entry. The
// helper must refuse (some non-nil result) unless te has no root policy, or the
// parent has it and the type is not batch; ts.create must lie behind the
// all-nil results of the call, and te.Policies must not be stored after it.
func c07gRootGuardInHelper(c *eng.Ctx, f *ssa.Function, create, polSt []ssa.Instruction, batch string) bool {
	var teAlloc ssa.Value
	for _, st := range polSt {
		if fa, ok := st.(*ssa.Store).Addr.(*ssa.FieldAddr); ok {
			teAlloc = fa.X
		}
	}
	if teAlloc == nil {
		return false
	}
	found := false
	for _, cs := range eng.Calls(f, `^vault\.`) {
		h := cs.Common().StaticCallee()
		if h == nil || h.Pkg != f.Pkg || len(h.Blocks) == 0 {
			continue
		}
		iT, iP := -1, -1
		for i, a := range cs.Common().Args {
			if a == teAlloc {
				iT = i
			} else if ok, _, _ := eng.OriginsMatch(a, `^call:vault\.\(\*TokenStore\)\.Lookup#0$`); ok {
				iP = i
			}
		}
		if iT < 0 || iP < 0 || iT >= len(h.Params) || iP >= len(h.Params) {
			continue
		}
		tn, pn := regexp.QuoteMeta(eng.VarName(h.Params[iT])), regexp.QuoteMeta(eng.VarName(h.Params[iP]))
		teRoot := eng.GD(h, `^slices\.Contains\[.*\]\(`+tn+`\.Policies, "root"\)$`, false)
		if len(teRoot.Edges) == 0 {
			continue
		}
		found = true
		var pass []ssa.Instruction
		for _, r := range eng.Returns(h) {
			all := len(r.Results) > 0
			for _, v := range r.Results {
				all = all && eng.IsNilConst(v)
			}
			if all {
				pass = append(pass, r)
			}
		}
		c.Clause("R2", "C07.4")
		if c.Floor(h, "returns of the extracted root guard that let creation proceed", len(pass), 1) {
			c.Cut(h, "root guard passes", pass, eng.Or(teRoot, eng.GD(h, `^slices\.Contains\[.*\]\(`+pn+`\.Policies, "root"\)$`, true)), nil)
			c.Cut(h, "root guard passes", pass, eng.Or(teRoot, eng.G(h, `^`+tn+`\.Type == `+batch+`$`, false)), nil)
		}
		name := regexp.QuoteMeta(eng.CalleeName(cs.Common()))
		for i := 0; i < h.Signature.Results().Len(); i++ {
			c.Cut(f, "ts.create", create, eng.G(f, `^`+name+`\(\)#`+string(rune('0'+i))+` == nil$`, true), nil)
		}
		c.Clause("R3", "C07.4")
		c.NotAfter(f, "the root-policy check", []ssa.Instruction{cs}, "store to te.Policies", polSt)
	}
	return found
}

// ---------------------------------------------------------------------------
// C07.17 what is registered and reported is the created entry, not the backend's wish

// c07gLoadOf: v is a read of a field of the struct `base` points to (or a
// comparison of such a read with a constant, as in te.Parent == ""); the field's name.
func c07gLoadOf(v, base ssa.Value) (string, bool) {
	if b, ok := v.(*ssa.BinOp); ok {
		if _, isC := b.Y.(*ssa.Const); isC {
			v = b.X
		} else if _, isC := b.X.(*ssa.Const); isC {
			v = b.Y
		}
	}
	u, ok := v.(*ssa.UnOp)
	if !ok || u.Op != token.MUL {
		return "", false
	}
	fa, ok := u.X.(*ssa.FieldAddr)
	if !ok || fa.X != base || eng.FieldVar(fa) == nil {
		return "", false
	}
	return eng.FieldVar(fa).Name(), true
}

// c07gRootOfAddr: the value a chain of field addresses starts from.
func c07gRootOfAddr(a ssa.Value) ssa.Value {
	for {
		fa, ok := a.(*ssa.FieldAddr)
		if !ok {
			return a
		}
		a = fa.X
	}
}

func c07gCopyBack(c *eng.Ctx) {
	// ---- login: Core.RegisterAuth copies the created entry's values back into the
	// auth block that becomes the lease and the response; each copy is
	// unconditional (it lies on every path from the creation to the registration
	// with the expiration manager and to the success return)
	if f := c.Fn("vault.(*Core).RegisterAuth"); f != nil {
		creates := gcEffs(f, `vault\.\(\*TokenStore\)\.create$`)
		if c.Floor(f, "ts.create (copy-back)", len(creates), 1) {
			e := creates[0]
			te := gcArgs(e)[2]
			targets := gcIns(f, `vault\.\(\*ExpirationManager\)\.RegisterAuth$`)
			c.Floor(f, "registration with the expiration manager", len(targets), 1)
			for _, r := range eng.SuccessReturns(f, 1) {
				if !eng.IsNilConst(r.(*ssa.Return).Results[0]) {
					targets = append(targets, r)
				}
			}
			want := map[string]string{"ClientToken": "ID", "Accessor": "Accessor", "TTL": "TTL", "Orphan": "Parent"}
			copies := map[string][]ssa.Instruction{}
			c.Clause("R5", "C07.17")
			for _, st := range eng.Stores(f, `.`) {
				fa, ok := st.Addr.(*ssa.FieldAddr)
				if !ok || eng.FieldVar(fa) == nil {
					continue
				}
				p, isParam := c07gRootOfAddr(st.Addr).(*ssa.Parameter)
				if !isParam || eng.VarName(p) != "auth" {
					continue
				}
				name := eng.FieldVar(fa).Name()
				from, isCopy := c07gLoadOf(st.Val, te)
				if isCopy && want[name] == from {
					copies[name] = append(copies[name], st)
				}
				if name == "TTL" {
					if isCopy && from == "TTL" {
						c.OK(f, "auth TTL set from the created entry", st.Pos(), "auth.TTL = te.TTL")
					} else {
						c.Violation(f, "auth TTL set from the created entry", st.Pos(), "the login auth's TTL is stored from "+eng.ExprDeep(st.Val)+", not from the created token entry's (capped) TTL", nil)
					}
				}
			}
			c.Floor(f, "fields copied back from the created entry into the auth block", len(copies), len(want))
			c.Clause("R2", "C07.17")
			var names []string
			for n := range want {
				names = append(names, n)
			}
			sort.Strings(names)
			for _, n := range names {
				site := "auth." + n + " = te." + want[n] + " on every path to registration"
				if len(copies[n]) == 0 {
					c.Violation(f, site, f.Pos(), "RegisterAuth no longer copies te."+want[n]+" into the auth block", nil)
					continue
				}
				if h := eng.Reach(eng.Query{Fn: f, StartAfter: e.Call.In, Barriers: copies[n], Target: eng.IsTarget(targets)}); h != nil {
					c.Violation(f, site, h.Instr.Pos(), "after the token was created, the registration of its lease / the success return is reachable without auth."+n+" having been set from the created entry (the copy is conditional or gone): the lease and the login response may carry the backend's own value", h.Witness)
				} else {
					c.OK(f, site, copies[n][0].Pos(), "unconditional")
				}
			}
		}
	}
	// ---- sibling: the token-create endpoint builds its auth block from the created entry
	if f := c.Fn("vault.(*TokenStore).handleCreateCommon"); f != nil {
		creates := gcEffs(f, `vault\.\(\*TokenStore\)\.create$`)
		if len(creates) == 0 {
			return
		}
		te := gcArgs(creates[0])[2]
		var auths []*ssa.Alloc
		for _, in := range eng.Instrs(f, func(in ssa.Instruction) bool { _, ok := in.(*ssa.Alloc); return ok }) {
			if a := in.(*ssa.Alloc); strings.HasSuffix(a.Type().String(), "logical.Auth") {
				auths = append(auths, a)
			}
		}
		if !c.Floor(f, "auth block of the create response", len(auths), 1) {
			return
		}
		c.Clause("R5", "C07.17")
		want := map[string]string{"NumUses": "NumUses", "Policies": "Policies", "ClientToken": "ID", "Accessor": "Accessor", "EntityID": "EntityID", "TokenType": "Type", "TTL": "TTL"}
		n := 0
		check := func(a ssa.Value, fld string, vals []ssa.Value) {
			for _, v := range vals {
				n++
				if from, ok := c07gLoadOf(v, te); ok && from == want[fld] {
					c.OK(f, "create response auth."+fld+" = te."+want[fld], a.(ssa.Instruction).Pos(), "read from the created entry")
				} else {
					c.Violation(f, "create response auth."+fld+" = te."+want[fld], a.(ssa.Instruction).Pos(), "the create response reports "+fld+" = "+eng.ExprDeep(v)+", not the created entry's "+want[fld], nil)
				}
			}
		}
		var built []ssa.Instruction
		for _, a := range auths {
			for fld := range want {
				if fld != "TTL" {
					check(a, fld, eng.StructLitField(a, fld))
				}
			}
			for _, lo := range eng.StructLitField(a, "LeaseOptions") {
				if u, ok := lo.(*ssa.UnOp); ok {
					if tmp, ok := u.X.(*ssa.Alloc); ok {
						check(a, "TTL", eng.StructLitField(tmp, "TTL"))
					}
				}
			}
			if refs := a.Referrers(); refs != nil {
				for _, r := range *refs {
					if fa, ok := r.(*ssa.FieldAddr); ok {
						built = append(built, fa)
					}
				}
			}
		}
		c.Floor(f, "fields of the create response taken from the created entry", n, len(want))
		if len(built) > 0 {
			c.Clause("R3", "C07.17")
			c.Before(f, "ts.create", nfAts(gcSites(f, `vault\.\(\*TokenStore\)\.create$`)), "create response auth block built", built)
		}
	}
}
