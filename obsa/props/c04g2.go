package props

import (
	"regexp"
	"strings"

	"golang.org/x/tools/go/ssa"

	"obsa/eng"
)

// Second-tier mechanisms of C04 (gap round 2): the helpers that compute the
// keys / views / namespaces the cascade relies on, the sibling entry points
// and the error legs of the cubbyhole and lease-index helpers.

// g2NsOrigins renders where a *namespace.Namespace value comes from:
// "ByID(<rendering of the id handed to Core.NamespaceByID>)" or "kind:desc".
func g2NsOrigins(v ssa.Value) []string { return g2NsOriginsF(v, nil) }

// g2NsOriginsF / g2CtxOriginsF: the same, with the value followed through captured
// variables and the parameters of a followed closure / helper (call chain fr).
func g2NsOriginsF(v ssa.Value, fr *nfFrame) []string {
	var out []string
	os := eng.Origins(v)
	if fr != nil {
		os = nfOrigins(v, fr)
	}
	for _, o := range os {
		if o.Kind == "call" && strings.HasSuffix(o.Desc, "vault.(*Core).NamespaceByID#0") {
			if ex, ok := o.Val.(*ssa.Extract); ok {
				if call, ok := ex.Tuple.(*ssa.Call); ok {
					a := call.Call.Args
					out = append(out, "ByID("+eng.Expr(a[len(a)-1])+")")
					continue
				}
			}
		}
		out = append(out, o.Kind+":"+o.Desc)
	}
	return out
}

// g2CtxOrigins renders where a context comes from: "ctxNS{<namespace origin>}"
// for namespace.ContextWithNamespace(_, ns), else "kind:desc".
func g2CtxOrigins(v ssa.Value) []string { return g2CtxOriginsF(v, nil) }

func g2CtxOriginsF(v ssa.Value, fr *nfFrame) []string {
	var out []string
	var os []nfOriginF
	if fr != nil {
		os = nfOriginsF(v, fr)
	} else {
		for _, o := range eng.Origins(v) {
			os = append(os, nfOriginF{o, nil})
		}
	}
	for _, o := range os {
		if o.Kind == "call" && strings.HasSuffix(o.Desc, "namespace.ContextWithNamespace") {
			if call, ok := o.Val.(*ssa.Call); ok && len(call.Call.Args) == 2 {
				for _, n := range g2NsOriginsF(call.Call.Args[1], o.Fr) {
					out = append(out, "ctxNS{"+n+"}")
				}
				continue
			}
		}
		out = append(out, o.Kind+":"+o.Desc)
	}
	return out
}

// g2All records one obligation: every descriptor matches one of the allowed regexps (and there is one).
func g2All(c *eng.Ctx, f *ssa.Function, site string, at ssa.Instruction, descs []string, what string, allowed ...string) {
	bad := ""
	for _, d := range descs {
		ok := false
		for _, a := range allowed {
			if regexp.MustCompile(a).MatchString(d) {
				ok = true
				break
			}
		}
		if !ok {
			bad = d
			break
		}
	}
	switch {
	case len(descs) == 0:
		c.Undecided(f, site, at.Pos(), "no origin found for "+what)
	case bad != "":
		c.Violation(f, site, at.Pos(), what+" may come from "+bad+" (all origins: "+strings.Join(descs, ", ")+")", nil)
	default:
		c.OK(f, site, at.Pos(), what+" = "+strings.Join(descs, " | "))
	}
}

// g2ViewArg: the namespace argument of the view constructor (parentView / tokenIndexView / leaseView ...)
// that produced the receiver of a storage call; nil when the receiver is not such a call.
func g2ViewArg(call ssa.CallInstruction, ctorPat string) ssa.Value {
	cc := call.Common()
	if !cc.IsInvoke() {
		return nil
	}
	re := regexp.MustCompile(ctorPat)
	for _, o := range eng.Origins(cc.Value) {
		if o.Kind != "call" || !re.MatchString(o.Desc) {
			return nil
		}
		if vc, ok := o.Val.(*ssa.Call); ok && len(vc.Call.Args) == 2 {
			return vc.Call.Args[1]
		}
	}
	return nil
}

func runC04Gaps2(c *eng.Ctx) {
	rootNS, okRoot := c.P.ConstValue("namespace.RootNamespaceID")
	if !okRoot {
		c.Unresolved("namespace.RootNamespaceID")
		return
	}

	// ---- C04.9 cubbyhole destruction: the destroyer clears the same key the router stores under
	var destroyer *ssa.Function
	for _, s := range c.P.FindCalls(mustStatic(c, "vault.(*CubbyholeBackend).revoke"), nil) {
		if top := eng.TopFunc(s.Fn); top != nil && eng.FuncName(top) == "vault.init" && s.Fn != top {
			destroyer = s.Fn
		}
	}
	if destroyer == nil {
		c.Unresolved("vault.destroyCubbyhole (closure of vault.init calling CubbyholeBackend.revoke)")
	} else {
		f := destroyer
		revs := nfCalls(f, `vault\.\(\*CubbyholeBackend\)\.revoke$`)
		c.Floor(f, "CubbyholeBackend.revoke calls", len(revs), 2)
		nLegacy := 0
		for _, rv := range revs {
			r := rv.In
			a := rv.Args
			key := a[len(a)-1]
			c.Clause("R5", "C04.9")
			c.Prov(f, "cubbyhole key cleared", r, key, `^field:te\.CubbyholeID$`, `^call:salt\.SaltID$`)
			if ok, _, _ := eng.OriginsMatch(key, `^call:salt\.SaltID$`); ok {
				nLegacy++
				// the double-salted key is what the router uses only for root-namespace tokens without a service prefix
				c.Clause("R2", "C04.9")
				c.Cut(f, "clearing the double-salted (legacy) cubbyhole key", []ssa.Instruction{r}, eng.G(f, `^te\.NamespaceID == "`+regexp.QuoteMeta(rootNS)+`"$`, true), nil)
				c.Cut(f, "clearing the double-salted (legacy) cubbyhole key", []ssa.Instruction{r}, eng.G(f, `^vault\.IsServiceToken\(\)$`, false), nil)
				c.Clause("R5", "C04.9")
				for _, o := range eng.Origins(key) {
					if sc, ok := o.Val.(*ssa.Call); ok && len(sc.Call.Args) >= 2 {
						c.Prov(f, "inner salt of the legacy cubbyhole key", r, sc.Call.Args[1], `^call:vault\.\(\*TokenStore\)\.SaltID#0$`)
					}
				}
			}
		}
		c.Floor(f, "legacy-key arm", nLegacy, 1)
		for _, s := range nfCalls(f, `vault\.\(\*TokenStore\)\.SaltID$`) {
			c.Clause("R5", "C04.9")
			c.Prov(f, "token salted for the legacy cubbyhole key", s.In, s.Args[2], `^field:te\.ID$`)
		}
		// no silent success: a constant nil is returned only when there is no cubbyhole backend at all
		c.Clause("R2", "C04.9")
		var nilRets []ssa.Instruction
		for _, r := range eng.Returns(f) {
			if len(r.Results) == 1 && eng.IsNilConst(r.Results[0]) {
				nilRets = append(nilRets, r)
			}
		}
		if len(nilRets) > 0 {
			c.Cut(f, "constant nil return of the cubbyhole destroyer", nilRets, eng.G(f, `^ts\.cubbyholeBackend == nil$`, true), nil)
		}
		// the installed destroyer is this function
		c.Clause("R1", "C04.9")
		if fv := c.P.Field("vault.TokenStore.cubbyholeDestroyer"); fv == nil {
			c.Unresolved("vault.TokenStore.cubbyholeDestroyer")
		} else {
			ws := c.P.FieldWriters(fv)
			c.Floor(nil, "writers of TokenStore.cubbyholeDestroyer", len(ws), 1)
			for _, w := range ws {
				c.Prov(w.Fn, "value installed as cubbyholeDestroyer", w.Store, w.Store.Val, `^global:vault\.destroyCubbyhole$`)
			}
		}
	}
	// the router's side of the same decision: it stores under the double-salted key only for
	// root-namespace tokens that carry neither service prefix, and IsServiceToken (the destroyer's
	// test) recognises exactly these prefixes
	svcP, ok1 := c.P.ConstValue("consts.ServiceTokenPrefix")
	legP, ok2 := c.P.ConstValue("consts.LegacyServiceTokenPrefix")
	if !ok1 || !ok2 {
		c.Unresolved("consts.ServiceTokenPrefix / consts.LegacyServiceTokenPrefix")
	} else {
		if f := c.Fn("routing.(*Router).routeCommon"); f != nil {
			var ds []ssa.Instruction
			reqIdx := nfParamIndex(f, "req")
			for _, fs := range nfFieldStores(f, c.P.Field("logical.Request.ClientToken")) {
				st := fs.St
				if isReq, _ := nfIsParamOf(fs.Base, nil, f, reqIdx); fs.Fn != f || !isReq {
					continue
				}
				if call, ok := st.Val.(*ssa.Call); ok && len(call.Call.Args) == 2 {
					if ok, _, _ := eng.OriginsMatch(call.Call.Args[1], `^call:salt\.\(\*Salt\)\.SaltID$`); ok {
						ds = append(ds, st)
					}
				}
			}
			c.Clause("R2", "C04.9")
			if c.Floor(f, "stores of the double-salted cubbyhole key", len(ds), 1) {
				c.Cut(f, "router: cubbyhole keyed by the double-salted token", ds, eng.G(f, `TokenEntry\(\)\.NamespaceID == "`+regexp.QuoteMeta(rootNS)+`"$`, true), nil)
				for _, p := range []string{svcP, legP} {
					c.Cut(f, "router: cubbyhole keyed by the double-salted token", ds, eng.GD(f, `^strings\.HasPrefix\(req\.ClientToken, "`+regexp.QuoteMeta(p)+`"\)$`, false), nil)
				}
			}
		}
		if f := c.Fn("vault.IsServiceToken"); f != nil {
			c.Clause("R12", "C04.9")
			for _, p := range []string{svcP, legP} {
				n := 0
				for _, hp := range nfCalls(f, `^strings\.HasPrefix$`) {
					if nfIsConst(hp.Args[1], nil, `"`+p+`"`) {
						n++
					}
				}
				site := "const{IsServiceToken tests prefix " + p + "}"
				if n > 0 {
					c.OK(f, site, f.Pos(), "prefix tested")
				} else {
					c.Violation(f, site, f.Pos(), "IsServiceToken no longer recognises the prefix "+p+" the router keys cubbyholes by: router and cubbyhole destroyer disagree on the storage key", nil)
				}
			}
		}
	}
	if f := c.Fn("vault.(*CubbyholeBackend).revoke"); f != nil {
		cvs := nfPlain(nfSites(f, `^logical\.ClearView$`))
		succ := eng.SuccessReturns(f, 0)
		if c.Floor(f, "ClearView call", len(cvs), 1) && c.Floor(f, "nil-capable returns", len(succ), 1) {
			c.Clause("R3", "C04.9")
			c.Before(f, "logical.ClearView", nfAts(cvs), "nil-capable return", succ)
			for _, cv := range cvs {
				c.Clause("R4", "C04.9")
				site := "on{ClearView failed} no nil return"
				// a failure is told by the tests of the error; `return logical.ClearView(...)` hands the
				// error on unchanged, which is propagating it
				if h, tested := nfAfterFailure(f, cv, succ, 0, nil); h != nil && !tested {
					c.Violation(f, site, cv.At.Pos(), "the error of logical.ClearView is never tested: a cubbyhole that could not be cleared is reported destroyed", h.Witness)
				} else if h != nil {
					c.Violation(f, site, h.Instr.Pos(), "a nil-capable return is reachable from the failure edge of logical.ClearView", h.Witness)
				} else {
					c.OK(f, site, cv.At.Pos(), "a failed ClearView is returned to revokeInternal")
				}
				c.Clause("R5", "C04.9")
				for _, sv := range nfCalls(f, `^<barrier\.View>\.SubView$`) {
					a := sv.Args
					c.Prov(f, "prefix cleared", sv.In, a[len(a)-1], `^param:saltedToken$`, `^const:"/"$`)
				}
			}
		}
	}

	// ---- C04.10 storeCommon: the parent index lives in the PARENT's namespace under the parent's salt
	if f := c.Fn("vault.(*TokenStore).storeCommon"); f != nil {
		parentNS := `^ByID\(vault\.\(\*TokenStore\)\.Lookup\(\)#0\.NamespaceID\)$`
		// the write is found wherever it stands: in storeCommon, in a closure it calls, in a helper of this
		// package it calls; view, context and key are followed back through aliases and parameters
		pEffs := nfEffs(nfViewOps(f, nil, "Put", `vault\.\(\*TokenStore\)\.parentView$`))
		n := 0
		for _, e := range pEffs {
			arg, afr := nfViewArg(e, `vault\.\(\*TokenStore\)\.parentView$`)
			if arg == nil {
				continue
			}
			n++
			c.Clause("R5", "C04.10")
			g2All(c, e.Fn, "namespace of the parent-index view written by storeCommon", e.Call.In, g2NsOriginsF(arg, afr), "parentView(ns)", parentNS)
		}
		c.Floor(f, "parentView(...).Put", n, 1)
		n = 0
		entryIdx := nfParamIndex(f, "entry")
		parentF := c.P.Field("logical.TokenEntry.Parent")
		for _, e := range nfEffs(nfMust(f, nil, func(nc nfCall, fr *nfFrame) bool {
			if !regexp.MustCompile(`vault\.\(\*TokenStore\)\.SaltID$`).MatchString(nc.Name) || len(nc.Args) < 3 {
				return false
			}
			ok, _ := nfAll(nc.Args[2], fr, func(o eng.Origin) bool {
				base, is := nfFieldOf(o, parentF)
				if !is {
					return false
				}
				isEntry, _ := nfIsParamOf(base, nil, f, entryIdx)
				return isEntry
			})
			return ok
		}, 2)) {
			n++
			c.Clause("R5", "C04.10")
			g2All(c, e.Fn, "context the parent id is salted in", e.Call.In, g2CtxOriginsF(e.Call.Args[1], e.Fr), "SaltID(ctx, entry.Parent)", `^ctxNS\{ByID\(vault\.\(\*TokenStore\)\.Lookup\(\)#0\.NamespaceID\)\}$`)
		}
		c.Floor(f, "SaltID(entry.Parent)", n, 1)
		for _, e := range pEffs {
			for _, k := range c04PutKeys(e) {
				c.Clause("R5", "C04.10")
				nfProv(c, k.fn, "parent-index key", k.at, k.v, k.fr, `^call:vault\.\(\*TokenStore\)\.SaltID#0$`, `^const:"/"$`, `^call:fmt\.Sprintf$`)
			}
		}
	}

	// ---- C04.11 token creation always writes the parent index; only store/create reach storeCommon
	if f := c.Fn("vault.(*TokenStore).create"); f != nil {
		scs := nfCalls(f, `vault\.\(\*TokenStore\)\.storeCommon$`)
		c.Floor(f, "storeCommon call", len(scs), 1)
		for _, scc := range scs {
			c.Clause("R12", "C04.11")
			sc := scc.In
			a := scc.Args
			if nfIsConst(a[3], nil, "true") {
				c.OK(f, "const{storeCommon(entry, writeSecondary=true)}", sc.Pos(), "a created token is always linked under its parent")
			} else {
				c.Violation(f, "const{storeCommon(entry, writeSecondary=true)}", sc.Pos(), "create persists a token with writeSecondary="+eng.Expr(a[3])+": a child written without its parent-index entry escapes the revocation chain", nil)
			}
		}
	}
	c.Clause("R1", "C04.11")
	c.CallerTable("TokenStore.storeCommon", c.P.FindCalls(mustStatic(c, "vault.(*TokenStore).storeCommon"), nil), map[string]string{
		"vault.(*TokenStore).create": "creation: writes the parent index",
		"vault.(*TokenStore).store":  "update of an existing entry",
	}, 2)

	// ---- C04.12 token -> lease index: writer and reader agree on view, salt and value; read errors abort
	tokNSIn := `ByID\(namespace\.SplitIDFromString\(\)#1\)`
	rootGIn := `global:namespace\.RootNamespace`
	tokNS, rootG := `^`+tokNSIn+`$`, `^`+rootGIn+`$`
	if f := c.Fn("vault.(*ExpirationManager).createIndexByToken"); f != nil {
		puts := nfEffs(nfPlain(nfSitesLocal(f, `^<barrier\.View>\.Put$`)))
		c.Floor(f, "index Put", len(puts), 1)
		for _, e := range puts {
			c.Clause("R5", "C04.12")
			if arg, afr := nfViewArg(e, `vault\.\(\*ExpirationManager\)\.tokenIndexView$`); arg == nil {
				c.Violation(e.Fn, "view of the token->lease index entry", e.Call.In.Pos(), "the index entry is not written through tokenIndexView(ns)", nil)
			} else {
				g2All(c, e.Fn, "namespace of the token->lease index entry", e.Call.In, g2NsOriginsF(arg, afr), "tokenIndexView(ns)", tokNS, rootG)
			}
		}
		for _, st := range nfFieldStores(f, c.P.Field("logical.StorageEntry.Value")) {
			c.Clause("R5", "C04.12")
			nfProv(c, st.Fn, "value of the token->lease index entry", st.St, st.St.Val, st.Fr, `^field:le\.LeaseID$`)
		}
		for _, st := range nfFieldStores(f, c.P.Field("logical.StorageEntry.Key")) {
			c.Clause("R5", "C04.12")
			nfProv(c, st.Fn, "key of the token->lease index entry", st.St, st.St.Val, st.Fr, `^call:vault\.\(\*TokenStore\)\.SaltID#0$`, `^const:"/"$`)
		}
		for _, e := range nfEffs(nfSitesLocal(f, `vault\.\(\*TokenStore\)\.SaltID$`)) {
			c.Clause("R5", "C04.12")
			g2All(c, e.Fn, "context the index key is salted in", e.Call.In, g2CtxOriginsF(e.Call.Args[1], e.Fr), "SaltID(ctx, ...)", `^ctxNS\{`+tokNSIn+`\}$`, `^ctxNS\{`+rootGIn+`\}$`)
		}
	}
	if f := c.Fn("vault.(*ExpirationManager).lookupLeasesByToken"); f != nil {
		teNS := `^ByID\(te\.NamespaceID\)$`
		readS := nfPlain(nfMust(f, nil, nfNamed(`^<barrier\.View>\.(List|Get)$`), 0))
		c.Floor(f, "index reads", len(readS), 2)
		for _, rs := range readS {
			r := rs.At.(ssa.CallInstruction)
			c.Clause("R5", "C04.12")
			if arg, afr := nfViewArg(rs.Effs[0], `vault\.\(\*ExpirationManager\)\.tokenIndexView$`); arg == nil {
				c.Violation(f, "view the token's leases are read from", r.Pos(), "a lease-index read does not go through tokenIndexView(ns)", nil)
			} else {
				g2All(c, f, "namespace the token's leases are read from", r, g2NsOriginsF(arg, afr), "tokenIndexView(ns)", teNS, rootG)
			}
			c.Clause("R4", "C04.12")
			fe := eng.CallFailEdges(r)
			if len(fe) == 0 {
				c.Violation(f, "index read failed", r.Pos(), "the error of "+eng.CalleeName(r.Common())+" is never tested: leases behind an unreadable index entry are silently skipped", nil)
			} else {
				c.NilResultOnEdges(f, "index read ("+eng.CalleeName(r.Common())+") failed", fe, 0, "lease list")
			}
		}
		for _, s := range nfCalls(f, `vault\.\(\*TokenStore\)\.SaltID$`) {
			c.Clause("R5", "C04.12")
			c.Prov(f, "token the lease index is listed for", s.In, s.Args[2], `^field:te\.ID$`)
			g2All(c, f, "context the token is salted in", s.In, g2CtxOrigins(s.Args[1]), "SaltID(ctx, te.ID)", `^ctxNS\{ByID\(te\.NamespaceID\)\}$`)
		}
	}

	// ---- C04.13 a lease is reported revoked only if its revocation handler (for an auth lease: the tree
	// revocation) succeeded, unless force was requested; Revoke never forces and never skips the token
	if f := c.Fn("vault.(*ExpirationManager).revokeCommon"); f != nil {
		res := nfPlain(nfSites(f, `vault\.\(\*ExpirationManager\)\.revokeEntry$`))
		succ := eng.SuccessReturns(f, 0)
		if c.Floor(f, "revokeEntry call", len(res), 1) && c.Floor(f, "nil-capable returns", len(succ), 1) {
			for _, re := range res {
				c.Clause("R4", "C04.13")
				site := "on{revokeEntry failed} success only under force"
				if h, tested := nfAfterFailure(f, re, succ, 0, eng.CondEdges(f, `^force$`, true)); h != nil && !tested {
					c.Violation(f, site, re.At.Pos(), "the error of revokeEntry is never tested", h.Witness)
				} else if h != nil {
					c.Violation(f, site, h.Instr.Pos(), "revokeCommon can report a lease revoked (and delete it) after revokeEntry failed without force: for an auth lease the token tree is still alive", h.Witness)
				} else {
					c.OK(f, site, re.At.Pos(), "a failed revokeEntry reaches a nil return only across force == true")
				}
			}
		}
	}
	for _, w := range []struct{ fn, what string }{
		{"vault.(*ExpirationManager).Revoke", "expiration.Revoke"},
	} {
		if f := c.Fn(w.fn); f != nil {
			rcs := nfEffs(nfSites(f, `vault\.\(\*ExpirationManager\)\.revokeCommon$`))
			c.Floor(f, "revokeCommon call", len(rcs), 1)
			for _, e := range rcs {
				c.Clause("R12", "C04.13")
				rc := e.Call.In
				a := e.Call.Args
				site := "const{revokeCommon(leaseID, force=false, skipToken=false)}"
				if nfIsConst(a[3], e.Fr, "false") && nfIsConst(a[4], e.Fr, "false") {
					c.OK(f, site, rc.Pos(), w.what+" neither forces nor skips the token")
				} else {
					c.Violation(f, site, rc.Pos(), w.what+" calls revokeCommon with force="+eng.Expr(a[3])+" skipToken="+eng.Expr(a[4]), nil)
				}
			}
		}
	}

	// ---- C04.14 revokeTree / revokeOrphan: success only through the walk / revokeInternal, on the salted id
	for _, w := range []struct{ fn, callee, idPat string }{
		{"vault.(*TokenStore).revokeTree", `vault\.\(\*TokenStore\)\.revokeTreeInternal$`, `^field:le\.ClientToken$`},
		{"vault.(*TokenStore).revokeOrphan", `vault\.\(\*TokenStore\)\.revokeInternal$`, `^param:id$`},
	} {
		f := c.Fn(w.fn)
		if f == nil {
			continue
		}
		callS := nfSites(f, w.callee)
		succ := eng.SuccessReturns(f, 0)
		if !c.Floor(f, "revocation call", len(callS), 1) || !c.Floor(f, "nil-capable returns", len(succ), 1) {
			continue
		}
		c.Clause("R3", "C04.14")
		c.Before(f, "the revocation call", nfAts(callS), "nil-capable return", succ)
		for _, e := range nfEffs(callS) {
			c.Clause("R5", "C04.14")
			nfProv(c, e.Fn, "id revoked", e.Call.In, e.Call.Args[2], e.Fr, `^call:vault\.\(\*TokenStore\)\.SaltID#0$`)
		}
		for _, e := range nfEffs(nfSitesLocal(f, `vault\.\(\*TokenStore\)\.SaltID$`)) {
			c.Clause("R5", "C04.14")
			nfProv(c, e.Fn, "token salted", e.Call.In, e.Call.Args[2], e.Fr, w.idPat)
		}
	}

	runC04Gaps3(c, rootNS)

	// ---- C04.15 sys/leases/revoke answers without an error only across a successful (lazy) revocation
	if f := c.Fn("vault.(*SystemBackend).handleRevoke"); f != nil {
		var sinks []ssa.Instruction
		for _, r := range eng.Returns(f) {
			if len(r.Results) != 2 {
				continue
			}
			if ok, _, _ := eng.OriginsMatch(r.Results[0], `^const:nil$`, `^call:logical\.RespondWithStatusCode#0$`); ok {
				if ok2, _, _ := eng.OriginsMatch(r.Results[1], `^const:nil$`, `^call:logical\.RespondWithStatusCode#1$`); ok2 {
					sinks = append(sinks, r)
				}
			}
		}
		c.Clause("R2", "C04.15")
		if c.Floor(f, "error-free answers", len(sinks), 2) {
			both := append(nfSites(f, `vault\.\(\*ExpirationManager\)\.Revoke$`), nfSites(f, `vault\.\(\*ExpirationManager\)\.LazyRevoke$`)...)
			nfCutOK(c, f, "error-free answer of sys/leases/revoke", sinks, 1, nfOKOf(`success edge of vault\.\(\*ExpirationManager\)\.Revoke$ OR success edge of vault\.\(\*ExpirationManager\)\.LazyRevoke$`, both))
		}
	}
}

// g2NotRootEdges: the edges of f on which "<ns>.ID != RootNamespaceID" holds, for
// namespaces <ns> whose origins all match wantNS (rendered by g2NsOrigins).
func g2NotRootEdges(f *ssa.Function, rootNS, wantNS string) []eng.Edge {
	return g2NotRootEdgesF(f, nil, rootNS, wantNS)
}

func g2NotRootEdgesF(f *ssa.Function, fr *nfFrame, rootNS, wantNS string) []eng.Edge {
	re := regexp.MustCompile(`\.ID == "` + regexp.QuoteMeta(rootNS) + `"$`)
	want := regexp.MustCompile(wantNS)
	var out []eng.Edge
	for _, b := range f.Blocks {
		ifi := eng.IfOf(b)
		if ifi == nil {
			continue
		}
		nc := eng.Normalize(ifi.Cond)
		bo, ok := nc.Val.(*ssa.BinOp)
		if !ok || !nc.Matches(re) {
			continue
		}
		good := false
		for _, op := range []ssa.Value{bo.X, bo.Y} {
			ld, ok := op.(*ssa.UnOp)
			if !ok {
				continue
			}
			fa, ok := ld.X.(*ssa.FieldAddr)
			if !ok {
				continue
			}
			ds := g2NsOriginsF(fa.X, fr)
			good = len(ds) > 0
			for _, d := range ds {
				if !want.MatchString(d) {
					good = false
				}
			}
		}
		if !good {
			continue
		}
		if nc.Pol == false {
			out = append(out, eng.Edge{From: b, Succ: 0})
		} else {
			out = append(out, eng.Edge{From: b, Succ: 1})
		}
	}
	return out
}

// g2Nested: fn and every function literal nested in it.
func g2Nested(fn *ssa.Function) []*ssa.Function {
	out := []*ssa.Function{fn}
	for _, a := range fn.AnonFuncs {
		out = append(out, g2Nested(a)...)
	}
	return out
}

// g2KeySprintfs: the fmt.Sprintf calls whose result flows into v.
func g2KeySprintfs(v ssa.Value) []ssa.Instruction {
	var out []ssa.Instruction
	for _, o := range eng.Origins(v) {
		if o.Kind == "call" && o.Desc == "fmt.Sprintf" {
			if call, ok := o.Val.(*ssa.Call); ok {
				out = append(out, call)
			}
		}
	}
	return out
}

// runC04Gaps3: clauses added after the gap round — the two repaired defects
// (C04.16 lease namespace in RevokeByToken, C04.17 child namespace in token tidy)
// and the writer/reader agreement on the parent-index key (C04.18, seed C04-c).
func runC04Gaps3(c *eng.Ctx, rootNS string) {
	// ---- C04.16 RevokeByToken expires every lease in the namespace the lease id names
	if f := c.Fn("vault.(*ExpirationManager).RevokeByToken"); f != nil {
		lzs := nfCalls(f, `vault\.\(\*ExpirationManager\)\.lazyRevokeInternal$`)
		for _, lzc := range lzs {
			c.Clause("R5", "C04.16")
			lz := lzc.In
			a := lzc.Args
			site := "context of lazyRevokeInternal = the lease's own namespace"
			ok, why := true, ""
			os := eng.Origins(a[1])
			if len(os) == 0 {
				ok, why = false, "no origin"
			}
			for _, o := range os {
				call, isCall := o.Val.(*ssa.Call)
				if o.Kind != "call" || !strings.HasSuffix(o.Desc, "namespace.ContextWithNamespace") || !isCall || len(call.Call.Args) != 2 {
					ok, why = false, o.Kind+":"+o.Desc
					continue
				}
				// the namespace is resolved from the very lease id handed on
				for _, n := range eng.Origins(call.Call.Args[1]) {
					ex, isEx := n.Val.(*ssa.Extract)
					var res *ssa.Call
					if isEx {
						res, _ = ex.Tuple.(*ssa.Call)
					}
					switch {
					case res != nil && n.Kind == "call" && strings.HasSuffix(n.Desc, "vault.(*ExpirationManager).getNamespaceFromLeaseID#0"):
						ra := res.Call.Args
						if ra[len(ra)-1] != a[2] {
							ok, why = false, "namespace of another id: "+eng.Expr(ra[len(ra)-1])
						}
					case res != nil && n.Kind == "call" && strings.HasSuffix(n.Desc, "vault.(*Core).NamespaceByID#0"):
						ra := res.Call.Args
						if m, _, _ := eng.OriginsMatch(ra[len(ra)-1], `^call:namespace\.SplitIDFromString#1$`); !m {
							ok, why = false, "NamespaceByID("+eng.Expr(ra[len(ra)-1])+")"
						}
					case n.Kind == "global" && n.Desc == "namespace.RootNamespace":
					default:
						ok, why = false, "namespace from "+n.Kind+":"+n.Desc
					}
				}
			}
			if ok {
				c.OK(f, site, lz.Pos(), eng.ExprDeep(a[1]))
			} else {
				c.Violation(f, site, lz.Pos(), "RevokeByToken hands "+eng.Expr(a[1])+" ("+why+") to lazyRevokeInternal: loadEntry reads leaseView(namespace of the context), so a lease issued in a child namespace under a parent-namespace token is not found, nil is returned and the lease outlives the token", nil)
			}
		}
	}

	// ---- C04.19 a token-addressed request (auth/token/{lookup,renew,revoke,revoke-orphan}) is switched into
	// the namespace named by the DECODED token: the id whose ".nsid" suffix is split off is the result of
	// the SSC decoding whenever the body token is an SSC token (the opaque form carries no suffix) — seed C04-d
	if f := c.Fn("vault.(*Core).handleCancelableRequest"); f != nil {
		decoded := `^call:vault\.\(\*Core\)\.(CheckSSCToken|DecodeSSCToken|checkSSCTokenInternal)#0$`
		isTokenOrigin := func(o eng.Origin) bool {
			if o.Kind == "call" && regexp.MustCompile(decoded).MatchString(o.Kind+":"+o.Desc) {
				return true
			}
			// the raw body token: read out of the request's data map
			for _, r := range eng.Roots(o.Val, nil) {
				if ex, ok := r.(*ssa.Extract); ok {
					if ta, ok := ex.Tuple.(*ssa.TypeAssert); ok {
						for _, rr := range eng.Roots(ta.X, nil) {
							if e2, ok := rr.(*ssa.Extract); ok {
								if lk, ok := e2.Tuple.(*ssa.Lookup); ok {
									if k, ok := lk.Index.(*ssa.Const); ok && eng.Expr(k) == `"token"` {
										return true
									}
								}
							}
						}
					}
				}
			}
			return false
		}
		fe := eng.Feasible(f, map[string]bool{`^vault\.IsSSCToken\(\)$`: true})
		n := 0
		for _, spc := range nfCalls(f, `^namespace\.SplitIDFromString$`) {
			sp := spc.In
			op := spc.Args[0]
			tokenSite := false
			for _, o := range eng.Origins(op) {
				if isTokenOrigin(o) {
					tokenSite = true
				}
			}
			if !tokenSite {
				continue // lease-addressed paths
			}
			n++
			c.Clause("R5", "C04.19")
			site := "namespace of a token-addressed request derived from the decoded token"
			if len(eng.CondEdges(f, `^vault\.IsSSCToken\(\)$`, true)) == 0 {
				c.Undecided(f, site, sp.Pos(), "no branch tests IsSSCToken: the SSC case cannot be told from the plain case")
				continue
			}
			bad := ""
			roots := eng.Roots(op, fe)
			for _, r := range roots {
				if ok, b, _ := eng.OriginsMatch(r, decoded); !ok {
					bad = b
				}
			}
			switch {
			case len(roots) == 0:
				c.Undecided(f, site, sp.Pos(), "the operand of SplitIDFromString has no root under IsSSCToken == true")
			case bad != "":
				c.Violation(f, site, sp.Pos(), "for an SSC body token the namespace suffix is split off "+eng.Expr(op)+" (root "+bad+"), not off the decoded id: the opaque hvs.<base64> form carries no suffix, the request stays in the caller's namespace, revoke-orphan salts the id there, finds no entry and reports success with the token alive", nil)
			default:
				c.OK(f, site, sp.Pos(), "under IsSSCToken == true the operand is read out of the SSC decoding only: "+eng.Expr(op))
			}
		}
		c.Floor(f, "token-addressed namespace switches", n, 1)
	}

	// ---- C04.17 token tidy removes a parent-index entry only after a successful lookup of the child
	// in the namespace the key names (and of the parent)
	nsOfKey := `^ctxNS\{ByID\(namespace\.SplitIDFromString\(\)#1\)\}$`
	if top := c.Fn("vault.(*TokenStore).handleTidy"); top != nil {
		n := 0
		for _, f := range g2Nested(top) {
			dels := nfAts(nfViewOps(f, nil, "Delete", `vault\.\(\*TokenStore\)\.parentView$`))
			if len(dels) == 0 {
				continue
			}
			n += len(dels)
			var childLk, parentLk []nfCall
			for _, l := range nfCalls(f, `vault\.\(\*TokenStore\)\.lookupInternal$`) {
				a := l.Args
				if !nfIsConst(a[3], nil, "true") {
					continue // by plain id (accessor pass)
				}
				if ok, _, _ := eng.OriginsMatch(a[2], `^call:strings\.TrimSuffix$`); ok {
					parentLk = append(parentLk, l)
				} else {
					childLk = append(childLk, l)
				}
			}
			if !c.Floor(f, "lookups of the listed children", len(childLk), 1) || !c.Floor(f, "lookup of the parent", len(parentLk), 1) {
				continue
			}
			for _, lc := range childLk {
				l := lc.In
				a := lc.Args
				c.Clause("R5", "C04.17")
				c.Prov(f, "child id looked up by tidy", l, a[2], `^call:namespace\.SplitIDFromString#0$`)
				ds := g2CtxOrigins(a[1])
				has := false
				for _, d := range ds {
					if regexp.MustCompile(nsOfKey).MatchString(d) {
						has = true
					}
				}
				if !has {
					c.Violation(f, "context of the child lookup = namespace named by the index key", l.Pos(), "tidy looks a listed child up in "+strings.Join(ds, " | ")+" only: the index key of a child outside the root namespace is <salted>.<nsID> while the entry is stored under <salted> in that namespace, so every such child is 'not found' and its parent-index entry is deleted although the token is alive", nil)
				} else {
					g2All(c, f, "context of the child lookup = namespace named by the index key", l, ds, "lookupInternal(ctx, child)", nsOfKey, `^ctxNS\{freevar:ns\}$`)
				}
			}
			c.Clause("R2", "C04.17")
			cg := eng.Guard{Desc: "success edge of the child lookup"}
			for _, l := range childLk {
				cg.Edges = append(cg.Edges, eng.CallOKEdges(l.In)...)
			}
			pg := eng.Guard{Desc: "success edge of the parent lookup"}
			for _, l := range parentLk {
				pg.Edges = append(pg.Edges, eng.CallOKEdges(l.In)...)
			}
			c.Cut(f, "tidy: delete of a parent-index entry", dels, cg, nil)
			c.Cut(f, "tidy: delete of a parent-index entry", dels, pg, nil)
		}
		c.Floor(top, "parent-index deletes in token tidy", n, 1)
	}

	// ---- C04.18 writer/reader agreement on the parent-index key "<parent>/<child>[.<nsID>]"
	// writers (storeCommon; revokeInternal recomputes the key to delete it): the suffix is appended
	// exactly when the token's own namespace is not the root namespace
	for _, w := range []struct{ fn, tokNS, op string }{
		{"vault.(*TokenStore).storeCommon", `^ByID\(entry\.NamespaceID\)$`, "Put"},
		{"vault.(*TokenStore).revokeInternal", `^ByID\(vault\.\(\*TokenStore\)\.lookupInternal\(\)#0\.NamespaceID\)$`, "Delete"},
	} {
		f := c.Fn(w.fn)
		if f == nil {
			continue
		}
		// The Put/Delete is found wherever it stands (storeCommon, a closure, a helper of this package); the
		// rule is evaluated in the function that builds the key: there the suffix is appended, there the
		// namespace is tested, and there the write happens (through the call that leads to it)
		type scope struct {
			fr       *nfFrame
			sps, ops []ssa.Instruction
		}
		scopes := map[*ssa.Function]*scope{}
		var order []*ssa.Function
		nOps := 0
		for _, e := range nfEffs(nfViewOps(f, nil, w.op, `vault\.\(\*TokenStore\)\.parentView$`)) {
			var keys []c04Key
			if w.op == "Put" {
				keys = c04PutKeys(e)
			} else {
				a := e.Call.Args
				kv, kfr := nfResolveParam(a[len(a)-1], e.Fr)
				keys = []c04Key{{v: kv, fr: kfr, fn: nfValueFn(kv)}}
			}
			for _, k := range keys {
				sp := g2KeySprintfs(k.v)
				if len(sp) == 0 || k.fn == nil {
					continue
				}
				op := nfChainInstr(e, k.fn)
				if op == nil {
					continue
				}
				sc := scopes[k.fn]
				if sc == nil {
					sc = &scope{fr: k.fr}
					scopes[k.fn] = sc
					order = append(order, k.fn)
				}
				sc.sps = append(sc.sps, sp...)
				sc.ops = append(sc.ops, op)
				nOps++
			}
		}
		c.Clause("R2", "C04.18")
		if !c.Floor(f, "parent-index "+w.op+" with a suffixed key", nOps, 1) {
			continue
		}
		for _, k := range order {
			sc := scopes[k]
			notRoot := g2NotRootEdgesF(k, sc.fr, rootNS, w.tokNS)
			site := "suffix of the parent-index key appended exactly when the token's namespace is not root"
			if len(notRoot) == 0 {
				c.Violation(k, site, sc.sps[0].Pos(), "no branch tests <token namespace>.ID != RootNamespaceID: the readers of the parent index (tree walk, orphaning loop, tidy) take a key without suffix to name a root-namespace token, so the writer must suffix every other token", nil)
				continue
			}
			c.Cut(k, "namespace suffix of the parent-index key", sc.sps, eng.Guard{Desc: "[token namespace != root]", Edges: notRoot}, nil)
			if h := eng.Reach(eng.Query{Fn: k, StartEdges: notRoot, Barriers: sc.sps, Target: eng.IsTarget(sc.ops)}); h != nil {
				c.Violation(k, site, h.Instr.Pos(), "a token outside the root namespace can be indexed under a key without its namespace suffix", h.Witness)
			} else {
				c.OK(k, site, sc.sps[0].Pos(), "every path from the not-root edge to the index "+w.op+" passes the suffixing")
			}
		}
	}
	// readers: whoever splits an index key looks the id part up in the namespace named by the suffix;
	// without suffix the reader's own (tabled) context applies, which the writer rule makes the root namespace
	// (token tidy, the third reader, is held to the same condition by C04.17)
	for _, r := range []struct{ fn, def string }{
		{"vault.(*TokenStore).revokeTreeInternal", `^param:ctx$`},
		{"vault.(*TokenStore).revokeInternal", `^ctxNS\{ByID\(vault\.\(\*TokenStore\)\.lookupInternal\(\)#0\.NamespaceID\)\}$`},
	} {
		top := c.Fn(r.fn)
		if top == nil {
			continue
		}
		n := 0
		for _, f := range g2Nested(top) {
			for _, lc := range nfCalls(f, `vault\.\(\*TokenStore\)\.(lookupInternal|revokeInternal)$`) {
				l := lc.In
				a := lc.Args
				if ok, _, _ := eng.OriginsMatch(a[2], `^call:namespace\.SplitIDFromString#0$`); !ok {
					continue
				}
				n++
				c.Clause("R5", "C04.18")
				ds := g2CtxOrigins(a[1])
				has := false
				for _, d := range ds {
					if regexp.MustCompile(nsOfKey).MatchString(d) {
						has = true
					}
				}
				site := "reader of the parent index: id part looked up in the namespace the suffix names"
				if !has {
					c.Violation(f, site, l.Pos(), eng.CalleeName(l.Common())+" receives "+strings.Join(ds, " | ")+": the namespace suffix split off the index key is not used", nil)
				} else {
					g2All(c, f, site, l, ds, "context", nsOfKey, r.def)
				}
			}
		}
		c.Floor(top, "lookups keyed by a split index key", n, 1)
	}
}

// c04Key is a storage key value with the function it is built in and that
// function's call chain.
type c04Key struct {
	v  ssa.Value
	fr *nfFrame
	fn *ssa.Function
	at ssa.Instruction
}

// c04PutKeys: the values stored into the Key field of the storage entry handed
// to Put effect e; the entry is followed through the parameters of the closure /
// helper the Put stands in to the place where it is built.
func c04PutKeys(e nfEff) []c04Key {
	a := e.Call.Args
	if len(a) == 0 {
		return nil
	}
	ent, fr := nfResolveParam(a[len(a)-1], e.Fr)
	var out []c04Key
	for _, kv := range eng.StructLitField(ent, "Key") {
		fn := nfValueFn(ent)
		var at ssa.Instruction = e.Call.In
		if fn != nil {
			if in := nfChainInstr(e, fn); in != nil {
				at = in
			}
		} else {
			fn = e.Fn
		}
		out = append(out, c04Key{v: kv, fr: fr, fn: fn, at: at})
	}
	return out
}
