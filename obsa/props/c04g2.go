package props

import (
	"regexp"
	"strings"

	"golang.org/x/tools/go/ssa"

	"obsa/eng"
)

// Second-tier mechanisms of C04 (gap round 2): the helpers that compute the
// keys / views / namespaces the cascade relies on, the sibling entry points
// and the error legs of the cubbyhole and lease-index helpers.

// g2NsOrigins renders where a *namespace.Namespace value comes from:
// "ByID(<rendering of the id handed to Core.NamespaceByID>)" or "kind:desc".
func g2NsOrigins(v ssa.Value) []string {
	var out []string
	for _, o := range eng.Origins(v) {
		if o.Kind == "call" && strings.HasSuffix(o.Desc, "vault.(*Core).NamespaceByID#0") {
			if ex, ok := o.Val.(*ssa.Extract); ok {
				if call, ok := ex.Tuple.(*ssa.Call); ok {
					a := call.Call.Args
					out = append(out, "ByID("+eng.Expr(a[len(a)-1])+")")
					continue
				}
			}
		}
		out = append(out, o.Kind+":"+o.Desc)
	}
	return out
}

// g2CtxOrigins renders where a context comes from: "ctxNS{<namespace origin>}"
// for namespace.ContextWithNamespace(_, ns), else "kind:desc".
func g2CtxOrigins(v ssa.Value) []string {
	var out []string
	for _, o := range eng.Origins(v) {
		if o.Kind == "call" && strings.HasSuffix(o.Desc, "namespace.ContextWithNamespace") {
			if call, ok := o.Val.(*ssa.Call); ok && len(call.Call.Args) == 2 {
				for _, n := range g2NsOrigins(call.Call.Args[1]) {
					out = append(out, "ctxNS{"+n+"}")
				}
				continue
			}
		}
		out = append(out, o.Kind+":"+o.Desc)
	}
	return out
}

// g2All records one obligation: every descriptor matches one of the allowed regexps (and there is one).
func g2All(c *eng.Ctx, f *ssa.Function, site string, at ssa.Instruction, descs []string, what string, allowed ...string) {
	bad := ""
	for _, d := range descs {
		ok := false
		for _, a := range allowed {
			if regexp.MustCompile(a).MatchString(d) {
				ok = true
				break
			}
		}
		if !ok {
			bad = d
			break
		}
	}
	switch {
	case len(descs) == 0:
		c.Undecided(f, site, at.Pos(), "no origin found for "+what)
	case bad != "":
		c.Violation(f, site, at.Pos(), what+" may come from "+bad+" (all origins: "+strings.Join(descs, ", ")+")", nil)
	default:
		c.OK(f, site, at.Pos(), what+" = "+strings.Join(descs, " | "))
	}
}

// g2ViewArg: the namespace argument of the view constructor (parentView / tokenIndexView / leaseView ...)
// that produced the receiver of a storage call; nil when the receiver is not such a call.
func g2ViewArg(call ssa.CallInstruction, ctorPat string) ssa.Value {
	cc := call.Common()
	if !cc.IsInvoke() {
		return nil
	}
	re := regexp.MustCompile(ctorPat)
	for _, o := range eng.Origins(cc.Value) {
		if o.Kind != "call" || !re.MatchString(o.Desc) {
			return nil
		}
		if vc, ok := o.Val.(*ssa.Call); ok && len(vc.Call.Args) == 2 {
			return vc.Call.Args[1]
		}
	}
	return nil
}

func runC04Gaps2(c *eng.Ctx) {
	rootNS, okRoot := c.P.ConstValue("namespace.RootNamespaceID")
	if !okRoot {
		c.Unresolved("namespace.RootNamespaceID")
		return
	}

	// ---- C04.9 cubbyhole destruction: the destroyer clears the same key the router stores under
	var destroyer *ssa.Function
	for _, s := range c.P.FindCalls(mustStatic(c, "vault.(*CubbyholeBackend).revoke"), nil) {
		if top := eng.TopFunc(s.Fn); top != nil && eng.FuncName(top) == "vault.init" && s.Fn != top {
			destroyer = s.Fn
		}
	}
	if destroyer == nil {
		c.Unresolved("vault.destroyCubbyhole (closure of vault.init calling CubbyholeBackend.revoke)")
	} else {
		f := destroyer
		revs := eng.Calls(f, `vault\.\(\*CubbyholeBackend\)\.revoke$`)
		c.Floor(f, "CubbyholeBackend.revoke calls", len(revs), 2)
		nLegacy := 0
		for _, r := range revs {
			a := r.Common().Args
			key := a[len(a)-1]
			c.Clause("R5", "C04.9")
			c.Prov(f, "cubbyhole key cleared", r, key, `^field:te\.CubbyholeID$`, `^call:salt\.SaltID$`)
			if ok, _, _ := eng.OriginsMatch(key, `^call:salt\.SaltID$`); ok {
				nLegacy++
				// the double-salted key is what the router uses only for root-namespace tokens without a service prefix
				c.Clause("R2", "C04.9")
				c.Cut(f, "clearing the double-salted (legacy) cubbyhole key", []ssa.Instruction{r}, eng.G(f, `^te\.NamespaceID == "`+regexp.QuoteMeta(rootNS)+`"$`, true), nil)
				c.Cut(f, "clearing the double-salted (legacy) cubbyhole key", []ssa.Instruction{r}, eng.G(f, `^vault\.IsServiceToken\(\)$`, false), nil)
				c.Clause("R5", "C04.9")
				for _, o := range eng.Origins(key) {
					if sc, ok := o.Val.(*ssa.Call); ok && len(sc.Call.Args) >= 2 {
						c.Prov(f, "inner salt of the legacy cubbyhole key", r, sc.Call.Args[1], `^call:vault\.\(\*TokenStore\)\.SaltID#0$`)
					}
				}
			}
		}
		c.Floor(f, "legacy-key arm", nLegacy, 1)
		for _, s := range eng.Calls(f, `vault\.\(\*TokenStore\)\.SaltID$`) {
			c.Clause("R5", "C04.9")
			c.Prov(f, "token salted for the legacy cubbyhole key", s, s.Common().Args[2], `^field:te\.ID$`)
		}
		// no silent success: a constant nil is returned only when there is no cubbyhole backend at all
		c.Clause("R2", "C04.9")
		var nilRets []ssa.Instruction
		for _, r := range eng.Returns(f) {
			if len(r.Results) == 1 && eng.IsNilConst(r.Results[0]) {
				nilRets = append(nilRets, r)
			}
		}
		if len(nilRets) > 0 {
			c.Cut(f, "constant nil return of the cubbyhole destroyer", nilRets, eng.G(f, `^ts\.cubbyholeBackend == nil$`, true), nil)
		}
		// the installed destroyer is this function
		c.Clause("R1", "C04.9")
		if fv := c.P.Field("vault.TokenStore.cubbyholeDestroyer"); fv == nil {
			c.Unresolved("vault.TokenStore.cubbyholeDestroyer")
		} else {
			ws := c.P.FieldWriters(fv)
			c.Floor(nil, "writers of TokenStore.cubbyholeDestroyer", len(ws), 1)
			for _, w := range ws {
				c.Prov(w.Fn, "value installed as cubbyholeDestroyer", w.Store, w.Store.Val, `^global:vault\.destroyCubbyhole$`)
			}
		}
	}
	// the router's side of the same decision: it stores under the double-salted key only for
	// root-namespace tokens that carry neither service prefix, and IsServiceToken (the destroyer's
	// test) recognises exactly these prefixes
	svcP, ok1 := c.P.ConstValue("consts.ServiceTokenPrefix")
	legP, ok2 := c.P.ConstValue("consts.LegacyServiceTokenPrefix")
	if !ok1 || !ok2 {
		c.Unresolved("consts.ServiceTokenPrefix / consts.LegacyServiceTokenPrefix")
	} else {
		if f := c.Fn("routing.(*Router).routeCommon"); f != nil {
			var ds []ssa.Instruction
			for _, st := range eng.Stores(f, `^req\.ClientToken$`) {
				if call, ok := st.Val.(*ssa.Call); ok && len(call.Call.Args) == 2 {
					if ok, _, _ := eng.OriginsMatch(call.Call.Args[1], `^call:salt\.\(\*Salt\)\.SaltID$`); ok {
						ds = append(ds, st)
					}
				}
			}
			c.Clause("R2", "C04.9")
			if c.Floor(f, "stores of the double-salted cubbyhole key", len(ds), 1) {
				c.Cut(f, "router: cubbyhole keyed by the double-salted token", ds, eng.G(f, `TokenEntry\(\)\.NamespaceID == "`+regexp.QuoteMeta(rootNS)+`"$`, true), nil)
				for _, p := range []string{svcP, legP} {
					c.Cut(f, "router: cubbyhole keyed by the double-salted token", ds, eng.GD(f, `^strings\.HasPrefix\(req\.ClientToken, "`+regexp.QuoteMeta(p)+`"\)$`, false), nil)
				}
			}
		}
		if f := c.Fn("vault.IsServiceToken"); f != nil {
			c.Clause("R12", "C04.9")
			for _, p := range []string{svcP, legP} {
				n := 0
				for _, hp := range eng.Calls(f, `^strings\.HasPrefix$`) {
					if k, ok := hp.Common().Args[1].(*ssa.Const); ok && eng.Expr(k) == `"`+p+`"` {
						n++
					}
				}
				site := "const{IsServiceToken tests prefix " + p + "}"
				if n > 0 {
					c.OK(f, site, f.Pos(), "prefix tested")
				} else {
					c.Violation(f, site, f.Pos(), "IsServiceToken no longer recognises the prefix "+p+" the router keys cubbyholes by: router and cubbyhole destroyer disagree on the storage key", nil)
				}
			}
		}
	}
	if f := c.Fn("vault.(*CubbyholeBackend).revoke"); f != nil {
		cvs := eng.Calls(f, `^logical\.ClearView$`)
		succ := eng.SuccessReturns(f, 0)
		if c.Floor(f, "ClearView call", len(cvs), 1) && c.Floor(f, "nil-capable returns", len(succ), 1) {
			c.Clause("R3", "C04.9")
			c.Before(f, "logical.ClearView", instrsOf(cvs), "nil-capable return", succ)
			for _, cv := range cvs {
				c.Clause("R4", "C04.9")
				fe := eng.CallFailEdges(cv)
				site := "on{ClearView failed} no nil return"
				if len(fe) == 0 {
					c.Violation(f, site, cv.Pos(), "the error of logical.ClearView is never tested: a cubbyhole that could not be cleared is reported destroyed", nil)
				} else if h := eng.Reach(eng.Query{Fn: f, StartEdges: fe, Target: eng.IsTarget(succ)}); h != nil {
					c.Violation(f, site, h.Instr.Pos(), "a nil-capable return is reachable from the failure edge of logical.ClearView", h.Witness)
				} else {
					c.OK(f, site, cv.Pos(), "a failed ClearView is returned to revokeInternal")
				}
				c.Clause("R5", "C04.9")
				for _, sv := range eng.Calls(f, `^<barrier\.View>\.SubView$`) {
					a := sv.Common().Args
					c.Prov(f, "prefix cleared", sv, a[len(a)-1], `^param:saltedToken$`, `^const:"/"$`)
				}
			}
		}
	}

	// ---- C04.10 storeCommon: the parent index lives in the PARENT's namespace under the parent's salt
	if f := c.Fn("vault.(*TokenStore).storeCommon"); f != nil {
		parentNS := `^ByID\(vault\.\(\*TokenStore\)\.Lookup\(\)#0\.NamespaceID\)$`
		n := 0
		for _, p := range eng.Calls(f, `^<barrier\.View>\.Put$`) {
			arg := g2ViewArg(p, `vault\.\(\*TokenStore\)\.parentView$`)
			if arg == nil {
				continue
			}
			n++
			c.Clause("R5", "C04.10")
			g2All(c, f, "namespace of the parent-index view written by storeCommon", p, g2NsOrigins(arg), "parentView(ns)", parentNS)
		}
		c.Floor(f, "parentView(...).Put", n, 1)
		n = 0
		for _, s := range eng.Calls(f, `vault\.\(\*TokenStore\)\.SaltID$`) {
			a := s.Common().Args
			if eng.Expr(a[2]) != "entry.Parent" {
				continue
			}
			n++
			c.Clause("R5", "C04.10")
			g2All(c, f, "context the parent id is salted in", s, g2CtxOrigins(a[1]), "SaltID(ctx, entry.Parent)", `^ctxNS\{ByID\(vault\.\(\*TokenStore\)\.Lookup\(\)#0\.NamespaceID\)\}$`)
		}
		c.Floor(f, "SaltID(entry.Parent)", n, 1)
		for _, st := range eng.Stores(f, `\.Key$`) {
			if ok, _, _ := eng.OriginsMatch(st.Val, `^call:vault\.\(\*TokenStore\)\.SaltID#0$`); ok {
				continue // primary key
			}
			c.Clause("R5", "C04.10")
			c.Prov(f, "parent-index key", st, st.Val, `^call:vault\.\(\*TokenStore\)\.SaltID#0$`, `^const:"/"$`, `^call:fmt\.Sprintf$`)
		}
	}

	// ---- C04.11 token creation always writes the parent index; only store/create reach storeCommon
	if f := c.Fn("vault.(*TokenStore).create"); f != nil {
		scs := eng.Calls(f, `vault\.\(\*TokenStore\)\.storeCommon$`)
		c.Floor(f, "storeCommon call", len(scs), 1)
		for _, sc := range scs {
			c.Clause("R12", "C04.11")
			a := sc.Common().Args
			if eng.Expr(a[3]) == "true" {
				c.OK(f, "const{storeCommon(entry, writeSecondary=true)}", sc.Pos(), "a created token is always linked under its parent")
			} else {
				c.Violation(f, "const{storeCommon(entry, writeSecondary=true)}", sc.Pos(), "create persists a token with writeSecondary="+eng.Expr(a[3])+": a child written without its parent-index entry escapes the revocation chain", nil)
			}
		}
	}
	c.Clause("R1", "C04.11")
	c.CallerTable("TokenStore.storeCommon", c.P.FindCalls(mustStatic(c, "vault.(*TokenStore).storeCommon"), nil), map[string]string{
		"vault.(*TokenStore).create": "creation: writes the parent index",
		"vault.(*TokenStore).store":  "update of an existing entry",
	}, 2)

	// ---- C04.12 token -> lease index: writer and reader agree on view, salt and value; read errors abort
	tokNSIn := `ByID\(namespace\.SplitIDFromString\(\)#1\)`
	rootGIn := `global:namespace\.RootNamespace`
	tokNS, rootG := `^`+tokNSIn+`$`, `^`+rootGIn+`$`
	if f := c.Fn("vault.(*ExpirationManager).createIndexByToken"); f != nil {
		puts := eng.Calls(f, `^<barrier\.View>\.Put$`)
		c.Floor(f, "index Put", len(puts), 1)
		for _, p := range puts {
			c.Clause("R5", "C04.12")
			if arg := g2ViewArg(p, `vault\.\(\*ExpirationManager\)\.tokenIndexView$`); arg == nil {
				c.Violation(f, "view of the token->lease index entry", p.Pos(), "the index entry is not written through tokenIndexView(ns)", nil)
			} else {
				g2All(c, f, "namespace of the token->lease index entry", p, g2NsOrigins(arg), "tokenIndexView(ns)", tokNS, rootG)
			}
		}
		for _, st := range eng.Stores(f, `\.Value$`) {
			c.Clause("R5", "C04.12")
			c.Prov(f, "value of the token->lease index entry", st, st.Val, `^field:le\.LeaseID$`)
		}
		for _, st := range eng.Stores(f, `\.Key$`) {
			c.Clause("R5", "C04.12")
			c.Prov(f, "key of the token->lease index entry", st, st.Val, `^call:vault\.\(\*TokenStore\)\.SaltID#0$`, `^const:"/"$`)
		}
		for _, s := range eng.Calls(f, `vault\.\(\*TokenStore\)\.SaltID$`) {
			c.Clause("R5", "C04.12")
			g2All(c, f, "context the index key is salted in", s, g2CtxOrigins(s.Common().Args[1]), "SaltID(ctx, ...)", `^ctxNS\{`+tokNSIn+`\}$`, `^ctxNS\{`+rootGIn+`\}$`)
		}
	}
	if f := c.Fn("vault.(*ExpirationManager).lookupLeasesByToken"); f != nil {
		teNS := `^ByID\(te\.NamespaceID\)$`
		reads := eng.Calls(f, `^<barrier\.View>\.(List|Get)$`)
		c.Floor(f, "index reads", len(reads), 2)
		for _, r := range reads {
			c.Clause("R5", "C04.12")
			if arg := g2ViewArg(r, `vault\.\(\*ExpirationManager\)\.tokenIndexView$`); arg == nil {
				c.Violation(f, "view the token's leases are read from", r.Pos(), "a lease-index read does not go through tokenIndexView(ns)", nil)
			} else {
				g2All(c, f, "namespace the token's leases are read from", r, g2NsOrigins(arg), "tokenIndexView(ns)", teNS, rootG)
			}
			c.Clause("R4", "C04.12")
			fe := eng.CallFailEdges(r)
			if len(fe) == 0 {
				c.Violation(f, "index read failed", r.Pos(), "the error of "+eng.CalleeName(r.Common())+" is never tested: leases behind an unreadable index entry are silently skipped", nil)
			} else {
				c.NilResultOnEdges(f, "index read ("+eng.CalleeName(r.Common())+") failed", fe, 0, "lease list")
			}
		}
		for _, s := range eng.Calls(f, `vault\.\(\*TokenStore\)\.SaltID$`) {
			c.Clause("R5", "C04.12")
			c.Prov(f, "token the lease index is listed for", s, s.Common().Args[2], `^field:te\.ID$`)
			g2All(c, f, "context the token is salted in", s, g2CtxOrigins(s.Common().Args[1]), "SaltID(ctx, te.ID)", `^ctxNS\{ByID\(te\.NamespaceID\)\}$`)
		}
	}

	// ---- C04.13 a lease is reported revoked only if its revocation handler (for an auth lease: the tree
	// revocation) succeeded, unless force was requested; Revoke never forces and never skips the token
	if f := c.Fn("vault.(*ExpirationManager).revokeCommon"); f != nil {
		res := eng.Calls(f, `vault\.\(\*ExpirationManager\)\.revokeEntry$`)
		succ := eng.SuccessReturns(f, 0)
		if c.Floor(f, "revokeEntry call", len(res), 1) && c.Floor(f, "nil-capable returns", len(succ), 1) {
			for _, re := range res {
				c.Clause("R4", "C04.13")
				fe := eng.CallFailEdges(re)
				site := "on{revokeEntry failed} success only under force"
				if len(fe) == 0 {
					c.Violation(f, site, re.Pos(), "the error of revokeEntry is never tested", nil)
				} else if h := eng.Reach(eng.Query{Fn: f, StartEdges: fe, Blocked: eng.CondEdges(f, `^force$`, true), Target: eng.IsTarget(succ)}); h != nil {
					c.Violation(f, site, h.Instr.Pos(), "revokeCommon can report a lease revoked (and delete it) after revokeEntry failed without force: for an auth lease the token tree is still alive", h.Witness)
				} else {
					c.OK(f, site, re.Pos(), "a failed revokeEntry reaches a nil return only across force == true")
				}
			}
		}
	}
	for _, w := range []struct{ fn, what string }{
		{"vault.(*ExpirationManager).Revoke", "expiration.Revoke"},
	} {
		if f := c.Fn(w.fn); f != nil {
			rcs := eng.Calls(f, `vault\.\(\*ExpirationManager\)\.revokeCommon$`)
			c.Floor(f, "revokeCommon call", len(rcs), 1)
			for _, rc := range rcs {
				c.Clause("R12", "C04.13")
				a := rc.Common().Args
				site := "const{revokeCommon(leaseID, force=false, skipToken=false)}"
				if eng.Expr(a[3]) == "false" && eng.Expr(a[4]) == "false" {
					c.OK(f, site, rc.Pos(), w.what+" neither forces nor skips the token")
				} else {
					c.Violation(f, site, rc.Pos(), w.what+" calls revokeCommon with force="+eng.Expr(a[3])+" skipToken="+eng.Expr(a[4]), nil)
				}
			}
		}
	}

	// ---- C04.14 revokeTree / revokeOrphan: success only through the walk / revokeInternal, on the salted id
	for _, w := range []struct{ fn, callee, idPat string }{
		{"vault.(*TokenStore).revokeTree", `vault\.\(\*TokenStore\)\.revokeTreeInternal$`, `^field:le\.ClientToken$`},
		{"vault.(*TokenStore).revokeOrphan", `vault\.\(\*TokenStore\)\.revokeInternal$`, `^param:id$`},
	} {
		f := c.Fn(w.fn)
		if f == nil {
			continue
		}
		calls := eng.Calls(f, w.callee)
		succ := eng.SuccessReturns(f, 0)
		if !c.Floor(f, "revocation call", len(calls), 1) || !c.Floor(f, "nil-capable returns", len(succ), 1) {
			continue
		}
		c.Clause("R3", "C04.14")
		c.Before(f, "the revocation call", instrsOf(calls), "nil-capable return", succ)
		for _, cl := range calls {
			c.Clause("R5", "C04.14")
			c.Prov(f, "id revoked", cl, cl.Common().Args[2], `^call:vault\.\(\*TokenStore\)\.SaltID#0$`)
		}
		for _, s := range eng.Calls(f, `vault\.\(\*TokenStore\)\.SaltID$`) {
			c.Clause("R5", "C04.14")
			c.Prov(f, "token salted", s, s.Common().Args[2], w.idPat)
		}
	}

	runC04Gaps3(c, rootNS)

	// ---- C04.15 sys/leases/revoke answers without an error only across a successful (lazy) revocation
	if f := c.Fn("vault.(*SystemBackend).handleRevoke"); f != nil {
		var sinks []ssa.Instruction
		for _, r := range eng.Returns(f) {
			if len(r.Results) != 2 {
				continue
			}
			if ok, _, _ := eng.OriginsMatch(r.Results[0], `^const:nil$`, `^call:logical\.RespondWithStatusCode#0$`); ok {
				if ok2, _, _ := eng.OriginsMatch(r.Results[1], `^const:nil$`, `^call:logical\.RespondWithStatusCode#1$`); ok2 {
					sinks = append(sinks, r)
				}
			}
		}
		c.Clause("R2", "C04.15")
		if c.Floor(f, "error-free answers", len(sinks), 2) {
			c.Cut(f, "error-free answer of sys/leases/revoke", sinks, eng.Or(
				eng.GCallOK(f, `vault\.\(\*ExpirationManager\)\.Revoke$`),
				eng.GCallOK(f, `vault\.\(\*ExpirationManager\)\.LazyRevoke$`)), nil)
		}
	}
}

// g2NotRootEdges: the edges of f on which "<ns>.ID != RootNamespaceID" holds, for
// namespaces <ns> whose origins all match wantNS (rendered by g2NsOrigins).
func g2NotRootEdges(f *ssa.Function, rootNS, wantNS string) []eng.Edge {
	re := regexp.MustCompile(`\.ID == "` + regexp.QuoteMeta(rootNS) + `"$`)
	want := regexp.MustCompile(wantNS)
	var out []eng.Edge
	for _, b := range f.Blocks {
		ifi := eng.IfOf(b)
		if ifi == nil {
			continue
		}
		nc := eng.Normalize(ifi.Cond)
		bo, ok := nc.Val.(*ssa.BinOp)
		if !ok || !nc.Matches(re) {
			continue
		}
		good := false
		for _, op := range []ssa.Value{bo.X, bo.Y} {
			ld, ok := op.(*ssa.UnOp)
			if !ok {
				continue
			}
			fa, ok := ld.X.(*ssa.FieldAddr)
			if !ok {
				continue
			}
			ds := g2NsOrigins(fa.X)
			good = len(ds) > 0
			for _, d := range ds {
				if !want.MatchString(d) {
					good = false
				}
			}
		}
		if !good {
			continue
		}
		if nc.Pol == false {
			out = append(out, eng.Edge{From: b, Succ: 0})
		} else {
			out = append(out, eng.Edge{From: b, Succ: 1})
		}
	}
	return out
}

// g2Nested: fn and every function literal nested in it.
func g2Nested(fn *ssa.Function) []*ssa.Function {
	out := []*ssa.Function{fn}
	for _, a := range fn.AnonFuncs {
		out = append(out, g2Nested(a)...)
	}
	return out
}

// g2KeySprintfs: the fmt.Sprintf calls whose result flows into v.
func g2KeySprintfs(v ssa.Value) []ssa.Instruction {
	var out []ssa.Instruction
	for _, o := range eng.Origins(v) {
		if o.Kind == "call" && o.Desc == "fmt.Sprintf" {
			if call, ok := o.Val.(*ssa.Call); ok {
				out = append(out, call)
			}
		}
	}
	return out
}

// runC04Gaps3: clauses added after the gap round — the two repaired defects
// (C04.16 lease namespace in RevokeByToken, C04.17 child namespace in token tidy)
// and the writer/reader agreement on the parent-index key (C04.18, seed C04-c).
func runC04Gaps3(c *eng.Ctx, rootNS string) {
	// ---- C04.16 RevokeByToken expires every lease in the namespace the lease id names
	if f := c.Fn("vault.(*ExpirationManager).RevokeByToken"); f != nil {
		lzs := eng.Calls(f, `vault\.\(\*ExpirationManager\)\.lazyRevokeInternal$`)
		for _, lz := range lzs {
			c.Clause("R5", "C04.16")
			a := lz.Common().Args
			site := "context of lazyRevokeInternal = the lease's own namespace"
			ok, why := true, ""
			os := eng.Origins(a[1])
			if len(os) == 0 {
				ok, why = false, "no origin"
			}
			for _, o := range os {
				call, isCall := o.Val.(*ssa.Call)
				if o.Kind != "call" || !strings.HasSuffix(o.Desc, "namespace.ContextWithNamespace") || !isCall || len(call.Call.Args) != 2 {
					ok, why = false, o.Kind+":"+o.Desc
					continue
				}
				// the namespace is resolved from the very lease id handed on
				for _, n := range eng.Origins(call.Call.Args[1]) {
					ex, isEx := n.Val.(*ssa.Extract)
					var res *ssa.Call
					if isEx {
						res, _ = ex.Tuple.(*ssa.Call)
					}
					switch {
					case res != nil && n.Kind == "call" && strings.HasSuffix(n.Desc, "vault.(*ExpirationManager).getNamespaceFromLeaseID#0"):
						ra := res.Call.Args
						if ra[len(ra)-1] != a[2] {
							ok, why = false, "namespace of another id: "+eng.Expr(ra[len(ra)-1])
						}
					case res != nil && n.Kind == "call" && strings.HasSuffix(n.Desc, "vault.(*Core).NamespaceByID#0"):
						ra := res.Call.Args
						if m, _, _ := eng.OriginsMatch(ra[len(ra)-1], `^call:namespace\.SplitIDFromString#1$`); !m {
							ok, why = false, "NamespaceByID("+eng.Expr(ra[len(ra)-1])+")"
						}
					case n.Kind == "global" && n.Desc == "namespace.RootNamespace":
					default:
						ok, why = false, "namespace from "+n.Kind+":"+n.Desc
					}
				}
			}
			if ok {
				c.OK(f, site, lz.Pos(), eng.ExprDeep(a[1]))
			} else {
				c.Violation(f, site, lz.Pos(), "RevokeByToken hands "+eng.Expr(a[1])+" ("+why+") to lazyRevokeInternal: loadEntry reads leaseView(namespace of the context), so a lease issued in a child namespace under a parent-namespace token is not found, nil is returned and the lease outlives the token", nil)
			}
		}
	}

	// ---- C04.19 a token-addressed request (auth/token/{lookup,renew,revoke,revoke-orphan}) is switched into
	// the namespace named by the DECODED token: the id whose ".nsid" suffix is split off is the result of
	// the SSC decoding whenever the body token is an SSC token (the opaque form carries no suffix) — seed C04-d
	if f := c.Fn("vault.(*Core).handleCancelableRequest"); f != nil {
		decoded := `^call:vault\.\(\*Core\)\.(CheckSSCToken|DecodeSSCToken|checkSSCTokenInternal)#0$`
		isTokenOrigin := func(o eng.Origin) bool {
			if o.Kind == "call" && regexp.MustCompile(decoded).MatchString(o.Kind+":"+o.Desc) {
				return true
			}
			// the raw body token: read out of the request's data map
			for _, r := range eng.Roots(o.Val, nil) {
				if ex, ok := r.(*ssa.Extract); ok {
					if ta, ok := ex.Tuple.(*ssa.TypeAssert); ok {
						for _, rr := range eng.Roots(ta.X, nil) {
							if e2, ok := rr.(*ssa.Extract); ok {
								if lk, ok := e2.Tuple.(*ssa.Lookup); ok {
									if k, ok := lk.Index.(*ssa.Const); ok && eng.Expr(k) == `"token"` {
										return true
									}
								}
							}
						}
					}
				}
			}
			return false
		}
		fe := eng.Feasible(f, map[string]bool{`^vault\.IsSSCToken\(\)$`: true})
		n := 0
		for _, sp := range eng.Calls(f, `^namespace\.SplitIDFromString$`) {
			op := sp.Common().Args[0]
			tokenSite := false
			for _, o := range eng.Origins(op) {
				if isTokenOrigin(o) {
					tokenSite = true
				}
			}
			if !tokenSite {
				continue // lease-addressed paths
			}
			n++
			c.Clause("R5", "C04.19")
			site := "namespace of a token-addressed request derived from the decoded token"
			if len(eng.CondEdges(f, `^vault\.IsSSCToken\(\)$`, true)) == 0 {
				c.Undecided(f, site, sp.Pos(), "no branch tests IsSSCToken: the SSC case cannot be told from the plain case")
				continue
			}
			bad := ""
			roots := eng.Roots(op, fe)
			for _, r := range roots {
				if ok, b, _ := eng.OriginsMatch(r, decoded); !ok {
					bad = b
				}
			}
			switch {
			case len(roots) == 0:
				c.Undecided(f, site, sp.Pos(), "the operand of SplitIDFromString has no root under IsSSCToken == true")
			case bad != "":
				c.Violation(f, site, sp.Pos(), "for an SSC body token the namespace suffix is split off "+eng.Expr(op)+" (root "+bad+"), not off the decoded id: the opaque hvs.<base64> form carries no suffix, the request stays in the caller's namespace, revoke-orphan salts the id there, finds no entry and reports success with the token alive", nil)
			default:
				c.OK(f, site, sp.Pos(), "under IsSSCToken == true the operand is read out of the SSC decoding only: "+eng.Expr(op))
			}
		}
		c.Floor(f, "token-addressed namespace switches", n, 1)
	}

	// ---- C04.17 token tidy removes a parent-index entry only after a successful lookup of the child
	// in the namespace the key names (and of the parent)
	nsOfKey := `^ctxNS\{ByID\(namespace\.SplitIDFromString\(\)#1\)\}$`
	if top := c.Fn("vault.(*TokenStore).handleTidy"); top != nil {
		n := 0
		for _, f := range g2Nested(top) {
			var dels []ssa.Instruction
			for _, d := range eng.Calls(f, `^<barrier\.View>\.Delete$`) {
				if g2ViewArg(d, `vault\.\(\*TokenStore\)\.parentView$`) != nil {
					dels = append(dels, d)
				}
			}
			if len(dels) == 0 {
				continue
			}
			n += len(dels)
			var childLk, parentLk []ssa.CallInstruction
			for _, l := range eng.Calls(f, `vault\.\(\*TokenStore\)\.lookupInternal$`) {
				a := l.Common().Args
				if eng.Expr(a[3]) != "true" {
					continue // by plain id (accessor pass)
				}
				if ok, _, _ := eng.OriginsMatch(a[2], `^call:strings\.TrimSuffix$`); ok {
					parentLk = append(parentLk, l)
				} else {
					childLk = append(childLk, l)
				}
			}
			if !c.Floor(f, "lookups of the listed children", len(childLk), 1) || !c.Floor(f, "lookup of the parent", len(parentLk), 1) {
				continue
			}
			for _, l := range childLk {
				a := l.Common().Args
				c.Clause("R5", "C04.17")
				c.Prov(f, "child id looked up by tidy", l, a[2], `^call:namespace\.SplitIDFromString#0$`)
				ds := g2CtxOrigins(a[1])
				has := false
				for _, d := range ds {
					if regexp.MustCompile(nsOfKey).MatchString(d) {
						has = true
					}
				}
				if !has {
					c.Violation(f, "context of the child lookup = namespace named by the index key", l.Pos(), "tidy looks a listed child up in "+strings.Join(ds, " | ")+" only: the index key of a child outside the root namespace is <salted>.<nsID> while the entry is stored under <salted> in that namespace, so every such child is 'not found' and its parent-index entry is deleted although the token is alive", nil)
				} else {
					g2All(c, f, "context of the child lookup = namespace named by the index key", l, ds, "lookupInternal(ctx, child)", nsOfKey, `^ctxNS\{freevar:ns\}$`)
				}
			}
			c.Clause("R2", "C04.17")
			cg := eng.Guard{Desc: "success edge of the child lookup"}
			for _, l := range childLk {
				cg.Edges = append(cg.Edges, eng.CallOKEdges(l)...)
			}
			pg := eng.Guard{Desc: "success edge of the parent lookup"}
			for _, l := range parentLk {
				pg.Edges = append(pg.Edges, eng.CallOKEdges(l)...)
			}
			c.Cut(f, "tidy: delete of a parent-index entry", dels, cg, nil)
			c.Cut(f, "tidy: delete of a parent-index entry", dels, pg, nil)
		}
		c.Floor(top, "parent-index deletes in token tidy", n, 1)
	}

	// ---- C04.18 writer/reader agreement on the parent-index key "<parent>/<child>[.<nsID>]"
	// writers (storeCommon; revokeInternal recomputes the key to delete it): the suffix is appended
	// exactly when the token's own namespace is not the root namespace
	for _, w := range []struct{ fn, tokNS, op string }{
		{"vault.(*TokenStore).storeCommon", `^ByID\(entry\.NamespaceID\)$`, "Put"},
		{"vault.(*TokenStore).revokeInternal", `^ByID\(vault\.\(\*TokenStore\)\.lookupInternal\(\)#0\.NamespaceID\)$`, "Delete"},
	} {
		f := c.Fn(w.fn)
		if f == nil {
			continue
		}
		notRoot := g2NotRootEdges(f, rootNS, w.tokNS)
		var sps, ops []ssa.Instruction
		for _, op := range eng.Calls(f, `^<barrier\.View>\.`+w.op+`$`) {
			if g2ViewArg(op, `vault\.\(\*TokenStore\)\.parentView$`) == nil {
				continue
			}
			var key ssa.Value
			if w.op == "Put" {
				a := op.Common().Args
				for _, kv := range eng.StructLitField(a[len(a)-1], "Key") {
					key = kv
				}
			} else {
				a := op.Common().Args
				key = a[len(a)-1]
			}
			if key == nil {
				continue
			}
			if s := g2KeySprintfs(key); len(s) > 0 {
				sps = append(sps, s...)
				ops = append(ops, op)
			}
		}
		c.Clause("R2", "C04.18")
		if !c.Floor(f, "parent-index "+w.op+" with a suffixed key", len(ops), 1) {
			continue
		}
		site := "suffix of the parent-index key appended exactly when the token's namespace is not root"
		if len(notRoot) == 0 {
			c.Violation(f, site, sps[0].Pos(), "no branch tests <token namespace>.ID != RootNamespaceID: the readers of the parent index (tree walk, orphaning loop, tidy) take a key without suffix to name a root-namespace token, so the writer must suffix every other token", nil)
			continue
		}
		c.Cut(f, "namespace suffix of the parent-index key", sps, eng.Guard{Desc: "[token namespace != root]", Edges: notRoot}, nil)
		if h := eng.Reach(eng.Query{Fn: f, StartEdges: notRoot, Barriers: sps, Target: eng.IsTarget(ops)}); h != nil {
			c.Violation(f, site, h.Instr.Pos(), "a token outside the root namespace can be indexed under a key without its namespace suffix", h.Witness)
		} else {
			c.OK(f, site, sps[0].Pos(), "every path from the not-root edge to the index "+w.op+" passes the suffixing")
		}
	}
	// readers: whoever splits an index key looks the id part up in the namespace named by the suffix;
	// without suffix the reader's own (tabled) context applies, which the writer rule makes the root namespace
	// (token tidy, the third reader, is held to the same condition by C04.17)
	for _, r := range []struct{ fn, def string }{
		{"vault.(*TokenStore).revokeTreeInternal", `^param:ctx$`},
		{"vault.(*TokenStore).revokeInternal", `^ctxNS\{ByID\(vault\.\(\*TokenStore\)\.lookupInternal\(\)#0\.NamespaceID\)\}$`},
	} {
		top := c.Fn(r.fn)
		if top == nil {
			continue
		}
		n := 0
		for _, f := range g2Nested(top) {
			for _, l := range eng.Calls(f, `vault\.\(\*TokenStore\)\.(lookupInternal|revokeInternal)$`) {
				a := l.Common().Args
				if ok, _, _ := eng.OriginsMatch(a[2], `^call:namespace\.SplitIDFromString#0$`); !ok {
					continue
				}
				n++
				c.Clause("R5", "C04.18")
				ds := g2CtxOrigins(a[1])
				has := false
				for _, d := range ds {
					if regexp.MustCompile(nsOfKey).MatchString(d) {
						has = true
					}
				}
				site := "reader of the parent index: id part looked up in the namespace the suffix names"
				if !has {
					c.Violation(f, site, l.Pos(), eng.CalleeName(l.Common())+" receives "+strings.Join(ds, " | ")+": the namespace suffix split off the index key is not used", nil)
				} else {
					g2All(c, f, site, l, ds, "context", nsOfKey, r.def)
				}
			}
		}
		c.Floor(top, "lookups keyed by a split index key", n, 1)
	}
}
