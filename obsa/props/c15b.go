package props

import (
	"go/constant"
	"go/token"
	"regexp"
	"strings"

	"golang.org/x/tools/go/ssa"

	"obsa/eng"
)

// ---- C15.3 generateCreationBundle honours every validator's verdict
func c15Bundle(c *eng.Ctx) {
	f := c.Fn("pki.generateCreationBundle")
	if f == nil {
		return
	}
	c.Clause("R2", "C15.3")
	sinks := eng.NonNilResultReturns(f, 0)
	if !c.Floor(f, "returns of a bundle", len(sinks), 1) {
		return
	}
	ps := c15allocs(f, "certutil.CreationParameters")
	if !c.Floor(f, "CreationParameters literal", len(ps), 1) {
		return
	}
	P := ps[0]
	one := func(fld string) ssa.Value {
		vs := eng.StructLitField(P, fld)
		if len(vs) != 1 {
			c.Undecided(f, "bundle field "+fld, token.NoPos, "the CreationParameters literal does not set "+fld+" exactly once")
			return nil
		}
		return vs[0]
	}
	refuse := func(desc string, edges []eng.Edge) {
		c.Clause("R4", "C15.3")
		c.NilResultOnEdges(f, desc, edges, 0, "bundle")
		c.Clause("R2", "C15.3")
	}
	// guardedCall: the call validating `arg` (argument index ai) is honoured: the bundle return
	// crosses its accepting edge, or the edge that skips the call because the value is empty.
	guardedCall := func(what, callee string, ai int, arg ssa.Value, mayskip bool) {
		var call *ssa.Call
		for _, cl := range eng.Calls(f, callee) {
			if cv, ok := cl.(*ssa.Call); ok && cv.Call.Args[ai] == arg {
				call = cv
			}
		}
		site := "validated{" + what + "}"
		if call == nil {
			c.Violation(f, site, f.Pos(), "no call of "+callee+" receives the value that is stored into the bundle as "+what, nil)
			return
		}
		okE := c15emptyEdges(f, call, true)
		badE := c15emptyEdges(f, call, false)
		if len(okE) == 0 {
			c.Violation(f, site, call.Pos(), "the result of "+callee+" is not tested for emptiness", nil)
			return
		}
		g := eng.Guard{Desc: "accepting edge of " + callee + "(" + what + ")", Edges: okE}
		if !mayskip {
			g.Pass = []ssa.Instruction{call}
		} else {
			ifi, si := c15ctrl(call.Block())
			if ifi == nil {
				c.Violation(f, site, call.Pos(), callee+" is not directly controlled by the emptiness test of "+what, nil)
				return
			}
			// the call must sit on the non-empty side of a test of the very value
			skip := eng.Edge{From: ifi.Block(), Succ: 1 - si}
			isEmpty := false
			for _, e := range c15emptyEdges(f, arg, true) {
				if e == skip {
					isEmpty = true
				}
			}
			if !isEmpty {
				c.Violation(f, site, call.Pos(), callee+" is skipped under ["+eng.Normalize(ifi.Cond).Base+"], expected only for an empty "+what, nil)
				return
			}
			g.Edges = append(g.Edges, skip)
			g.Desc += " OR " + what + " empty"
		}
		c.Cut(f, "return of a bundle", sinks, g, nil)
		refuse(callee+" rejects "+what, badE)
	}

	var subj *ssa.Alloc
	if sv := one("Subject"); sv != nil {
		if ld, ok := sv.(*ssa.UnOp); ok {
			subj, _ = ld.X.(*ssa.Alloc)
		}
	}
	if subj == nil {
		c.Undecided(f, "bundle field Subject", token.NoPos, "Params.Subject is not a copy of a locally built pkix.Name")
	} else {
		if cn := eng.StructLitField(subj, "CommonName"); len(cn) == 1 {
			guardedCall("common name", `^pki\.validateCommonName$`, 2, cn[0], true)
		} else {
			c.Undecided(f, "bundle field Subject.CommonName", token.NoPos, "not set exactly once")
		}
		if sn := eng.StructLitField(subj, "SerialNumber"); len(sn) == 1 {
			guardedCall("subject serial number", `^pki\.validateSerialNumber$`, 1, sn[0], true)
		} else {
			c.Undecided(f, "bundle field Subject.SerialNumber", token.NoPos, "not set exactly once")
		}
		// the remaining subject attributes are the role's
		c.Clause("R5", "C15.3")
		attrs := map[string]string{"Country": "Country", "Organization": "Organization", "OrganizationalUnit": "OU", "Locality": "Locality", "Province": "Province", "StreetAddress": "StreetAddress", "PostalCode": "PostalCode"}
		na, badAttr := 0, false
		for fld, rf := range attrs {
			for _, v := range eng.StructLitField(subj, fld) {
				na++
				s := eng.ExprDeep(v)
				if !regexp.MustCompile(`^github\.com/hashicorp/go-secure-stdlib/strutil\.RemoveDuplicatesStable\(data\.role\.` + rf + `, false\)$`).MatchString(s) {
					badAttr = true
					c.Violation(f, "prov{Subject."+fld+"}", v.Pos(), "subject attribute "+fld+" is not the role's: "+s, nil)
				}
			}
		}
		if !badAttr && c.Floor(f, "subject attributes set from the role", na, 7) {
			c.OK(f, "prov{Subject attributes}", subj.Pos(), "Country, Organization, OU, Locality, Province, StreetAddress, PostalCode = dedup(data.role.<attr>)")
		}
		// user IDs appended to the subject are validated
		c.Clause("R2", "C15.3")
		extra := instrsOf(eng.Stores(f, `^&subject\.ExtraNames$|\.ExtraNames$`))
		if c.Floor(f, "stores into Subject.ExtraNames", len(extra), 1) {
			g := eng.G(f, `^pki\.validateUserId\(\)$`, true)
			c.Cut(f, "append of a user ID to the subject", extra, g, nil)
			refuse("validateUserId rejects a user ID", eng.CondEdges(f, `^pki\.validateUserId\(\)$`, false))
		}
	}
	c.Clause("R2", "C15.3")
	// DNS / e-mail SANs: the list stored in the bundle is the list that was validated
	for _, h := range []struct{ fld, dedup string }{{"DNSNames", `RemoveDuplicatesStable$`}, {"EmailAddresses", `RemoveDuplicates$`}} {
		v := one(h.fld)
		if v == nil {
			continue
		}
		dc, ok := v.(*ssa.Call)
		if !ok || !regexp.MustCompile(h.dedup).MatchString(eng.CalleeName(&dc.Call)) {
			c.Violation(f, "validated{"+h.fld+"}", v.Pos(), "Params."+h.fld+" is not the de-duplicated validated list: "+eng.ExprDeep(v), nil)
			continue
		}
		guardedCall(h.fld, `^pki\.validateNames$`, 2, dc.Call.Args[0], false)
	}
	// other SANs
	if ov := one("OtherSANs"); ov != nil {
		var vcalls []*ssa.Call
		for _, l := range c15phiLeaves(ov) {
			if eng.IsNilConst(l) {
				continue
			}
			ex, ok := l.(*ssa.Extract)
			found := false
			if ok {
				for _, vc := range eng.Calls(f, `^pki\.validateOtherSANs$`) {
					if vc.Common().Args[1] == ssa.Value(ex) {
						found = true
						vcalls = append(vcalls, vc.(*ssa.Call))
					}
				}
			}
			if !found {
				c.Violation(f, "validated{OtherSANs}", l.Pos(), "Params.OtherSANs may carry "+eng.ExprDeep(l)+", which is not the map given to validateOtherSANs", nil)
			}
		}
		if c.Floor(f, "validateOtherSANs on the stored map", len(vcalls), 1) {
			vc := vcalls[0]
			var accept []eng.Edge
			if p, ok := ov.(*ssa.Phi); ok {
				for i, e := range p.Edges {
					if eng.IsNilConst(e) {
						continue
					}
					pb := p.Block().Preds[i]
					for si, s := range pb.Succs {
						if s == p.Block() {
							accept = append(accept, eng.Edge{From: pb, Succ: si})
						}
					}
				}
			}
			if c.Floor(f, "assignment otherSANs = requested", len(accept), 1) {
				type og struct {
					desc    string
					ok, bad []eng.Edge
				}
				gs := []og{{"validateOtherSANs returned no error", eng.CallOKEdges(vc), eng.CallFailEdges(vc)}}
				for i, d := range []string{"validateOtherSANs reported no bad OID", "validateOtherSANs reported no bad value"} {
					rv := eng.ResultValue(vc, i)
					if rv == nil {
						c.Violation(f, "validated{OtherSANs}", vc.Pos(), "result "+d+" of validateOtherSANs is discarded", nil)
						continue
					}
					gs = append(gs, og{d, c15emptyEdges(f, rv, true), c15emptyEdges(f, rv, false)})
				}
				for _, g := range gs {
					c.CutEdges(f, "other SANs accepted into the bundle", accept, eng.Guard{Desc: g.desc, Edges: g.ok})
					refuse("not: "+g.desc, g.bad)
				}
			}
		}
	}
	// IP SANs
	if iv := one("IPAddresses"); iv != nil {
		allow := eng.G(f, `^data\.role\.AllowIPSANs$`, true)
		none := c15emptyEdges(f, iv, true)
		site := "validated{IPAddresses}"
		if len(allow.Edges) == 0 || len(none) == 0 {
			c.Violation(f, site, f.Pos(), "the IP SAN list stored in the bundle is not gated by role.AllowIPSANs / an emptiness test of that list", nil)
		} else {
			c.Cut(f, "return of a bundle", sinks, eng.Or(allow, eng.Guard{Desc: "no IP SAN requested", Edges: none}), nil)
			refuse("IP SANs requested but role.AllowIPSANs is false", eng.CondEdges(f, `^data\.role\.AllowIPSANs$`, false))
		}
		// CIDR restriction: leave the loop over the stored list only at its end
		cf := eng.Calls(f, `^slices\.ContainsFunc\[`)
		if c.Floor(f, "ContainsFunc over AllowedIPSANsCIDR", len(cf), 1) {
			if s := eng.Expr(cf[0].Common().Args[0]); s != "data.role.AllowedIPSANsCIDR" {
				c.Violation(f, "validated{IPAddresses within role CIDRs}", cf[0].Pos(), "membership is tested against "+s, nil)
			}
			var loopExit []eng.Edge
			for _, b := range f.Blocks {
				if ifi := eng.IfOf(b); ifi != nil && b.Comment == "rangeindex.loop" && c15uses(ifi.Cond, iv, 5) {
					loopExit = append(loopExit, eng.Edge{From: b, Succ: 1})
				}
			}
			noCIDR := eng.G(f, `^0 < len\(data\.role\.AllowedIPSANsCIDR\)$`, false)
			if c.Floor(f, "loop over the stored IP list", len(loopExit), 1) {
				c.Cut(f, "return of a bundle", sinks, eng.Or(eng.Guard{Desc: "end of the loop checking every stored IP against the role's CIDRs", Edges: loopExit}, noCIDR, eng.Guard{Desc: "no IP SAN requested", Edges: none}), nil)
			}
			refuse("an IP SAN lies outside the role's CIDRs", eng.BoolEdges(cf[0].(*ssa.Call), false))
		}
	}
	// URI SANs
	if uv := one("URIs"); uv != nil {
		var apps []ssa.Instruction
		vals := eng.Calls(f, `^pki\.validateURISAN$`)
		for _, l := range c15phiLeaves(uv) {
			a, ok := l.(*ssa.Call)
			if !ok || !c15isBuiltin(a, "append") {
				continue
			}
			apps = append(apps, a)
			// a whole slice appended at once: each of its elements must have passed validateURISAN
			// itself, in a loop over that very slice which the append follows (an any-match test over
			// the slice, e.g. slices.ContainsFunc, validates one element and lets the others through)
			if els := c15sliceVals(a.Call.Args[1]); len(els) == 0 {
				c15WholeSliceURIs(c, f, a, vals)
				continue
			}
			// the element appended is the one that was validated
			for _, el := range c15sliceVals(a.Call.Args[1]) {
				okEl := false
				for _, v := range vals {
					arg := v.Common().Args[2]
					if sc, ok := arg.(*ssa.Call); ok && strings.HasSuffix(eng.CalleeName(&sc.Call), "URL).String") && sc.Call.Args[0] == el {
						okEl = true // validateURISAN(uri.String()); append(uri)
					}
					if ex, ok := el.(*ssa.Extract); ok {
						if pc, ok := ex.Tuple.(*ssa.Call); ok && eng.CalleeName(&pc.Call) == "net/url.Parse" && pc.Call.Args[0] == arg {
							okEl = true // validateURISAN(s); append(url.Parse(s))
						}
					}
				}
				c.Clause("R5", "C15.3")
				if okEl {
					c.OK(f, "prov{URI SAN appended}", a.Pos(), "the appended URI is the value given to validateURISAN: "+eng.ExprDeep(el))
				} else {
					c.Violation(f, "prov{URI SAN appended}", a.Pos(), "the appended URI "+eng.ExprDeep(el)+" is not the value given to validateURISAN", nil)
				}
				c.Clause("R2", "C15.3")
			}
		}
		if c.Floor(f, "appends to the URI SAN list", len(apps), 2) && c.Floor(f, "validateURISAN calls", len(vals), 2) {
			var okE, badE []eng.Edge
			for _, v := range vals {
				okE = append(okE, eng.BoolEdges(v.(*ssa.Call), true)...)
				badE = append(badE, eng.BoolEdges(v.(*ssa.Call), false)...)
			}
			c.Cut(f, "append of a URI SAN", apps, eng.Guard{Desc: "validateURISAN() == true", Edges: okE}, nil)
			c.Cut(f, "append of a URI SAN", apps, eng.G(f, `^len\(data\.role\.AllowedURISANs\) == 0$`, false), nil)
			refuse("validateURISAN rejects a URI", badE)
			refuse("URI SANs requested but the role allows none", eng.CondEdges(f, `^len\(data\.role\.AllowedURISANs\) == 0$`, true))
			// an accepted URI is never followed by an append without a fresh validation
			c15unreach(c, f, "on{validateURISAN false} no append", eng.Query{StartEdges: badE, Blocked: okE, Target: eng.IsTarget(apps)}, apps[0].Pos(),
				"after a rejected URI no append is reachable without another accepting validation", "a URI can be appended after validateURISAN rejected it")
		}
	}
	// lifetime
	for _, h := range []struct{ fld, callee string }{{"NotAfter", `pki\.getCertificateNotAfter`}, {"NotBefore", `pki\.getCertificateNotBefore`}} {
		if v := one(h.fld); v != nil {
			c.Clause("R5", "C15.3")
			c15Prov(c, f, "Params."+h.fld, P, v, `^call:`+h.callee+`#0$`)
			c.Clause("R2", "C15.3")
			c.Cut(f, "return of a bundle", sinks, c15GCallOK(f, `^`+h.callee+`$`), nil)
		}
	}
	c.Clause("R5", "C15.3")
	for _, na := range eng.Calls(f, `^pki\.getCertificateNotAfter$`) {
		c15Prov(c, f, "issuer against which NotAfter is bounded", na, na.Common().Args[2], `^param:caSign$`)
	}
	for _, b := range c15allocs(f, "certutil.CreationBundle") {
		for _, v := range eng.StructLitField(b, "SigningBundle") {
			c15Prov(c, f, "bundle.SigningBundle", b, v, `^param:caSign$`)
		}
		for _, v := range eng.StructLitField(b, "Params") {
			if v != ssa.Value(P) {
				c.Violation(f, "bundle.Params", b.Pos(), "the returned bundle's Params is not the validated literal", nil)
			}
		}
	}
	// key type / bits / usages are the role's
	roleFields := map[string]string{
		"KeyType":                       `^data\.role\.KeyType$`,
		"KeyBits":                       `^data\.role\.KeyBits$`,
		"SignatureBits":                 `^data\.role\.SignatureBits$`,
		"KeyUsage":                      `^pki\.parseKeyUsages\(data\.role\.KeyUsage\)$`,
		"ExtKeyUsage":                   `^pki\.parseExtKeyUsages\(data\.role\)$`,
		"ExtKeyUsageOIDs":               `^data\.role\.ExtKeyUsageOIDs$`,
		"PolicyIdentifiers":             `^data\.role\.PolicyIdentifiers$`,
		"BasicConstraintsValidForNonCA": `^data\.role\.BasicConstraintsValidForNonCA$`,
	}
	badRF, nRF := false, 0
	for fld, pat := range roleFields {
		v := one(fld)
		if v == nil {
			badRF = true
			continue
		}
		nRF++
		if s := eng.ExprDeep(v); !regexp.MustCompile(pat).MatchString(s) {
			badRF = true
			c.Violation(f, "prov{Params."+fld+"}", v.Pos(), "Params."+fld+" is not read from the role: "+s, nil)
		}
	}
	if !badRF {
		c.OK(f, "prov{Params key type, bits, usages, policies}", P.Pos(), "KeyType, KeyBits, SignatureBits, KeyUsage, ExtKeyUsage, ExtKeyUsageOIDs, PolicyIdentifiers, BasicConstraintsValidForNonCA are read from data.role")
	}
	// nothing rewrites the validated literal later in the function (except URLs / MaxPathLength from the issuer)
	c.Clause("R6", "C15.3")
	bad := false
	for _, st := range eng.Stores(f, `\.Params\.\w+$`) {
		if fa, ok := st.Addr.(*ssa.FieldAddr); ok {
			if nm := eng.FieldVar(fa).Name(); nm != "URLs" && nm != "MaxPathLength" {
				bad = true
				c.Violation(f, "bundle fields rewritten after the literal", st.Pos(), "Params."+nm+" is rewritten after validation: "+eng.InstrStr(st), nil)
			}
		}
	}
	if !bad {
		c.OK(f, "bundle fields rewritten after the literal", P.Pos(), "only URLs and MaxPathLength (from the issuer) are set after the literal")
	}
}

// c15WholeSliceURIs judges `URIs = append(URIs, S...)`: accepted only if f itself validates every
// element of S (validateURISAN(S[i].String()) inside a range loop over S) and the append lies behind
// the normal end of that loop; rejected elements never reach an append (checked by the caller).
func c15WholeSliceURIs(c *eng.Ctx, f *ssa.Function, app *ssa.Call, vals []ssa.CallInstruction) {
	c.Clause("R5", "C15.3")
	site := "prov{URI SAN appended}"
	S := app.Call.Args[1]
	same := func(a, b ssa.Value) bool {
		return a == b || (a != nil && b != nil && eng.ExprDeep(a) == eng.ExprDeep(b))
	}
	validated := false
	for _, v := range vals {
		sc, ok := v.Common().Args[2].(*ssa.Call)
		if !ok || !strings.HasSuffix(eng.CalleeName(&sc.Call), "URL).String") || len(sc.Call.Args) == 0 {
			continue
		}
		if base, ok := rootIndexBase(sc.Call.Args[0]); ok && same(base, S) {
			validated = true
		}
	}
	if !validated {
		c.Violation(f, site, app.Pos(), "the URI SANs "+eng.ExprDeep(S)+" are appended as a whole slice although its elements did not each pass validateURISAN in this function: a test that is satisfied by ANY matching element lets every other URI of the CSR into the certificate unchecked", nil)
		c.Clause("R2", "C15.3")
		return
	}
	var exit []eng.Edge
	for _, b := range f.Blocks {
		ifi := eng.IfOf(b)
		if ifi == nil || b.Comment != "rangeindex.loop" {
			continue
		}
		if bo, ok := ifi.Cond.(*ssa.BinOp); ok {
			if ln, ok := bo.Y.(*ssa.Call); ok && len(ln.Call.Args) == 1 && same(ln.Call.Args[0], S) {
				exit = append(exit, eng.Edge{From: b, Succ: 1})
			}
		}
	}
	if len(exit) == 0 {
		c.Undecided(f, site, app.Pos(), "whole-slice append of "+eng.ExprDeep(S)+": the loop validating its elements was not found (moved? the rule cannot be evaluated)")
	} else {
		c.Clause("R2", "C15.3")
		c.Cut(f, "whole-slice append of validated URI SANs", []ssa.Instruction{app}, eng.Guard{Desc: "end of the loop validating every element", Edges: exit}, nil)
	}
	c.Clause("R2", "C15.3")
}

// ---- C15.3 (validators): accept only behind a role switch; enforcement is not bypassed
func c15Validators(c *eng.Ctx) {
	if f := c.Fn("pki.validateCommonName"); f != nil {
		c.Clause("R2", "C15.3")
		var okRets []ssa.Instruction
		for _, r := range eng.Returns(f) {
			if eng.Expr(r.Results[0]) == `""` {
				okRets = append(okRets, r)
			}
		}
		if c.Floor(f, "accepting returns", len(okRets), 2) {
			c.Cut(f, "common name accepted", okRets, eng.Or(
				eng.G(f, `^pki\.validateNames\(\) == ""$`, true),
				eng.G(f, `CNValidations\[0\] == "disabled"`, true)), nil)
		}
		c.Clause("R5", "C15.3")
		for _, v := range eng.Calls(f, `^pki\.validateNames$`) {
			els := c15sliceVals(v.Common().Args[2])
			if len(els) == 1 && eng.Expr(els[0]) == "name" {
				c.OK(f, "prov{name checked by validateNames}", v.Pos(), "validateNames([name])")
			} else {
				c.Violation(f, "prov{name checked by validateNames}", v.Pos(), "validateCommonName does not validate its own argument", nil)
			}
		}
	}
	if f := c.Fn("pki.validateOtherSANs"); f != nil {
		c.Clause("R2", "C15.3")
		var okRets []ssa.Instruction
		for _, r := range eng.SuccessReturns(f, 2) {
			ret := r.(*ssa.Return)
			if eng.Expr(ret.Results[0]) == `""` && eng.Expr(ret.Results[1]) == `""` {
				okRets = append(okRets, r)
			}
		}
		if c.Floor(f, "accepting returns", len(okRets), 2) {
			c.Cut(f, "other SANs accepted", okRets, eng.Or(
				eng.G(f, `^data\.role\.AllowedOtherSANs\[0\] == "\*"$`, true),
				eng.G(f, `^next\(range\(requested\)\)#0$`, false)), nil)
			c.Cut(f, "other SANs accepted", okRets, eng.Or(
				eng.G(f, `^data\.role\.AllowedOtherSANs\[0\] == "\*"$`, true),
				c15GCallOK(f, `^pki\.parseOtherSANs$`)), nil)
		}
	}
	f := c.Fn("pki.validateNames")
	if f == nil {
		return
	}
	c.Clause("R2", "C15.3")
	// the loop over the names: head, body entry, accepting edges (continue)
	var head *ssa.BasicBlock
	for _, b := range f.Blocks {
		if ifi := eng.IfOf(b); ifi != nil && b.Comment == "rangeindex.loop" && strings.HasSuffix(eng.Normalize(ifi.Cond).Base, "< len(names)") {
			head = b
		}
	}
	if head == nil {
		c.Undecided(f, "loop over the names", token.NoPos, "range loop over the names parameter not found")
		return
	}
	body := []eng.Edge{{From: head, Succ: 0}}
	var accept []eng.Edge
	for _, p := range head.Preds {
		if p.Index < head.Index {
			continue // loop entry
		}
		for si, s := range p.Succs {
			if s == head {
				accept = append(accept, eng.Edge{From: p, Succ: si})
			}
		}
	}
	if !c.Floor(f, "accepting edges (continue)", len(accept), 8) {
		return
	}
	sw := eng.Or(eng.G(f, `^data\.role\.AllowAnyName$`, true), eng.G(f, `^data\.role\.AllowLocalhost$`, true), eng.G(f, `^data\.role\.AllowTokenDisplayName$`, true), eng.G(f, `^φvalid\{`, true))
	gset := map[eng.Edge]bool{}
	for _, e := range sw.Edges {
		gset[e] = true
	}
	var terms []ssa.Instruction
	for _, e := range accept {
		if !gset[e] {
			terms = append(terms, e.From.Instrs[len(e.From.Instrs)-1])
		}
	}
	c15unreach(c, f, "edge{name accepted} guard{a role switch allowed it}", eng.Query{StartEdges: body, Blocked: c15edges(sw.Edges, accept), Target: eng.IsTarget(terms)}, head.Instrs[len(head.Instrs)-1].Pos(),
		"within one iteration a name is accepted only behind AllowAnyName, AllowLocalhost, AllowTokenDisplayName or a match against AllowedDomains", "a name can be accepted without any role switch allowing it")
	// a match against the allowed domains needs bare / subdomain / glob switches
	valid := eng.PhiEdges(f, "valid", func(v ssa.Value) bool { return eng.Expr(v) == "true" })
	if c.Floor(f, "assignments valid = true", len(valid), 1) {
		c.CutEdges(f, "allowed-domain match", valid, eng.Or(eng.G(f, `^data\.role\.AllowBareDomains$`, true), eng.G(f, `^data\.role\.AllowSubdomains$`, true), eng.G(f, `^data\.role\.AllowGlobDomains$`, true)))
		c.CutEdges(f, "allowed-domain match", valid, eng.G(f, `^0 < len\(data\.role\.AllowedDomains\)$`, true))
	}
	// the any-name decision comes after hostname enforcement and the wildcard switch
	anyIf := eng.EdgeIfs(eng.CondEdges(f, `^data\.role\.AllowAnyName$`, true))
	if !c.Floor(f, "AllowAnyName test", len(anyIf), 1) {
		return
	}
	enf := eng.CondEdges(f, `^data\.role\.EnforceHostnames$`, true)
	var toASCII *ssa.Call
	for _, t := range eng.Calls(f, `idna\.Profile\)\.ToASCII$`) {
		toASCII, _ = t.(*ssa.Call)
	}
	if c.Floor(f, "EnforceHostnames test", len(enf), 1) && toASCII != nil {
		pass := c15edges(eng.CondEdgesDeep(f, `MatchString\(pki\.hostnameRegex, `, true))
		if ifi, si := c15ctrl(toASCII.Block()); ifi != nil {
			pass = append(pass, eng.Edge{From: ifi.Block(), Succ: 1 - si}) // nothing left to check after removing the wildcard label
		}
		c15unreach(c, f, "on{EnforceHostnames} any-name decision needs a hostname match", eng.Query{StartEdges: enf, Blocked: pass, Target: eng.IsTarget(anyIf)}, anyIf[0].Pos(),
			"with enforce_hostnames the name reaches the allow switches only across hostnameRegex.MatchString (or an empty reduced name)", "allow_any_name (or another switch) can accept a name that failed hostname enforcement")
		c15unreach(c, f, "on{idna conversion failed} no acceptance", eng.Query{StartEdges: eng.CallFailEdges(toASCII), Target: eng.IsTarget(anyIf)}, toASCII.Pos(),
			"a name that does not convert to ASCII is rejected", "a name whose IDNA conversion failed can still be accepted")
	} else if toASCII == nil {
		c.Undecided(f, "idna conversion", token.NoPos, "ToASCII call not found")
	}
	wild := eng.CondEdges(f, `^pki\.isWildcardDomain\(\)$`, true)
	if c.Floor(f, "wildcard test", len(wild), 1) {
		allowW := c15edges(eng.CondEdges(f, `^data\.role\.AllowWildcardCertificates == nil$`, true), eng.CondEdges(f, `^\*data\.role\.AllowWildcardCertificates$`, true))
		c15unreach(c, f, "on{wildcard name} acceptance needs AllowWildcardCertificates", eng.Query{StartEdges: wild, Blocked: allowW, Target: eng.IsTarget(anyIf)}, anyIf[0].Pos(),
			"a wildcard name reaches the allow switches only if the role does not forbid wildcards", "a wildcard name can be accepted although allow_wildcard_certificates is false")
		var okW []eng.Edge
		for _, w := range eng.Calls(f, `^pki\.validateWildcardDomain$`) {
			okW = append(okW, eng.CallOKEdges(w)...)
		}
		c15unreach(c, f, "on{wildcard name} acceptance needs a well-formed wildcard", eng.Query{StartEdges: wild, Blocked: okW, Target: eng.IsTarget(anyIf)}, anyIf[0].Pos(),
			"a wildcard name reaches the allow switches only across validateWildcardDomain's success edge", "a malformed wildcard name can be accepted")
	}
	c15SuffixAnchored(c, f)
}

// c15SuffixAnchored: every suffix match in validateNames (localhost forms,
// token display name, allowed domains) is anchored at a label boundary: the
// suffix operand of strings.HasSuffix is a constant that starts with "." or a
// concatenation whose leading operand is such a constant. A bare-suffix match
// ("evilexample.com" against "example.com") is not a subdomain match. The rest
// of the string semantics stays undecided.
func c15SuffixAnchored(c *eng.Ctx, f *ssa.Function) {
	c.Clause("R5", "C15.3")
	n, nDomain := 0, 0
	for _, hs := range eng.Calls(f, `^strings\.HasSuffix$`) {
		a := hs.Common().Args
		if len(a) != 2 {
			continue
		}
		n++
		fromDomain := false
		for _, o := range eng.Origins(a[1]) {
			if matches(`AllowedDomains\[|identitytpl\.PopulateString`, o.Desc) {
				fromDomain = true
			}
		}
		if fromDomain {
			nDomain++
		}
		var bad []string
		leaves := c12LeftLeaves(a[1])
		for _, l := range leaves {
			k, ok := l.(*ssa.Const)
			if !ok || k.Value == nil || k.Value.Kind() != constant.String || !strings.HasPrefix(constant.StringVal(k.Value), ".") {
				bad = append(bad, eng.Expr(l))
			}
		}
		site := "suffix match anchored at a label boundary"
		if len(bad) > 0 || len(leaves) == 0 {
			c.Violation(f, site, hs.Pos(), "strings.HasSuffix(name, "+eng.ExprDeep(a[1])+"): the suffix does not lead with the constant \".\" (leading operand: "+strings.Join(bad, ", ")+"), so any name merely ending in the allowed string is accepted as its subdomain", nil)
		} else {
			c.OK(f, site, hs.Pos(), "suffix operand "+eng.Expr(a[1])+" leads with \".\"")
		}
	}
	c.Floor(f, "suffix matches (strings.HasSuffix)", n, 3)
	if nDomain == 0 {
		c.Undecided(f, "suffix match against the allowed domains", token.NoPos, "no strings.HasSuffix whose suffix operand derives from data.role.AllowedDomains: the allow_subdomains match was restructured; the label-boundary rule cannot be evaluated (re-read)")
	}
}
