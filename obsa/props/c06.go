package props

import (
	"go/token"
	"go/types"
	"strings"

	"golang.org/x/tools/go/ssa"

	"obsa/eng"
)

func init() {
	register(&Prop{
		ID: "C06",
		Explanation: "Structural necessary conditions of 'no dynamic secret or token without a durable lease', on every CFG path: " +
			"(1) ExpirationManager.Register arms its rollback (deferred closure) before the first durable write; under a non-nil named error the closure routes a RevokeRequest for the fresh secret to the backend — in a context re-scoped by ContextWithNamespace to the namespace Register stored into the lease entry —, deletes the lease entry and removes the token index, unconditionally (not depending on the entry having been written); success crosses persistEntry and createIndexByToken and tracks the lease; " +
			"(2) in Core.handleRequest / handleLoginRequest the failure edge of Register returns a nil response, the lease ID is attached only on the success edge, once the registerLease flag is true a non-nil response leaves only across the success edge of Register (the flag is cleared only on the KV-mount arms), inline-auth leases are revoked and refused, a login never returns a secret; " +
			"(3) at every RegisterAuth call site (token creation in handleRequest, login in Core.RegisterAuth, wrapping token in wrapInCubbyhole) the failure edge revokes the fresh token before returning and returns no response; every failing exit of wrapInCubbyhole after the wrapping token exists revokes it; " +
			"(4) RegisterAuth refuses non-root zero-TTL, batch, empty-token and '..' paths before persisting; " +
			"(5) only the token store may return an auth block on an authenticated path; (6) errors of the lease persistence helpers are never dropped; " +
			"(8) persistEntry/deleteEntry return nil only across a successful Put/Delete on leaseView(le.namespace) keyed by le.LeaseID; " +
			"(9) createIndexByToken returns nil only after its Put, removeIndexByToken deletes the same salted key in the same token-namespace view, and Register's rollback removes the index under the very variable handed to createIndexByToken; " +
			"(10) in handleRequest a response with a secret leaves only across Register success, the tested registerLease flag or the sys/leases/renew prefix; " +
			"(11) a service token created through auth/token/ is returned only across RegisterAuth success; " +
			"(12) the persist flag handed to expiration.RegisterAuth is the flag the token was created with (login) or constant true (token creation, wrapping); " +
			"(13) every request the expiration manager routes to a backend for a lease (revokeEntry, renewEntry, renewAuthEntry) is routed in a context re-scoped by ContextWithNamespace to leaseEntry.namespace; " +
			"(10, exits) once the response carries a secret every exit of handleRequest passes the Register attempt or a routed RevokeRequest, except across tabled guard edges (mount / backend / system view vanished, CalculateTTL's impossible failure, KV flag, lease renewal) listed as exceptions with reasons; " +
			"(14) Router.routeCommon restores into req.Path the path it matched the mount by: the snapshot its deferred reset writes back is read after the slash-adjusted path was stored into req.Path.",
		NotDecided: "that the backend's revoke handler actually removes the secret; a crash between generation and registration (no code runs); atomicity of the individual storage writes.",
		Run:        runC06,
	})
}

func runC06(c *eng.Ctx, thorough bool) {
	// ---- C06.7 a token whose lease does not exist is refused and revoked by lookup (the reader-side
	// checks shared with C02.2): only a non-expiring root token is usable without a lease — seed C06-b
	tokenLiveness(c, "C06.7")
	batch, okb := c.P.ConstValue("logical.TokenTypeBatch")
	service, oks := c.P.ConstValue("logical.TokenTypeService")
	if !okb || !oks {
		c.Unresolved("logical.TokenTypeBatch")
		return
	}
	// Route calls already judged as part of Register's rollback (C06.1); the rest of the family is C06.13
	routed := map[ssa.Instruction]bool{}
	// ---------- C06.1 Register
	if f := c.Fn("vault.(*ExpirationManager).Register"); f != nil {
		var clo *ssa.Function
		var deferIn []ssa.Instruction
		for _, in := range eng.Instrs(f, func(in ssa.Instruction) bool { _, ok := in.(*ssa.Defer); return ok }) {
			d := in.(*ssa.Defer)
			fn, mc := nfFuncValue(d.Call.Value)
			if fn == nil || mc == nil || fn.Parent() != f {
				continue
			}
			// the rollback closure: the deferred closure that reads the named error result
			reads := false
			for _, fv := range fn.FreeVars {
				if eng.VarName(fv) == "retErr" {
					reads = true
				}
			}
			if reads {
				clo = fn
				deferIn = append(deferIn, in)
			}
		}
		c.Clause("R3", "C06.1")
		persist := nfAts(nfSites(f, `vault\.\(\*ExpirationManager\)\.persistEntry$`))
		index := nfAts(nfSites(f, `vault\.\(\*ExpirationManager\)\.createIndexByToken$`))
		c.Floor(f, "persistEntry", len(persist), 1)
		c.Floor(f, "createIndexByToken", len(index), 1)
		if clo == nil {
			c.Violation(f, "rollback armed", f.Pos(), "Register has no deferred closure over its named error result: a failed registration is not rolled back", nil)
		} else {
			c.Before(f, "defer rollback", deferIn, "persistEntry", persist)
			c.Before(f, "defer rollback", deferIn, "createIndexByToken", index)
			// inside the closure
			c.Clause("R4", "C06.1")
			fail := eng.CondEdges(clo, `^\^retErr == nil$`, false)
			// a cleanup step is the call itself or a call of a closure / helper of this package that performs
			// it on every path (props/c04follow.go): the rollback body may live in a function of its own
			cloFr := &nfFrame{call: deferIn[0].(ssa.CallInstruction)}
			routeS := nfMust(clo, cloFr, nfNamed(`routing\.\(\*Router\)\.Route$`), 2)
			route := nfAts(routeS)
			del := nfAts(nfMust(clo, cloFr, nfNamed(`vault\.\(\*ExpirationManager\)\.deleteEntry$`), 2))
			rmi := nfAts(nfMust(clo, cloFr, nfNamed(`vault\.\(\*ExpirationManager\)\.removeIndexByToken$`), 2))
			c.CleanupOnEdges(clo, "retErr != nil", fail, "router.Route(RevokeRequest) for the fresh secret", route)
			c.CleanupOnEdges(clo, "retErr != nil", fail, "deleteEntry", del)
			c.CleanupOnEdges(clo, "retErr != nil", fail, "removeIndexByToken", rmi)
			c.Clause("R5", "C06.1")
			secretF := c.P.Field("logical.Response.Secret")
			if secretF == nil {
				c.Unresolved("logical.Response.Secret")
			}
			respIdx := nfParamIndex(f, "resp")
			for _, e := range nfEffs(routeS) {
				c.Prov(e.Fn, "request routed by the rollback", e.Call.In, e.Call.Args[2], `^call:logical\.RevokeRequest$`)
				// ... and it is routed in the lease's own namespace (seed C06-e): the manager's quit context is
				// root-namespaced, the mount of a child-namespace secret is not in root's mount table
				routed[e.Call.In] = true
				c06RouteInLeaseNamespace(c, f, e)
				// the secret revoked is the Secret of the response Register was called with, however the
				// rollback reaches that response (captured variable, parameter of the rollback helper)
				for _, rr := range eng.Calls(e.Fn, `^logical\.RevokeRequest$`) {
					site := "prov{secret revoked by the rollback}"
					ok, bad := nfAll(rr.Common().Args[1], e.Fr, func(o eng.Origin) bool {
						base, is := nfFieldOf(o, secretF)
						if !is {
							return false
						}
						isResp, _ := nfIsParamOf(base, e.Fr, f, respIdx)
						return isResp
					})
					if ok {
						c.OK(e.Fn, site, rr.Pos(), "the Secret of the response Register was called with")
					} else {
						c.Violation(e.Fn, site, rr.Pos(), "the rollback revokes "+eng.Expr(rr.Common().Args[1])+" ("+bad+"), not the secret of the response being registered", nil)
					}
				}
			}
		}
		// success path
		c.Clause("R2", "C06.1")
		var succ []ssa.Instruction
		for _, r := range eng.SuccessReturns(f, 1) {
			ret := r.(*ssa.Return)
			vals, _, _ := eng.ReturnVals(ret, 0)
			for _, v := range vals {
				if cst, ok := v.(*ssa.Const); ok && eng.Expr(cst) == `""` {
					continue
				}
				if v == nil {
					continue
				}
				succ = append(succ, r)
				break
			}
		}
		if c.Floor(f, "returns of a lease ID", len(succ), 1) {
			nfCutOK(c, f, "return of a lease ID", succ, 1, nfGCallOK(f, `vault\.\(\*ExpirationManager\)\.persistEntry$`))
			nfCutOK(c, f, "return of a lease ID", succ, 1, nfGCallOK(f, `vault\.\(\*ExpirationManager\)\.createIndexByToken$`), eng.G(f, `^φ?indexToken(\{.*\})? == ""$`, true))
			c.Clause("R3", "C06.1")
			c.Before(f, "updatePending", nfAts(nfSites(f, `vault\.\(\*ExpirationManager\)\.updatePending$`)), "return of a lease ID", succ)
		}
	}

	// ---------- C06.2 / C06.3 / C06.5 handleRequest
	if f := c.Fn("vault.(*Core).handleRequest"); f != nil {
		c.Clause("R4", "C06.2")
		regS := nfPlain(nfSites(f, `vault\.\(\*ExpirationManager\)\.Register$`))
		for _, rg := range regS {
			c.NilResultOnEdges(f, "expiration.Register failed", nfFailEdgesOf(rg), 0, "response")
		}
		c.Clause("R2", "C06.2")
		var lease []ssa.Instruction
		for _, st := range nfFieldStores(f, c.P.Field("logical.Secret.LeaseID")) {
			if st.Fn == f {
				lease = append(lease, st.St)
			}
		}
		c.Floor(f, "resp.Secret.LeaseID store", len(lease), 1)
		c.Cut(f, "resp.Secret.LeaseID = leaseID", lease, nfGCallOK(f, `vault\.\(\*ExpirationManager\)\.Register$`), nil)
		c.Clause("R5", "C06.2")
		for _, st := range lease {
			c.Prov(f, "lease ID attached to the response", st, st.(*ssa.Store).Val, `^call:vault\.\(\*ExpirationManager\)\.Register#0$`)
		}
		// a response that carries a secret leaves handleRequest only across the
		// success edge of Register, unless the registerLease flag was cleared on a
		// tabled (KV mount) arm. The flag is a phi: start on the edges that feed it
		// `true`; on those the false edge of the test of the flag itself is
		// infeasible, every other way around Register is a hole.
		c.Clause("R2", "C06.2")
		isConst := func(want string) func(ssa.Value) bool {
			return func(v ssa.Value) bool { _, ok := v.(*ssa.Const); return ok && eng.Expr(v) == want }
		}
		mustReg := eng.PhiEdges(f, "registerLease", isConst("true"))
		noReg := eng.PhiEdgeSinks(f, "registerLease", isConst("false"))
		if c.Floor(f, "edges with registerLease = true", len(mustReg), 1) && c.Floor(f, "registerLease = false arms", len(noReg), 1) {
			blocked := nfOKEdgesOf(regS)
			nTests := 0
			testPos := f.Pos()
			for _, b := range f.Blocks {
				ifi := eng.IfOf(b)
				if ifi == nil {
					continue
				}
				if phi, ok := ifi.Cond.(*ssa.Phi); ok && eng.VarName(phi) == "registerLease" {
					nTests++
					testPos = ifi.Pos()
					blocked = append(blocked, eng.Edge{From: b, Succ: 1})
				}
			}
			site := "on{registerLease = true} response only across Register success"
			if nTests == 0 {
				c.Undecided(f, site, f.Pos(), "no branch tests the registerLease flag itself: the arm that skips registration cannot be told from a hole")
			} else if h := eng.Reach(eng.Query{Fn: f, StartEdges: mustReg, Blocked: blocked, Target: eng.IsTarget(eng.NonNilResultReturns(f, 0))}); h != nil {
				c.Violation(f, site, h.Instr.Pos(), "a response carrying a secret whose mount generates leases can be returned without a successful expiration.Register: the secret has no lease and is never revoked", h.Witness)
			} else {
				c.OK(f, site, testPos, "with registerLease true every return of a non-nil response crosses the success edge of expiration.Register")
			}
			// registration is waived only for KV mounts
			mt := `^routing\.\(\*Router\)\.MatchingMountEntry\(\)\.`
			c.Cut(f, "registerLease = false", noReg, eng.Or(
				eng.G(f, mt+`Type == "kv"$`, true),
				eng.G(f, mt+`Type == "generic"$`, true),
				eng.G(f, mt+`Config\.PluginName == "kv"$`, true)), nil)
		}
		// inline auth: lease => revoke and refuse
		c.Clause("R4", "C06.2")
		inl := eng.CondEdges(f, `^req\.HasInlineAuth$`, true)
		c.NilResultOnEdges(f, "lease generated under inline authentication", inl, 0, "response")
		if len(inl) > 0 {
			reg := nfAts(regS)
			if h := eng.Reach(eng.Query{Fn: f, StartEdges: inl, Target: eng.IsTarget(reg)}); h != nil {
				c.Violation(f, "on{inline auth lease} no registration", h.Instr.Pos(), "a lease generated under inline authentication can still be registered", h.Witness)
			} else {
				c.OK(f, "on{inline auth lease} no registration", reg[0].Pos(), "the inline-auth arm never reaches expiration.Register")
			}
			c.CleanupOnEdges(f, "lease generated under inline authentication", inl, "router.Route(RevokeRequest)", nfAts(nfSites(f, `routing\.\(\*Router\)\.Route$`)))
		}
		// C06.3 token creation
		c.Clause("R4", "C06.3")
		hrRevokeS := nfSites(f, `vault\.\(\*TokenStore\)\.revokeOrphan$`)
		hrRAS := nfPlain(nfSites(f, `vault\.\(\*ExpirationManager\)\.RegisterAuth$`))
		for _, ra := range hrRAS {
			fe := nfFailEdgesOf(ra)
			c.CleanupOnEdges(f, "expiration.RegisterAuth failed", fe, "tokenStore.revokeOrphan", nfAts(hrRevokeS))
			c.NilResultOnEdges(f, "expiration.RegisterAuth failed", fe, 0, "response")
		}
		c.Floor(f, "RegisterAuth call", len(hrRAS), 1)
		c.Clause("R5", "C06.3")
		for _, e := range nfEffs(hrRevokeS) {
			nfProv(c, e.Fn, "token revoked on failure", e.Call.In, e.Call.Args[2], e.Fr, `\.Auth\.ClientToken$`)
		}
		// C06.5 only the token store returns auth
		c.Clause("R4", "C06.5")
		c.NilResultOnEdges(f, "auth block from a non-token backend", eng.CondEdgesDeep(f, `^strings\.HasPrefix\(req\.Path, "auth/token/"\)$`, false), 0, "response")
		// entity/policy lookup failure after token creation
		c.Clause("R4", "C06.3")
		for _, fe := range nfPlain(nfSites(f, `vault\.\(\*Core\)\.fetchEntityAndDerivedPolicies$`)) {
			e := nfFailEdgesOf(fe)
			c.CleanupOnEdges(f, "fetchEntityAndDerivedPolicies failed after a token was created", e, "tokenStore.revokeOrphan", nfAts(hrRevokeS))
			c.NilResultOnEdges(f, "fetchEntityAndDerivedPolicies failed after a token was created", e, 0, "response")
		}
	}
	if f := c.Fn("vault.(*Core).handleLoginRequest"); f != nil {
		c.Clause("R4", "C06.2")
		c.NilResultOnEdges(f, "login returned a secret", eng.CondEdges(f, `doRoutingIfApproved\(\)#0\.Secret == nil$`, false), 0, "response")
	}
	if f := c.Fn("vault.(*Core).RegisterAuth"); f != nil {
		c.Clause("R4", "C06.3")
		// the lease registration and the cleanup are found directly, through a bound method value, or
		// inside a closure / helper that performs them (props/c04follow.go)
		ras := nfPlain(nfSites(f, `vault\.\(\*ExpirationManager\)\.RegisterAuth$`))
		revokeS := nfSites(f, `vault\.\(\*TokenStore\)\.revokeOrphan$`)
		c.Floor(f, "RegisterAuth call", len(ras), 1)
		for _, ra := range ras {
			fe := nfFailEdgesOf(ra)
			c.CleanupOnEdges(f, "expiration.RegisterAuth failed", fe, "tokenStore.revokeOrphan", nfAts(revokeS))
			c.NilResultOnEdges(f, "expiration.RegisterAuth failed", fe, 0, "token entry")
		}
		c.Clause("R5", "C06.3")
		// the token revoked is the ID of the entry that was created: field ID of the variable `te`, read in
		// place, through a pointer alias or through a capturing closure
		idF := c.P.Field("logical.TokenEntry.ID")
		var created []*ssa.Alloc
		createS := nfSites(f, `vault\.\(\*Core\)\.CreateToken$|vault\.\(\*TokenStore\)\.create$`)
		for _, e := range nfEffs(createS) {
			if len(e.Call.Args) > 2 {
				created = append(created, c06Pointees(e.Call.Args[2], e.Fr)...)
			}
		}
		for _, e := range nfEffs(revokeS) {
			site := "prov{token revoked on failure}"
			if idF == nil || len(created) == 0 {
				c.Undecided(e.Fn, site, e.Call.In.Pos(), "the entry handed to token creation is not a local variable: the rule cannot be evaluated")
				continue
			}
			ok, bad := nfAll(e.Call.Args[2], e.Fr, func(o eng.Origin) bool {
				base, is := nfFieldOf(o, idF)
				if !is {
					return false
				}
				ps := c06Pointees(base, e.Fr)
				for _, p := range ps {
					hit := false
					for _, cr := range created {
						if cr == p {
							hit = true
						}
					}
					if !hit {
						return false
					}
				}
				return len(ps) > 0
			})
			if ok {
				c.OK(e.Fn, site, e.Call.In.Pos(), "the ID of the entry handed to token creation")
			} else {
				c.Violation(e.Fn, site, e.Call.In.Pos(), "on failure "+eng.Expr(e.Call.Args[2])+" ("+bad+") is revoked, not the token created above", nil)
			}
		}
		// the token is created before its lease; success returns cross both
		c.Clause("R2", "C06.3")
		var succ []ssa.Instruction
		for _, r := range eng.SuccessReturns(f, 1) {
			if !eng.IsNilConst(r.(*ssa.Return).Results[0]) {
				succ = append(succ, r)
			}
		}
		if c.Floor(f, "returns of a token entry", len(succ), 1) {
			nfCutOK(c, f, "return of a token entry", succ, 1, nfOKOf(`success edge of vault\.\(\*Core\)\.CreateToken$|vault\.\(\*TokenStore\)\.create$`, createS))
			nfCutOK(c, f, "return of a token entry", succ, 1, nfGCallOK(f, `vault\.\(\*ExpirationManager\)\.RegisterAuth$`), eng.G(f, `^auth\.TokenType == `+service+`$`, false), eng.G(f, `^auth\.TokenType == `+batch+`$`, true))
		}
	}

	// ---------- C06.3 wrapInCubbyhole
	if f := c.Fn("vault.(*Core).wrapInCubbyhole"); f != nil {
		c.Clause("R8", "C06.3")
		ctS := nfPlain(nfSites(f, `vault\.\(\*Core\)\.CreateToken$`))
		if c.Floor(f, "CreateToken call", len(ctS), 1) {
			ct := nfAts(ctS)
			okEdges := nfOKEdgesOf(ctS[:1])
			// the revocation itself, or a closure / helper that performs it on every path
			revokeS := nfMust(f, nil, nfNamed(`vault\.\(\*TokenStore\)\.revokeOrphan$`), 2)
			revoke := nfAts(revokeS)
			var failing []ssa.Instruction
			nOK := 0
			for _, r := range eng.ReturnsFrom(f, okEdges, nil, nil) {
				if eng.IsNilConst(r.Results[0]) && eng.IsNilConst(r.Results[1]) {
					nOK++
					continue
				}
				failing = append(failing, r)
			}
			c.Floor(f, "failing exits after the wrapping token exists", len(failing), 7)
			if h := eng.Reach(eng.Query{Fn: f, StartEdges: okEdges, Barriers: revoke, Target: eng.IsTarget(failing)}); h != nil {
				c.Violation(f, "after{CreateToken ok} revokeOrphan before every failing exit", h.Instr.Pos(), "a failing exit is reachable after the wrapping token was created without revoking it: an untracked, unleased token with a cubbyhole survives", h.Witness)
			} else {
				c.OK(f, "after{CreateToken ok} revokeOrphan before every failing exit", ct[0].Pos(), "all failing exits after token creation pass through tokenStore.revokeOrphan")
			}
			c.Clause("R5", "C06.3")
			// the token revoked is the ID of the entry handed to CreateToken (the same variable, seen in
			// place or through a capturing closure)
			idF := c.P.Field("logical.TokenEntry.ID")
			if idF == nil {
				c.Unresolved("logical.TokenEntry.ID")
			}
			var created *ssa.Alloc
			if ps := c06Pointees(ctS[0].Effs[0].Call.Args[2], ctS[0].Effs[0].Fr); len(ps) == 1 {
				created = ps[0]
			}
			for _, e := range nfEffs(revokeS) {
				site := "prov{token revoked on failure}"
				if created == nil {
					c.Undecided(e.Fn, site, e.Call.In.Pos(), "the entry handed to CreateToken is not the address of a local variable: the rule cannot be evaluated")
					continue
				}
				ok, bad := nfAll(e.Call.Args[2], e.Fr, func(o eng.Origin) bool {
					base, is := nfFieldOf(o, idF)
					if !is {
						return false
					}
					ps := c06Pointees(base, e.Fr)
					return len(ps) == 1 && ps[0] == created
				})
				if ok {
					c.OK(e.Fn, site, e.Call.In.Pos(), "the ID of the entry handed to CreateToken")
				} else {
					c.Violation(e.Fn, site, e.Call.In.Pos(), "on failure "+eng.Expr(e.Call.Args[2])+" ("+bad+") is revoked, not the wrapping token created above", nil)
				}
			}
			// the (nil, nil) success crosses RegisterAuth success
			c.Clause("R2", "C06.3")
			var okRet []ssa.Instruction
			for _, r := range eng.ReturnsFrom(f, okEdges, nil, nil) {
				if eng.IsNilConst(r.Results[0]) && eng.IsNilConst(r.Results[1]) {
					okRet = append(okRet, r)
				}
			}
			nfCutOK(c, f, "successful wrap", okRet, 1, nfGCallOK(f, `vault\.\(\*ExpirationManager\)\.RegisterAuth$`))
		}
	}

	// ---------- C06.4 RegisterAuth refusals
	if f := c.Fn("vault.(*ExpirationManager).RegisterAuth"); f != nil {
		c.Clause("R2", "C06.4")
		persistS := nfPlain(nfSites(f, `vault\.\(\*ExpirationManager\)\.persistEntry$`))
		persist := nfAts(persistS)
		succ := eng.SuccessReturns(f, 0)
		c.Floor(f, "persistEntry", len(persist), 1)
		for _, sinks := range [][]ssa.Instruction{persist, succ} {
			c.Cut(f, "lease persisted / success reported", sinks, eng.G(f, `^te\.Type == `+batch+`$`, false), nil)
			c.Cut(f, "lease persisted / success reported", sinks, eng.G(f, `^auth\.ClientToken == ""$`, false), nil)
			c.Cut(f, "lease persisted / success reported", sinks, eng.GD(f, `^strings\.Contains\(te\.Path, "\.\."\)$`, false), nil)
			c.Cut(f, "lease persisted / success reported", sinks, eng.Or(
				eng.G(f, `^te\.TTL == 0$`, false),
				eng.G(f, `^time\.\(Time\)\.IsZero\(\)$`, false),
				eng.G(f, `^te\.Policies\[0\] == "root"$`, true)), nil)
		}
		var full []ssa.Instruction
		for _, r := range succ {
			full = append(full, r)
		}
		nfCutOK(c, f, "success reported", full, 0, nfOKOf(`success edge of vault\.\(\*ExpirationManager\)\.persistEntry$`, persistS), eng.G(f, `^persistLease$`, false))
		c.Clause("R3", "C06.4")
		// persisted => tracked
		for _, p := range persistS {
			ok := nfOKEdgesOf([]nfSite{p})
			up := nfAts(nfSites(f, `vault\.\(\*ExpirationManager\)\.updatePending$`))
			c.CleanupOnEdges(f, "persistEntry succeeded", ok, "updatePending", up)
		}
	}

	// ---------- C06.6 errors of the persistence helpers are consumed
	c.Clause("R11", "C06.6")
	m := mustStatic(c, "vault.(*ExpirationManager).persistEntry", "vault.(*ExpirationManager).createIndexByToken", "vault.(*ExpirationManager).deleteEntry", "vault.(*ExpirationManager).removeIndexByToken")
	n := 0
	for _, s := range c.P.FindCalls(m, nil) {
		n++
		top := eng.FuncName(eng.TopFunc(s.Fn))
		if top == "vault.(*ExpirationManager).markLeaseIrrevocable" && eng.CalleeName(s.Call.Common()) == "vault.(*ExpirationManager).persistEntry" {
			ev := eng.ErrValue(s.Call)
			if ev == nil || ev.Referrers() == nil || len(*ev.Referrers()) == 0 {
				c.Exception("vault.(*ExpirationManager).markLeaseIrrevocable → persistEntry", "best effort: the in-memory irrevocable map is updated regardless and a restart re-derives the state from RevokeErr")
				c.OK(s.Fn, "errcheck{persistEntry} [excepted]", s.Call.Pos(), "reviewed exception")
				continue
			}
		}
		c.ErrChecked(s.Fn, s.Call)
	}
	c.Floor(nil, "calls of the lease persistence helpers", n, 8)
	runC06Gaps2(c)

	// ---------- C06.13 the sibling paths: every request the expiration manager routes to a backend on behalf
	// of a lease (revokeEntry, renewEntry, renewAuthEntry, ...) is routed in that lease's namespace
	if em := c.P.NamedType("vault.ExpirationManager"); em == nil {
		c.Unresolved("vault.ExpirationManager")
	} else {
		c.Clause("R5", "C06.13")
		n := 0
		for _, s := range c.P.FindCalls(mustStatic(c, "routing.(*Router).Route"), func(fn *ssa.Function) bool {
			recv := eng.TopFunc(fn).Signature.Recv()
			if recv == nil {
				return false
			}
			pt, ok := recv.Type().(*types.Pointer)
			return ok && types.Identical(pt.Elem(), em)
		}) {
			n++
			if routed[s.Call] {
				continue
			}
			c06RouteInLeaseNamespace(c, eng.TopFunc(s.Fn), nfEff{Fn: s.Fn, Call: nfCallOf(s.Call)})
		}
		c.Floor(nil, "requests routed by the expiration manager", n, 4)
	}
}

// c06RouteInLeaseNamespace: the context handed to router.Route is, on every
// path, namespace.ContextWithNamespace(_, N) with N the lease's own namespace:
// a read of leaseEntry.namespace, or the very value stored into the namespace
// field of the lease entry built by the enclosing function (Register: the
// result of namespace.FromContext(ctx)), reached in place, through a captured
// variable or through a parameter of a followed helper.
func c06RouteInLeaseNamespace(c *eng.Ctx, top *ssa.Function, e nfEff) {
	site := "context of router.Route = the lease's own namespace"
	nsF := c.P.Field("vault.leaseEntry.namespace")
	if nsF == nil {
		c.Unresolved("vault.leaseEntry.namespace")
		return
	}
	if len(e.Call.Args) < 2 {
		c.Undecided(e.Fn, site, e.Call.In.Pos(), "router.Route without a context operand: the rule cannot be evaluated")
		return
	}
	stored := map[ssa.Value]bool{}
	for _, w := range c.P.FieldWriters(nsF) {
		if eng.TopFunc(w.Fn) == top {
			for _, o := range nfOrigins(w.Store.Val, nil) {
				stored[o.Val] = true
			}
		}
	}
	ctxArg := e.Call.Args[1]
	ok, bad := nfAll(ctxArg, e.Fr, func(o eng.Origin) bool {
		call, isCall := o.Val.(*ssa.Call)
		if o.Kind != "call" || !isCall || !strings.HasSuffix(o.Desc, "namespace.ContextWithNamespace") || len(call.Call.Args) != 2 {
			return false
		}
		inNS, _ := nfAll(call.Call.Args[1], e.Fr, func(on eng.Origin) bool {
			if _, is := nfFieldOf(on, nsF); is {
				return true
			}
			return stored[on.Val]
		})
		return inNS
	})
	if ok {
		c.OK(e.Fn, site, e.Call.In.Pos(), eng.ExprDeep(ctxArg))
	} else {
		c.Violation(e.Fn, site, e.Call.In.Pos(), "the request is routed with "+eng.ExprDeep(ctxArg)+" ("+bad+"), not with a context re-scoped by namespace.ContextWithNamespace to the lease's namespace (leaseEntry.namespace): for a lease of a mount in a child namespace the path resolves against another namespace's mount table, the backend is not reached and the secret stays live", nil)
	}
}

// c06Pointees: the local variables a pointer may point to — the variable whose
// address it is (in place or through the free variable of a closure), or the
// variables whose address was stored into the alias it is read from (followed
// through phis and the parameters of a followed closure / helper); nil when the
// pointer may be anything else.
func c06Pointees(ptr ssa.Value, fr *nfFrame) []*ssa.Alloc {
	var out []*ssa.Alloc
	ok := true
	seen := map[ssa.Value]bool{}
	var walk func(v ssa.Value, fr *nfFrame, depth int)
	walk = func(v ssa.Value, fr *nfFrame, depth int) {
		if v == nil || depth > 6 {
			ok = false
			return
		}
		if seen[v] {
			return
		}
		seen[v] = true
		switch x := v.(type) {
		case *ssa.Alloc:
			out = append(out, x)
		case *ssa.FreeVar:
			if cell := nfCellOf(x); cell != nil {
				out = append(out, cell)
			} else {
				ok = false
			}
		case *ssa.Phi:
			for _, e := range x.Edges {
				walk(e, fr, depth+1)
			}
		case *ssa.ChangeType:
			walk(x.X, fr, depth+1)
		case *ssa.Parameter:
			if fr == nil {
				ok = false
				return
			}
			walk(nfArgFor(fr.call, x), fr.up, depth+1)
		case *ssa.UnOp:
			cell := nfCellOf(x.X)
			if x.Op != token.MUL || cell == nil {
				ok = false
				return
			}
			vals := nfStoresTo(cell)
			if len(vals) == 0 {
				ok = false
			}
			for _, sv := range vals {
				walk(sv, nil, depth+1)
			}
		default:
			ok = false
		}
	}
	walk(ptr, fr, 0)
	if !ok {
		return nil
	}
	return out
}
