package props

import (
	"fmt"
	"go/token"
	"go/types"
	"regexp"
	"sort"
	"strings"

	"golang.org/x/tools/go/ssa"

	"obsa/eng"
)

// Second-tier mechanisms of C03 (clauses C03.7 .. C03.16): the parts of the ACL
// decision that sit in helpers, sibling arms, merge arithmetic, the parser's
// tables, the policy store and the two consumers of ACL results
// (sys/capabilities and list filtering).

func runC03Gaps2(c *eng.Ctx) {
	c03gAllowOperation(c)
	c03gCandidates(c)
	c03gExpiry(c)
	c03gMergeBounds(c)
	c03gParser(c)
	c03gStoreACL(c)
	c03gCapabilities(c)
	c03gRequestContext(c)
	c03gListFilter(c)
	c03gCloneOwnership(c, "C03.6")
}

// ---------------------------------------------------------------------------
// helpers

// c03gCallCondEdges: the edges, of branches of f testing the result of a call
// to calleePat whose argument argIdx (deep rendering) matches argPat, on which
// that result has the value want.
func c03gCallCondEdges(f *ssa.Function, calleePat string, argIdx int, argPat string, want bool) []eng.Edge {
	var out []eng.Edge
	for _, b := range f.Blocks {
		ifi := eng.IfOf(b)
		if ifi == nil {
			continue
		}
		nc := eng.Normalize(ifi.Cond)
		cl, ok := nc.Val.(*ssa.Call)
		if !ok || len(cl.Call.Args) <= argIdx {
			continue
		}
		if ok, _ := regexpMatch(calleePat, eng.CalleeName(&cl.Call)); !ok {
			continue
		}
		if ok, _ := regexpMatch(argPat, eng.ExprDeep(cl.Call.Args[argIdx])); !ok {
			continue
		}
		succ := 1
		if nc.Pol == want {
			succ = 0
		}
		out = append(out, eng.Edge{From: b, Succ: succ})
	}
	return out
}

// c03gEntryCallEdges: the edges, of branches of f testing the result of a call
// one of whose arguments is the value looked up in X.<field>[k], on which that
// result is want.
func c03gEntryCallEdges(f *ssa.Function, field string, want bool) []eng.Edge {
	fromEntry := func(v ssa.Value) bool {
		for _, o := range eng.Origins(v) {
			if ex, ok := o.Val.(*ssa.Extract); ok {
				if lk, ok := ex.Tuple.(*ssa.Lookup); ok && ex.Index == 0 && strings.HasSuffix(eng.Expr(lk.X), "."+field) {
					return true
				}
			}
		}
		return false
	}
	var out []eng.Edge
	for _, b := range f.Blocks {
		ifi := eng.IfOf(b)
		if ifi == nil {
			continue
		}
		nc := eng.Normalize(ifi.Cond)
		cl, ok := nc.Val.(*ssa.Call)
		if !ok {
			continue
		}
		hit := false
		for _, a := range cl.Call.Args {
			hit = hit || fromEntry(a)
		}
		if !hit {
			continue
		}
		succ := 1
		if nc.Pol == want {
			succ = 0
		}
		out = append(out, eng.Edge{From: b, Succ: succ})
	}
	return out
}

// c03gMapLookups: the v, ok := X.<field>[k] lookups of f (k not a constant).
func c03gMapLookups(f *ssa.Function, field string, constKey bool) []*ssa.Lookup {
	var out []*ssa.Lookup
	for _, in := range eng.Instrs(f, func(in ssa.Instruction) bool { _, ok := in.(*ssa.Lookup); return ok }) {
		lk := in.(*ssa.Lookup)
		if !strings.HasSuffix(eng.Expr(lk.X), "."+field) {
			continue
		}
		if _, isC := lk.Index.(*ssa.Const); isC != constKey {
			continue
		}
		out = append(out, lk)
	}
	return out
}

// c03gRangeExit: exit edges of the range loops of f (header condition matches
// hdrPat) whose body's first block contains an instruction satisfying inBody.
func c03gRangeExit(f *ssa.Function, hdrPat string, inBody func(ssa.Instruction) bool) []eng.Edge {
	var out []eng.Edge
	for _, e := range eng.CondEdges(f, hdrPat, true) {
		found := false
		for _, in := range e.To().Instrs {
			if inBody(in) {
				found = true
			}
		}
		if found {
			out = append(out, eng.Edge{From: e.From, Succ: 1 - e.Succ})
		}
	}
	return out
}

var c03gOps = []string{"help", "read", "list", "update", "delete", "create", "patch", "scan", "revoke", "renew", "rollback"}

// c03gOpAssume: a non-root ACL handling operation op.
func c03gOpAssume(op string, extra map[string]bool) map[string]bool {
	m := map[string]bool{`^a\.root == nil$`: true}
	for _, o := range c03gOps {
		m[`^req\.Operation == "`+o+`"$`] = o == op
	}
	for k, v := range extra {
		m[k] = v
	}
	return m
}

// c03gCutLive is Cut with a vacuity check: under the assumptions at least one
// sink must be reachable when nothing is blocked.
func c03gCutLive(c *eng.Ctx, f *ssa.Function, desc string, sinks []ssa.Instruction, g eng.Guard, assume map[string]bool) {
	if eng.Reach(eng.Query{Fn: f, Assume: assume, Target: eng.IsTarget(sinks)}) == nil {
		c.Undecided(f, "sink{"+desc+"} guard{"+g.Desc+"}", f.Pos(), "under the rule's assumptions no sink is reachable at all: the conditions the rule specialises were renamed or restructured; re-read")
		return
	}
	c.Cut(f, desc, sinks, g, assume)
}

// c03gNoAllow: starting on the edges (or after the instruction) no
// Allowed=true store is reachable unless a blocked edge is crossed.
func c03gNoAllow(c *eng.Ctx, f *ssa.Function, site string, start []eng.Edge, after ssa.Instruction, blocked []eng.Edge, assume map[string]bool, allow []ssa.Instruction, why string) {
	if len(start) == 0 && after == nil {
		c.Violation(f, site, f.Pos(), "the test is gone: "+why, nil)
		return
	}
	if h := eng.Reach(eng.Query{Fn: f, StartEdges: start, StartAfter: after, Blocked: blocked, Assume: assume, Target: eng.IsTarget(allow)}); h != nil {
		c.Violation(f, site, h.Instr.Pos(), "ret.Allowed = true is reachable although "+why, h.Witness)
		return
	}
	pos := f.Pos()
	if after != nil {
		pos = after.Pos()
	} else if n := len(start[0].From.Instrs); n > 0 {
		pos = start[0].From.Instrs[n-1].Pos()
	}
	c.OK(f, site, pos, "no Allowed=true store reachable when "+why)
}

// ---------------------------------------------------------------------------
// C03.8 (shared with C02 as C02.10: a request reaches a handler only if the
// policies allow that operation with those parameters): for each of
// read/update/create/patch the required / denied / allowed parameter checks lie
// on every allowing path, and their refusing edges never allow.
func c03gParameterChecks(c *eng.Ctx, clause string) {
	f := c.Fn("policy.(*ACL).AllowOperation")
	if f == nil {
		return
	}
	var allow []ssa.Instruction
	for _, st := range eng.Stores(f, `\.Allowed$`) {
		if eng.Expr(st.Val) == "true" {
			allow = append(allow, st)
		}
	}
	if !c.Floor(f, "Allowed = true stores (parameter checks)", len(allow), 5) {
		return
	}
	perm := `φpermissions\{.*\}`

	isLookupOn := func(field string) func(ssa.Instruction) bool {
		return func(in ssa.Instruction) bool {
			lk, ok := in.(*ssa.Lookup)
			return ok && strings.HasSuffix(eng.Expr(lk.X), "."+field)
		}
	}
	dataLoop := `^next\(range\(req\.Data\)\)#0$`
	deniedExit := c03gRangeExit(f, dataLoop, isLookupOn("DeniedParameters"))
	allowedExit := c03gRangeExit(f, dataLoop, isLookupOn("AllowedParameters"))
	c.Floor(f, "loop over the request's parameters against denied_parameters", len(deniedExit), 1)
	c.Floor(f, "loop over the request's parameters against allowed_parameters", len(allowedExit), 1)
	c.Clause("R2", clause)
	nonEmpty := map[string]bool{`^len\(req\.Data\) == 0$`: false}
	withAllowed := map[string]bool{`^len\(req\.Data\) == 0$`: false, `^len\(` + perm + `\.AllowedParameters\) == 0$`: false}
	for _, op := range []string{"read", "update", "create", "patch"} {
		c03gCutLive(c, f, "ret.Allowed = true ("+op+")", allow,
			eng.G(f, `rangeindex.*< len\(`+perm+`\.RequiredParameters\)$`, false), c03gOpAssume(op, nil))
		c03gCutLive(c, f, "ret.Allowed = true ("+op+", request carries parameters)", allow,
			eng.Or(eng.G(f, `^len\(`+perm+`\.DeniedParameters\) == 0$`, true),
				eng.Guard{Desc: "exit of the loop testing every request parameter against denied_parameters", Edges: deniedExit}),
			c03gOpAssume(op, nonEmpty))
		c03gCutLive(c, f, "ret.Allowed = true ("+op+", request carries parameters, rule has allowed_parameters)", allow,
			eng.Or(eng.G(f, `^len\(`+perm+`\.AllowedParameters\) == 1$`, true),
				eng.Guard{Desc: "exit of the loop testing every request parameter against allowed_parameters", Edges: allowedExit}),
			c03gOpAssume(op, withAllowed))
	}
	c.Clause("R4", clause)
	c03gNoAllow(c, f, "deny{required parameter missing}", eng.CondEdges(f, `^req\.Data\[strings\.ToLower\(\)\]#1$`, false), nil, nil, nil, allow,
		"a required parameter is absent from the request")
	c03gNoAllow(c, f, "deny{all parameters denied}", eng.CondEdges(f, `^`+perm+`\.DeniedParameters\["\*"\]#1$`, true), nil, nil, nil, allow,
		`denied_parameters contains "*"`)
	deniedKey := `^` + perm + `\.DeniedParameters\[strings\.ToLower\(\)\]#1$`
	allowedKey := `^` + perm + `\.AllowedParameters\[strings\.ToLower\(\)\]#1$`
	// the membership test is whichever call is handed the looked-up entry (valueInParameterList today,
	// possibly inlined into an emptiness test plus valueInSlice): selected by its operand, not by its name
	c03gNoAllow(c, f, "deny{denied parameter value}", eng.CondEdges(f, deniedKey, true), nil,
		c03gEntryCallEdges(f, "DeniedParameters", false), map[string]bool{deniedKey: true}, allow,
		"the parameter has a denied_parameters entry and the membership test on that entry did not answer false")
	for _, lk := range c03gMapLookups(f, "AllowedParameters", false) {
		c03gNoAllow(c, f, "deny{value outside the allowed list}", nil, lk,
			append(c03gEntryCallEdges(f, "AllowedParameters", true),
				eng.CondEdges(f, `^len\(`+perm+`\.AllowedParameters\[strings\.ToLower\(\)\]#0\) == 0$`, true)...),
			map[string]bool{allowedKey: true}, allow,
			"the parameter has an allowed_parameters entry that is not empty and the membership test on that entry did not answer true")
		c03gNoAllow(c, f, "deny{parameter not in allowed_parameters}", nil, lk,
			eng.CondEdges(f, `^`+perm+`\.AllowedParameters\["\*"\]#1$`, true), map[string]bool{allowedKey: false}, allow,
			`the parameter has no allowed_parameters entry and "*" is not allowed`)
	}
	c.Floor(f, "per-parameter lookups in allowed_parameters", len(c03gMapLookups(f, "AllowedParameters", false)), 1)
}

// ---------------------------------------------------------------------------
// C03.7 .. C03.9, C03.12: AllowOperation beyond the capability test

func c03gAllowOperation(c *eng.Ctx) {
	f := c.Fn("policy.(*ACL).AllowOperation")
	if f == nil {
		return
	}
	var allow []ssa.Instruction
	for _, st := range eng.Stores(f, `\.Allowed$`) {
		if eng.Expr(st.Val) == "true" {
			allow = append(allow, st)
		}
	}
	if !c.Floor(f, "Allowed = true stores (gaps)", len(allow), 5) {
		return
	}
	perm := `φpermissions\{.*\}`

	// ---- C03.7 the trailing-slash fallback (rule looked up under the path
	// without its final '/') exists for list and scan only
	c.Clause("R2", "C03.7")
	var trimmed []ssa.Instruction
	for _, cl := range eng.Calls(f, c03RadixGet+`$|policy\.\(\*ACL\)\.CheckAllowedFromNonExactPaths$`) {
		key := c03LastArg(cl)
		if strings.HasSuffix(eng.CalleeName(cl.Common()), "CheckAllowedFromNonExactPaths") {
			key = cl.Common().Args[1]
		}
		for _, o := range eng.Origins(key) {
			if o.Kind == "call" && o.Desc == "strings.TrimSuffix" {
				trimmed = append(trimmed, cl)
				break
			}
		}
	}
	if c.Floor(f, "rule lookups under the slash-trimmed path", len(trimmed), 2) {
		c.Cut(f, "rule lookup under the slash-trimmed path", trimmed,
			eng.Or(eng.G(f, `^req\.Operation == "list"$`, true), eng.G(f, `^req\.Operation == "scan"$`, true)), nil)
	}

	c03gParameterChecks(c, "C03.8")

	// ---- C03.9 pagination limit restricts list and scan alike
	c.Clause("R2", "C03.9")
	pag := `^0 < ` + perm + `\.PaginationLimit$`
	for _, op := range []string{"list", "scan"} {
		c03gCutLive(c, f, "ret.Allowed = true ("+op+")", allow,
			eng.Or(eng.G(f, pag, true), eng.G(f, pag, false)), c03gOpAssume(op, nil))
	}
	c.Clause("R4", "C03.9")
	c03gNoAllow(c, f, "deny{limit above pagination_limit}", eng.CondEdges(f, `^`+perm+`\.PaginationLimit < .*SafeParseInt\(\)#0$`, true), nil, nil, nil, allow,
		"the requested limit exceeds pagination_limit")
	c03gNoAllow(c, f, "deny{negative limit}", eng.CondEdges(f, `SafeParseInt\(\)#0 < 0$`, true), nil, nil, nil, allow,
		"the requested limit is negative")
	c03gNoAllow(c, f, "deny{limit required but absent}", eng.CondEdges(f, `^φlimitRequiredParameter\{`, true), nil, nil, nil, allow,
		"limit is a required parameter and the request has none")

	// ---- C03.12 parameter names are case-folded before they are looked up
	c.Clause("R5", "C03.12")
	n := 0
	for _, fld := range []string{"AllowedParameters", "DeniedParameters"} {
		for _, lk := range c03gMapLookups(f, fld, false) {
			n++
			c.Prov(f, "key looked up in "+fld, lk, lk.Index, `^call:strings\.ToLower$`)
		}
		for _, lk := range c03gMapLookups(f, fld, true) {
			if s := eng.Expr(lk.Index); s != `"*"` {
				c.Violation(f, "constant key looked up in "+fld, lk.Pos(), "constant key "+s+" (only \"*\" is documented)", nil)
			}
		}
	}
	c.Floor(f, "parameter-name lookups", n, 2)
}

// ---------------------------------------------------------------------------
// C03.4 (continued): the keys the comparator sees describe the candidate's own pattern

func c03gCandidates(c *eng.Ctx) {
	f := c.Fn("policy.(*ACL).CheckAllowedFromNonExactPaths")
	if f == nil {
		return
	}
	c.Clause("R5", "C03.4")
	var descrs []*ssa.Alloc
	for _, in := range eng.Instrs(f, func(in ssa.Instruction) bool { _, ok := in.(*ssa.Alloc); return ok }) {
		a := in.(*ssa.Alloc)
		if strings.HasSuffix(a.Type().String(), "policy.wcPathDescr") {
			descrs = append(descrs, a)
		}
	}
	lp := `^call:github\.\(\*com/armon/go-radix\.Tree\)\.LongestPrefix#`
	nPrefix, nSeg := 0, 0
	for _, a := range descrs {
		perms := eng.StructLitField(a, "perms")
		if len(perms) == 0 {
			continue
		}
		isPrefixCand := true
		for _, p := range perms {
			if ok, _, _ := eng.OriginsMatch(p, lp+`1$`); !ok {
				isPrefixCand = false
			}
		}
		if isPrefixCand {
			nPrefix++
			// glob candidate out of the prefix tree: first glob position = length of the matched prefix, text = the prefix, isPrefix = true
			ip := eng.StructLitField(a, "isPrefix")
			if len(ip) == 1 && eng.Expr(ip[0]) == "true" {
				c.OK(f, "prefix candidate{isPrefix}", a.Pos(), "isPrefix = true")
			} else {
				c.Violation(f, "prefix candidate{isPrefix}", a.Pos(), "the candidate taken from the prefix tree is not marked isPrefix=true: it would be ranked like a non-glob pattern", nil)
			}
			fw := eng.StructLitField(a, "firstWCOrGlob")
			okFw := len(fw) == 1
			if okFw {
				cl, isCall := fw[0].(*ssa.Call)
				okFw = isCall && eng.CalleeName(&cl.Call) == "len" && len(cl.Call.Args) == 1
				if okFw {
					okFw, _, _ = eng.OriginsMatch(cl.Call.Args[0], lp+`0$`)
				}
			}
			if okFw {
				c.OK(f, "prefix candidate{firstWCOrGlob}", a.Pos(), "firstWCOrGlob = len(matched prefix)")
			} else {
				c.Violation(f, "prefix candidate{firstWCOrGlob}", a.Pos(), "the first-glob position of the prefix candidate is not the length of the matched prefix", nil)
			}
			for _, w := range eng.StructLitField(a, "wcPath") {
				c.Prov(f, "prefix candidate{wcPath}", a, w, lp+`0$`)
			}
			continue
		}
		// segment-wildcard candidate: keys computed from the map key, perms looked up under the same key
		fw := eng.StructLitField(a, "firstWCOrGlob")
		if len(fw) == 0 {
			continue
		}
		nSeg++
		var key ssa.Value
		for _, v := range fw {
			cl, isCall := v.(*ssa.Call)
			if isCall && eng.CalleeName(&cl.Call) == "strings.Index" && len(cl.Call.Args) == 2 && eng.Expr(cl.Call.Args[1]) == `"+"` {
				key = cl.Call.Args[0]
				c.OK(f, "segment candidate{firstWCOrGlob}", v.(ssa.Instruction).Pos(), "firstWCOrGlob = strings.Index(pattern, \"+\")")
			} else {
				c.Violation(f, "segment candidate{firstWCOrGlob}", a.Pos(), "the first-wildcard position of a segment-wildcard candidate is "+eng.ExprDeep(v)+", expected strings.Index(pattern, \"+\")", nil)
			}
		}
		for _, p := range perms {
			lk, _ := p.(*ssa.Lookup)
			if ta, ok := p.(*ssa.TypeAssert); ok {
				lk, _ = ta.X.(*ssa.Lookup)
			}
			if lk != nil && strings.HasSuffix(eng.Expr(lk.X), ".segmentWildcardPaths") && (key == nil || lk.Index == key) {
				c.OK(f, "segment candidate{perms}", lk.Pos(), "perms = a.segmentWildcardPaths[pattern]")
			} else {
				c.Violation(f, "segment candidate{perms}", a.Pos(), "the permissions attached to a segment-wildcard candidate are not looked up under the candidate's own pattern: "+eng.ExprDeep(p), nil)
			}
		}
	}
	c.Floor(f, "candidate built from the prefix tree", nPrefix, 1)
	c.Floor(f, "candidate built from the segment-wildcard map", nSeg, 1)
}

// ---------------------------------------------------------------------------
// C03.10 expired rules and expired policies do not decide

func c03gExpiry(c *eng.Ctx) {
	if f := c.Fn("policy.NewACL"); f != nil {
		c.Clause("R2", "C03.10")
		sinks := gcIns(f, `go-radix\.Tree\)\.Insert$`)
		for _, in := range eng.Instrs(f, func(in ssa.Instruction) bool {
			mu, ok := in.(*ssa.MapUpdate)
			return ok && strings.HasSuffix(eng.Expr(mu.Map), ".segmentWildcardPaths")
		}) {
			sinks = append(sinks, in)
		}
		if c.Floor(f, "insertions into the ACL (expiry)", len(sinks), 4) {
			c.Cut(f, "rule merged into the ACL", sinks, eng.Or(
				eng.GD(f, `^time\.\(Time\)\.IsZero\(.*\.Paths\[.*\]\.Expiration\)$`, true),
				eng.GD(f, `^time\.\(Time\)\.After\(time\.Now\(\), .*\.Paths\[.*\]\.Expiration\)$`, false)), nil)
		}
	}
	if f := c.Fn("policy.(*Store).switchedGetPolicy"); f != nil {
		c.Clause("R2", "C03.10")
		var cached []ssa.Instruction
		for _, st := range eng.Stores(f, `.`) {
			if ok, _, _ := eng.OriginsMatch(st.Val, `^call:.*TwoQueueCache\[.*\]\)\.Get#0$`); ok {
				cached = append(cached, st)
			}
		}
		for _, r := range eng.Returns(f) {
			if len(r.Results) > 0 {
				if ok, _, _ := eng.OriginsMatch(r.Results[0], `^call:.*TwoQueueCache\[.*\]\)\.Get#0$`); ok {
					cached = append(cached, r)
				}
			}
		}
		if c.Floor(f, "cached policy handed out", len(cached), 2) {
			c.Cut(f, "cached policy handed out", cached, eng.Or(
				eng.GD(f, `^time\.\(Time\)\.IsZero\(.*\.Get\(.*\)#0\.Expiration\)$`, true),
				eng.GD(f, `^time\.\(Time\)\.After\(time\.Now\(\), .*\.Get\(.*\)#0\.Expiration\)$`, false)), nil)
		}
	}
}

// ---------------------------------------------------------------------------
// C03.11 merging two rules for one pattern keeps the more restrictive numeric bound

func c03gMergeBounds(c *eng.Ctx) {
	// The merge may sit in NewACL or in a helper it calls: the sites are the
	// stores "X.F = Y.F" (same field of two permission objects, X not a literal
	// under construction) anywhere in package policy; the guards are looked for
	// in the function holding the store, over the same two operands.
	c.Clause("R2", "C03.11")
	for _, fld := range []string{"MaxWrappingTTL", "PaginationLimit"} {
		fv := c.P.Field("policy.ACLPermissions." + fld)
		if fv == nil {
			c.Unresolved("policy.ACLPermissions." + fld)
			continue
		}
		n := 0
		for _, w := range c.P.FieldWriters(fv) {
			if !eng.InPkg(w.Fn, "policy") {
				continue
			}
			if _, lit := w.Addr.X.(*ssa.Alloc); lit {
				continue
			}
			ld, ok := w.Store.Val.(*ssa.UnOp)
			if !ok || ld.Op != token.MUL {
				continue
			}
			src, ok := ld.X.(*ssa.FieldAddr)
			if !ok || eng.FieldVar(src) != fv {
				continue
			}
			n++
			f := w.Fn
			xs := regexp.QuoteMeta(strings.TrimPrefix(eng.ExprDeep(w.Store.Addr), "&"))
			ys := regexp.QuoteMeta(eng.ExprDeep(w.Store.Val))
			sink := []ssa.Instruction{w.Store}
			unset := eng.GD(f, `^\(?`+xs+`\)? == 0$`, true)
			if fld == "PaginationLimit" {
				unset = eng.GD(f, `^0 < \(?`+xs+`\)?$`, false)
			}
			c.Cut(f, "accumulated."+fld+" = new."+fld, sink, eng.Guard{Desc: "[new rule's " + fld + " is set]=true", Edges: eng.GD(f, `^0 < \(?`+ys+`\)?$`, true).Edges}, nil)
			c.Cut(f, "accumulated."+fld+" = new."+fld, sink, eng.Guard{Desc: "[accumulated " + fld + " unset]=true OR [new < accumulated]=true",
				Edges: append(unset.Edges, eng.GD(f, `^\(?`+ys+`\)? < \(?`+xs+`\)?$`, true).Edges...)}, nil)
		}
		c.Floor(nil, "merge stores accumulated."+fld+" = new."+fld+" in package policy", n, 1)
	}
}

// ---------------------------------------------------------------------------
// C03.12 / C03.13 the parser's side of the tables

func c03gParser(c *eng.Ctx) {
	f := c.Fn("policy.parsePaths")
	if f == nil {
		return
	}
	// parameter names are stored case-folded
	c.Clause("R5", "C03.12")
	n := 0
	for _, in := range eng.Instrs(f, func(in ssa.Instruction) bool { _, ok := in.(*ssa.MapUpdate); return ok }) {
		mu := in.(*ssa.MapUpdate)
		s := eng.Expr(mu.Map)
		for _, fld := range []string{"AllowedParameters", "DeniedParameters"} {
			if strings.HasSuffix(s, ".Permissions."+fld) {
				n++
				c.Prov(f, "key stored in "+fld, in, mu.Key, `^call:strings\.ToLower$`)
			}
		}
	}
	c.Floor(f, "parameter maps filled by the parser", n, 2)

	// glob strip and IsPrefix go together and never touch segment-wildcard rules
	c.Clause("R2", "C03.13")
	var strip, pref []ssa.Instruction
	for _, st := range eng.Stores(f, `\.Path$`) {
		if ok, _, _ := eng.OriginsMatch(st.Val, `^call:strings\.CutSuffix#0$`); ok {
			strip = append(strip, st)
		}
	}
	for _, st := range eng.Stores(f, `\.IsPrefix$`) {
		if eng.Expr(st.Val) == "true" {
			pref = append(pref, st)
		}
	}
	if c.Floor(f, "trailing-glob strip", len(strip), 1) && c.Floor(f, "IsPrefix = true", len(pref), 1) {
		both := append(append([]ssa.Instruction{}, strip...), pref...)
		c.Cut(f, "glob stripped / IsPrefix set", both, eng.G(f, `^strings\.CutSuffix\(\)#1$`, true), nil)
		c.Cut(f, "glob stripped / IsPrefix set", both, eng.G(f, `\.HasSegmentWildcards$`, false), nil)
		// one never happens without the other before the rule is appended
		app := instrsOf(eng.Calls(f, `^append$`))
		for _, pr := range [][2][]ssa.Instruction{{strip, pref}, {pref, strip}} {
			for _, a := range pr[0] {
				// from a: the partner is executed before the rule can be appended (either order in the block)
				ok := false
				for _, b := range pr[1] {
					if b.Block() == a.Block() {
						ok = true
					}
				}
				if !ok && eng.Reach(eng.Query{Fn: f, StartAfter: a, Barriers: pr[1], Target: eng.IsTarget(app)}) != nil {
					c.Violation(f, "strip and IsPrefix together", a.Pos(), "the trailing '*' is stripped without marking the rule as a prefix rule, or the other way round", nil)
				} else {
					c.OK(f, "strip and IsPrefix together", a.Pos(), "paired")
				}
			}
		}
	}

	// legacy policy names
	c.Clause("R7", "C03.13")
	capConst := func(names ...string) ([]string, bool) {
		var out []string
		for _, n := range names {
			v, ok := c.P.ConstValue("policy." + n)
			if !ok {
				c.Unresolved("policy." + n)
				return nil, false
			}
			out = append(out, strings.Trim(v, `"`))
		}
		sort.Strings(out)
		return out, true
	}
	want := map[string][]string{}
	for legacy, caps := range map[string][]string{
		"OldDenyPathPolicy":  {"DenyCapability"},
		"OldReadPathPolicy":  {"ReadCapability", "ListCapability"},
		"OldWritePathPolicy": {"CreateCapability", "ReadCapability", "UpdateCapability", "DeleteCapability", "ListCapability"},
		"OldSudoPathPolicy":  {"CreateCapability", "ReadCapability", "UpdateCapability", "DeleteCapability", "ListCapability", "SudoCapability"},
	} {
		k, ok1 := capConst(legacy)
		v, ok2 := capConst(caps...)
		if !ok1 || !ok2 {
			return
		}
		want[k[0]] = v
	}
	got := map[string][]string{}
	for _, b := range f.Blocks {
		ifi := eng.IfOf(b)
		if ifi == nil {
			continue
		}
		nc := eng.Normalize(ifi.Cond)
		m := c03gLegacyRe.FindStringSubmatch(nc.Base)
		if m == nil {
			continue
		}
		arm := b.Succs[1]
		if nc.Pol {
			arm = b.Succs[0]
		}
		var caps []string
		for _, in := range arm.Instrs {
			if st, ok := in.(*ssa.Store); ok {
				if _, isIdx := st.Addr.(*ssa.IndexAddr); !isIdx {
					continue
				}
				if cst, ok := st.Val.(*ssa.Const); ok && strings.HasPrefix(eng.Expr(cst), `"`) {
					caps = append(caps, strings.Trim(eng.Expr(cst), `"`))
				}
			}
		}
		sort.Strings(caps)
		got[m[1]] = caps
	}
	if len(got) == 0 {
		c.Undecided(f, "legacy policy table", f.Pos(), "no arm testing pc.Policy against a constant in parsePaths: moved? the rule cannot be evaluated")
		return
	}
	var names []string
	for k := range want {
		names = append(names, k)
	}
	sort.Strings(names)
	for _, k := range names {
		g, ok := got[k]
		switch {
		case !ok:
			c.Violation(f, "legacy policy{"+k+"}", f.Pos(), "the legacy shorthand policy = \""+k+"\" has no arm in the parser", nil)
		case strings.Join(g, ",") != strings.Join(want[k], ","):
			c.Violation(f, "legacy policy{"+k+"}", f.Pos(), fmt.Sprintf("policy = %q expands to %v, the reviewed table says %v", k, g, want[k]), nil)
		default:
			c.OK(f, "legacy policy{"+k+"}", f.Pos(), fmt.Sprintf("%q → %v", k, g))
		}
	}
	for k := range got {
		if _, ok := want[k]; !ok {
			c.Violation(f, "legacy policy{"+k+"}", f.Pos(), "legacy shorthand "+k+" is not in the reviewed table", nil)
		}
	}
}

var c03gLegacyRe = regexpMust(`^&pc\.Policy == "(\w+)"$`)

// ---------------------------------------------------------------------------
// C03.14 the ACL is built from all attached policies, each fetched in its own namespace

func c03gStoreACL(c *eng.Ctx) {
	f := c.Fn("policy.(*Store).ACL")
	if f == nil {
		return
	}
	gets := eng.Calls(f, `policy\.\(\*Store\)\.GetPolicy$`)
	if !c.Floor(f, "GetPolicy calls", len(gets), 1) {
		return
	}
	build := gcIns(f, `^policy\.NewACL$`)
	c.Floor(f, "NewACL call", len(build), 1)
	for _, g := range gets {
		a := g.Common().Args
		c.Clause("R5", "C03.14")
		okCtx := false
		if cw, ok := a[1].(*ssa.Call); ok && eng.CalleeName(&cw.Call) == "namespace.ContextWithNamespace" {
			if nsOK, _, _ := eng.OriginsMatch(cw.Call.Args[1], `^call:<policy\.core>\.NamespaceByID#0$`); nsOK {
				// the namespace is the one the names are attached in: NamespaceByID(key) and names = value of one map iteration
				for _, o := range eng.Origins(cw.Call.Args[1]) {
					ex, _ := o.Val.(*ssa.Extract)
					if ex == nil {
						continue
					}
					nb, _ := ex.Tuple.(*ssa.Call)
					if nb == nil {
						continue
					}
					args := nb.Call.Args
					id, _ := args[len(args)-1].(*ssa.Extract)
					if id == nil {
						continue
					}
					for _, no := range eng.Origins(a[2]) {
						_ = no
					}
					if c03gFromTuple(a[2], id.Tuple) {
						okCtx = true
					}
				}
			}
		}
		if okCtx {
			c.OK(f, "namespace a policy name is resolved in", g.Pos(), "GetPolicy(ContextWithNamespace(ctx, NamespaceByID(nsID)), name) with nsID and name from the same policyNames entry")
		} else {
			c.Violation(f, "namespace a policy name is resolved in", g.Pos(), "the context handed to GetPolicy is "+eng.ExprDeep(a[1])+": not the namespace the policy name is attached in (policyNames key)", nil)
		}
		c.Clause("R11", "C03.14")
		c.ErrChecked(f, g)
		c.Clause("R4", "C03.14")
		fe := eng.CallFailEdges(g)
		if len(fe) == 0 {
			c.Violation(f, "policy fetch failed => no ACL", g.Pos(), "the error of GetPolicy is not branched on", nil)
		} else if h := eng.Reach(eng.Query{Fn: f, StartEdges: fe, Target: eng.IsTarget(build)}); h != nil {
			c.Violation(f, "policy fetch failed => no ACL", h.Instr.Pos(), "after a failed policy fetch the ACL is still built, from the remaining policies (a deny in the unreadable policy would be lost)", h.Witness)
		} else {
			c.OK(f, "policy fetch failed => no ACL", g.Pos(), "NewACL unreachable from the error edge of GetPolicy")
		}
	}
}

// c03gFromTuple: v is read out of (an element of) the tuple t.
func c03gFromTuple(v ssa.Value, t ssa.Value) bool {
	seen := map[ssa.Value]bool{}
	var walk func(v ssa.Value) bool
	walk = func(v ssa.Value) bool {
		if v == nil || seen[v] {
			return false
		}
		seen[v] = true
		switch x := v.(type) {
		case *ssa.Extract:
			return x.Tuple == t
		case *ssa.UnOp:
			return x.Op == token.MUL && walk(x.X)
		case *ssa.IndexAddr:
			return walk(x.X)
		case *ssa.Index:
			return walk(x.X)
		case *ssa.Slice:
			return walk(x.X)
		case *ssa.Phi:
			for _, e := range x.Edges {
				if !walk(e) {
					return false
				}
			}
			return len(x.Edges) > 0
		}
		return false
	}
	return walk(v)
}

// ---------------------------------------------------------------------------
// C03.15 sys/capabilities builds the ACL the way a request by that token would

func c03gCapabilities(c *eng.Ctx) {
	f := c.Fn("vault.(*Core).Capabilities")
	if f == nil {
		return
	}
	te := `vault\.\(\*TokenStore\)\.Lookup\(\)#0`
	acl := eng.Calls(f, `policy\.\(\*Store\)\.ACL$`)
	if !c.Floor(f, "policyStore.ACL call", len(acl), 1) {
		return
	}
	c.Clause("R5", "C03.15")
	for _, fe := range eng.Calls(f, `vault\.\(\*Core\)\.fetchEntityAndDerivedPolicies$`) {
		a := fe.Common().Args
		c.Prov(f, "entity whose identity policies are merged", fe, a[3], `^field:`+te+`\.EntityID$`)
		c.Prov(f, "no_identity_policies honoured", fe, a[4], `^field:`+te+`\.NoIdentityPolicies$`)
	}
	for _, cl := range acl {
		a := cl.Common().Args
		okCtx := false
		if cw, ok := a[1].(*ssa.Call); ok && eng.CalleeName(&cw.Call) == "namespace.ContextWithNamespace" {
			if nb, ok := c03gTupleCall(cw.Call.Args[1]); ok && strings.HasSuffix(eng.CalleeName(&nb.Call), "NamespaceByID") {
				if s := eng.Expr(nb.Call.Args[len(nb.Call.Args)-1]); s == "vault.(*TokenStore).Lookup()#0.NamespaceID" {
					okCtx = true
				}
			}
		}
		if okCtx {
			c.OK(f, "namespace the reported ACL is built in", cl.Pos(), "the token's own namespace")
		} else {
			c.Violation(f, "namespace the reported ACL is built in", cl.Pos(), "policyStore.ACL is called with "+eng.ExprDeep(a[1])+", expected a context carrying the namespace of the looked-up token", nil)
		}
		c.Prov(f, "entity given to the ACL", cl, a[2], `^call:vault\.\(\*Core\)\.fetchEntityAndDerivedPolicies#0$`)
	}
	c.Clause("R2", "C03.15")
	ent := `^vault\.\(\*Core\)\.fetchEntityAndDerivedPolicies\(\)#0`
	sinks := instrsOf(acl)
	c.Cut(f, "policyStore.ACL (capabilities)", sinks, eng.GCallOK(f, `vault\.\(\*Core\)\.fetchEntityAndDerivedPolicies$`), nil)
	c.Cut(f, "policyStore.ACL (capabilities)", sinks, eng.Or(eng.G(f, ent+` == nil$`, true), eng.G(f, ent+`\.Disabled$`, false)), nil)
	c.Cut(f, "policyStore.ACL (capabilities)", sinks, eng.Or(eng.G(f, `^`+te+`\.EntityID == ""$`, true), eng.G(f, ent+` == nil$`, false)), nil)
}

// c03gRequestContext (C03.15): the capability report and the enforcement resolve
// the queried path in the same namespace — the one of the request. The ACL is
// BUILT in the token's namespace (checked above), but the context handed on to
// the decision (ACL.Capabilities → AllowOperation on the reporting side,
// CheckToken → performPolicyChecks → AllowOperation on the enforcing side) is,
// at every hop, the function's own ctx parameter.
func c03gRequestContext(c *eng.Ctx) {
	c.Clause("R5", "C03.15")
	for _, hop := range []struct{ fn, callee, what string }{
		{"vault.(*Core).Capabilities", `policy\.\(\*ACL\)\.Capabilities$`, "report: context in which sys/capabilities resolves the path"},
		{"policy.(*ACL).Capabilities", `policy\.\(\*ACL\)\.AllowOperation$`, "report: context ACL.Capabilities hands to AllowOperation"},
		{"vault.(*Core).CheckToken", `vault\.\(\*Core\)\.performPolicyChecks$`, "enforcement: context CheckToken hands to the policy check"},
		{"vault.(*Core).performPolicyChecks", `policy\.\(\*ACL\)\.AllowOperation$`, "enforcement: context the policy check hands to AllowOperation"},
	} {
		f := c.Fn(hop.fn)
		if f == nil {
			continue
		}
		effs := gcEffs(f, hop.callee)
		if len(effs) == 0 {
			c.Undecided(f, "prov{"+hop.what+"}", f.Pos(), "no call matching "+hop.callee+" in "+hop.fn+" (directly, through a method value, a closure or a same-package helper): moved? the rule cannot be evaluated")
			continue
		}
		for _, e := range effs {
			a := gcArgs(e)
			if len(a) < 2 {
				c.Undecided(f, "prov{"+hop.what+"}", e.Call.In.Pos(), "unexpected argument list")
				continue
			}
			// a[0] is the receiver, a[1] the context
			gcProv(c, f, hop.what, e.Call.In, a[1], e.Fr, `^param:ctx$`)
		}
	}
}

func c03gTupleCall(v ssa.Value) (*ssa.Call, bool) {
	ex, ok := v.(*ssa.Extract)
	if !ok {
		return nil, false
	}
	cl, ok := ex.Tuple.(*ssa.Call)
	return cl, ok
}

// ---------------------------------------------------------------------------
// C03.16 list filtering keeps exactly the keys the ACL allows

func c03gListFilter(c *eng.Ctx) {
	f := c.Fn("vault.(*Core).filterListResponse")
	if f == nil {
		return
	}
	isFiltered := func(v ssa.Value) bool { p, ok := v.(*ssa.Phi); return ok && eng.VarName(p) == "filteredKeys" }
	var keep []ssa.Instruction
	for _, ap := range eng.Calls(f, `^append$`) {
		if isFiltered(ap.Common().Args[0]) {
			keep = append(keep, ap)
		}
	}
	ppc := `vault\.\(\*Core\)\.performPolicyChecks$`
	checks := gcEffs(f, ppc)
	if !c.Floor(f, "append to filteredKeys", len(keep), 1) || !c.Floor(f, "per-key policy check", len(checks), 1) {
		return
	}
	c.Clause("R2", "C03.16")
	c.Cut(f, "key kept in the filtered list", keep, eng.Guard{Desc: "[performPolicyChecks().Allowed]=true",
		Edges: gcFwdCondEdges(f, gcFieldOfCall(ppc, "Allowed"), true)}, nil)
	c.Clause("R5", "C03.16")
	for _, e := range checks {
		a, pc := gcArgs(e), e.Call.In
		gcProv(c, f, "ACL judging the keys", pc, a[2], e.Fr, `^param:acl$`)
		gcProv(c, f, "token entry judging the keys", pc, a[3], e.Fr, `^param:te$`)
		paths := gcLitField(a[4], e.Fr, "Path")
		if len(paths) == 0 {
			c.Undecided(f, "prov{path checked per key}", pc.Pos(), "the request handed to the per-key policy check is not built where the rule can see it (in place, or in a closure / same-package helper returning the literal): moved? the rule cannot be evaluated")
		}
		for _, v := range paths {
			gcProv(c, f, "path checked per key", pc, v.V, v.Fr, `^call:helper/template\.UseTemplateForFiltering#0$`)
		}
		opts := a[len(a)-1]
		rp := gcLitField(opts, e.Fr, "RootPrivsRequired")
		if len(rp) == 0 {
			c.Violation(f, "prov{sudo requirement of the per-key check}", pc.Pos(), "CheckOpts.RootPrivsRequired is left at its zero value: root-protected paths would pass without sudo", nil)
		}
		for _, v := range rp {
			gcProv(c, f, "sudo requirement of the per-key check", pc, v.V, v.Fr, `^call:routing\.\(\*Router\)\.RootPath$`)
		}
		un := gcLitField(opts, e.Fr, "Unauth")
		if len(un) == 0 {
			c.Violation(f, "prov{unauth flag of the per-key check}", pc.Pos(), "CheckOpts.Unauth is left at its zero value", nil)
		}
		for _, v := range un {
			gcProv(c, f, "unauth flag of the per-key check", pc, v.V, v.Fr, `^param:unauth$`)
		}
	}
	// what is written back
	n := 0
	for _, in := range eng.Instrs(f, func(in ssa.Instruction) bool { _, ok := in.(*ssa.MapUpdate); return ok }) {
		mu := in.(*ssa.MapUpdate)
		if eng.Expr(mu.Map) == "resp.Data" && eng.Expr(mu.Key) == `"keys"` {
			n++
			if isFiltered(mu.Value) || c03gBoxed(mu.Value, isFiltered) {
				c.OK(f, "keys written back", in.Pos(), "resp.Data[\"keys\"] = filteredKeys")
			} else {
				c.Violation(f, "keys written back", in.Pos(), "resp.Data[\"keys\"] receives "+eng.ExprDeep(mu.Value)+", not the filtered list", nil)
			}
		}
		// key_info entries are copied for filtered keys only
		if strings.HasPrefix(eng.Expr(mu.Map), "makemap") {
			if idx, ok := c03gElemOf(mu.Key); ok && isFiltered(idx) {
				n++
				c.OK(f, "key_info copied per filtered key", in.Pos(), "filteredInfo[k] for k in filteredKeys")
			} else {
				c.Violation(f, "key_info copied per filtered key", in.Pos(), "key_info is rebuilt from "+eng.ExprDeep(mu.Key)+", not from the filtered keys", nil)
			}
		}
	}
	c.Floor(f, "write-backs of the filtered response", n, 2)
}

func c03gBoxed(v ssa.Value, pred func(ssa.Value) bool) bool {
	if mi, ok := v.(*ssa.MakeInterface); ok {
		return pred(mi.X)
	}
	return false
}

// c03gElemOf: v is xs[i]; returns xs.
func c03gElemOf(v ssa.Value) (ssa.Value, bool) {
	u, ok := v.(*ssa.UnOp)
	if !ok || u.Op != token.MUL {
		return nil, false
	}
	ia, ok := u.X.(*ssa.IndexAddr)
	if !ok {
		return nil, false
	}
	return ia.X, true
}

// ---------------------------------------------------------------------------
// C03.6 (continued): reference-typed fields are never shared with the cached policy

// c03gRefFields: the map-, slice- and pointer-typed fields of policy.ACLPermissions.
func c03gRefFields(c *eng.Ctx) []string {
	n := c.P.NamedType("policy.ACLPermissions")
	if n == nil {
		c.Unresolved("policy.ACLPermissions")
		return nil
	}
	st, ok := n.Underlying().(*types.Struct)
	if !ok {
		c.Unresolved("policy.ACLPermissions (struct)")
		return nil
	}
	var out []string
	for i := 0; i < st.NumFields(); i++ {
		switch st.Field(i).Type().Underlying().(type) {
		case *types.Map, *types.Slice, *types.Pointer:
			out = append(out, st.Field(i).Name())
		}
	}
	return out
}

var c03gFreshOrigins = []string{
	`^call:github\.com/mitchellh/copystructure\.Copy#0$`,
	`^call:slices\.Clone\[`,
	`^call:maps\.Clone\[`,
	`^call:policy\.\(\*ControlGroup\)\.Clone#0$`,
	`^call:github\.com/hashicorp/go-secure-stdlib/strutil\.RemoveDuplicates$`,
	`^call:policy\.addGrantingPoliciesToMap$`,
	`^const:nil$`,
	`^alloc:`,
	`^other:make(map|slice)`,
}

// c03gFresh: every origin of v is a fresh allocation or a deep copy; an
// append counts when the slice it extends is itself fresh or matches ownBase
// (the accumulated object's own field). Returns the first offending origin.
func c03gFresh(v ssa.Value, ownBase func(ssa.Value) bool) (bool, string) {
	seen := map[ssa.Value]bool{}
	var walk func(v ssa.Value) (bool, string)
	walk = func(v ssa.Value) (bool, string) {
		if seen[v] {
			return true, ""
		}
		seen[v] = true
		for _, o := range eng.Origins(v) {
			if cl, ok := o.Val.(*ssa.Call); ok && o.Kind == "call" && o.Desc == "append" && len(cl.Call.Args) > 0 {
				base := cl.Call.Args[0]
				if ownBase != nil && ownBase(base) {
					continue
				}
				if ok, bad := walk(base); !ok {
					return false, "append to " + bad
				}
				continue
			}
			s := o.Kind + ":" + o.Desc
			fresh := false
			for _, pat := range c03gFreshOrigins {
				if m, _ := regexpMatch(pat, s); m {
					fresh = true
					break
				}
			}
			if !fresh {
				return false, s
			}
		}
		return true, ""
	}
	return walk(v)
}

// Shared with C02 (clause C02.8): a token is judged by its own policies only.
func c03gCloneOwnership(c *eng.Ctx, clause string) {
	fields := c03gRefFields(c)
	if !c.Floor(nil, "reference-typed fields of ACLPermissions", len(fields), 5) {
		return
	}
	// ---- Clone: every reference-typed field of the returned value is fresh
	if f := c.Fn("policy.(*ACLPermissions).Clone"); f != nil {
		c.Clause("R5", clause)
		n := 0
		for _, r := range eng.SuccessReturns(f, 1) {
			ret := r.(*ssa.Return)
			if eng.IsNilConst(ret.Results[0]) {
				continue
			}
			for _, fld := range fields {
				site := "Clone result{" + fld + "} is a fresh copy"
				vals := eng.StructLitField(ret.Results[0], fld)
				if len(vals) == 0 {
					c.OK(f, site, ret.Pos(), "left nil")
					continue
				}
				n++
				bad := ""
				for _, v := range vals {
					if ok, b := c03gFresh(v, nil); !ok && bad == "" {
						bad = b
					}
				}
				if bad != "" {
					c.Violation(f, site, ret.Pos(), "field "+fld+" of the value Clone returns may originate from "+bad+": the clone shares memory with the (cached, shared) object it was made from, so writes through one ACL reach the policy or other ACLs", nil)
				} else {
					c.OK(f, site, ret.Pos(), fmt.Sprintf("%d assignment(s), all fresh allocations or deep copies", len(vals)))
				}
			}
		}
		c.Floor(f, "reference-typed fields Clone fills", n, 4)
	}
	// ---- NewACL: a slice of the policy that is stored into the accumulated
	// entry is replaced by an owned one before the entry is (re)inserted
	if f := c.Fn("policy.NewACL"); f != nil {
		c.Clause("R5", clause)
		acc := `^φraw\{.*\}\.\(\*policy\.ACLPermissions\)\.`
		sinks := gcIns(f, `go-radix\.Tree\)\.Insert$`)
		for _, in := range eng.Instrs(f, func(in ssa.Instruction) bool {
			mu, ok := in.(*ssa.MapUpdate)
			return ok && strings.HasSuffix(eng.Expr(mu.Map), ".segmentWildcardPaths")
		}) {
			sinks = append(sinks, in)
		}
		ownBase := func(v ssa.Value) bool {
			m, _ := regexpMatch(acc, eng.Expr(v))
			return m
		}
		n := 0
		for _, fld := range fields {
			if t := c.P.Field("policy.ACLPermissions." + fld); t == nil {
				continue
			} else if _, isSlice := t.Type().Underlying().(*types.Slice); !isSlice {
				continue // maps: covered by the deep-copy rule of c03.go
			}
			var owned []ssa.Instruction
			var shared []*ssa.Store
			why := map[*ssa.Store]string{}
			for _, st := range eng.Stores(f, acc+fld+`$`) {
				n++
				if ok, bad := c03gFresh(st.Val, ownBase); ok {
					owned = append(owned, st)
				} else {
					shared = append(shared, st)
					why[st] = bad
				}
			}
			site := "accumulated " + fld + " never shares the policy's slice"
			viol := false
			for _, st := range shared {
				if h := eng.Reach(eng.Query{Fn: f, StartAfter: st, Barriers: owned, Target: eng.IsTarget(sinks)}); h != nil {
					viol = true
					c.Violation(f, site, st.Pos(), "the accumulated entry's "+fld+" is set to "+why[st]+" and the entry is inserted into the ACL without replacing it by an owned slice: a later append writes into the cached policy's backing array, which other ACLs built from that policy share", h.Witness)
				}
			}
			if !viol {
				c.OK(f, site, f.Pos(), fmt.Sprintf("%d owned store(s), %d store(s) of a policy slice all overwritten before the entry is inserted", len(owned), len(shared)))
			}
		}
		c.Floor(f, "stores to slice-typed fields of the accumulated entry", n, 3)
	}
}

// ---------------------------------------------------------------------------
// General site-location helpers (ROBUST.md, second pass). Built on the nf*
// helpers of c04follow.go; used by the C03 and C07 tables.

// gcSites: "the calls of T in f": direct calls, calls through a bound method
// value, and calls of a closure of f / a function of the same package on every
// normal return of which T has been called (one level). Each site is an
// instruction of f; Effs are the underlying calls with the frame needed to read
// their arguments back in f's terms.
func gcSites(f *ssa.Function, pat string) []nfSite { return nfMust(f, nil, nfNamed(pat), 1) }

// gcIns: the instructions of those sites (drop-in for instrsOf(eng.Calls(f, pat))).
func gcIns(f *ssa.Function, pat string) []ssa.Instruction { return nfAts(gcSites(f, pat)) }

// gcEffs: the underlying calls behind the sites.
func gcEffs(f *ssa.Function, pat string) []nfEff { return nfEffs(gcSites(f, pat)) }

// gcArgs: the arguments of an effect call in the layout of a direct call
// (receiver first for a concrete method, no receiver for an interface method).
func gcArgs(e nfEff) []ssa.Value {
	a := e.Call.Args
	if len(a) > len(e.Call.In.Common().Args) && len(a) > 0 {
		// bound method value: drop the receiver again when the method is an interface method
		if _, isIface := a[0].Type().Underlying().(*types.Interface); isIface {
			return a[1:]
		}
	}
	return a
}

// gcProv is Ctx.Prov with origins followed through captured variables and,
// along the frame, through parameters of the closure / helper the value lives in.
func gcProv(c *eng.Ctx, f *ssa.Function, site string, at ssa.Instruction, v ssa.Value, fr *nfFrame, allowed ...string) bool {
	site = "prov{" + site + "}"
	if v == nil {
		c.Undecided(f, site, token.NoPos, "value not found")
		return false
	}
	var all []string
	bad := ""
	for _, o := range nfOrigins(v, fr) {
		s := o.Kind + ":" + o.Desc
		all = append(all, s)
		ok := false
		for _, a := range allowed {
			if m, _ := regexpMatch(a, s); m {
				ok = true
				break
			}
		}
		if !ok && bad == "" {
			bad = s
		}
	}
	if bad != "" || len(all) == 0 {
		c.Violation(f, site, at.Pos(), fmt.Sprintf("value may originate from %s; allowed origins: %v; all origins: %v", bad, allowed, all), nil)
		return false
	}
	c.OK(f, site, at.Pos(), fmt.Sprintf("origins %v ⊆ allowed %v", all, allowed))
	return true
}

// gcVal is a value together with the frame it lives in.
type gcVal struct {
	V  ssa.Value
	Fr *nfFrame
}

// gcLitField: the values stored into field `name` of the struct v points to,
// where v is a literal built in place, a captured / aliased pointer to one, or
// the result of a closure / same-package helper that returns one (one level).
func gcLitField(v ssa.Value, fr *nfFrame, name string) []gcVal {
	var out []gcVal
	add := func(base ssa.Value, fr *nfFrame) {
		for _, x := range eng.StructLitField(base, name) {
			out = append(out, gcVal{x, fr})
		}
	}
	add(v, fr)
	for _, o := range nfOrigins(v, fr) {
		switch x := o.Val.(type) {
		case *ssa.Alloc:
			if ssa.Value(x) != v {
				add(x, fr)
			}
		case *ssa.Call:
			if g := nfBody(x, x.Parent()); g != nil {
				in := &nfFrame{call: x, up: fr}
				for _, r := range eng.Returns(g) {
					if len(r.Results) == 1 && nfIsNormalReturn(r) {
						add(r.Results[0], in)
						for _, ro := range eng.Origins(r.Results[0]) {
							if a, ok := ro.Val.(*ssa.Alloc); ok && ssa.Value(a) != r.Results[0] {
								add(a, in)
							}
						}
					}
				}
			}
		}
	}
	return out
}

// gcFwdVal: v satisfies pred, or v is the result of calling a closure / bound
// wrapper / same-package function every return of which yields such a value.
func gcFwdVal(v ssa.Value, pred func(ssa.Value) bool, depth int) bool {
	if pred(v) {
		return true
	}
	cl, ok := v.(*ssa.Call)
	if !ok || depth > 2 || cl.Call.IsInvoke() {
		return false
	}
	g, _ := nfFuncValue(cl.Call.Value)
	if g == nil || len(g.Blocks) == 0 {
		return false
	}
	if g.Parent() == nil && g.Synthetic == "" && (g.Pkg == nil || cl.Parent() == nil || g.Pkg != eng.TopFunc(cl.Parent()).Pkg) {
		return false
	}
	n := 0
	for _, r := range eng.Returns(g) {
		if !nfIsNormalReturn(r) {
			continue
		}
		n++
		if len(r.Results) != 1 || !gcFwdVal(r.Results[0], pred, depth+1) {
			return false
		}
	}
	return n > 0
}

// gcFwdCondEdges: the edges of the branches of f whose condition is (the
// negation of) such a value, on which the value is want.
func gcFwdCondEdges(f *ssa.Function, pred func(ssa.Value) bool, want bool) []eng.Edge {
	var out []eng.Edge
	for _, b := range f.Blocks {
		ifi := eng.IfOf(b)
		if ifi == nil {
			continue
		}
		nc := eng.Normalize(ifi.Cond)
		if !gcFwdVal(nc.Val, pred, 0) {
			continue
		}
		succ := 1
		if nc.Pol == want {
			succ = 0
		}
		out = append(out, eng.Edge{From: b, Succ: succ})
	}
	return out
}

// gcFieldOfCall: v reads field `field` of the result of a call whose resolved callee matches pat.
func gcFieldOfCall(pat, field string) func(ssa.Value) bool {
	return func(v ssa.Value) bool {
		var base ssa.Value
		switch x := v.(type) {
		case *ssa.UnOp:
			if fa, ok := x.X.(*ssa.FieldAddr); ok && x.Op == token.MUL && eng.FieldVar(fa) != nil && eng.FieldVar(fa).Name() == field {
				base = fa.X
			}
		case *ssa.Field:
			if fv := eng.FieldVar(x); fv != nil && fv.Name() == field {
				base = x.X
			}
		}
		cl, ok := base.(*ssa.Call)
		if !ok {
			return false
		}
		m, _ := regexpMatch(pat, nfCallOf(cl).Name)
		return m
	}
}
