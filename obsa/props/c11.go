package props

import (
	"fmt"
	"go/types"
	"sort"
	"strings"

	"golang.org/x/tools/go/ssa"

	"obsa/eng"
)

func init() {
	register(&Prop{
		ID: "C11",
		Explanation: "Structural necessary conditions of 'audit precedes effect and disclosure; no plaintext secrets in entries', on every CFG path: " +
			"(1) request audit success precedes backend dispatch in both request handlers; " +
			"(2) in Core.handleCancelableRequest every return that can carry a response after the handlers ran crosses the success edge of AuditBroker.LogResponse, whose failure edge returns a nil response, and the Response put into that audit's LogInput is the response returned across the success edge (same origins; the only other origin allowed is the decoded body on the unwrap path; never absent); " +
			"(3) AuditBroker.LogRequest/LogResponse report success only if some device accepted the entry (the local success flag or counter — initialised false/0, only set or incremented, tested afterwards — is set only on the device call's nil-error edge, and every normal return crosses it being non-zero, len(backends) being 0, or the failure error being appended) or no device is configured, a panic in a device is recovered into an error, and the per-device header transformation replaces the raw headers before every device call; " +
			"(4) in non-raw mode every field of the audit entry structs is read out of the hashed copies returned by HashAuth/HashRequest/HashResponse, never from the LogInput directly, and the one pass-through transformer accepted in such a chain (parseVaultTokenFromJWT for the wrap-info token) is applied only to values that are themselves read out of the sanitiser result; " +
			"(5) the sanitisers overwrite every sensitive field (client token, accessors when configured, request/response data, nested auth, wrap info token/accessors) of a *copy* with the salted-HMAC function's result and return the copy; the map handed to hashMap is the very value the overwrite stores (resolved flow-sensitively at the call, so hashing the input's live map through the not-yet-overwritten copy field is refused); the walker writes back only the callback's result and skips a leaf only for map keys, non-strings, RFC3339 times and a leaf whose *own* current key is in the exemption list; " +
			"(5b) hashMap hands HashStructure its own map, callback and exemption-list parameters unchanged; the walker's container and index stacks (cs/csKey) are pushed by Map/Slice/MapElem/SliceElem, popped by Exit on the matching location on every path, and written nowhere else; nothing is written into (or handed on from) the copy after hashMap hashed it; " +
			"(4b) the formatter sanitises request data with LogInput.NonHMACReqDataKeys and response data with LogInput.NonHMACRespDataKeys, and (2b) each of these lists is nil or read from the cache of the mount entry matched for the request path under the very key under which MountEntry.SyncCache publishes Config.AuditNonHMACRequestKeys / AuditNonHMACResponseKeys; (2d) wherever a live mount entry's Config or one of its two exemption lists is assigned, SyncCache on that entry follows on every path, and where the assignment registers a deferred restore (tune rollback) the entry's SyncCache is itself deferred and registered before that restore, so the cache is filled from what remains after a rollback; (2c) no field, auth block or data map of a logical.Response is written after the response audit in Core.handleCancelableRequest; " +
			"(4c) where Core.CheckToken rebuilds req.Headers[Authorization], a value is kept only across strings.HasPrefix(<that value>, <the scheme prefix http.getTokenFromReq strips the token from>) being false (operands: the header value itself and that constant — not req.ClientToken), and every success return for ClientTokenSource == ClientTokenFromAuthzHeader lies after the rebuilt slice is stored back (or the header is absent); (3b) AuditedHeadersConfig.ApplyConfig returns a nil header map when hashing a value fails, replaces values by the hash function's result only behind the header's HMAC setting, and publishes the slice it replaced them in; " +
			"(6) every builtin audit device's LogRequest/LogResponse returns nil only across the success edge of AuditFormatter.FormatRequest/FormatResponse (tabled: the file device set to discard), called with the device's own formatConfig and the input it was given.",
		NotDecided: "that reflectwalk visits every leaf of every payload shape (runtime traversal); absence of secrets in fields logged by design (paths, metadata, policy names, remote address); behaviour of individual audit devices.",
		Run:        runC11,
	})
}

func runC11(c *eng.Ctx, thorough bool) {
	// ---------- C11.1 request audit before routing (both handlers)
	for _, fn := range []string{"vault.(*Core).handleRequest", "vault.(*Core).handleLoginRequest"} {
		if f := c.Fn(fn); f != nil {
			c.Clause("R2", "C11.1")
			dispatch := instrsOf(eng.Calls(f, `vault\.\(\*Core\)\.doRoutingIfApproved$`))
			c.Floor(f, "dispatch call", len(dispatch), 1)
			// the broker call: direct, or through a local closure that only forwards to it
			audits := c11BrokerCalls(f, "LogRequest")
			c.Cut(f, "backend dispatch", dispatch, c11AuditGuard("success edge of vault\\.\\(\\*AuditBroker\\)\\.LogRequest$", audits), nil)
			// the entry audited is the request being dispatched
			c.Clause("R5", "C11.1")
			for _, au := range audits {
				lr := au.call
				vals, literal, traced := c11AuditVals(f, au, "Request")
				switch {
				case !traced:
					c.Undecided(f, "prov{LogInput.Request audited}", lr.Pos(), "the Request put into the LogInput inside a closure / helper could not be traced back to this function's values; the rule cannot be evaluated")
				case !literal || len(vals) == 0:
					c.Violation(f, "prov{LogInput.Request audited}", lr.Pos(), "the audited LogInput has no Request", nil)
				default:
					for _, v := range vals {
						c.Prov(f, "LogInput.Request audited", lr, v, `^param:req$`)
					}
				}
			}
		}
	}

	// ---------- C11.2 response audit before disclosure
	if f := c.Fn("vault.(*Core).handleCancelableRequest"); f != nil {
		c.Clause("R2", "C11.2")
		handlers := instrsOf(eng.Calls(f, `vault\.\(\*Core\)\.(handleRequest|handleLoginRequest)$`))
		c.Floor(f, "handler calls", len(handlers), 2)
		respAudits := c11BrokerCalls(f, "LogResponse")
		logResp := c11AuditGuard("success edge of vault\\.\\(\\*AuditBroker\\)\\.LogResponse$", respAudits)
		// returns reachable after a handler ran that may carry a non-nil response
		exceptions := map[string]string{
			"sdk/plugin/pb.LogicalRequestToProtoRequest": "control-group wrapping: marshalling the already-decoded request; failure returns the unwrapped response before the response audit — no input that makes it fail was found (triage A1); kept as a named exception",
			"google.golang.org/protobuf/proto.Marshal":   "control-group wrapping: proto.Marshal of the converted request (triage A1)",
			"sdk/helper/jsonutil.EncodeJSON":             "control-group wrapping: JSON encoding of the entity / control group (triage A1)",
		}
		nRets := 0
		for _, h := range handlers {
			for _, r := range eng.ReturnsFrom(f, nil, h, nil) {
				vals, _, _ := eng.ReturnVals(r, 0)
				nonNil := false
				for _, v := range vals {
					if !eng.AllNilThroughPhi(v) {
						nonNil = true
					}
				}
				if !nonNil {
					continue
				}
				nRets++
				// is this return reachable from the handler without crossing LogResponse's success edge?
				hit := eng.Reach(eng.Query{Fn: f, StartAfter: h, Blocked: logResp.Edges, Target: func(in ssa.Instruction) bool { return in == ssa.Instruction(r) }})
				site := "return{response} after " + eng.CalleeName(h.(ssa.CallInstruction).Common())
				if hit == nil {
					c.OK(f, site, r.Pos(), "a response is returned only across the success edge of AuditBroker.LogResponse")
					continue
				}
				// exception: the return sits on the failure edge of one of the tabled callees
				excused := ""
				for callee, reason := range exceptions {
					for _, cl := range eng.Calls(f, "^"+strings.ReplaceAll(strings.ReplaceAll(callee, ".", `\.`), "/", "/")+"$") {
						fe := eng.CallFailEdges(cl)
						if len(fe) == 0 {
							continue
						}
						for _, rr := range eng.ReturnsFrom(f, fe, nil, c11AuditInstrs(respAudits)) {
							if rr == r && dominatedByEdges(f, r, fe) {
								excused = callee + ": " + reason
							}
						}
					}
				}
				if excused != "" {
					c.Exception(eng.FuncName(f)+" return on failure of "+strings.SplitN(excused, ":", 2)[0], excused)
					c.OK(f, site+" [excepted]", r.Pos(), "returns a response before the response audit only on the failure edge of "+strings.SplitN(excused, ":", 2)[0]+" (reviewed exception)")
					continue
				}
				c.Violation(f, site, r.Pos(), "a response can be returned to the client without a successful response audit (LogResponse success edge not crossed)", hit.Witness)
			}
		}
		c.Floor(f, "response-carrying returns after the handlers", nRets, 2)
		// failure edge of LogResponse returns nil response
		c.Clause("R4", "C11.2")
		for _, au := range respAudits {
			lr := au.call
			c.NilResultOnEdges(f, "LogResponse failed", eng.CallFailEdges(lr), 0, "response")
			// the response being audited is the one returned (or its decoded form for unwrap)
			if rq, _, tr := c11AuditVals(f, au, "Request"); tr {
				for _, v := range rq {
					c.Clause("R5", "C11.2")
					c.Prov(f, "LogInput.Request in response audit", lr, v, `^param:req$`)
				}
			}
			// the response audited is the response disclosed on the success edge (or, for unwrap, its decoded form)
			c.Clause("R5", "C11.2")
			site := "prov{LogInput.Response audited = response returned across the audit's success edge}"
			// values in terms of this function: phis and memory cells (named results of a function with a
			// defer) read at the point of use, parameters of a closure / helper replaced by the arguments
			auds, literal, traced := c11AuditVals(f, au, "Response")
			if !traced {
				c.Undecided(f, site, lr.Pos(), "the Response put into the LogInput inside a closure / helper could not be traced back to this function's values; the rule cannot be evaluated")
				continue
			}
			if !literal {
				auds = nil
			}
			aud := map[ssa.Value]bool{}
			escaped := false
			for _, v := range auds {
				aud[v] = true
			}
			ret := map[ssa.Value]bool{}
			for _, r := range eng.ReturnsFrom(f, eng.CallOKEdges(lr), nil, nil) {
				vals, _, _ := eng.ReturnVals(r, 0)
				for _, v := range vals {
					if v != nil {
						escaped = c11CellLeaves(v, ret) || escaped
					}
				}
			}
			var missing, foreign []string
			nRet := 0
			for v := range ret {
				if eng.IsNilConst(v) {
					continue
				}
				nRet++
				if !aud[v] {
					missing = append(missing, eng.Expr(v))
				}
			}
			for v := range aud {
				if ret[v] {
					continue
				}
				if cl, ok := v.(*ssa.Call); ok && eng.CalleeName(&cl.Call) == "logical.HTTPResponseToLogicalResponse" {
					continue // unwrap: the decoded form of the raw body that will be written out
				}
				foreign = append(foreign, eng.Expr(v))
			}
			sort.Strings(missing)
			sort.Strings(foreign)
			switch {
			case len(auds) == 0:
				c.Violation(f, site, lr.Pos(), "the LogInput handed to LogResponse has no Response: the response about to be disclosed is not in the audit entry", nil)
			case nRet == 0:
				c.Undecided(f, site, lr.Pos(), "no response-carrying return found across the success edge of LogResponse; the rule cannot be evaluated")
			case escaped && (len(missing) > 0 || len(foreign) > 0):
				c.Undecided(f, site, lr.Pos(), fmt.Sprintf("the response variable is a memory cell whose address is visible to other code (closure / call): audited %v vs returned %v cannot be compared; the rule cannot be evaluated", foreign, missing))
			case len(missing) > 0:
				c.Violation(f, site, lr.Pos(), fmt.Sprintf("response value(s) %v can be returned to the client after the audit but are not what LogInput.Response carries (%d audited origin(s)): the entry does not describe the response disclosed", missing, len(aud)), nil)
			case len(foreign) > 0:
				c.Violation(f, site, lr.Pos(), fmt.Sprintf("LogInput.Response may carry %v, which is neither the response returned nor its decoded form", foreign), nil)
			default:
				c.OK(f, site, lr.Pos(), fmt.Sprintf("all %d origin(s) of the returned response are origins of LogInput.Response; the only other audited origin is the decoded unwrap body", nRet))
			}
		}
	}

	// ---------- C11.3 broker: at-least-one-device rule
	for _, m := range []string{"LogRequest", "LogResponse"} {
		f := c.Fn("vault.(*AuditBroker)." + m)
		if f == nil {
			continue
		}
		c.Clause("R2", "C11.3")
		dev := eng.Calls(f, `<audit\.Backend>\.`+m+`$`)
		if !c.Floor(f, "device call", len(dev), 1) {
			continue
		}
		// success bookkeeping, whatever its shape: a local flag or counter that starts at false/0, is
		// only ever set / incremented, and is tested afterwards
		devOK := eng.Guard{Desc: "nil-error edge of the device call", Edges: eng.CallOKEdges(dev[0]), Pass: []ssa.Instruction{dev[0]}}
		var sets []ssa.Instruction
		var blocked []eng.Edge
		for _, w := range c11SuccessWebs(f) {
			inWeb := func(v ssa.Value) bool { p, ok := v.(*ssa.Phi); return ok && w.phis[p] }
			nz := c11ZeroTestEdges(f, inWeb, true)
			if len(nz) == 0 {
				continue // never tested: not the bookkeeping
			}
			sets = append(sets, w.sets...)
			// only an accumulator whose every set sits behind the device's nil-error edge is evidence of acceptance
			evidence := eng.Reach(eng.Query{Fn: f, Barriers: devOK.Pass, Target: eng.IsTarget(w.sets)}) == nil &&
				eng.Reach(eng.Query{Fn: f, StartAfter: dev[0], Blocked: devOK.Edges, Barriers: devOK.Pass, Target: eng.IsTarget(w.sets)}) == nil
			if evidence {
				blocked = append(blocked, nz...)
			}
		}
		if len(sets) == 0 {
			c.Undecided(f, "anyLogged = true", f.Pos(), "no local success flag / counter (initialised false/0, only set or incremented, tested afterwards) found: the broker's bookkeeping was restructured; the rule cannot be evaluated")
		} else {
			c.Cut(f, "anyLogged = true", sets, devOK, nil)
		}
		// normal return without the 'no backend succeeded' error only if a device accepted or no backends
		var noBackendErr []ssa.Instruction
		for _, ap := range eng.Calls(f, `go-multierror\.Append$`) {
			noBackendErr = append(noBackendErr, ap)
		}
		var normalRets []ssa.Instruction
		for _, r := range eng.Returns(f) {
			if r.Block().Comment != "recover" {
				normalRets = append(normalRets, r)
			}
		}
		backendsF := c.P.Field("vault.AuditBroker.backends")
		if backendsF == nil {
			c.Unresolved("vault.AuditBroker.backends")
			continue
		}
		isLenBackends := func(v ssa.Value) bool {
			cl, ok := v.(*ssa.Call)
			if !ok || len(cl.Call.Args) != 1 {
				return false
			}
			if bi, ok := cl.Call.Value.(*ssa.Builtin); !ok || bi.Name() != "len" {
				return false
			}
			_, base := c14LoadOfField(cl.Call.Args[0], "backends")
			if base == nil {
				return false
			}
			ld := cl.Call.Args[0].(*ssa.UnOp)
			return eng.FieldVar(ld.X) == backendsF
		}
		blocked = append(blocked, c11ZeroTestEdges(f, isLenBackends, false)...)
		if h := eng.Reach(eng.Query{Fn: f, Barriers: noBackendErr, Blocked: blocked, Target: eng.IsTarget(normalRets)}); h != nil {
			c.Violation(f, "return without error needs anyLogged ∨ no devices", h.Instr.Pos(), "the broker can return without appending the 'no audit backend succeeded' error although no device logged and devices exist", h.Witness)
		} else {
			c.OK(f, "return without error needs anyLogged ∨ no devices", normalRets[0].Pos(), "every return crosses 'a device accepted' (success flag/counter non-zero), len(backends)==0, or appends the failure error first")
		}
		// headers are transformed per device before the device call
		c.Clause("R3", "C11.3")
		var hdrStores []ssa.Instruction
		for _, st := range eng.Stores(f, `^in\.Request\.Headers$`) {
			if ok, _, _ := eng.OriginsMatch(st.Val, `^call:vault\.\(\*AuditedHeadersConfig\)\.ApplyConfig#0$`); ok {
				hdrStores = append(hdrStores, st)
			}
		}
		c.Before(f, "in.Request.Headers = ApplyConfig(...) result", hdrStores, "device call", instrsOf(dev))
		// recover closure
		c.Clause("R4", "C11.3")
		var rec *ssa.Function
		for _, d := range eng.DeferredClosures(f) {
			if len(eng.Calls(d, `^recover$`)) > 0 {
				rec = d
			}
		}
		if rec == nil {
			c.Violation(f, "deferred recover", f.Pos(), "no deferred closure calling recover(): a panicking audit device would propagate instead of failing the audit", nil)
		} else {
			ap := instrsOf(eng.Calls(rec, `go-multierror\.Append$`))
			c.CleanupOnEdges(rec, "recover() != nil", eng.CondEdges(rec, `^recover\(\) == nil$`, false), "retErr = multierror.Append(retErr, …)", ap)
			// ret assigned from retErr.ErrorOrNil() on every exit, after the append
			retStores := eng.Instrs(rec, func(in ssa.Instruction) bool {
				st, ok := in.(*ssa.Store)
				if !ok || eng.Expr(st.Addr) != "^ret" {
					return false
				}
				ok2, _, _ := eng.OriginsMatch(st.Val, `ErrorOrNil$`)
				return ok2
			})
			isRet := func(in ssa.Instruction) bool { _, ok := in.(*ssa.Return); return ok }
			if h := eng.Reach(eng.Query{Fn: rec, Barriers: retStores, Target: isRet}); h != nil || len(retStores) == 0 {
				c.Violation(rec, "ret = retErr.ErrorOrNil() on every exit", rec.Pos(), "the deferred closure can exit without assigning the named result from retErr", nil)
			} else {
				c.OK(rec, "ret = retErr.ErrorOrNil() on every exit", retStores[0].Pos(), "the named result is assigned from retErr.ErrorOrNil() on every exit of the deferred closure")
			}
			c.NotAfter(rec, "ret = retErr.ErrorOrNil()", retStores, "append to retErr", ap)
		}
	}

	// ---------- C11.4 entries are built from the hashed copies
	rawFalse := map[string]bool{`config\.Raw$`: false}
	logInput := c.P.NamedType("logical.LogInput")
	if logInput == nil {
		c.Unresolved("logical.LogInput")
	}
	for _, fn := range []string{"audit.(*AuditFormatter).FormatRequest", "audit.(*AuditFormatter).FormatResponse"} {
		f := c.Fn(fn)
		if f == nil || logInput == nil {
			continue
		}
		c.Clause("R5", "C11.4")
		fe := eng.Feasible(f, rawFalse)
		n := 0
		for _, b := range f.Blocks {
			if !fe.Reach[b] {
				continue
			}
			for _, in := range b.Instrs {
				st, ok := in.(*ssa.Store)
				if !ok {
					continue
				}
				fa, ok := st.Addr.(*ssa.FieldAddr)
				if !ok {
					continue
				}
				tn := structTypeName(fa.X.Type())
				if !strings.HasPrefix(tn, "audit.Audit") && tn != "audit.PolicyInfo" {
					continue
				}
				n++
				fieldName := tn + "." + eng.FieldVar(fa).Name()
				bad := ""
				eng.RootsVisit(st.Val, fe, func(v ssa.Value) bool {
					x, ok := v.(*ssa.FieldAddr)
					if !ok {
						return false
					}
					fv := eng.FieldVar(x)
					if fv == nil {
						return false
					}
					if fv.Name() == "Connection" && structTypeName(x.X.Type()) == "logical.Request" {
						return true // connection metadata is logged by design
					}
					if structTypeName(x.X.Type()) == "logical.LogInput" {
						switch fv.Name() {
						case "Auth", "Request", "Response":
							bad = "in." + fv.Name()
							return true
						}
					}
					return false
				})
				if bad != "" {
					c.Violation(f, "entry field "+fieldName, st.Pos(), fmt.Sprintf("in non-raw mode the audit entry field %s is read from %s (the unhashed input) instead of the copy returned by the Hash* sanitiser: %s", fieldName, bad, eng.Expr(st.Val)), nil)
				} else {
					c.OK(f, "entry field "+fieldName, st.Pos(), "in non-raw mode the value is not read out of the unhashed LogInput")
				}
			}
		}
		c.Floor(f, "audit entry field stores", n, 40)
		// sensitive fields must positively come out of the sanitiser results
		c.Clause("R5", "C11.4")
		sens := map[string]string{
			"audit.AuditAuth.ClientToken":                 `^audit\.Hash(Auth|Response)\(\)#0`,
			"audit.AuditAuth.Accessor":                    `^audit\.Hash(Auth|Response)\(\)#0`,
			"audit.AuditRequest.ClientToken":              `^audit\.HashRequest\(\)#0`,
			"audit.AuditRequest.ClientTokenAccessor":      `^audit\.HashRequest\(\)#0`,
			"audit.AuditRequest.Data":                     `^audit\.HashRequest\(\)#0`,
			"audit.AuditResponse.Data":                    `^audit\.HashResponse\(\)#0`,
			"audit.AuditResponseWrapInfo.Token":           `^audit\.HashResponse\(\)#0`,
			"audit.AuditResponseWrapInfo.Accessor":        `^audit\.HashResponse\(\)#0`,
			"audit.AuditResponseWrapInfo.WrappedAccessor": `^audit\.HashResponse\(\)#0`,
		}
		for _, b := range f.Blocks {
			if !fe.Reach[b] {
				continue
			}
			for _, in := range b.Instrs {
				st, ok := in.(*ssa.Store)
				if !ok {
					continue
				}
				fa, ok := st.Addr.(*ssa.FieldAddr)
				if !ok {
					continue
				}
				key := structTypeName(fa.X.Type()) + "." + eng.FieldVar(fa).Name()
				want, ok := sens[key]
				if !ok {
					continue
				}
				roots := eng.Roots(st.Val, fe)
				okAll := len(roots) > 0
				moved := true // every offending root is the result of some other function: the block may have been extracted
				var rs []string
				good := func(s string) bool { return matches(want, s) }
				for _, r := range roots {
					s := eng.Expr(r)
					if good(s) {
						rs = append(rs, s)
						continue
					}
					// tabled pass-through transformer (the wrapping token extracted from a JWT): accepted only if
					// every argument it is applied to is itself read out of the sanitiser result — applied to the
					// raw input it would hand the plaintext token on
					if pt := c11PassThrough(r); pt != nil && key == "audit.AuditResponseWrapInfo.Token" {
						argsOK := len(pt.Call.Args) > 0
						var ar []string
						for _, a := range pt.Call.Args {
							rr := eng.Roots(a, fe)
							if len(rr) == 0 {
								argsOK = false
							}
							for _, x := range rr {
								ar = append(ar, eng.Expr(x))
								if good(eng.Expr(x)) {
									continue
								}
								// … or out of a helper of this package that hands the sanitiser result on
								fw, ok := c11ForwardedRoots(f, x)
								for _, y := range fw {
									if !good(eng.Expr(y)) {
										ok = false
									}
								}
								if !ok {
									argsOK = false
								}
							}
						}
						rs = append(rs, s+" of "+fmt.Sprint(ar))
						if argsOK {
							continue
						}
						okAll, moved = false, false
						continue
					}
					// result of a helper of this package that hands on the sanitiser's result?
					if fw, ok := c11ForwardedRoots(f, r); ok {
						all := true
						var in []string
						for _, x := range fw {
							in = append(in, eng.Expr(x))
							if !good(eng.Expr(x)) {
								all = false
							}
						}
						rs = append(rs, s+" = "+fmt.Sprint(in))
						if all {
							continue
						}
					} else {
						rs = append(rs, s)
					}
					okAll = false
					switch r.(type) {
					case *ssa.Call, *ssa.Extract:
					default:
						moved = false
					}
				}
				switch {
				case okAll:
					c.OK(f, "sensitive entry field "+key, st.Pos(), fmt.Sprintf("read out of %v", rs))
				case moved && len(roots) > 0:
					c.Undecided(f, "sensitive entry field "+key, st.Pos(), fmt.Sprintf("the value is the result of a function the rule cannot follow (sanitising block moved?): expected to be read out of %s, roots found: %v; the rule cannot be evaluated", want, rs))
				default:
					c.Violation(f, "sensitive entry field "+key, st.Pos(), fmt.Sprintf("non-raw value must be read out of the sanitiser result (%s); roots found: %v", want, rs), nil)
				}
			}
		}
		// Hash* failure returns before the entry is written
		c.Clause("R2", "C11.4")
		write := instrsOf(eng.Calls(f, `<audit\.AuditFormatWriter>\.Write(Request|Response)$`))
		c.Floor(f, "WriteRequest/WriteResponse call", len(write), 1)
		hs := []string{`audit\.HashAuth$`, `audit\.HashRequest$`}
		if strings.HasSuffix(fn, "FormatResponse") {
			hs = append(hs, `audit\.HashResponse$`)
		}
		for _, h := range hs {
			g := eng.GCallOK(f, h)
			if len(g.Pass) == 0 {
				// the sanitiser is called by a helper of this package: the helper must report success only
				// across the sanitiser's success edge, and the entry is written only across the helper's
				for hf, calls := range c11HashingHelpers(f, h) {
					if n := hf.Signature.Results().Len(); n > 0 {
						c.Cut(hf, "helper reports success", eng.SuccessReturns(hf, n-1), eng.GCallOK(hf, h), nil)
						for _, cl := range calls {
							g.Edges = append(g.Edges, eng.CallOKEdges(cl)...)
							g.Pass = append(g.Pass, cl)
						}
					}
				}
			}
			c.Cut(f, "entry write (non-raw)", write, g, rawFalse)
		}
	}

	// ---------- C11.5 sanitiser table
	c11Sanitisers(c)
	c11Walker(c)
	runC11Gaps2(c)
}

// c11PhiLeaves collects the non-phi values merged into v.
func c11PhiLeaves(v ssa.Value, out map[ssa.Value]bool) {
	seen := map[ssa.Value]bool{}
	var walk func(v ssa.Value)
	walk = func(v ssa.Value) {
		if v == nil || seen[v] {
			return
		}
		seen[v] = true
		if p, ok := v.(*ssa.Phi); ok {
			for _, e := range p.Edges {
				walk(e)
			}
			return
		}
		out[v] = true
	}
	walk(v)
}

// c11PassThrough: r is (a dereference of) the result of a tabled transformer whose output is as
// sensitive as its input: audit.parseVaultTokenFromJWT.
func c11PassThrough(r ssa.Value) *ssa.Call {
	for d := 0; d < 3; d++ {
		switch x := r.(type) {
		case *ssa.Call:
			if eng.CalleeName(&x.Call) == "audit.parseVaultTokenFromJWT" {
				return x
			}
			return nil
		case *ssa.UnOp:
			r = x.X
		case *ssa.Extract:
			r = x.Tuple
		default:
			return nil
		}
	}
	return nil
}

func matches(pat, s string) bool {
	ok, _ := regexpMatch(pat, s)
	return ok
}

func structTypeName(t types.Type) string {
	if p, ok := t.Underlying().(*types.Pointer); ok {
		t = p.Elem()
	}
	if n, ok := t.(*types.Named); ok && n.Obj().Pkg() != nil { // universe types (error) have no package
		return eng.Short(n.Obj().Pkg().Path() + "." + n.Obj().Name())
	}
	return ""
}

// dominatedByEdges: every path from entry to `at` crosses one of edges.
func dominatedByEdges(f *ssa.Function, at ssa.Instruction, edges []eng.Edge) bool {
	h := eng.Reach(eng.Query{Fn: f, Blocked: edges, Target: func(in ssa.Instruction) bool { return in == at }})
	return h == nil
}
