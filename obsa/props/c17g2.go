package props

import (
	"fmt"
	"go/token"
	"go/types"
	"strings"

	"golang.org/x/tools/go/ssa"

	"obsa/eng"
)

// Second-tier mechanisms of C17 (gap round 2): helpers, sibling and batch
// endpoints, the backup side of backup/restore, the archive trim offset.

func runC17Gaps2(c *eng.Ctx) {
	var F c17fields
	for name, dst := range map[string]**types.Var{
		"LatestVersion": &F.latest, "MinDecryptionVersion": &F.minDec, "MinEncryptionVersion": &F.minEnc,
		"MinAvailableVersion": &F.minAvail, "Keys": &F.keys, "ArchiveVersion": &F.archiveVer, "Type": &F.typ,
	} {
		*dst = c.P.Field("keysutil.Policy." + name)
		if *dst == nil {
			return // already reported by runC17
		}
	}
	c17g2Backup(c)
	c17g2Derive(c)
	c17g2Lookup(c, &F)
	c17g2Rewrap(c)
	c17g2Batch(c)
	c17g2LoopCarried(c)
	c17g2HMAC(c)
	c17g2Trim(c, &F)
	c17g2PersistRollback(c)
	c17g2ArchiveCopy(c, &F)
	c17g2Datakey(c)
	c17g2AssocHelper(c)
}

// ---------------------------------------------------------------------------
// small structural helpers

func c17g2isCallTo(v ssa.Value, name string) *ssa.Call {
	k, ok := c17strip(v).(*ssa.Call)
	if !ok || nfCallOf(k).Name != name { // resolved callee: also through a bound method value
		return nil
	}
	return k
}

// c17g2extractOf: v is result #idx of a call whose callee display name matches pat.
func c17g2extractOf(v ssa.Value, name string, idx int) bool {
	e, ok := c17strip(v).(*ssa.Extract)
	if !ok || e.Index != idx {
		return false
	}
	k, ok := e.Tuple.(*ssa.Call)
	return ok && nfCallOf(k).Name == name
}

// c17g2variadic: the values stored into the slots of a variadic argument
// (&varargs[:]) in slot order.
func c17g2variadic(v ssa.Value) []ssa.Value {
	sl, ok := v.(*ssa.Slice)
	if !ok {
		return nil
	}
	a, ok := sl.X.(*ssa.Alloc)
	if !ok || a.Referrers() == nil {
		return nil
	}
	var out []ssa.Value
	for _, r := range *a.Referrers() {
		ia, ok := r.(*ssa.IndexAddr)
		if !ok || ia.Referrers() == nil {
			continue
		}
		for _, rr := range *ia.Referrers() {
			if st, ok := rr.(*ssa.Store); ok && st.Addr == ssa.Value(ia) {
				out = append(out, st.Val)
			}
		}
	}
	return out
}

// ---------------------------------------------------------------------------
// C17.3 the backup carries the archive (mirror of the restore side)

func c17g2Backup(c *eng.Ctx) {
	f := c.Fn("keysutil.(*Policy).Backup")
	if f == nil {
		return
	}
	la := c17calls(f, `^keysutil\.\(\*Policy\)\.LoadArchive$`)
	per := c17calls(f, `^keysutil\.\(\*Policy\)\.Persist$`)
	if !c.Floor(f, "LoadArchive in Backup", len(la), 1) || !c.Floor(f, "Persist in Backup", len(per), 1) {
		return
	}
	c.Clause("R5", "C17.3")
	var pv []c17pv
	for _, a := range c17allocOfSuffix(f, "keysutil.KeyData") {
		for _, v := range eng.StructLitField(a, "ArchivedKeys") {
			pv = append(pv, c17pv{"KeyData.ArchivedKeys", v, []string{`^call:keysutil\.\(\*Policy\)\.LoadArchive#0$`}})
		}
	}
	if len(pv) == 0 {
		c.Violation(f, "prov{backup carries the archive read from storage}", f.Pos(), "the KeyData written into the backup never receives ArchivedKeys: a restored key would get an archive of empty slots", nil)
	} else {
		c17provAll(c, f, "backup carries the archive read from storage", la[0], pv)
	}
	// the guard is the success of the very LoadArchive call(s) of Backup whose result goes into
	// the backup, not of some helper that happens to read the archive as well (Persist does)
	c.Clause("R2", "C17.3")
	g := eng.Guard{Desc: "success edge of the LoadArchive call whose result is embedded"}
	for _, k := range la {
		g.Edges = append(g.Edges, eng.CallOKEdges(k)...)
		g.Pass = append(g.Pass, k)
	}
	okRets := eng.SuccessReturns(f, 1)
	c.Cut(f, "backup returned", okRets, g, nil)
	// ... and it is embedded on every path to a successful return: no condition other than
	// the success of that read decides whether the backup carries the archive
	c.Clause("R4", "C17.3")
	site := "every backup returned carries the archive (store of LoadArchive#0 into ArchivedKeys on every path)"
	var embeds []ssa.Instruction
	for _, a := range c17allocOfSuffix(f, "keysutil.KeyData") {
		if a.Referrers() == nil {
			continue
		}
		for _, r := range *a.Referrers() {
			fa, ok := r.(*ssa.FieldAddr)
			if !ok || fa.Referrers() == nil || eng.FieldVar(fa) == nil || eng.FieldVar(fa).Name() != "ArchivedKeys" {
				continue
			}
			for _, rr := range *fa.Referrers() {
				if st, ok := rr.(*ssa.Store); ok && st.Addr == ssa.Value(fa) {
					if ok, _, _ := c17originsMatch(st.Val, `^call:keysutil\.\(\*Policy\)\.LoadArchive#0$`); ok {
						embeds = append(embeds, st)
					}
				}
			}
		}
	}
	if len(embeds) == 0 {
		c.Violation(f, site, f.Pos(), "no store of LoadArchive's result into KeyData.ArchivedKeys", nil)
	} else if h := eng.Reach(eng.Query{Fn: f, Barriers: embeds, Target: eng.IsTarget(okRets)}); h != nil {
		c.Violation(f, site, h.Instr.Pos(), "a backup can be returned without the archive having been embedded: embedding it became conditional on something else than the archive read succeeding; the restored key then gets an archive of empty slots", h.Witness)
	} else {
		c.OK(f, site, embeds[0].Pos(), "every path to a successful return passes the store")
	}
	c.Clause("R3", "C17.3")
	c.Before(f, "Persist (adjusts the archive)", instrsOf(per), "LoadArchive", instrsOf(la))
}

// ---------------------------------------------------------------------------
// C17.2 the derivation context and the fetched key go into the KDF

func c17g2Derive(c *eng.Ctx) {
	f := c.Fn("keysutil.(*Policy).DeriveKey")
	if f == nil || len(f.Params) < 3 {
		return
	}
	keyF := c.P.Field("keysutil.KeyEntry.Key")
	if keyF == nil {
		c.Unresolved("keysutil.KeyEntry.Key")
		return
	}
	ctxP := ssa.Value(f.Params[1])
	isCtx := func(v ssa.Value) bool {
		v = c17strip(v)
		if v == ctxP {
			return true
		}
		// append(context, salt...)
		if k, ok := v.(*ssa.Call); ok && eng.CalleeName(k.Common()) == "append" && len(k.Call.Args) > 0 {
			return c17strip(k.Call.Args[0]) == ctxP
		}
		return false
	}
	// the secret is the Key of the entry safeGetKeyEntry returned
	isFetchedKey := func(v ssa.Value) bool {
		ld, ok := c17strip(v).(*ssa.UnOp)
		if !ok || ld.Op != token.MUL {
			if fl, ok := c17strip(v).(*ssa.Field); ok {
				fv := eng.FieldVar(fl)
				return fv != nil && fv == keyF && c17g2extractOf(fl.X, "keysutil.(*Policy).safeGetKeyEntry", 0)
			}
			return false
		}
		fa, ok := ld.X.(*ssa.FieldAddr)
		if !ok || eng.FieldVar(fa) != keyF {
			return false
		}
		a, ok := fa.X.(*ssa.Alloc)
		if !ok || a.Referrers() == nil {
			return false
		}
		n := 0
		for _, r := range *a.Referrers() {
			if st, ok := r.(*ssa.Store); ok && st.Addr == ssa.Value(a) {
				n++
				if !c17g2extractOf(st.Val, "keysutil.(*Policy).safeGetKeyEntry", 0) {
					return false
				}
			}
		}
		return n > 0
	}
	type kdfCall struct {
		pat         string
		secret, ctx int
	}
	c.Clause("R5", "C17.2")
	n := 0
	for _, k := range []kdfCall{
		{`^sdk/helper/kdf\.CounterMode$`, 2, 3},
		{`^golang\.org/x/crypto/hkdf\.New$`, 1, 3},
	} {
		for _, cl := range c17calls(f, k.pat) {
			n++
			site := "prov{" + eng.CalleeName(cl.Common()) + " is given the fetched key and the caller's context}"
			switch {
			case !isFetchedKey(c17arg(cl, k.secret)):
				c.Violation(f, site, cl.Pos(), "the KDF secret is "+eng.ExprDeep(c17arg(cl, k.secret))+", not the Key of the entry safeGetKeyEntry(ver) returned", nil)
			case !isCtx(c17arg(cl, k.ctx)):
				c.Violation(f, site, cl.Pos(), "the KDF context/info argument is "+eng.ExprDeep(c17arg(cl, k.ctx))+", not the caller's derivation context: every context would derive the same key", nil)
			default:
				c.OK(f, site, cl.Pos(), "secret "+eng.Expr(c17arg(cl, k.secret))+", context "+eng.ExprDeep(c17arg(cl, k.ctx)))
			}
		}
	}
	c.Floor(f, "KDF calls in DeriveKey", n, 2)
	// GetKey hands its context through unchanged
	if g := c.Fn("keysutil.(*Policy).GetKey"); g != nil && len(g.Params) >= 2 {
		for _, cl := range c17calls(g, `^keysutil\.\(\*Policy\)\.DeriveKey$`) {
			if c17strip(c17arg(cl, 1)) == ssa.Value(g.Params[1]) {
				c.OK(g, "prov{GetKey passes its context through unchanged}", cl.Pos(), eng.Expr(c17arg(cl, 1)))
			} else {
				c.Violation(g, "prov{GetKey passes its context through unchanged}", cl.Pos(), "DeriveKey is given "+eng.ExprDeep(c17arg(cl, 1))+" as context", nil)
			}
		}
	}
}

// ---------------------------------------------------------------------------
// C17.1 the per-version lookups are keyed by the version they were asked for

func c17g2Lookup(c *eng.Ctx, F *c17fields) {
	c.Clause("R5", "C17.1")
	for _, name := range []string{"keysutil.(*Policy).safeGetKeyEntry", "keysutil.(*Policy).convergentVersion"} {
		f := c.Fn(name)
		if f == nil || len(f.Params) < 2 {
			continue
		}
		ver := ssa.Value(f.Params[1])
		n, bad := 0, false
		site := "prov{Keys[...] is keyed by strconv.Itoa(the requested version)}"
		for _, in := range eng.Instrs(f, func(in ssa.Instruction) bool { _, ok := in.(*ssa.Lookup); return ok }) {
			lk := in.(*ssa.Lookup)
			if !c17loadOf(F.keys)(lk.X) {
				continue
			}
			n++
			k := c17g2isCallTo(lk.Index, "strconv.Itoa")
			if k == nil || c17strip(c17arg(k, 0)) != ver {
				bad = true
				c.Violation(f, site, lk.Pos(), "the live key map is read at "+eng.ExprDeep(lk.Index)+": callers checked the window for "+eng.Expr(ver)+" but would get another version's entry", nil)
			}
		}
		if c.Floor(f, "lookups in the live key map", n, 1) && !bad {
			c.OK(f, site, f.Pos(), fmt.Sprintf("%d lookup(s), all at Itoa(%s)", n, eng.Expr(ver)))
		}
	}
}

// ---------------------------------------------------------------------------
// C17.2 rewrap re-encrypts exactly what decrypt returned

func c17g2Rewrap(c *eng.Ctx) {
	f := c.Fn("transit.(*backend).pathRewrapWrite")
	if f == nil {
		return
	}
	decPat, encPat := `^keysutil\.\(\*Policy\)\.Decrypt(WithFactory)?$`, `^keysutil\.\(\*Policy\)\.Encrypt(WithFactory)?$`
	dec, enc := c17calls(f, decPat), c17calls(f, encPat)
	if !c.Floor(f, "Decrypt in rewrap", len(dec), 1) || !c.Floor(f, "Encrypt in rewrap", len(enc), 1) {
		return
	}
	c.Clause("R2", "C17.2")
	c.Cut(f, "re-encryption", instrsOf(enc), c17GCallOK(f, decPat), nil)
	c.Clause("R5", "C17.2")
	var pv []c17pv
	for _, e := range enc {
		a := e.Common().Args
		// (p, ver, context, nonce, value, [factories])
		if len(a) >= 5 {
			pv = append(pv, c17pv{"plaintext re-encrypted", a[4], []string{`^call:keysutil\.\(\*Policy\)\.Decrypt(WithFactory)?#0$`}})
		}
	}
	if c.Floor(f, "plaintext arguments", len(pv), 1) {
		c17provAll(c, f, "rewrap encrypts the plaintext Decrypt returned", enc[0], pv)
	}
}

// ---------------------------------------------------------------------------
// C17.2 batch alignment: item i is processed with item i's own fields and its
// result is stored into response slot i

type c17g2item struct {
	field *types.Var
	idx   ssa.Value // index into the batch slice
	ok    bool
}

// c17g2itemRead: v reads field .f of element [idx] of a slice, either through
// the range copy (item := s[idx]) or directly (s[idx].f).
func c17g2itemRead(v ssa.Value) c17g2item {
	ld, ok := c17strip(v).(*ssa.UnOp)
	if !ok || ld.Op != token.MUL {
		return c17g2item{}
	}
	fa, ok := ld.X.(*ssa.FieldAddr)
	if !ok {
		return c17g2item{}
	}
	it := c17g2item{field: eng.FieldVar(fa)}
	switch b := fa.X.(type) {
	case *ssa.IndexAddr:
		it.idx, it.ok = b.Index, true
	case *ssa.Alloc:
		if b.Referrers() == nil {
			return it
		}
		for _, r := range *b.Referrers() {
			st, ok := r.(*ssa.Store)
			if !ok || st.Addr != ssa.Value(b) {
				continue
			}
			l2, ok := st.Val.(*ssa.UnOp)
			if !ok || l2.Op != token.MUL {
				return c17g2item{field: it.field}
			}
			ia, ok := l2.X.(*ssa.IndexAddr)
			if !ok || (it.idx != nil && it.idx != ia.Index) {
				return c17g2item{field: it.field}
			}
			it.idx, it.ok = ia.Index, true
		}
	}
	return it
}

func c17g2Batch(c *eng.Ctx) {
	type argSpec struct {
		i     int
		field string
	}
	for _, h := range []struct {
		fn, call string
		args     []argSpec
		out      string // field of the response item that receives result #0
	}{
		{"transit.(*backend).pathEncryptWrite", `^keysutil\.\(\*Policy\)\.EncryptWithFactory$`, []argSpec{{1, "KeyVersion"}, {2, "DecodedContext"}, {4, "Plaintext"}}, "Ciphertext"},
		{"transit.(*backend).pathDecryptWrite", `^keysutil\.\(\*Policy\)\.DecryptWithFactory$`, []argSpec{{1, "DecodedContext"}, {3, "Ciphertext"}}, "Plaintext"},
		{"transit.(*backend).pathRewrapWrite", `^keysutil\.\(\*Policy\)\.Decrypt$`, []argSpec{{1, "DecodedContext"}, {3, "Ciphertext"}}, ""},
		{"transit.(*backend).pathRewrapWrite", `^keysutil\.\(\*Policy\)\.Encrypt$`, []argSpec{{1, "KeyVersion"}, {2, "DecodedContext"}}, "Ciphertext"},
	} {
		f := c.Fn(h.fn)
		if f == nil {
			continue
		}
		calls := c17calls(f, h.call)
		if !c.Floor(f, "per-item call "+h.call, len(calls), 1) {
			continue
		}
		c.Clause("R7", "C17.2")
		for _, cl := range calls {
			site := "agree{every per-item argument of " + strings.TrimPrefix(eng.CalleeName(cl.Common()), "keysutil.(*Policy).") + " reads the loop's own batch item}"
			var idx ssa.Value
			good := true
			var desc []string
			for _, a := range h.args {
				want := c.P.Field("transit.BatchRequestItem." + a.field)
				if want == nil {
					c.Unresolved("transit.BatchRequestItem." + a.field)
					good = false
					break
				}
				v := c17arg(cl, a.i)
				it := c17g2itemRead(v)
				_, isConst := it.idx.(*ssa.Const)
				switch {
				case !it.ok || it.field != want:
					good = false
					c.Violation(f, site, cl.Pos(), fmt.Sprintf("argument %d is %s, not the %s of a batch item", a.i, eng.ExprDeep(v), a.field), nil)
				case isConst:
					good = false
					c.Violation(f, site, cl.Pos(), fmt.Sprintf("argument %d (%s) is read from batch item %s for every item of the batch", a.i, a.field, eng.Expr(it.idx)), nil)
				case idx != nil && it.idx != idx:
					good = false
					c.Violation(f, site, cl.Pos(), fmt.Sprintf("argument %d (%s) is read from item [%s] while the other arguments come from item [%s]", a.i, a.field, eng.Expr(it.idx), eng.Expr(idx)), nil)
				}
				if !good {
					break
				}
				idx = it.idx
				desc = append(desc, a.field)
			}
			if !good {
				continue
			}
			// the result goes to the response slot of the same index
			if h.out != "" {
				res := eng.ResultValue(cl, 0)
				n := 0
				for _, st := range eng.Instrs(f, func(in ssa.Instruction) bool { _, ok := in.(*ssa.Store); return ok }) {
					s := st.(*ssa.Store)
					if res == nil || c17strip(s.Val) != res {
						continue
					}
					fa, ok := s.Addr.(*ssa.FieldAddr)
					if !ok {
						continue
					}
					ia, ok := fa.X.(*ssa.IndexAddr)
					if !ok {
						continue
					}
					n++
					if ia.Index != idx {
						good = false
						c.Violation(f, site, s.Pos(), "the result of item ["+eng.Expr(idx)+"] is stored into response slot ["+eng.Expr(ia.Index)+"]", nil)
					}
				}
				if n == 0 {
					good = false
					c.Undecided(f, site, cl.Pos(), "no store of the call's result into a response slot found")
				}
			}
			if good {
				c.OK(f, site, cl.Pos(), strings.Join(desc, ", ")+" all of item ["+eng.Expr(idx)+"]"+ifs(h.out != "", "; result stored into the response slot of the same index"))
			}
		}
	}
}

// ---------------------------------------------------------------------------
// C17.1 / C17.2 HMAC generation and verification

// c17g2labelInts: the integer values formatted into a string value (through
// fmt.Sprintf arguments, strconv.Itoa, concatenation and phis).
func c17g2labelInts(v ssa.Value) []ssa.Value {
	var out []ssa.Value
	seen := map[ssa.Value]bool{}
	var walk func(v ssa.Value)
	walk = func(v ssa.Value) {
		if v == nil || seen[v] {
			return
		}
		seen[v] = true
		if b, ok := v.Type().Underlying().(*types.Basic); ok && b.Info()&types.IsInteger != 0 {
			if _, isConst := v.(*ssa.Const); !isConst {
				out = append(out, c17strip(v))
			}
			return
		}
		switch x := v.(type) {
		case *ssa.Phi:
			for _, e := range x.Edges {
				walk(e)
			}
		case *ssa.MakeInterface:
			walk(x.X)
		case *ssa.ChangeType:
			walk(x.X)
		case *ssa.Convert:
			walk(x.X)
		case *ssa.BinOp:
			if x.Op == token.ADD {
				walk(x.X)
				walk(x.Y)
			}
		case *ssa.Call:
			switch eng.CalleeName(x.Common()) {
			case "strconv.Itoa":
				walk(c17arg(x, 0))
			case "fmt.Sprintf", "fmt.Sprint":
				for _, a := range x.Call.Args {
					for _, e := range c17g2variadic(a) {
						walk(e)
					}
				}
			}
		}
	}
	walk(v)
	return out
}

func c17g2HMAC(c *eng.Ctx) {
	hmacF := c.P.Field("transit.batchResponseHMACItem.HMAC")
	validF := c.P.Field("transit.batchResponseHMACItem.Valid")
	if hmacF == nil || validF == nil {
		c.Unresolved("transit.batchResponseHMACItem.{HMAC,Valid}")
		return
	}
	// the label of a generated HMAC names the version whose key was used
	if f := c.Fn("transit.(*backend).pathHMACWrite"); f != nil {
		if hk := c17one(f, `^keysutil\.\(\*Policy\)\.HMACKey$`); hk != nil {
			ver := c17strip(c17verArg(hk))
			c.Clause("R7", "C17.1")
			site := "agree{HMAC label names the version whose key was used}"
			n, bad := 0, false
			for _, st := range c17fieldStores(f, hmacF) {
				for _, iv := range c17g2labelInts(st.Val) {
					n++
					if iv != ver {
						bad = true
						c.Violation(f, site, st.Pos(), "the HMAC is labelled with "+eng.ExprDeep(iv)+" while the key of "+eng.Expr(ver)+" is used: verification would fetch another key", nil)
					}
				}
			}
			if n == 0 {
				c.Undecided(f, site, hk.Pos(), "rule went vacuous: no version formatted into the stored HMAC string")
			} else if !bad {
				c.OK(f, site, hk.Pos(), fmt.Sprintf("%d version value(s) in the label, all %s", n, eng.Expr(ver)))
			}
		}
	}
	for _, name := range []string{"transit.(*backend).pathHMACWrite", "transit.(*backend).pathHMACVerify"} {
		f := c.Fn(name)
		if f == nil {
			continue
		}
		hn, hw, hs := c17calls(f, `^crypto/hmac\.New$`), c17calls(f, `^<hash\.Hash>\.Write$`), c17calls(f, `^<hash\.Hash>\.Sum$`)
		if !c.Floor(f, "hmac.New", len(hn), 1) || !c.Floor(f, "hash Write", len(hw), 1) || !c.Floor(f, "hash Sum", len(hs), 1) {
			continue
		}
		c.Clause("R5", "C17.2")
		var pv []c17pv
		for _, k := range hn {
			pv = append(pv, c17pv{"MAC key", c17arg(k, 1), []string{`^call:keysutil\.\(\*Policy\)\.HMACKey#0$`}})
		}
		for _, k := range hw {
			pv = append(pv, c17pv{"MAC state written", k.Common().Value, []string{`^call:crypto/hmac\.New$`}})
			pv = append(pv, c17pv{"message", c17arg(k, 0), []string{c17b64dec}})
		}
		for _, k := range hs {
			pv = append(pv, c17pv{"MAC state summed", k.Common().Value, []string{`^call:crypto/hmac\.New$`}})
		}
		c17provAll(c, f, "MAC = HMAC(HMACKey(ver), the item's decoded input)", hn[0], pv)
		// one fresh MAC state per message
		c.Clause("R4", "C17.2")
		site := "after{Write(message)} no further Write without a new hmac.New"
		var hit *eng.Hit
		for _, w := range hw {
			if hit = eng.Reach(eng.Query{Fn: f, StartAfter: w, Barriers: append(instrsOf(hn), c17sites(f, `^<hash\.Hash>\.Reset$`)...), Target: eng.IsTarget(instrsOf(hw))}); hit != nil {
				break
			}
		}
		if hit != nil {
			c.Violation(f, site, hit.Instr.Pos(), "a second message can be written into the same MAC state (the state is not created per item): the MAC of item n would cover the inputs of items 1..n", hit.Witness)
		} else {
			c.OK(f, site, hw[0].Pos(), "every path from a Write back to a Write passes hmac.New (or Reset)")
		}
	}
	// verification compares the whole computed MAC with the decoded MAC of the same item
	if f := c.Fn("transit.(*backend).pathHMACVerify"); f != nil {
		eq := c17calls(f, `^crypto/hmac\.Equal$`)
		if c.Floor(f, "hmac.Equal", len(eq), 1) {
			c.Clause("R5", "C17.2")
			site := "prov{hmac.Equal(whole computed MAC, decoded MAC of the item)}"
			good := true
			for _, e := range eq {
				a0, a1 := c17strip(c17arg(e, 0)), c17strip(c17arg(e, 1))
				isSum := func(v ssa.Value) bool { return c17g2isCallTo(v, "<hash.Hash>.Sum") != nil }
				isDec := func(v ssa.Value) bool { return c17g2extractOf(v, "(*encoding/base64.Encoding).DecodeString", 0) }
				if !(isSum(a0) && isDec(a1)) && !(isSum(a1) && isDec(a0)) {
					good = false
					c.Violation(f, site, e.Pos(), "hmac.Equal compares "+eng.ExprDeep(a0)+" with "+eng.ExprDeep(a1)+": expected the unsliced result of Sum and the unsliced decoding of the supplied MAC (a sliced operand lets a truncated or empty MAC verify)", nil)
				}
			}
			var pv []c17pv
			for _, st := range c17fieldStores(f, validF) {
				pv = append(pv, c17pv{"Valid", st.Val, []string{`^call:crypto/hmac\.Equal$`}})
			}
			if good && c.Floor(f, "stores to Valid", len(pv), 1) {
				c.OK(f, site, eq[0].Pos(), "operands are Sum() and DecodeString()#0")
				c17provAll(c, f, "Valid = hmac.Equal(...)", eq[0], pv)
			}
		}
	}
}

// ---------------------------------------------------------------------------
// C17.3 the archive is cut exactly once per raise of min_available_version

func c17g2Trim(c *eng.Ctx, F *c17fields) {
	f := c.Fn("keysutil.(*Policy).handleArchiving")
	amv := c.P.Field("keysutil.Policy.ArchiveMinVersion")
	if f == nil {
		return
	}
	if amv == nil {
		c.Unresolved("keysutil.Policy.ArchiveMinVersion")
		return
	}
	ld := c17loadOf
	sa := c17sites(f, `^keysutil\.\(\*Policy\)\.storeArchive$`)
	if len(sa) == 0 {
		return // floor reported by c17durable
	}
	c.Clause("R4", "C17.3")
	site := "on{ArchiveMinVersion < MinAvailableVersion} the new archive base is recorded before the archive is stored"
	trim := c17rel(f, false, ld(amv), ld(F.minAvail), true)
	sts := c17fieldStores(f, amv)
	switch {
	case len(trim) == 0:
		c.Violation(f, site, f.Pos(), "handleArchiving no longer compares ArchiveMinVersion with MinAvailableVersion", nil)
	case len(sts) == 0:
		c.Violation(f, site, f.Pos(), "ArchiveMinVersion is never updated: every Persist after a trim cuts the archive again and the slots no longer line up with the versions", nil)
	default:
		if h := eng.Reach(eng.Query{Fn: f, StartEdges: trim, Barriers: instrsOf(sts), Target: eng.IsTarget(sa)}); h != nil {
			c.Violation(f, site, h.Instr.Pos(), "the trimmed archive can be stored without recording its new base version", h.Witness)
		} else {
			c.OK(f, site, sts[0].Pos(), "every path from the trim edge to storeArchive passes the store of ArchiveMinVersion")
		}
		c.Clause("R5", "C17.3")
		for _, st := range sts {
			if ld(F.minAvail)(st.Val) {
				c.OK(f, "prov{ArchiveMinVersion = MinAvailableVersion}", st.Pos(), eng.Expr(st.Val))
			} else {
				c.Violation(f, "prov{ArchiveMinVersion = MinAvailableVersion}", st.Pos(), "ArchiveMinVersion is set to "+eng.ExprDeep(st.Val), nil)
			}
		}
	}
	// the cut removes MinAvailableVersion - ArchiveMinVersion leading slots
	c.Clause("R12", "C17.3")
	n := 0
	for _, in := range eng.Instrs(f, func(in ssa.Instruction) bool { _, ok := in.(*ssa.Slice); return ok }) {
		sl := in.(*ssa.Slice)
		st, ok := sl.X.Type().Underlying().(*types.Slice)
		if !ok || c17typeName(st.Elem()) != "keysutil.KeyEntry" || sl.Low == nil {
			continue
		}
		n++
		bo, ok := sl.Low.(*ssa.BinOp)
		if ok && bo.Op == token.SUB && ld(F.minAvail)(bo.X) && ld(amv)(bo.Y) {
			c.OK(f, "const{archive cut = MinAvailableVersion - ArchiveMinVersion}", sl.Pos(), eng.Expr(sl.Low))
		} else {
			c.Violation(f, "const{archive cut = MinAvailableVersion - ArchiveMinVersion}", sl.Pos(), "the archive is cut at "+eng.ExprDeep(sl.Low), nil)
		}
	}
	c.Floor(f, "cuts of the archive slice", n, 1)
	// nobody else moves the archive base
	c.Clause("R6", "C17.3")
	ws := c.P.FieldWriters(amv)
	bad := false
	for _, w := range ws {
		if eng.FuncName(w.Fn) == "keysutil.(*Policy).handleArchiving" {
			continue
		}
		// Persist's rollback writing back a captured snapshot (checked by c17g2PersistRollback)
		if par := w.Fn.Parent(); par != nil && eng.FuncName(par) == "keysutil.(*Policy).Persist" {
			if ld, ok := w.Store.Val.(*ssa.UnOp); ok && ld.Op == token.MUL {
				if _, ok := ld.X.(*ssa.FreeVar); ok {
					continue
				}
			}
		}
		bad = true
		c.Violation(w.Fn, "writers{Policy.ArchiveMinVersion}", w.Store.Pos(), "store to Policy.ArchiveMinVersion outside handleArchiving (and not the snapshot restore of Persist's rollback)", nil)
	}
	if !bad && len(ws) > 0 {
		c.OK(nil, "writers{Policy.ArchiveMinVersion}", token.NoPos, fmt.Sprintf("%d store(s): handleArchiving, or the snapshot restore in Persist's rollback", len(ws)))
	}
}

// ---------------------------------------------------------------------------
// C17.2 sibling endpoint: datakey binds associated_data like encrypt does

func c17g2Datakey(c *eng.Ctx) {
	f := c.Fn("transit.(*backend).pathDatakeyWrite")
	if f == nil {
		return
	}
	call := c17one(f, `^keysutil\.\(\*Policy\)\.EncryptWithFactory$`)
	if call == nil {
		c.Undecided(f, "prov{datakey: factory carries associated_data}", f.Pos(), "anchor moved: EncryptWithFactory call not found")
		return
	}
	c.Clause("R5", "C17.2")
	site := "prov{datakey: the factory handed to EncryptWithFactory carries the request's associated_data}"
	args := call.Common().Args
	var lits []*ssa.Alloc
	for _, e := range c17g2variadic(args[len(args)-1]) {
		for _, r := range eng.Roots(e, nil) {
			if a, ok := r.(*ssa.Alloc); ok && strings.HasSuffix(c17typeName(a.Type()), "transit.AssocDataFactory") {
				lits = append(lits, a)
			}
		}
	}
	if len(lits) == 0 {
		c.Violation(f, site, call.Pos(), "no AssocDataFactory value reaches the factories of EncryptWithFactory: a supplied associated_data is not bound into the wrapped data key", nil)
		return
	}
	var pv []c17pv
	var tested []ssa.Value
	for _, a := range lits {
		for _, v := range eng.StructLitField(a, "Encoded") {
			pv = append(pv, c17pv{"AssocDataFactory.Encoded", v, []string{`^call:framework\.\(\*FieldData\)\.Get$`}})
			tested = append(tested, c17strip(v))
		}
	}
	if !c.Floor(f, "AssocDataFactory.Encoded", len(pv), 1) {
		return
	}
	c17provAll(c, f, "datakey: the factory handed to EncryptWithFactory carries the request's associated_data", call, pv)
	// the value bound is the value whose presence is tested
	c.Clause("R2", "C17.2")
	isLenOfAD := func(v ssa.Value) bool {
		k := c17g2isCallTo(v, "len")
		if k == nil {
			return false
		}
		for _, t := range tested {
			if c17strip(c17arg(k, 0)) == t {
				return true
			}
		}
		return false
	}
	isAD := func(v ssa.Value) bool {
		for _, t := range tested {
			if c17strip(v) == t {
				return true
			}
		}
		return false
	}
	given := append(c17rel(f, true, isLenOfAD, c17const("0"), false), c17rel(f, true, isAD, c17const(`""`), false)...)
	given = append(given, c17rel(f, false, c17const("0"), isLenOfAD, true)...)
	if len(given) == 0 {
		c.Undecided(f, "on{associated_data given} factory built", call.Pos(), "anchor moved: no test of the bound associated_data value for emptiness")
		return
	}
	var mk []ssa.Instruction
	for _, a := range lits {
		for _, r := range *a.Referrers() {
			if fa, ok := r.(*ssa.FieldAddr); ok && fa.Referrers() != nil {
				for _, rr := range *fa.Referrers() {
					if st, ok := rr.(*ssa.Store); ok {
						mk = append(mk, st)
					}
				}
			}
		}
	}
	c.Clause("R4", "C17.2")
	if h := eng.Reach(eng.Query{Fn: f, StartEdges: given, Barriers: mk, Target: eng.IsTarget([]ssa.Instruction{call})}); h != nil {
		c.Violation(f, "on{associated_data given} factory built", h.Instr.Pos(), "with associated_data supplied the call is reachable without building the AssocDataFactory", h.Witness)
	} else {
		c.OK(f, "on{associated_data given} factory built", call.Pos(), "every path from the associated_data edge to EncryptWithFactory builds the AssocDataFactory or returns")
	}
}

// ---------------------------------------------------------------------------
// C17.2 the associated-data helper decodes its own field and reports a bad encoding

func c17g2AssocHelper(c *eng.Ctx) {
	f := c.Fn("transit.(AssocDataFactory).GetAssociatedData")
	enc := c.P.Field("transit.AssocDataFactory.Encoded")
	if f == nil {
		return
	}
	if enc == nil {
		c.Unresolved("transit.AssocDataFactory.Encoded")
		return
	}
	c.Clause("R5", "C17.2")
	dec := c17calls(f, `^\(\*encoding/base64\.Encoding\)\.DecodeString$`)
	if !c.Floor(f, "DecodeString in GetAssociatedData", len(dec), 1) {
		return
	}
	var pv []c17pv
	for _, d := range dec {
		if c17loadOf(enc)(c17arg(d, 1)) {
			pv = append(pv, c17pv{"decoded string", c17arg(d, 1), []string{`^field:`}})
		} else {
			pv = append(pv, c17pv{"decoded string (not the factory's Encoded field)", c17arg(d, 1), []string{`^$`}})
		}
	}
	var okEdges []eng.Edge
	for _, d := range dec {
		okEdges = append(okEdges, eng.CallOKEdges(d)...)
	}
	for _, r := range eng.Returns(f) {
		if len(r.Results) != 2 {
			continue
		}
		pv = append(pv, c17pv{"associated data returned", r.Results[0], []string{`^call:\(\*encoding/base64\.Encoding\)\.DecodeString#0$`, `^const:nil$`}})
		if eng.AllNilThroughPhi(r.Results[1]) {
			// a plain success return: only behind the decoder's nil-error edge
			ret := ssa.Instruction(r)
			if h := eng.Reach(eng.Query{Fn: f, Blocked: okEdges, Target: func(in ssa.Instruction) bool { return in == ret }}); h != nil || len(okEdges) == 0 {
				c.Violation(f, "prov{associated data = full decoding of Encoded, decoding error handed on}", r.Pos(), "GetAssociatedData can return success without the decoder having succeeded: a malformed associated_data is accepted as its decodable prefix", nil)
				return
			}
		}
	}
	c17provAll(c, f, "associated data = full decoding of Encoded, decoding error handed on", dec[0], pv)
}

// ---------------------------------------------------------------------------
// C17.3 Persist rolls back everything handleArchiving changed

// c17g2PersistRollback (R4): handleArchiving mutates Policy fields before it
// writes the archive, and Persist writes the policy after it; either write can
// fail. Every scalar Policy field handleArchiving stores must therefore be
// restored by Persist's deferred rollback, on every failure edge, from a
// snapshot taken before handleArchiving ran. (A field left at its new value,
// e.g. the archive base after a failed trim, makes the next Persist index the
// stored archive with the wrong offset.)
func c17g2PersistRollback(c *eng.Ctx) {
	f, ha := c.Fn("keysutil.(*Policy).Persist"), c.Fn("keysutil.(*Policy).handleArchiving")
	pol := c.P.NamedType("keysutil.Policy")
	if f == nil || ha == nil {
		return
	}
	if pol == nil {
		c.Unresolved("keysutil.Policy")
		return
	}
	st, _ := pol.Underlying().(*types.Struct)
	isPolicyField := func(fv *types.Var) bool {
		for i := 0; st != nil && i < st.NumFields(); i++ {
			if st.Field(i) == fv {
				return true
			}
		}
		return false
	}
	var fields []*types.Var
	seen := map[*types.Var]bool{}
	for _, in := range eng.Instrs(ha, func(in ssa.Instruction) bool { _, ok := in.(*ssa.Store); return ok }) {
		if fa, ok := in.(*ssa.Store).Addr.(*ssa.FieldAddr); ok {
			if fv := eng.FieldVar(fa); fv != nil && isPolicyField(fv) && !seen[fv] {
				seen[fv] = true
				fields = append(fields, fv)
			}
		}
	}
	calls := c17sites(f, `^keysutil\.\(\*Policy\)\.handleArchiving$`)
	if !c.Floor(ha, "Policy fields stored by handleArchiving", len(fields), 2) || len(calls) == 0 {
		return
	}
	clo, mc, _, fail := c17rollback(f)
	isRet := func(in ssa.Instruction) bool { _, ok := in.(*ssa.Return); return ok }
	c.Clause("R4", "C17.3")
	for _, fv := range fields {
		site := "rollback{" + fv.Name() + " (written by handleArchiving) restored from a snapshot when Persist fails}"
		if clo == nil {
			c.Violation(f, site, f.Pos(), "Persist has no deferred rollback over its named error", nil)
			continue
		}
		sts := c17fieldStores(clo, fv)
		if len(sts) == 0 {
			c.Violation(f, site, clo.Pos(), "handleArchiving sets "+fv.Name()+" before the archive and the policy are written, but Persist's rollback does not restore it: after a failed write the cached policy keeps the new value while storage keeps the old archive", nil)
			continue
		}
		if h := eng.Reach(eng.Query{Fn: clo, StartEdges: fail, Barriers: instrsOf(sts), Target: isRet}); h != nil {
			c.Violation(f, site, h.Instr.Pos(), "the rollback can return on a failure edge without restoring "+fv.Name(), h.Witness)
			continue
		}
		a, snaps := c17snapshot(clo, mc, sts[0])
		good := a != nil && len(snaps) > 0
		var snapIn []ssa.Instruction
		for _, s := range snaps {
			snapIn = append(snapIn, s)
			good = good && c17loadOf(fv)(s.Val)
		}
		if !good {
			c.Violation(f, site, sts[0].Pos(), fv.Name()+" is restored from "+eng.Expr(sts[0].Val)+", which is not a snapshot of the same field", nil)
			continue
		}
		late := false
		for _, k := range calls {
			if h := eng.Reach(eng.Query{Fn: f, StartAfter: k, Target: eng.IsTarget(snapIn)}); h != nil {
				late = true
				c.Violation(f, site, h.Instr.Pos(), "the snapshot of "+fv.Name()+" is taken after handleArchiving ran", h.Witness)
				break
			}
		}
		if !late {
			c.OK(clo, site, sts[0].Pos(), "restored on every failure edge from a snapshot taken before handleArchiving")
		}
	}
}

// ---------------------------------------------------------------------------
// C17.3 the archive is brought up to date whenever it is stored

// c17g2ArchiveCopy: the loop of handleArchiving that copies the live keys of
// versions ArchiveVersion+1 .. LatestVersion into their archive slots is run
// (its test is executed) on every path to storeArchive - it is not conditional
// on the archive slice having to grow: a failed policy write leaves an archive
// that already has a slot for the new version, and the retried rotation must
// overwrite it with the key it really persists (seed C17-d). Every iteration
// performs the copy, and the loop's bounds are the policy's own fields.
func c17g2ArchiveCopy(c *eng.Ctx, F *c17fields) {
	f := c.Fn("keysutil.(*Policy).handleArchiving")
	if f == nil {
		return
	}
	sa := c17sites(f, `^keysutil\.\(\*Policy\)\.storeArchive$`)
	if len(sa) == 0 {
		return // floor reported by c17durable
	}
	ld := c17loadOf
	type copySite struct {
		st  *ssa.Store
		idx ssa.Value
	}
	var copies []copySite
	for _, in := range eng.Instrs(f, func(in ssa.Instruction) bool { _, ok := in.(*ssa.Store); return ok }) {
		st := in.(*ssa.Store)
		ia, ok := st.Addr.(*ssa.IndexAddr)
		if !ok {
			continue
		}
		sl, ok := ia.X.Type().Underlying().(*types.Slice)
		if !ok || c17typeName(sl.Elem()) != "keysutil.KeyEntry" {
			continue
		}
		if lk, ok := st.Val.(*ssa.Lookup); ok && ld(F.keys)(lk.X) {
			copies = append(copies, copySite{st, ia.Index})
		}
	}
	if !c.Floor(f, "copies of a live key into an archive slot", len(copies), 1) {
		return
	}
	isAdd1 := func(v ssa.Value, base c17match) bool {
		bo, ok := c17strip(v).(*ssa.BinOp)
		return ok && bo.Op == token.ADD && base(bo.X) && c17const("1")(bo.Y)
	}
	for _, cp := range copies {
		var ver ssa.Value
		if bo, ok := cp.idx.(*ssa.BinOp); ok && bo.Op == token.SUB {
			ver = c17strip(bo.X)
		}
		phi, _ := ver.(*ssa.Phi)
		c.Clause("R12", "C17.3")
		site := "const{archive copy loop runs over ArchiveVersion+1 .. LatestVersion}"
		if phi == nil || len(phi.Edges) != 2 {
			c.Violation(f, site, cp.st.Pos(), "the archive slot is indexed by "+eng.ExprDeep(cp.idx)+", not by a loop counter over the versions to be archived", nil)
			continue
		}
		start, step := false, false
		for _, e := range phi.Edges {
			start = start || isAdd1(e, ld(F.archiveVer))
			step = step || isAdd1(e, c17is(phi))
		}
		hdr := phi.Block()
		ifi := eng.IfOf(hdr)
		var body []eng.Edge
		for _, e := range c17rel(f, false, ld(F.latest), c17is(phi), false) { // !(LatestVersion < i)
			if e.From == hdr {
				body = append(body, e)
			}
		}
		if !start || !step || ifi == nil || len(body) == 0 {
			c.Violation(f, site, cp.st.Pos(), "the counter "+eng.ExprDeep(phi)+" does not start at ArchiveVersion+1, step by 1 and stop after LatestVersion: some new key version would not reach the archive (or an old slot would be overwritten)", nil)
			continue
		}
		c.OK(f, site, cp.st.Pos(), eng.Expr(phi)+" while <= LatestVersion")
		c.Clause("R3", "C17.3")
		c.Before(f, "the archive copy loop (its test)", []ssa.Instruction{ifi}, "storeArchive", sa)
		c.Clause("R4", "C17.3")
		s2 := "on{a version in (ArchiveVersion, LatestVersion]} its live key is copied into its archive slot"
		target := ssa.Instruction(ifi)
		if h := eng.Reach(eng.Query{Fn: f, StartEdges: body, Barriers: []ssa.Instruction{cp.st}, Target: func(in ssa.Instruction) bool { return in == target }}); h != nil {
			c.Violation(f, s2, h.Instr.Pos(), "an iteration of the copy loop can complete without writing the archive slot", h.Witness)
		} else {
			c.OK(f, s2, cp.st.Pos(), "every iteration of the loop passes the copy")
		}
	}
}

// ---------------------------------------------------------------------------
// C17.2 nothing a batch item is processed with is carried over from the previous item

// c17g2carried walks v backwards through the instructions that hand a slice or
// value on unchanged (phi, the base of an append, re-slicing, conversions,
// boxing). A cycle on that walk is a loop-carried accumulator: the value of one
// iteration is built on the value of the previous one (var fs []any hoisted out
// of the batch loop and appended to inside it). cell: the value lives in a
// memory cell that is appended to in place (cannot be decided flow-insensitively).
func c17g2carried(v ssa.Value) (cyc ssa.Value, cell ssa.Value) {
	state := map[ssa.Value]int{}
	var visit func(v ssa.Value)
	visit = func(v ssa.Value) {
		if v == nil || cyc != nil {
			return
		}
		switch state[v] {
		case 1:
			cyc = v
			return
		case 2:
			return
		}
		state[v] = 1
		switch x := v.(type) {
		case *ssa.Phi:
			for _, e := range x.Edges {
				visit(e)
			}
		case *ssa.Call:
			if b, ok := x.Call.Value.(*ssa.Builtin); ok && b.Name() == "append" && len(x.Call.Args) > 0 {
				visit(x.Call.Args[0])
			}
		case *ssa.Slice:
			if _, arr := x.X.(*ssa.Alloc); !arr {
				visit(x.X)
			}
		case *ssa.MakeInterface:
			visit(x.X)
		case *ssa.ChangeType:
			visit(x.X)
		case *ssa.Convert:
			visit(x.X)
		case *ssa.ChangeInterface:
			visit(x.X)
		case *ssa.UnOp:
			if a, ok := x.X.(*ssa.Alloc); ok && x.Op == token.MUL && a.Referrers() != nil {
				// a local kept in memory: appended to in place?
				for _, r := range *a.Referrers() {
					st, ok := r.(*ssa.Store)
					if !ok || st.Addr != ssa.Value(a) {
						continue
					}
					if k, ok := st.Val.(*ssa.Call); ok {
						if b, ok := k.Call.Value.(*ssa.Builtin); ok && b.Name() == "append" && len(k.Call.Args) > 0 {
							if ld, ok := k.Call.Args[0].(*ssa.UnOp); ok && ld.Op == token.MUL && ld.X == ssa.Value(a) {
								cell = a
							}
						}
					}
				}
			}
		}
		state[v] = 2
	}
	visit(v)
	return
}

func c17g2LoopCarried(c *eng.Ctx) {
	for _, h := range []struct{ fn, calls string }{
		{"transit.(*backend).pathEncryptWrite", `^keysutil\.\(\*Policy\)\.EncryptWithFactory$`},
		{"transit.(*backend).pathDecryptWrite", `^keysutil\.\(\*Policy\)\.DecryptWithFactory$`},
		{"transit.(*backend).pathRewrapWrite", `^keysutil\.\(\*Policy\)\.(Decrypt|Encrypt)(WithFactory)?$`},
		{"transit.(*backend).pathSignWrite", `^keysutil\.\(\*Policy\)\.SignWithOptions$`},
		{"transit.(*backend).pathVerifyWrite", `^keysutil\.\(\*Policy\)\.VerifySignatureWithOptions$`},
		{"transit.(*backend).pathHMACWrite", `^crypto/hmac\.New$|^<hash\.Hash>\.Write$`},
		{"transit.(*backend).pathHMACVerify", `^keysutil\.\(\*Policy\)\.HMACKey$|^crypto/hmac\.New$|^<hash\.Hash>\.Write$|^crypto/hmac\.Equal$`},
	} {
		f := c.Fn(h.fn)
		if f == nil {
			continue
		}
		var inLoop []ssa.CallInstruction
		for _, cl := range c17calls(f, h.calls) {
			self := ssa.Instruction(cl)
			if _, isDefer := cl.(*ssa.Defer); isDefer {
				continue
			}
			if eng.Reach(eng.Query{Fn: f, StartAfter: cl, Target: func(in ssa.Instruction) bool { return in == self }}) != nil {
				inLoop = append(inLoop, cl)
			}
		}
		if !c.Floor(f, "per-item crypto calls inside the batch loop", len(inLoop), 1) {
			continue
		}
		c.Clause("R7", "C17.2")
		for _, cl := range inLoop {
			site := "agree{no argument of " + strings.TrimPrefix(nfCallOf(cl).Name, "keysutil.(*Policy).") + " is carried over from the previous batch item}"
			bad := false
			vals := append([]ssa.Value{}, c17args(cl)...)
			// the fields of an options / factory literal built for the call count as arguments
			for _, a := range c17args(cl) {
				for _, r := range eng.Roots(a, nil) {
					if al, ok := r.(*ssa.Alloc); ok && al.Referrers() != nil {
						for _, rr := range *al.Referrers() {
							if fa, ok := rr.(*ssa.FieldAddr); ok && fa.Referrers() != nil {
								for _, r3 := range *fa.Referrers() {
									if st, ok := r3.(*ssa.Store); ok && st.Addr == ssa.Value(fa) {
										vals = append(vals, st.Val)
									}
								}
							}
						}
					}
				}
			}
			for i, a := range vals {
				cyc, cell := c17g2carried(a)
				switch {
				case cyc != nil:
					bad = true
					c.Violation(f, site, cl.Pos(), fmt.Sprintf("value #%d handed to the call (%s) is built on its own value of the previous loop iteration (%s): what one batch item appended is still there for the next item (a variable hoisted out of the batch loop)", i, eng.Expr(a), eng.Expr(cyc)), nil)
				case cell != nil:
					bad = true
					c.Undecided(f, site, cl.Pos(), fmt.Sprintf("value #%d handed to the call is read from the local %s, which is appended to in place: whether it is reset for every batch item cannot be decided here", i, eng.Expr(cell)))
				}
				if bad {
					break
				}
			}
			if !bad {
				c.OK(f, site, cl.Pos(), fmt.Sprintf("%d value(s): none is a loop-carried accumulator", len(vals)))
			}
		}
	}
}
