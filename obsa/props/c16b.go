package props

import (
	"strings"

	"golang.org/x/tools/go/ssa"

	"obsa/eng"
)

// c16Association (C16.8): when the CRLs are built every revoked entry lands on
// a list, and the issuer it is attributed to is decided by the subject match
// plus the signature check only — hints such as key identifiers must not
// exclude a candidate (seed C16-a: an AKI/SKI pre-filter dropped the revoked
// leaves of a re-issued CA from its CRL).
func c16Association(c *eng.Ctx) {
	if f := c.Fn("pki.associateRevokedCertWithIsssuer"); f != nil && len(f.Params) == 3 {
		sig := eng.Calls(f, `x509\.Certificate\)\.CheckSignatureFrom$`)
		eq := eng.Calls(f, `^bytes\.Equal$`)
		c.Clause("R2", "C16.8")
		if c.Floor(f, "CheckSignatureFrom", len(sig), 1) && c.Floor(f, "bytes.Equal(RawIssuer, RawSubject)", len(eq), 1) {
			var trueRets, stores []ssa.Instruction
			for _, r := range eng.Returns(f) {
				if eng.Expr(r.Results[0]) == "true" {
					trueRets = append(trueRets, r)
				}
			}
			for _, st := range eng.Stores(f, `\.CertificateIssuer$`) {
				stores = append(stores, st)
			}
			sigOK := eng.GCallOK(f, `x509\.Certificate\)\.CheckSignatureFrom$`)
			if c.Floor(f, "return true", len(trueRets), 1) {
				c.Cut(f, "issuer found", trueRets, sigOK, nil)
			}
			if c.Floor(f, "store of CertificateIssuer", len(stores), 1) {
				c.Cut(f, "revInfo.CertificateIssuer = candidate", stores, sigOK, nil)
			}
			// operands
			c.Clause("R5", "C16.8")
			// the subject comparison among the bytes.Equal calls
			subj := eq[0]
			for _, e := range eq {
				x, y := eng.Expr(e.Common().Args[0]), eng.Expr(e.Common().Args[1])
				if strings.HasSuffix(x, ".RawIssuer") || strings.HasSuffix(y, ".RawIssuer") {
					subj = e
				}
			}
			a := subj.Common().Args
			s0, s1 := eng.Expr(a[0]), eng.Expr(a[1])
			if (s0 == "revokedCert.RawIssuer" && strings.HasSuffix(s1, ".RawSubject") && strings.Contains(s1, "range(issuerIDCertMap)")) ||
				(s1 == "revokedCert.RawIssuer" && strings.HasSuffix(s0, ".RawSubject") && strings.Contains(s0, "range(issuerIDCertMap)")) {
				c.OK(f, "candidate = issuer whose subject is the certificate's issuer name", subj.Pos(), s0+" vs "+s1)
			} else {
				c.Violation(f, "candidate = issuer whose subject is the certificate's issuer name", subj.Pos(), "bytes.Equal compares "+s0+" with "+s1, nil)
			}
			sa := sig[0].Common().Args
			if eng.Expr(sa[0]) == "revokedCert" && strings.Contains(eng.Expr(sa[1]), "range(issuerIDCertMap)") {
				c.OK(f, "signature of the revoked certificate checked against the candidate", sig[0].Pos(), eng.Expr(sa[0])+".CheckSignatureFrom("+eng.Expr(sa[1])+")")
			} else {
				c.Violation(f, "signature of the revoked certificate checked against the candidate", sig[0].Pos(), eng.Expr(sa[0])+".CheckSignatureFrom("+eng.Expr(sa[1])+")", nil)
			}
			for _, st := range stores {
				v := eng.Expr(st.(*ssa.Store).Val)
				if strings.Contains(v, "range(issuerIDCertMap)") && strings.HasSuffix(v, "#1") {
					c.OK(f, "issuer recorded = the candidate's id", st.Pos(), v)
				} else {
					c.Violation(f, "issuer recorded = the candidate's id", st.Pos(), "CertificateIssuer is set to "+v, nil)
				}
			}
			// a candidate is passed over only because its subject differs or its signature check failed
			c.Clause("R3", "C16.8")
			var body []eng.Edge
			isNext := func(in ssa.Instruction) bool { _, ok := in.(*ssa.Next); return ok }
			for _, b := range f.Blocks {
				if iff := eng.IfOf(b); iff != nil {
					if ex, ok := iff.Cond.(*ssa.Extract); ok && ex.Index == 0 {
						if _, ok := ex.Tuple.(*ssa.Next); ok {
							body = append(body, eng.Edge{From: b, Succ: 0})
						}
					}
				}
			}
			site := "a candidate issuer is passed over only on subject mismatch or failed signature check"
			if len(body) == 0 {
				c.Undecided(f, site, f.Pos(), "range loop over the issuers not found")
			} else {
				var blocked []eng.Edge
				if sv, ok := subj.(ssa.Value); ok {
					blocked = eng.BoolEdges(sv, false)
				}
				if h := eng.Reach(eng.Query{Fn: f, StartEdges: body, Blocked: blocked, Barriers: instrsOf(sig), Target: func(in ssa.Instruction) bool { return isNext(in) }}); h != nil {
					c.Violation(f, site, h.Instr.Pos(), "the loop can move on to the next issuer without having verified the signature although the subject matched (or before comparing it): a pre-filter on hint fields (key identifiers) drops revoked certificates of re-issued CAs from their CRL", h.Witness)
				} else {
					c.OK(f, site, sig[0].Pos(), "every path from the loop body to the next candidate crosses the subject mismatch edge or CheckSignatureFrom")
				}
			}
		}
	}
	if f := c.Fn("pki.isRevInfoIssuerValid"); f != nil {
		c.Clause("R2", "C16.8")
		var trueRets []ssa.Instruction
		for _, r := range eng.Returns(f) {
			if eng.Expr(r.Results[0]) != "false" {
				trueRets = append(trueRets, r)
			}
		}
		if c.Floor(f, "return true", len(trueRets), 1) {
			c.Cut(f, "recorded issuer accepted", trueRets, eng.G(f, `^issuerIDCertMap\[revInfo\.CertificateIssuer\]#1$`, true), nil)
		}
	}
	if f := c.Fn("pki.getLocalRevokedCertEntries"); f != nil {
		parse := eng.Calls(f, `^crypto/x509\.ParseCertificate$`)
		assoc := eng.Calls(f, `^pki\.associateRevokedCertWithIsssuer$`)
		c.Clause("R2", "C16.8")
		if c.Floor(f, "ParseCertificate", len(parse), 1) && c.Floor(f, "associateRevokedCertWithIsssuer", len(assoc), 1) {
			// placements: append to the per-issuer map, or to the unassigned bucket
			var place []ssa.Instruction
			for _, in := range eng.Instrs(f, func(in ssa.Instruction) bool { _, ok := in.(*ssa.MapUpdate); return ok }) {
				mu := in.(*ssa.MapUpdate)
				if strings.Contains(eng.Expr(mu.Key), "CertificateIssuer") {
					place = append(place, in)
				}
			}
			var unassigned []ssa.Instruction
			for _, ap := range eng.Calls(f, `^append$`) {
				if strings.HasPrefix(eng.Expr(ap.Common().Args[0]), "φunassignedCerts") {
					unassigned = append(unassigned, ap)
				}
			}
			c.Floor(f, "per-issuer placements", len(place), 2)
			c.Floor(f, "unassigned placements", len(unassigned), 1)
			// loop header of the range over the revoked serials
			var header []ssa.Instruction
			for _, e := range eng.CondEdges(f, `< len\(<logical\.Storage>\.List\(\)#0\)$`, true) {
				header = append(header, e.From.Instrs[len(e.From.Instrs)-1])
			}
			site := "every parsed revocation entry is placed on a list (issuer's or unassigned)"
			if len(header) == 0 {
				c.Undecided(f, site, f.Pos(), "loop over the revoked serials not found")
			} else {
				var start []eng.Edge
				for _, p := range parse {
					start = append(start, eng.CallOKEdges(p)...)
				}
				// the one reviewed skip: the entry is one of the issuers' own certificates (handled by augmentWithRevokedIssuers)
				blocked, _ := c16IssuerSkip(f)
				bar := append(append([]ssa.Instruction{}, place...), unassigned...)
				if h := eng.Reach(eng.Query{Fn: f, StartEdges: start, Blocked: blocked, Barriers: bar, Target: eng.IsTarget(header)}); h != nil {
					c.Violation(f, site, h.Instr.Pos(), "the loop can move on to the next revoked serial without adding the entry to any list: the certificate silently drops off every CRL", h.Witness)
				} else {
					c.OK(f, site, parse[0].Pos(), "from a successfully parsed entry the next iteration is reached only through a placement or the issuer-certificate skip")
				}
			}
			// which list
			c.Cut(f, "entry goes to the unassigned bucket", unassigned, eng.G(f, `^pki\.associateRevokedCertWithIsssuer\(\)$`, false), nil)
			c.Cut(f, "entry goes to an issuer's list", place, eng.Or(eng.G(f, `^pki\.associateRevokedCertWithIsssuer\(\)$`, true), eng.G(f, `^pki\.isRevInfoIssuerValid\(\)$`, true)), nil)
			c.Clause("R5", "C16.8")
			a := assoc[0].Common().Args
			c.Prov(f, "certificate associated", assoc[0], a[1], `^call:crypto/x509\.ParseCertificate#0$`)
			c.Prov(f, "issuer set searched", assoc[0], a[2], `^param:issuerIDCertMap$`)
			for _, v := range eng.Calls(f, `^pki\.isRevInfoIssuerValid$`) {
				c.Prov(f, "issuer set the recorded issuer is validated against", v, v.Common().Args[1], `^param:issuerIDCertMap$`)
			}
		}
	}
}

// c16CRLIdentity (C16.6): an issuer set keeps its CRL — and with it its CRL
// number sequence — as long as ANY member already has one: the members whose
// existing CRL id is consulted are the same members that are pointed at the
// CRL afterwards. Consulting only the representative makes a freshly joined
// representative start a new CRL at number 1 (seed C16-b).
func c16CRLIdentity(c *eng.Ctx) {
	f := c.Fn("pki.buildAnyCRLsWithCerts")
	if f == nil {
		return
	}
	c.Clause("R5", "C16.6")
	bc := eng.Calls(f, `^pki\.buildCRL$`)
	if !c.Floor(f, "buildCRL call", len(bc), 1) {
		return
	}
	// slice base of an element expression xs[i]
	elemBase := func(v ssa.Value) ssa.Value {
		if ld, ok := v.(*ssa.UnOp); ok {
			if ia, ok := ld.X.(*ssa.IndexAddr); ok {
				return ia.X
			}
		}
		if ix, ok := v.(*ssa.Index); ok {
			return ix.X
		}
		return nil
	}
	// members pointed at the CRL: IssuerIDCRLMap[member] = id
	var assigned []ssa.Value
	for _, in := range eng.Instrs(f, func(in ssa.Instruction) bool { _, ok := in.(*ssa.MapUpdate); return ok }) {
		mu := in.(*ssa.MapUpdate)
		if strings.HasSuffix(eng.Expr(mu.Map), ".IssuerIDCRLMap") {
			if b := elemBase(mu.Key); b != nil {
				assigned = append(assigned, b)
			}
		}
	}
	if !c.Floor(f, "members pointed at the set's CRL", len(assigned), 1) {
		return
	}
	// lookups of existing ids that reach the id handed to buildCRL
	idArg := bc[0].Common().Args[5]
	n := 0
	seen := map[ssa.Value]bool{}
	var walk func(v ssa.Value, d int)
	walk = func(v ssa.Value, d int) {
		if v == nil || seen[v] || d > 10 {
			return
		}
		seen[v] = true
		switch x := v.(type) {
		case *ssa.Phi:
			for _, e := range x.Edges {
				walk(e, d+1)
			}
		case *ssa.Extract:
			walk(x.Tuple, d+1)
		case *ssa.Lookup:
			if !strings.HasSuffix(eng.Expr(x.X), ".IssuerIDCRLMap") {
				return
			}
			n++
			site := "existing CRL id inherited from any member of the issuer set"
			b := elemBase(x.Index)
			ok := false
			for _, a := range assigned {
				if b != nil && a == b {
					ok = true
				}
			}
			if ok {
				c.OK(f, site, x.Pos(), "IssuerIDCRLMap["+eng.Expr(x.Index)+"] for every member of the set")
			} else {
				c.Violation(f, site, x.Pos(), "the existing CRL id is looked up for "+eng.Expr(x.Index)+" only, not for each member of the set that is pointed at the CRL afterwards: a member that joined (e.g. a re-issued root chosen as representative) starts a new CRL and the CRL number restarts at 1", nil)
			}
		}
	}
	walk(idArg, 0)
	c.Floor(f, "lookups of an existing CRL id", n, 1)
	// a fresh id (and a counter starting at 1) only when none was found
	c.Clause("R2", "C16.6")
	gen := instrsOf(eng.Calls(f, `^pki\.genCRLId$`))
	if c.Floor(f, "genCRLId", len(gen), 1) {
		c.Cut(f, "fresh CRL id for the set", gen, eng.G(f, `^\(?len\(φcrlIdentifier\{.*\}\)\)? == 0$`, true), nil)
	}
}
