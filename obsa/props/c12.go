package props

import (
	"fmt"
	"go/token"
	"go/types"
	"strconv"
	"strings"

	"golang.org/x/tools/go/ssa"

	"obsa/eng"
)

func init() {
	register(&Prop{
		ID: "C12",
		Explanation: "Structural necessary conditions of 'mounts, cubbyholes and namespaces are confined to their own storage and scope': " +
			"(1) a backend's storage handle is its own view: writers of logical.Request.Storage and of RouteEntry.StorageView are tabled; the router attaches the route entry's view; every view handed to Router.Mount / installed by a remount comes from Core.mountEntryView applied to the entry as it is mounted (no field the view is derived from is rewritten between computing the view and installing it); mountEntryView returns only NamespaceView(me.Namespace).SubView(<table prefix> + me.UUID + '/') (or the fixed sys/token/audit forms) behind the namespace-consistency guard; Router.Mount inserts only a non-nested prefix with non-empty storage prefix, UUID and accessor; " +
			"(2) prefix views cannot be escaped: every operation of logical.storageView and physical.View passes its key through the expand function and lies behind the relative-path sanity check, and each sanity check accepts a key only across IsRelativePath(key) / strings.Contains(key, '..') being false on the key parameter itself; sub-views are built from the expanded prefix; " +
			"(3) routing happens on the namespace-qualified path and the backend sees the path with the mount prefix removed; every prefix lookup (LongestPrefix/WalkPrefix) in the mount tree made by a Router method that takes the request context is keyed by <namespace of that context>.Path as the leading operand of the key (the one pass-through helper whose key is its parameter is tabled and its API-path callers are held to the same rule); " +
			"(4) cubbyhole requests carry the token's cubbyhole ID (or the double-salted legacy ID) as client token behind the token-entry / service-type / non-empty-ID guards, and every cubbyhole storage key starts with that client token; " +
			"(5) the ACL is built in the token's namespace except on the three wrapping paths; (6) a sealed namespace's barrier refuses (C10.1) and NamespaceView selects the barrier by longest namespace-path prefix; NamespaceStoragePathPrefix returns the empty prefix only for a nil or root namespace and otherwise a prefix whose only non-constant ingredient is the namespace's UUID under barrier.NamespacePrefix; " +
			"(2b) every logical.storageView that is built (NewStorageView, the read-only and read-write transactions begun on a view) is given the prefix parameter / the prefix of the view it is begun on; " +
			"(3b) exact-key Get/Delete/Insert on the mount tree by context-taking Router methods (Unmount, Remount) lead with <namespace of the context>.Path; inside the callbacks of walks over the mount tree (MountConflict's prefix and child-namespace checks) every comparison of a tree key, or a part cut from it, with a path uses an operand that leads with <namespace of the context>.Path as of the walk call (captured variables read flow-sensitively); " +
			"(4b) a token's CubbyholeID is written only in TokenStore.create and only with base62.Random's result; the salt of the double-salted legacy cubbyhole key agrees between writer and reader: RouteEntry.SaltID salts with its MountEntry.UUID, CubbyholeBackend.saltUUID is written only in Core.setCoreBackend, only with the UUID field of the mount entry parameter and on the backend published as Core.cubbyholeBackend, and the token store's destroy/tidy paths recompute the key with that saltUUID; " +
			"(5b) ACL.AllowOperation grants root privileges only across <context namespace>.HasParent(a.root) being true and looks rules up by <context namespace>.Path + request path; parsePaths puts the parsed policy's Namespace.Path in front of every rule path before the rule joins the policy and later rewrites keep that leading part, the parser stores its ns parameter as Policy.Namespace; in getApplicableGroupPolicies a policy of another namespace is appended only across the application mode differing from within_namespace_hierarchy or <policy namespace>.HasParent(<token namespace>) being true; the policy store's cache key contains the namespace UUID, every key given to the policy LRU comes out of cacheKey, Store.ACL fetches the names listed under a namespace id in ContextWithNamespace(NamespaceByID(that id)) and re-parses a templated policy in its own Namespace; " +
			"(5c) every ExpirationManager.leaseView in a context-taking function is opened in namespace.FromContext of that context or in the namespace recorded in the lease entry handed in for persist/delete (one context-less restore helper tabled), never in a namespace parsed out of the lease ID; leaseEntry.namespace has a writer table and loadEntryInternal stamps the loaded entry with the context's namespace; (6b) SealManager.namespaceBarrierByLongestPrefix returns only the LongestPrefix match of barrierByNamespacePath for its path parameter (and the locked wrapper only that result); Core.switchedLockHandleRequest hands a request on (inline auth, handleCancelableRequest) only for the root namespace or across NamespaceSealed(<namespace resolved for the request>) being false, and the context it hands on carries that namespace.",
		NotDecided: "which physical keys a given request touches (values); unmount histories; backends that keep their own references to storage beyond the request (plugin contract).",
		Run:        runC12,
	})
}

func runC12(c *eng.Ctx, thorough bool) {
	// ---------- C12.1 writers of Request.Storage
	c.Clause("R6", "C12.1")
	if fv := c.P.Field("logical.Request.Storage"); fv != nil {
		allowed := map[string]string{
			"routing.(*Router).routeCommon":                      "attaches the matched route entry's StorageView and clears it on exit",
			"vault.(*Core).handleInlineAuth":                     "copies the outer request's (nil at that point) storage into the synthetic login request",
			"vault.(*Core).aliasNameFromLoginRequest":            "alias lookahead: storage of the matched auth mount (MatchingStorageByAPIPath)",
			"vault.(*Core).doResolveRoleLocked":                  "role resolution: storage of the matched auth mount (MatchingStorageByAPIPath)",
			"vault.(*SystemBackend).handleRateLimitQuotasUpdate": "role resolution for quotas: storage of the matched auth mount",
			"vault.(*SystemBackend).pathInternalOpenAPI":         "help request: no storage / mount's own",
			"logical.StartTxStorage":                             "swaps in a transaction begun on the request's own storage (keeps the original for EndTxStorage)",
			"logical.EndTxStorage":                               "restores the original storage",
			"logical.(*Request).Copy":                            "n/a",
			"vault.(*RollbackManager).attemptRollback":           "n/a",
		}
		n := 0
		for _, w := range c.P.FieldWriters(fv) {
			p := eng.PkgPathOf(w.Fn)
			if !strings.HasPrefix(p, eng.ModMain+"/internal/vault") && p != eng.Alias["http"] && p != eng.Alias["logical"] && p != eng.Alias["framework"] {
				continue // backends' own tests helpers and plugins build requests for themselves
			}
			top := eng.FuncName(eng.TopFunc(w.Fn))
			if strings.Contains(top, "esting") || strings.HasSuffix(p, "/logical") && strings.HasPrefix(top, "logical.Test") {
				continue
			}
			n++
			if r, ok := allowed[top]; ok {
				c.OK(eng.TopFunc(w.Fn), "writer{Request.Storage}", w.Store.Pos(), r)
			} else {
				c.Violation(eng.TopFunc(w.Fn), "writer{Request.Storage}", w.Store.Pos(), "a request's storage handle is set outside the reviewed writer table: "+eng.InstrStr(w.Store), nil)
			}
		}
		c.Floor(nil, "writers of Request.Storage in the server", n, 3)
	} else {
		c.Unresolved("logical.Request.Storage")
	}
	if f := c.Fn("routing.(*Router).routeCommon"); f != nil {
		c.Clause("R5", "C12.1")
		n := 0
		for _, st := range eng.Stores(f, `^req\.Storage$`) {
			n++
			c.Prov(f, "storage attached by the router", st, st.Val, `\.StorageView$`, `^const:nil$`)
		}
		c.Floor(f, "req.Storage stores", n, 1)
		// ---------- C12.3 path handed to the backend
		c.Clause("R5", "C12.3")
		for _, st := range eng.Stores(f, `^req\.Path$`) {
			s := eng.ExprDeep(st.Val)
			if strings.Contains(s, "strings.TrimPrefix(") {
				if strings.Contains(s, "ns.Path") || strings.Contains(s, ".Path + req.Path") {
					c.OK(f, "path handed to the backend", st.Pos(), s)
				} else {
					c.Violation(f, "path handed to the backend", st.Pos(), "the backend path is not the namespace-qualified path minus the mount prefix: "+s, nil)
				}
			}
		}
		// ---------- C12.4 cubbyhole client token
		c.Clause("R2", "C12.4")
		var cubbyTok []ssa.Instruction
		for _, st := range eng.Stores(f, `^req\.ClientToken$`) {
			s := eng.ExprDeep(st.Val)
			if strings.Contains(s, "CubbyholeID") {
				cubbyTok = append(cubbyTok, st)
				c.Cut(f, "req.ClientToken = te.CubbyholeID", []ssa.Instruction{st}, eng.G(f, `^logical\.\(\*Request\)\.TokenEntry\(\) == nil$`, false), nil)
				c.Cut(f, "req.ClientToken = te.CubbyholeID", []ssa.Instruction{st}, eng.G(f, `\.CubbyholeID == ""$`, false), nil)
				c.Cut(f, "req.ClientToken = te.CubbyholeID", []ssa.Instruction{st}, eng.G(f, `TokenEntry\(\)\.Type == 1$`, true), nil)
				c.Clause("R5", "C12.4")
				c.Prov(f, "cubbyhole id used as client token", st, st.Val, `^field:logical\.\(\*Request\)\.TokenEntry\(\)\.CubbyholeID$`)
				c.Clause("R2", "C12.4")
			}
		}
		c.Floor(f, "cubbyhole client-token substitution", len(cubbyTok), 1)
		// the backend never sees the raw client token: every path to the backend call passes a store to req.ClientToken or one of the three internal-mount prefixes
		call := instrsOf(eng.Calls(f, `<logical\.Backend>\.HandleRequest$`))
		if c.Floor(f, "backend HandleRequest", len(call), 1) {
			var tokStores []ssa.Instruction
			for _, st := range eng.Stores(f, `^req\.ClientToken$`) {
				tokStores = append(tokStores, st)
			}
			blocked := eng.CondEdgesDeep(f, `^strings\.HasPrefix\(.*(MountPathSystem|MountPathIdentity|"auth/token/"|"sys/"|"identity/")`, true)
			if h := eng.Reach(eng.Query{Fn: f, Barriers: tokStores, Blocked: blocked, Target: eng.IsTarget(call)}); h != nil {
				c.Violation(f, "client token salted or replaced before the backend sees it", h.Instr.Pos(), "a backend other than token/sys/identity can receive the raw client token", h.Witness)
			} else {
				c.OK(f, "client token salted or replaced before the backend sees it", call[0].Pos(), "every path to the backend call replaces req.ClientToken unless the mount is token, sys or identity")
			}
		}
	}

	// ---------- C12.1 RouteEntry.StorageView writers and view provenance
	c.Clause("R6", "C12.1")
	if fv := c.P.Field("routing.RouteEntry.StorageView"); fv != nil {
		for _, w := range c.P.FieldWriters(fv) {
			top := eng.FuncName(eng.TopFunc(w.Fn))
			switch top {
			case "routing.(*Router).Mount":
				c.OK(w.Fn, "writer{RouteEntry.StorageView}", w.Store.Pos(), "from Mount's storageView argument")
				c.Clause("R5", "C12.1")
				c.Prov(w.Fn, "RouteEntry.StorageView in Mount", w.Store, w.Store.Val, `^param:storageView$`)
				c.Clause("R6", "C12.1")
			case "vault.(*Core).remountSecretsEngine", "vault.(*Core).remountCredential":
				c.OK(w.Fn, "writer{RouteEntry.StorageView}", w.Store.Pos(), "remount callback installing the destination view")
				c.Clause("R5", "C12.1")
				c.Prov(w.Fn, "RouteEntry.StorageView installed by remount", w.Store, w.Store.Val, `^freevar:dstBarrierView$`)
				c.Clause("R6", "C12.1")
			default:
				c.Violation(w.Fn, "writer{RouteEntry.StorageView}", w.Store.Pos(), "a route entry's storage view is replaced outside Router.Mount and the two remount callbacks", nil)
			}
		}
	} else {
		c.Unresolved("routing.RouteEntry.StorageView")
	}
	// every function that computes a mount's view and installs it
	mev := mustStatic(c, "vault.(*Core).mountEntryView")
	users := map[*ssa.Function][]ssa.CallInstruction{}
	for _, s := range c.P.FindCalls(mev, nil) {
		users[s.Fn] = append(users[s.Fn], s.Call)
	}
	c.Clause("R3", "C12.1")
	nInstall := 0
	for f, calls := range users {
		installs := append(instrsOf(eng.Calls(f, `routing\.\(\*Router\)\.(Mount|Remount)$`)), instrsOf(eng.Calls(f, `<audit\.Factory>|audit.*Factory|newAuditBackend$`))...)
		var routerInstalls []ssa.Instruction
		for _, in := range eng.Calls(f, `routing\.\(\*Router\)\.(Mount|Remount)$`) {
			routerInstalls = append(routerInstalls, in)
		}
		if len(routerInstalls) == 0 {
			continue
		}
		_ = installs
		nInstall++
		for _, call := range calls {
			entry := call.Common().Args[1]
			ename := eng.Expr(entry)
			// stores to the fields mountEntryView reads, after the view was computed, that can still reach the install
			for _, st := range eng.Stores(f, `^`+reQuote(ename)+`\.(Namespace|NamespaceID|UUID|Type|Table)$`) {
				after := eng.Reach(eng.Query{Fn: f, StartAfter: call, Target: func(in ssa.Instruction) bool { return in == ssa.Instruction(st) }}) != nil
				if !after {
					continue
				}
				if h := eng.Reach(eng.Query{Fn: f, StartAfter: st, Target: eng.IsTarget(routerInstalls)}); h != nil {
					c.Violation(f, "view computed from the entry as mounted", st.Pos(), "field "+eng.Expr(st.Addr)+" is rewritten after mountEntryView("+ename+") computed the storage view and before the view is installed in the router: the mount would run on another namespace's/mount's storage", h.Witness)
				}
			}
			c.OK(f, "view computed from the entry as mounted", call.Pos(), "no field read by mountEntryView is rewritten between computing the view and installing it")
			// the view passed to Router.Mount is this call's result
			c.Clause("R5", "C12.1")
			for _, m := range eng.Calls(f, `routing\.\(\*Router\)\.Mount$`) {
				a := m.Common().Args
				c.Prov(f, "view handed to Router.Mount", m, a[4], `^call:vault\.\(\*Core\)\.mountEntryView#0$`)
				if eng.Expr(a[3]) != ename {
					c.Violation(f, "entry mounted == entry the view was computed for", m.Pos(), "Router.Mount is given entry "+eng.Expr(a[3])+" but the view was computed for "+ename, nil)
				} else {
					c.OK(f, "entry mounted == entry the view was computed for", m.Pos(), ename)
				}
			}
			c.Clause("R3", "C12.1")
		}
	}
	c.Floor(nil, "functions that compute and install a mount view", nInstall, 5)
	c.Clause("R1", "C12.1")
	c.CallerTable("Router.Mount", c.P.FindCalls(mustStatic(c, "routing.(*Router).Mount"), func(fn *ssa.Function) bool { return !eng.InPkg(fn, "routing") }), map[string]string{
		"vault.(*Core).enableCredentialInternalWithLock": "auth enable",
		"vault.(*Core).mountInternalWithLock":            "secrets enable",
		"vault.(*Core).setupCredential":                  "unseal: auth table",
		"vault.(*Core).setupMount":                       "unseal: mount table",
	}, 4)

	if f := c.Fn("vault.(*Core).mountEntryView"); f != nil {
		c.Clause("R2", "C12.1")
		succ := eng.SuccessReturns(f, 1)
		var viewRets []ssa.Instruction
		for _, r := range succ {
			if !eng.IsNilConst(r.(*ssa.Return).Results[0]) {
				viewRets = append(viewRets, r)
			}
		}
		if c.Floor(f, "returns of a view", len(viewRets), 5) {
			c.Cut(f, "return of a storage view", viewRets, eng.Or(eng.G(f, `^me\.Namespace == nil$`, true), eng.G(f, `^me\.Namespace\.ID == me\.NamespaceID$`, true)), nil)
			c.Clause("R5", "C12.1")
			for _, r := range viewRets {
				ret := r.(*ssa.Return)
				c.Prov(f, "view returned", ret, ret.Results[0], `^call:<barrier\.View>\.SubView$`)
				for _, o := range eng.Origins(ret.Results[0]) {
					sv, ok := o.Val.(*ssa.Call)
					if !ok {
						continue
					}
					recv := eng.ExprDeep(sv.Call.Value)
					arg := eng.ExprDeep(sv.Call.Args[0])
					// the parent view is the namespace view of the entry's own namespace: NamespaceView(me.Namespace) or
					// NamespaceScopedView(c.barrier, me.Namespace), called directly or through a forwarding closure,
					// the namespace read from the entry parameter directly or through a local alias
					nss, storages, followed := c12gNamespaceOfView(sv.Call.Value)
					okNS := followed && len(nss) > 0 && len(f.Params) == 2
					for _, nsv := range nss {
						if okNS && !c12gFieldOfParam(nsv, "Namespace", f.Params[1]) {
							okNS = false
						}
					}
					for _, st := range storages {
						if ok, _, _ := eng.OriginsMatch(st, `^field:c\.barrier$`, `^field:\^?c\.barrier$`); okNS && !ok {
							okNS = false
						}
					}
					switch {
					case okNS:
						c.OK(f, "view rooted in the entry's namespace", ret.Pos(), recv)
					case !followed:
						c.Undecided(f, "view rooted in the entry's namespace", ret.Pos(), "the parent view "+recv+" is not a (forwarded) call of Core.NamespaceView / NamespaceScopedView (moved?); the rule cannot be evaluated")
					default:
						c.Violation(f, "view rooted in the entry's namespace", ret.Pos(), "the parent view is "+recv+", expected the namespace view of me.Namespace", nil)
					}
					if strings.Contains(arg, "me.UUID") || arg == `"sys/"` || arg == `"sys/token/"` {
						c.OK(f, "sub-view prefix", ret.Pos(), arg)
					} else {
						c.Violation(f, "sub-view prefix", ret.Pos(), "the mount's storage prefix "+arg+" is neither built from the mount's UUID nor one of the fixed system prefixes: two mounts could share storage", nil)
					}
				}
			}
		}
	}
	c12RouteLookups(c)
	if f := c.Fn("routing.(*Router).Mount"); f != nil {
		c.Clause("R2", "C12.1")
		ins := instrsOf(eng.Calls(f, `go-radix\.Tree\)\.Insert$`))
		if c.Floor(f, "radix inserts", len(ins), 2) {
			c.Cut(f, "route inserted", ins, eng.Or(eng.G(f, `LongestPrefix\(\)#2$`, false), eng.G(f, `LongestPrefix\(\)#0 == ""$`, true)), nil)
			c.Cut(f, "route inserted", ins, eng.G(f, `^(φ\w*\{.*\}|.*prefix.*) == ""$`, false), nil)
			c.Cut(f, "route inserted", ins, eng.G(f, `\.StoragePrefix == ""$`, false), nil)
			c.Cut(f, "route inserted", ins, eng.G(f, `\.UUID == ""$`, false), nil)
			c.Cut(f, "route inserted", ins, eng.G(f, `\.Accessor == ""$`, false), nil)
		}
		c.Clause("R5", "C12.3")
		for _, lp := range eng.Calls(f, `go-radix\.Tree\)\.LongestPrefix$`) {
			s := eng.ExprDeep(lp.Common().Args[1])
			if strings.Contains(s, "Namespace.Path") {
				c.OK(f, "mount prefix is namespace-qualified", lp.Pos(), s)
			} else {
				c.Violation(f, "mount prefix is namespace-qualified", lp.Pos(), "nesting is checked on "+s+" without the namespace path", nil)
			}
		}
	}

	// ---------- C12.2 views cannot be escaped
	type viewT struct{ typ, under, expand, sanity string }
	for _, v := range []viewT{
		{"logical.(*storageView)", `^<logical\.Storage>\.`, `logical\.\(\*storageView\)\.ExpandKey$`, `logical\.\(\*storageView\)\.SanityCheck$`},
		{"physical.(*View)", `^<physical\.Backend>\.`, `physical\.\(\*View\)\.expandKey$`, `physical\.\(\*View\)\.sanityCheck$`},
	} {
		for _, m := range []string{"List", "ListPage", "Get", "Put", "Delete"} {
			f := c.P.Func(v.typ + "." + m)
			if f == nil {
				c.Clause("R8", "C12.2")
				c.Unresolved(v.typ + "." + m)
				continue
			}
			under := eng.Calls(f, v.under+`(List|ListPage|Get|Put|Delete)$`)
			if len(under) == 0 {
				// delegates to a sibling method of the same view (List -> ListPage)
				if len(eng.Calls(f, reQuote(v.typ)+`\.`)) > 0 {
					c.Clause("R8", "C12.2")
					c.OK(f, "delegates to a sibling view operation", f.Pos(), "inherits its checks")
					continue
				}
				c.Clause("R8", "C12.2")
				c.Violation(f, "view operation reaches the underlying storage", f.Pos(), "no call to the underlying storage found", nil)
				continue
			}
			c.Clause("R2", "C12.2")
			// calls of the view's own check / expand methods: direct, or through a method value bound in this function
			sanityFn := v.typ + "." + strings.TrimSuffix(v.sanity[strings.LastIndex(v.sanity, `\.`)+2:], "$")
			expandFn := v.typ + "." + strings.TrimSuffix(v.expand[strings.LastIndex(v.expand, `\.`)+2:], "$")
			scs, exs := c12gMethodCalls(f, sanityFn), c12gMethodCalls(f, expandFn)
			sg := eng.Guard{Desc: "success edge of " + v.sanity}
			for _, sc := range scs {
				sg.Edges = append(sg.Edges, eng.CallOKEdges(sc.call)...)
				sg.Pass = append(sg.Pass, sc.call)
			}
			c.Cut(f, "underlying "+m, instrsOf(under), sg, nil)
			c.Clause("R5", "C12.2")
			for _, u := range under {
				a := u.Common().Args
				// key position: arg 1 (after ctx) or the entry's Key
				key := a[1]
				if m == "Put" {
					ks := eng.StructLitField(a[1], "Key")
					if len(ks) == 0 {
						c.Violation(f, "key given to the underlying storage", u.Pos(), "Put hands an entry to the underlying storage that is not a fresh literal with an expanded key", nil)
						continue
					}
					key = ks[0]
				}
				c.Prov(f, "key given to the underlying storage", u, key, `^call:`+strings.TrimSuffix(v.expand, "$")+`$`, `^call:closure:`+strings.TrimSuffix(v.expand, "$")+`\$bound$`)
			}
			// the key checked is the key used
			for _, sc := range scs {
				for _, ex := range exs {
					if len(sc.args) == 0 || len(ex.args) == 0 {
						continue
					}
					if sc.args[0] == ex.args[0] || eng.ExprDeep(sc.args[0]) == eng.ExprDeep(ex.args[0]) {
						c.OK(f, "key checked == key expanded", sc.call.Pos(), eng.ExprDeep(sc.args[0]))
					} else {
						c.Violation(f, "key checked == key expanded", sc.call.Pos(), "sanity check on "+eng.ExprDeep(sc.args[0])+" but "+eng.ExprDeep(ex.args[0])+" is expanded", nil)
					}
				}
			}
		}
	}
	if f := c.Fn("logical.(*storageView).ExpandKey"); f != nil {
		c.Clause("R5", "C12.2")
		for _, r := range eng.Returns(f) {
			s := eng.ExprDeep(r.Results[0])
			if strings.HasPrefix(s, "s.prefix + ") {
				c.OK(f, "expanded key = prefix + suffix", r.Pos(), s)
			} else {
				c.Violation(f, "expanded key = prefix + suffix", r.Pos(), "ExpandKey returns "+s, nil)
			}
		}
	}
	// the sanity checks themselves: a key is accepted only across "the key (the parameter itself) has no
	// relative segment": IsRelativePath(key) == false, or strings.Contains(key, "..") == false — a weaker
	// predicate (prefix/suffix test, another operand) is not the guard
	for _, fn := range []string{"logical.(*storageView).SanityCheck", "physical.(*View).sanityCheck"} {
		f := c.Fn(fn)
		if f == nil {
			continue
		}
		c.Clause("R2", "C12.2")
		succ := eng.SuccessReturns(f, 0)
		if !c.Floor(f, "accepting (nil) returns", len(succ), 1) || len(f.Params) != 2 {
			continue
		}
		k := reQuote(eng.VarName(f.Params[1]))
		c.Cut(f, "key accepted", succ, eng.GD(f, `^logical\.IsRelativePath\(`+k+`\)$|^strings\.Contains\(`+k+`, "\.\."\)$`, false), nil)
	}
	if f := c.Fn("logical.(*storageView).SubView"); f != nil {
		c.Clause("R5", "C12.2")
		for _, nv := range eng.Calls(f, `logical\.NewStorageView$`) {
			c.Prov(f, "sub-view prefix", nv, nv.Common().Args[1], `^call:logical\.\(\*storageView\)\.ExpandKey$`)
			c.Prov(f, "sub-view storage", nv, nv.Common().Args[0], `^field:s\.storage$`)
		}
		c.Floor(f, "NewStorageView in SubView", len(eng.Calls(f, `logical\.NewStorageView$`)), 1)
	}

	// ---------- C12.4 cubbyhole keys start with the (substituted) client token
	c12gCubbyholeKeys(c)

	// ---------- C12.5 ACL built in the token's namespace
	if f := c.Fn("vault.(*Core).fetchACLTokenEntryAndEntity"); f != nil {
		c.Clause("R5", "C12.5")
		for _, a := range eng.Calls(f, `policy\.\(\*Store\)\.ACL$`) {
			ctxArg := a.Common().Args[1]
			var rs []string
			okAll := true
			for _, o := range eng.Origins(ctxArg) {
				s := o.Kind + ":" + o.Desc
				rs = append(rs, s)
				if s != "param:ctx" && !strings.Contains(s, "namespace.ContextWithNamespace") {
					okAll = false
				}
			}
			if okAll && len(rs) == 2 {
				c.OK(f, "context the ACL is built in", a.Pos(), strings.Join(rs, " | "))
			} else {
				c.Violation(f, "context the ACL is built in", a.Pos(), "expected {request ctx (wrapping paths only), token namespace ctx}, got "+strings.Join(rs, " | "), nil)
			}
		}
		c.Clause("R2", "C12.5")
		reqCtx := eng.PhiEdges(f, "tokenCtx", func(v ssa.Value) bool { _, ok := v.(*ssa.Parameter); return ok })
		if len(reqCtx) == 0 {
			c.Violation(f, "request-namespace context only for wrapping paths", f.Pos(), "the choice between request and token namespace context is no longer visible", nil)
		} else {
			c.CutEdges(f, "tokenCtx = request ctx", reqCtx, eng.G(f, `^strings\.HasSuffix\(\)$`, true))
			c.CutEdges(f, "tokenCtx = request ctx", reqCtx, eng.G(f, `== "response-wrapping"$`, true))
		}
		for _, cw := range eng.Calls(f, `namespace\.ContextWithNamespace$`) {
			c.Clause("R5", "C12.5")
			c.Prov(f, "namespace of the token context", cw, cw.Common().Args[1], `^call:vault\.\(\*Core\)\.NamespaceByID#0$`)
		}
		for _, nb := range eng.Calls(f, `vault\.\(\*Core\)\.NamespaceByID$`) {
			c.Prov(f, "namespace looked up for the token", nb, nb.Common().Args[2], `\.NamespaceID$`)
		}
	}

	// ---------- C12.5b a token's inline policy is parsed in the token's own namespace (its relative
	// paths must not be re-anchored to whichever namespace the request targets) — seed C12-b
	c.Clause("R5", "C12.5")
	nInline := 0
	for _, f := range c.P.Funcs {
		if !eng.InPkg(f, "vault") {
			continue
		}
		for _, pc := range eng.Calls(f, `^policy\.ParseACLPolicy$`) {
			a := pc.Common().Args
			text := eng.ExprDeep(a[1])
			if !strings.HasSuffix(text, ".InlinePolicy") {
				continue
			}
			nInline++
			base := strings.TrimSuffix(text, ".InlinePolicy")
			site := "namespace an inline policy is parsed in"
			okNS := true
			var why []string
			for _, o := range eng.Origins(a[0]) {
				cl, isCall := o.Val.(*ssa.Extract)
				if o.Kind != "call" || !strings.HasSuffix(o.Desc, "vault.(*Core).NamespaceByID#0") || !isCall {
					okNS = false
					why = append(why, o.Kind+":"+o.Desc)
					continue
				}
				nb, _ := cl.Tuple.(*ssa.Call)
				if nb == nil {
					okNS = false
					continue
				}
				id := eng.ExprDeep(nb.Call.Args[len(nb.Call.Args)-1])
				if id != base+".NamespaceID" {
					okNS = false
					why = append(why, "NamespaceByID("+id+")")
				}
			}
			if okNS {
				c.OK(f, site, pc.Pos(), "NamespaceByID("+base+".NamespaceID)")
			} else {
				c.Violation(f, site, pc.Pos(), "the inline policy of "+base+" is parsed in a namespace that is not the token's own ("+strings.Join(why, ", ")+"): its relative paths are re-anchored to another namespace", nil)
			}
		}
	}
	c.Floor(nil, "inline policies parsed", nInline, 4)

	// ---------- C12.6 namespace barrier selection
	if f := c.Fn("vault.(*Core).NamespaceView"); f != nil {
		c.Clause("R5", "C12.6")
		for _, b := range eng.Calls(f, `NamespaceBarrierByLongestPrefix$`) {
			c.Prov(f, "barrier selected for a namespace view", b, b.Common().Args[1], `^field:ns\.Path$`)
		}
		for _, r := range eng.Returns(f) {
			c.Prov(f, "namespace view", r, r.Results[0], `^call:vault\.NamespaceScopedView$`)
		}
		for _, sv := range eng.Calls(f, `vault\.NamespaceScopedView$`) {
			c.Prov(f, "barrier under the namespace view", sv, sv.Common().Args[0], `NamespaceBarrierByLongestPrefix$`)
			c.Prov(f, "namespace of the view", sv, sv.Common().Args[1], `^param:ns$`)
		}
		c.Floor(f, "NamespaceBarrierByLongestPrefix call", len(eng.Calls(f, `NamespaceBarrierByLongestPrefix$`)), 1)
	}
	c12NamespacePrefix(c)
	if f := c.Fn("vault.NamespaceScopedView"); f != nil {
		c.Clause("R5", "C12.6")
		n := 0
		for _, nv := range eng.Calls(f, `barrier\.NewView$`) {
			n++
			s := eng.ExprDeep(nv.Common().Args[1])
			if strings.Contains(s, "ns.UUID") || strings.Contains(s, "ns.ID") || strings.Contains(s, "NamespaceStoragePathPrefix(ns)") {
				c.OK(f, "namespace view prefix", nv.Pos(), s)
			} else {
				c.Violation(f, "namespace view prefix", nv.Pos(), "prefix "+s+" does not depend on the namespace", nil)
			}
		}
		c.Floor(f, "barrier.NewView in NamespaceScopedView", n, 1)
	}
	runC12Gaps2(c)
}

// ---------- C12.3 every prefix lookup in the mount tree is namespace-qualified

// c12LeftLeaves returns the leftmost operands of the string concatenation v
// (through phis, conversions and, flow-sensitively, loads of locals).
func c12LeftLeaves(v ssa.Value) []ssa.Value {
	var out []ssa.Value
	seen := map[ssa.Value]bool{}
	var walk func(v ssa.Value)
	walk = func(v ssa.Value) {
		if v == nil || seen[v] {
			return
		}
		seen[v] = true
		switch x := v.(type) {
		case *ssa.Phi:
			for _, e := range x.Edges {
				walk(e)
			}
			return
		case *ssa.ChangeType:
			walk(x.X)
			return
		case *ssa.BinOp:
			if x.Op == token.ADD {
				walk(x.X)
				return
			}
		case *ssa.UnOp:
			if a, ok := x.X.(*ssa.Alloc); ok && x.Op == token.MUL {
				vals, _ := eng.ReachingStores(a, x)
				if len(vals) > 0 {
					for _, s := range vals {
						if s == nil {
							out = append(out, v)
						} else {
							walk(s)
						}
					}
					return
				}
			}
		}
		out = append(out, v)
	}
	walk(v)
	return out
}

// c12IsCtxNamespacePath: v is a load of namespace.Namespace.Path whose base is
// read out of namespace.FromContext's result only.
func c12IsCtxNamespacePath(c *eng.Ctx, v ssa.Value) bool {
	ld, base := c14LoadOfField(v, "Path")
	if ld == nil || structTypeName(base.Type()) != "namespace.Namespace" {
		return false
	}
	roots := eng.Roots(base, nil)
	if len(roots) == 0 {
		return false
	}
	for _, r := range roots {
		cl := c14ExtractOf(r, 0)
		if cl == nil || eng.CalleeName(&cl.Call) != "namespace.FromContext" {
			return false
		}
	}
	return true
}

func c12RouteLookups(c *eng.Ctx) {
	root := c.P.Field("routing.Router.root")
	if root == nil {
		c.Clause("R5", "C12.3")
		c.Unresolved("routing.Router.root")
		return
	}
	// pass-through helper: the key is the caller's; its API-path callers are checked below
	passThrough := map[string]string{
		"routing.(*Router).matchingRouteEntryByPath": "looks up the path it is given; callers qualify it",
	}
	onRoot := func(cl ssa.CallInstruction) bool {
		a := cl.Common().Args
		if len(a) < 2 {
			return false
		}
		ld, ok := a[0].(*ssa.UnOp)
		if !ok || ld.Op != token.MUL {
			return false
		}
		fa, ok := ld.X.(*ssa.FieldAddr)
		return ok && eng.FieldVar(fa) == root
	}
	check := func(f *ssa.Function, what string, at ssa.CallInstruction, key ssa.Value) {
		var bad []string
		leaves := c12LeftLeaves(key)
		for _, l := range leaves {
			if !c12IsCtxNamespacePath(c, l) {
				bad = append(bad, eng.Expr(l))
			}
		}
		site := what + " keyed by <context namespace>.Path + path"
		if len(bad) > 0 || len(leaves) == 0 {
			c.Violation(f, site, at.Pos(), "the key "+eng.ExprDeep(key)+" does not lead with the Path of the namespace taken from the request context (leading operand(s): "+strings.Join(bad, ", ")+"): a request made inside a namespace would be matched against another namespace's mounts", nil)
		} else {
			c.OK(f, site, at.Pos(), eng.ExprDeep(key))
		}
	}
	c.Clause("R5", "C12.3")
	n, nRoute := 0, 0
	for _, f := range c.P.Funcs {
		if !eng.InPkg(f, "routing") || !strings.HasPrefix(eng.FuncName(eng.TopFunc(f)), "routing.(*Router).") {
			continue
		}
		top := eng.TopFunc(f)
		hasCtx := false
		for _, p := range top.Params {
			if types.TypeString(p.Type(), nil) == "context.Context" {
				hasCtx = true
			}
		}
		if !hasCtx {
			// Mount/Unmount/Remount/Get take full prefixes; Mount's own qualification is checked above.
			// A helper that is handed the namespace instead of the context (lookup extracted from a
			// context-taking method): its key leads with that parameter's Path, and every caller hands
			// it the namespace of its own context
			var nsParam *ssa.Parameter
			nsIdx := -1
			for i, p := range top.Params {
				if structTypeName(p.Type()) == "namespace.Namespace" {
					nsParam, nsIdx = p, i
				}
			}
			if nsParam == nil || f != top {
				continue
			}
			var lookups []ssa.CallInstruction
			for _, cl := range eng.Calls(f, `go-radix\.Tree\)\.(LongestPrefix|WalkPrefix|WalkPath)$`) {
				if onRoot(cl) {
					lookups = append(lookups, cl)
				}
			}
			if len(lookups) == 0 {
				continue
			}
			for _, cl := range lookups {
				var bad []string
				leaves := c12LeftLeaves(cl.Common().Args[1])
				for _, l := range leaves {
					if ld, base := c14LoadOfField(l, "Path"); ld == nil || base != ssa.Value(nsParam) {
						bad = append(bad, eng.Expr(l))
					}
				}
				site := "mount-tree lookup keyed by <namespace parameter>.Path + path"
				if len(bad) > 0 || len(leaves) == 0 {
					c.Violation(f, site, cl.Pos(), "the key "+eng.ExprDeep(cl.Common().Args[1])+" does not lead with the Path of the namespace the helper is given (leading operand(s): "+strings.Join(bad, ", ")+")", nil)
				} else {
					c.OK(f, site, cl.Pos(), eng.ExprDeep(cl.Common().Args[1]))
				}
			}
			hm, _ := c.P.StaticCallee(eng.FuncName(f))
			callers := c.P.FindCalls(hm, nil)
			for _, s := range callers {
				a := s.Call.Common().Args
				site := "namespace handed to the lookup helper = namespace of the caller's context"
				if nsIdx < len(a) && c12gIsCtxNamespace(a[nsIdx]) {
					c.OK(s.Fn, site, s.Call.Pos(), eng.ExprDeep(a[nsIdx]))
					n += len(lookups)
					if eng.FuncName(eng.TopFunc(s.Fn)) == "routing.(*Router).routeCommon" {
						nRoute += len(lookups)
					}
				} else {
					c.Violation(s.Fn, site, s.Call.Pos(), "the mount-tree lookup helper "+eng.FuncName(f)+" is handed a namespace that is not read out of namespace.FromContext of the caller's context: a request made inside a namespace would be matched against another namespace's mounts", nil)
				}
			}
			continue
		}
		for _, cl := range eng.Calls(f, `go-radix\.Tree\)\.(LongestPrefix|WalkPrefix|WalkPath)$`) {
			if !onRoot(cl) {
				continue
			}
			n++
			if eng.FuncName(top) == "routing.(*Router).routeCommon" {
				nRoute++
			}
			if why, ok := passThrough[eng.FuncName(top)]; ok {
				if _, isParam := cl.Common().Args[1].(*ssa.Parameter); isParam {
					c.OK(f, "mount-tree lookup keyed by <context namespace>.Path + path", cl.Pos(), "tabled pass-through: "+why)
					continue
				}
			}
			check(f, "mount-tree lookup", cl, cl.Common().Args[1])
		}
	}
	c.Floor(nil, "prefix lookups in the mount tree by context-taking Router methods", n, 10)
	if f := c.P.Func("routing.(*Router).routeCommon"); f != nil {
		c.Floor(f, "routing lookups", nRoute, 1)
	}
	// API-path callers of the pass-through helper
	if h := c.P.Func("routing.(*Router).matchingRouteEntryByPath"); h != nil {
		m, _ := c.P.StaticCallee("routing.(*Router).matchingRouteEntryByPath")
		for _, s := range c.P.FindCalls(m, nil) {
			a := s.Call.Common().Args
			if len(a) != 4 || eng.Expr(a[3]) != "true" {
				continue // storage-path lookups are keyed by storage prefixes, which embed the namespace UUID
			}
			if eng.FuncName(s.Fn) == "routing.(*Router).MatchingMountByAPIPath" {
				// hands its bare path on; tolerated only while nothing calls it
				mm, _ := c.P.StaticCallee("routing.(*Router).MatchingMountByAPIPath")
				if callers := c.P.FindCalls(mm, nil); len(callers) > 0 {
					c.Violation(s.Fn, "API-path lookup keyed by <context namespace>.Path + path", s.Call.Pos(), "MatchingMountByAPIPath looks its bare path up in the mount tree and now has callers ("+eng.FuncName(callers[0].Fn)+")", nil)
				} else {
					c.OK(s.Fn, "API-path lookup keyed by <context namespace>.Path + path", s.Call.Pos(), "unqualified, but the function has no caller in the program")
				}
				continue
			}
			check(s.Fn, "API-path lookup", s.Call, a[2])
		}
	}
}

// ---------- C12.6 a namespace's storage prefix is derived from its UUID

// c12Ingredients collects the leaves a string is built from: through
// concatenation, path.Join's variadic elements, conversions and phis.
func c12Ingredients(v ssa.Value, out *[]ssa.Value, seen map[ssa.Value]bool) {
	if v == nil || seen[v] {
		return
	}
	seen[v] = true
	switch x := v.(type) {
	case *ssa.Phi:
		for _, e := range x.Edges {
			c12Ingredients(e, out, seen)
		}
		return
	case *ssa.ChangeType:
		c12Ingredients(x.X, out, seen)
		return
	case *ssa.BinOp:
		if x.Op == token.ADD {
			c12Ingredients(x.X, out, seen)
			c12Ingredients(x.Y, out, seen)
			return
		}
	case *ssa.Call:
		if n := eng.CalleeName(&x.Call); n == "path.Join" && len(x.Call.Args) == 1 {
			if sl, ok := x.Call.Args[0].(*ssa.Slice); ok {
				if arr, ok := sl.X.(*ssa.Alloc); ok && arr.Referrers() != nil {
					found := false
					for _, r := range *arr.Referrers() {
						ia, ok := r.(*ssa.IndexAddr)
						if !ok || ia.Referrers() == nil {
							continue
						}
						for _, rr := range *ia.Referrers() {
							if st, ok := rr.(*ssa.Store); ok && st.Addr == ssa.Value(ia) {
								found = true
								c12Ingredients(st.Val, out, seen)
							}
						}
					}
					if found {
						return
					}
				}
			}
		}
	}
	*out = append(*out, v)
}

func c12NamespacePrefix(c *eng.Ctx) {
	f := c.Fn("vault.NamespaceStoragePathPrefix")
	if f == nil {
		return
	}
	nsPrefix, ok1 := c.P.ConstValue("barrier.NamespacePrefix")
	rootID, ok2 := c.P.ConstValue("namespace.RootNamespaceID")
	if !ok1 || !ok2 || len(f.Params) != 1 {
		c.Clause("R5", "C12.6")
		c.Unresolved("barrier.NamespacePrefix / namespace.RootNamespaceID / NamespaceStoragePathPrefix(ns)")
		return
	}
	ns := f.Params[0]
	var empty, derived []ssa.Instruction
	for _, r := range eng.Returns(f) {
		if k, ok := r.Results[0].(*ssa.Const); ok && eng.Expr(k) == `""` {
			empty = append(empty, r)
		} else {
			derived = append(derived, r)
		}
	}
	c.Clause("R2", "C12.6")
	if len(empty) > 0 {
		c.Cut(f, "empty storage prefix", empty, eng.Or(eng.G(f, `^`+reQuote(eng.VarName(ns))+` == nil$`, true), eng.G(f, `^`+reQuote(eng.VarName(ns))+`\.ID == `+reQuote(strconv.Quote(rootID))+`$`, true)), nil)
	}
	c.Clause("R5", "C12.6")
	if !c.Floor(f, "returns of a derived prefix", len(derived), 1) {
		return
	}
	for _, r := range derived {
		ret := r.(*ssa.Return)
		var ing []ssa.Value
		c12Ingredients(ret.Results[0], &ing, map[ssa.Value]bool{})
		hasUUID, hasPrefix := false, false
		var bad []string
		for _, v := range ing {
			if k, ok := v.(*ssa.Const); ok {
				if eng.Expr(k) == strconv.Quote(nsPrefix) {
					hasPrefix = true
				}
				continue
			}
			if ld, base := c14LoadOfField(v, "UUID"); ld != nil && base == ssa.Value(ns) {
				hasUUID = true
				continue
			}
			bad = append(bad, eng.Expr(v))
		}
		site := "namespace storage prefix = barrier.NamespacePrefix / ns.UUID"
		switch {
		case len(bad) > 0:
			c.Violation(f, site, ret.Pos(), "the storage prefix of a namespace is built from "+strings.Join(bad, ", ")+": only the namespace's UUID is unique and stable (a path nests under its parents' and can be reused after deletion), so namespaces would share or inherit storage", nil)
		case !hasUUID || !hasPrefix:
			c.Violation(f, site, ret.Pos(), fmt.Sprintf("the storage prefix %s lacks the namespace UUID (%v) or the %q area prefix (%v)", eng.ExprDeep(ret.Results[0]), hasUUID, nsPrefix, hasPrefix), nil)
		default:
			c.OK(f, site, ret.Pos(), eng.ExprDeep(ret.Results[0]))
		}
	}
}
