package props

import (
	"fmt"
	"go/constant"
	"go/types"
	"regexp"
	"sort"
	"strconv"
	"strings"

	"golang.org/x/tools/go/ssa"

	"obsa/eng"
)

func init() {
	register(&Prop{
		ID: "C08",
		Explanation: "Structural necessary conditions of 'storage transactions are serializable and atomic': " +
			"(1) sibling contract of every physical.Transaction implementation (family discovered through types.Implements): leaf implementations (inmem, raft, postgresql) serve no operation after the finished flag is set, refuse writes when read-only, set the finished flag on every exit of Commit/Rollback and run under the transaction mutex; wrapper implementations report success of Commit/Rollback/Put/Delete only across the success edge of the wrapped transaction's same-named method and consult the wrapped transaction for reads (that they hand on the caller's key/prefix, transformed only by the layer's own key function, is decided for every storage-shaped type including the transaction wrappers by C13.2 and not repeated here); the PostgreSQL transaction is opened at an sql isolation level of at least LevelRepeatableRead with the caller's read-only flag; " +
			"(2) the raft transaction records every key it read (or first overwrote) and every listing it made before using them, and Commit ships all recorded reads, lists and writes between a beginTxOp carrying the start index and a commitTxOp, no iteration over the recorded sets going on to the next element without appending its entry to the log handed to applyLog (an update only when its op type is neither put nor delete); the start index is read before the bolt snapshot is opened; " +
			"(3) the state machine verifies every read/list of a transaction before its first write (shared with C09.5); (4) the in-memory backend compares before each write of a commit and restores its tree on any failure, under the parent lock; " +
			"(5) the cache layer drops every key a transaction modified from the shared cache only after the inner commit succeeded and never on rollback; the transaction's reference to the shared cache (field parent) is set by the two constructors and read by Commit alone, and Commit never inserts into a cache; " +
			"(6) the fast-path predicates (shared with C09.4); (7) every bound that lets the fast-path record forget writes originates from the state machine's index or a transaction start index; " +
			"gaps round 2: (8) every BeginReadOnlyTx of the Transactional family opens a read-only transaction (wrappers ask the wrapped backend for one and never call BeginTx, leaves build the transaction with the refusing value of its write flag); " +
			"(9) an accepted Put/Delete of a leaf sets the 'written' flag its Commit consults; (10) an in-memory transaction works on a private copy of the parent tree taken under the parent's lock and the tree pointer has three tabled writers; " +
			"(4+) the in-memory transaction's own List records its observation; (2+) a kept list verification entry of the raft transaction is replaced (and the old one dropped) only when the new replay window is wider; " +
			"(7+) node-local trim bounds and the bound applyLog ships are min(lowest active start, state machine index), a writable raft transaction is registered with the tracker before it is handed out, registration increments / completion decrements the per-index count and the index is forgotten only with its last transaction, trimming removes exactly the entries below the bound, and the committing transaction's own start index is left out of the shipped bound only if no sibling is open at it (rule shared with C09.3); " +
			"(5+) the LRU and lock table of a cache are set by its constructor alone; every removal from / insertion into the LRU of a physical cache executes while LockForKey(<the same cache>.locks, <the same key>) is held (write lock for a removal, write or read lock for an insertion; no lock is a violation, not a vacuous pass), and a purge only behind a loop locking every entry of the lock table (rule shared with C13.5); (2++) the raft transaction's per-prefix map of kept list verifications is (re)assigned only on a lookup miss for the prefix, a fresh per-page map only on a miss for the prefix or the page, and the record is written by ListPage alone (shared with C13.2); (7+++) registration and release with the tracker agree: every trackTransaction and every completeTransaction site lies behind the writable flag of the same transaction (the field, or the constructor parameter it is stored from) being true, no path releases twice, and every Commit/Rollback of a live writable transaction releases (directly or through the deferred literal it arms); (7++) the log entry is serialised / handed to raft only after applyLog itself stored the capped bound into it, whatever the caller pre-computed (shared with C09.3).",
		NotDecided: "serializability over interleavings (schedules); soundness of the raft fast path as index arithmetic beyond the stated predicates; what PostgreSQL implements under the isolation level requested (delegated to the database; only the level requested is checked); the gRPC storage client/server pair (out-of-process).",
		Run:        runC08,
	})
}

type leafTx struct {
	typ       string // display prefix of the methods, e.g. raft.(*RaftTransaction)
	finished  string // normalised condition that is true when finished
	roPat     string // condition on the read-only/writable flag
	roVal     bool   // value of roPat on the edge where writes are allowed
	lockPat   string
	finishFld string // field store that marks the transaction finished
}

func runC08(c *eng.Ctx, thorough bool) {
	c08ListWindow(c)
	// "lock table and LRU of the same cache" (cacheLockOwner, props/c13.go) is subsumed for C08.5 by
	// cacheLruUnderKeyLock (props/c08g2.go), which also compares the key and requires the lock to be held
	// ---------- C08.1 family discovery
	c.Clause("R8", "C08.1")
	txIface := c.P.NamedType("physical.Transaction")
	if txIface == nil {
		c.Unresolved("physical.Transaction")
		return
	}
	it := txIface.Underlying().(*types.Interface)
	known := map[string]string{
		"inmem.InmemBackendTransaction":           "leaf",
		"raft.RaftTransaction":                    "leaf",
		"postgresql.PostgreSQLBackendTransaction": "leaf",
		"physical.cacheTransaction":               "wrapper",
		"physical.storageEncodingTransaction":     "wrapper",
		"physical.errorInjectorTransaction":       "wrapper (test fault injection)",
		"physical.writeNotifierTransaction":       "wrapper",
		"physical.TransactionalView":              "not a transaction",
	}
	var impls []string
	for _, pk := range c.P.Pkgs {
		sc := pk.Types.Scope()
		for _, n := range sc.Names() {
			tn, ok := sc.Lookup(n).(*types.TypeName)
			if !ok {
				continue
			}
			nt, ok := tn.Type().(*types.Named)
			if !ok {
				continue
			}
			if _, isIface := nt.Underlying().(*types.Interface); isIface {
				continue
			}
			if types.Implements(types.NewPointer(nt), it) || types.Implements(nt, it) {
				impls = append(impls, eng.Short(pk.PkgPath+"."+n))
			}
		}
	}
	sort.Strings(impls)
	for _, im := range impls {
		if strings.Contains(im, "testhelpers") || strings.Contains(im, "testing") {
			continue
		}
		if kind, ok := known[im]; ok {
			c.OK(nil, "family{physical.Transaction} "+im, 0, "reviewed implementation: "+kind)
		} else {
			c.Violation(nil, "family{physical.Transaction} "+im, 0, "new implementation of physical.Transaction outside the reviewed family: its finished/read-only/commit contract has not been checked", nil)
		}
	}
	c.Floor(nil, "physical.Transaction implementations", len(impls), 6)

	// ---------- leaf contract
	errRO, _ := "physical.ErrTransactionReadOnly", 0
	leafs := []leafTx{
		{"inmem.(*InmemBackendTransaction)", `^i\.finishedTx$`, `^i\.writable$`, true, `i\.txLock`, `^i\.finishedTx$`},
		{"raft.(*RaftTransaction)", `^t\.haveFinishedTx$`, `^t\.writable$`, true, `t\.l$`, `^(\^)?t\.haveFinishedTx$`},
		{"postgresql.(*PostgreSQLBackendTransaction)", `^t\.haveFinishedTx$`, `^t\.readOnly$`, false, `t\.l$`, `^(\^)?t\.haveFinishedTx$`},
	}
	for _, lf := range leafs {
		for _, m := range []string{"Get", "Put", "Delete", "ListPage"} {
			f := c.Fn(lf.typ + "." + m)
			if f == nil {
				continue
			}
			idx := f.Signature.Results().Len() - 1
			succ := eng.SuccessReturns(f, idx)
			c.Clause("R2", "C08.1")
			if !c.Floor(f, "success returns", len(succ), 1) {
				continue
			}
			c.Cut(f, m+" succeeds", succ, eng.G(f, lf.finished, false), nil)
			if m == "Put" || m == "Delete" {
				c.Cut(f, m+" succeeds", succ, eng.G(f, lf.roPat, lf.roVal), nil)
				// the refusal is the documented error
				c.Clause("R5", "C08.1")
				for _, r := range eng.ReturnsFrom(f, eng.CondEdges(f, lf.roPat, !lf.roVal), nil, nil) {
					vals, _, _ := eng.ReturnVals(r, idx)
					for _, v := range vals {
						c.Prov(f, "error returned for a write on a read-only transaction", r, v, `^global:`+strings.ReplaceAll(errRO, ".", `\.`)+`$`)
					}
					break
				}
			}
			// runs under the transaction mutex
			c.Clause("R9", "C08.1")
			held := eng.MustHold(f, eng.LockCall(lf.lockPat, "Lock"), eng.LockCall(lf.lockPat, "Unlock"))
			bad := false
			for _, b := range f.Blocks {
				ifi := eng.IfOf(b)
				if ifi == nil {
					continue
				}
				if ok, _ := regexpMatch(lf.finished, eng.Normalize(ifi.Cond).Base); ok && !held(ifi) {
					bad = true
					c.Violation(f, "locked{finished check}", ifi.Pos(), "the finished flag is tested without holding the transaction mutex", nil)
				}
			}
			if !bad {
				c.OK(f, "locked{finished check}", f.Pos(), "finished flag tested under the transaction mutex")
			}
		}
		// List delegates or has the same guard
		if f := c.P.Func(lf.typ + ".List"); f != nil {
			c.Clause("R2", "C08.1")
			succ := eng.SuccessReturns(f, 1)
			if len(eng.Calls(f, `\.ListPage$`)) > 0 {
				c.OK(f, "List delegates to ListPage", f.Pos(), "inherits ListPage's guards")
			} else {
				c.Cut(f, "List succeeds", succ, eng.G(f, lf.finished, false), nil)
			}
		}
		for _, m := range []string{"Commit", "Rollback"} {
			f := c.Fn(lf.typ + "." + m)
			if f == nil {
				continue
			}
			c.Clause("R4", "C08.1")
			live := eng.CondEdges(f, lf.finished, false)
			if len(live) == 0 {
				c.Violation(f, m+": finished check", f.Pos(), m+" no longer tests the finished flag", nil)
				continue
			}
			// marks: stores in the body, or arming a deferred closure that stores
			var marks []ssa.Instruction
			for _, st := range eng.Stores(f, lf.finishFld) {
				if eng.Expr(st.Val) == "true" {
					marks = append(marks, st)
				}
			}
			for _, in := range eng.Instrs(f, func(in ssa.Instruction) bool { _, ok := in.(*ssa.Defer); return ok }) {
				if mc, ok := in.(*ssa.Defer).Call.Value.(*ssa.MakeClosure); ok {
					cl := mc.Fn.(*ssa.Function)
					for _, st := range eng.Stores(cl, lf.finishFld) {
						if eng.Expr(st.Val) == "true" {
							// the store must be on every path of the closure
							isRet := func(in ssa.Instruction) bool { _, ok := in.(*ssa.Return); return ok }
							if eng.Reach(eng.Query{Fn: cl, Barriers: []ssa.Instruction{st}, Target: isRet}) == nil {
								marks = append(marks, in)
							}
						}
					}
				}
			}
			// returns that merely forward a sibling's result are that sibling's business
			c.CleanupOnEdges(f, m+" on a live transaction", live, "finished flag = true", marks)
			// second call is refused
			c.Clause("R2", "C08.1")
			succ := eng.SuccessReturns(f, 0)
			var own []ssa.Instruction
			for _, r := range succ {
				ret := r.(*ssa.Return)
				vals, _, _ := eng.ReturnVals(ret, 0)
				fwd := false
				for _, v := range vals {
					if v == nil {
						continue
					}
					if ok, _, _ := eng.OriginsMatch(v, `^call:`+reQuote(lf.typ)+`\.(Rollback|Commit)$`); ok {
						fwd = true
					}
				}
				if !fwd {
					own = append(own, r)
				}
			}
			c.Cut(f, m+" succeeds", own, eng.G(f, lf.finished, false), nil)
		}
	}

	// the isolation level requested from the database: at least REPEATABLE READ
	// (one snapshot for all reads of the transaction, write-write conflicts
	// abort), and the read-only flag handed on is the caller's
	if f := c.Fn("postgresql.(*PostgreSQLBackend).newTransaction"); f != nil {
		c.Clause("R12", "C08.1")
		min, okc := c.P.ImportedConst("postgresql", "database/sql", "LevelRepeatableRead")
		begins := eng.Calls(f, `database/sql\.(DB|Conn)\)\.BeginTx$`)
		if !okc {
			c.Unresolved("database/sql.LevelRepeatableRead")
		} else if c.Floor(f, "sql BeginTx", len(begins), 1) {
			for _, bt := range begins {
				a := bt.Common().Args
				opts := a[len(a)-1]
				site := "isolation level requested"
				iso := eng.StructLitField(opts, "Isolation")
				if len(iso) == 0 {
					c.Violation(f, site, bt.Pos(), "the transaction options carry no isolation level (nil options or field unset): the database default is READ COMMITTED", nil)
				}
				for _, v := range iso {
					cst, isC := v.(*ssa.Const)
					lvl, lok := int64(0), false
					if isC && cst.Value != nil {
						lvl, lok = constant.Int64Val(constant.ToInt(cst.Value))
					}
					want, _ := strconv.ParseInt(min, 10, 64)
					switch {
					case !lok:
						c.Undecided(f, site, bt.Pos(), "isolation level is not a constant: "+eng.ExprDeep(v))
					case lvl < want:
						c.Violation(f, site, bt.Pos(), fmt.Sprintf("storage transactions are opened at sql isolation level %d, below LevelRepeatableRead (%d): reads of one transaction can observe different committed states and concurrent read-modify-writes both commit", lvl, want), nil)
					default:
						c.OK(f, site, bt.Pos(), fmt.Sprintf("sql isolation level %d >= LevelRepeatableRead (%d)", lvl, want))
					}
				}
				c.Clause("R5", "C08.1")
				for _, v := range eng.StructLitField(opts, "ReadOnly") {
					c.Prov(f, "read-only flag handed to the database", bt, v, `^param:readOnly$`)
				}
				c.Clause("R12", "C08.1")
			}
		}
	}

	// ---------- wrapper contract
	type wrap struct {
		typ   string
		inner string // rendering fragment of the wrapped transaction
	}
	wrappers := []wrap{
		{"physical.(*cacheTransaction)", ""},
		{"physical.(*storageEncodingTransaction)", ""},
		{"physical.(*errorInjectorTransaction)", ""},
		{"physical.(*writeNotifierTransaction)", ""},
		{"barrier.(*viewTransaction)", ""},
		{"barrier.(*AESGCMBarrierTransaction)", ""},
		{"logical.(*storageViewTransaction)", ""},
		{"logical.(*LogicalTransaction)", ""},
		{"keysutil.(*eksTransaction)", ""},
	}
	for _, w := range wrappers {
		for _, m := range []string{"Commit", "Rollback", "Put", "Delete"} {
			f := c.P.Func(w.typ + "." + m)
			if f == nil {
				// promoted through embedding: nothing of its own to check
				c.Notes = append(c.Notes, w.typ+"."+m+" is promoted from an embedded value")
				continue
			}
			c.Clause("R2", "C08.1")
			idx := f.Signature.Results().Len() - 1
			succ := eng.SuccessReturns(f, idx)
			// the inner call: an invoke (or static call) of a method with the same name, or a helper taking the inner txn
			var inner []eng.Edge
			var innerCalls []ssa.Instruction
			innerRe := regexp.MustCompile(`\.` + m + `$|putWithBackend$|deleteWithBackend$`)
			// the call itself, a bound method value of it, or a closure / same-package helper every
			// return of which lies behind it and whose error result is the call's verdict
			for _, st := range nfMust(f, nil, func(nc nfCall, _ *nfFrame) bool {
				return innerRe.MatchString(nc.Name) && nc.In.Common().StaticCallee() != f
			}, 1) {
				cl, isCall := st.At.(ssa.CallInstruction)
				if !isCall || !st.Fwd {
					continue
				}
				innerCalls = append(innerCalls, cl)
				inner = append(inner, eng.CallOKEdges(cl)...)
			}
			if len(innerCalls) == 0 {
				c.Violation(f, "wrapper delegates "+m, f.Pos(), "the wrapper's "+m+" no longer calls the wrapped transaction's "+m, nil)
				continue
			}
			// returns that forward the inner call's own result are fine by construction
			var own []ssa.Instruction
			for _, r := range succ {
				ret := r.(*ssa.Return)
				fwd := false
				for _, ic := range innerCalls {
					if v, ok := ic.(ssa.Value); ok {
						for _, o := range eng.Origins(ret.Results[idx]) {
							if o.Val == v {
								fwd = true
							}
							if ex, ok := o.Val.(*ssa.Extract); ok && ex.Tuple == v {
								fwd = true
							}
						}
					}
				}
				if !fwd {
					own = append(own, r)
				}
			}
			if len(own) == 0 {
				c.OK(f, "wrapper delegates "+m, innerCalls[0].Pos(), "returns the wrapped transaction's result")
				continue
			}
			g := eng.Guard{Desc: "success edge of the wrapped " + m, Edges: inner}
			if h := eng.Reach(eng.Query{Fn: f, Blocked: g.Edges, Target: eng.IsTarget(own)}); h != nil {
				c.Violation(f, "wrapper delegates "+m, h.Instr.Pos(), "the wrapper can report success of "+m+" without the wrapped transaction's "+m+" having succeeded", h.Witness)
			} else {
				c.OK(f, "wrapper delegates "+m, innerCalls[0].Pos(), "success only across the wrapped transaction's success edge")
			}
		}
		for _, m := range []string{"Get", "ListPage"} {
			f := c.P.Func(w.typ + "." + m)
			if f == nil {
				continue
			}
			c.Clause("R8", "C08.1")
			if len(eng.Calls(f, `\.`+m+`$|lockSwitchedGet$|listPageWithBackend$`)) == 0 {
				c.Violation(f, "wrapper consults the wrapped transaction for "+m, f.Pos(), "no call to the wrapped transaction's "+m, nil)
			} else {
				c.OK(f, "wrapper consults the wrapped transaction for "+m, f.Pos(), "delegates")
			}
		}
	}

	// ---------- C08.2 raft read/list sets
	if f := c.Fn("raft.(*RaftTransaction).Get"); f != nil {
		c.Clause("R2", "C08.2")
		idx := 1
		succ := eng.SuccessReturns(f, idx)
		var rec []ssa.Instruction
		for _, in := range eng.Instrs(f, func(in ssa.Instruction) bool {
			mu, ok := in.(*ssa.MapUpdate)
			return ok && eng.Expr(mu.Map) == "t.reads"
		}) {
			rec = append(rec, in)
		}
		blocked := append(eng.CondEdges(f, `^t\.reads\[key\]#1$`, true), eng.CondEdges(f, `^t\.updates\[key\]#1$`, true)...)
		if c.Floor(f, "t.reads[key] = ... record", len(rec), 1) {
			if h := eng.Reach(eng.Query{Fn: f, Barriers: rec, Blocked: blocked, Target: eng.IsTarget(succ)}); h != nil {
				c.Violation(f, "read recorded before it is returned", h.Instr.Pos(), "Get can return a value read from storage without recording it for verification at commit", h.Witness)
			} else {
				c.OK(f, "read recorded before it is returned", rec[0].Pos(), "every success return is served from the transaction's own writes, from an already recorded read, or passes t.reads[key] = verification entry")
			}
			// the update map is only consulted for writable transactions; the recorded hash is of the value read
			c.Clause("R5", "C08.2")
			for _, ve := range eng.Calls(f, `raft\.createVerificationEntry$`) {
				c.Prov(f, "key of the verification entry", ve, ve.Common().Args[0], `^param:key$`)
				c.Prov(f, "value hashed for verification", ve, ve.Common().Args[1], `bbolt\.Bucket\)\.Get$`)
			}
		}
	}
	for _, m := range []string{"Put", "Delete"} {
		f := c.Fn("raft.(*RaftTransaction)." + m)
		if f == nil {
			continue
		}
		c.Clause("R2", "C08.2")
		var upd, rec []ssa.Instruction
		for _, in := range eng.Instrs(f, func(in ssa.Instruction) bool { _, ok := in.(*ssa.MapUpdate); return ok }) {
			switch eng.Expr(in.(*ssa.MapUpdate).Map) {
			case "t.updates":
				upd = append(upd, in)
			case "t.reads":
				rec = append(rec, in)
			}
		}
		if !c.Floor(f, "t.updates record", len(upd), 1) {
			continue
		}
		keyExpr := `(key|entry\.Key)`
		blocked := append(eng.CondEdges(f, `^t\.reads\[`+keyExpr+`\]#1$`, true), eng.CondEdges(f, `^t\.updates\[`+keyExpr+`\]#1$`, true)...)
		if h := eng.Reach(eng.Query{Fn: f, Barriers: rec, Blocked: blocked, Target: eng.IsTarget(upd)}); h != nil {
			c.Violation(f, "first write of a key records what it overwrote", h.Instr.Pos(), m+" can record an update without the key having been read, written before, or a verification entry of its current value being recorded", h.Witness)
		} else {
			c.OK(f, "first write of a key records what it overwrote", upd[0].Pos(), "t.updates[key] is only set after t.reads/t.updates already cover the key or a verification entry was recorded")
		}
	}
	if f := c.Fn("raft.(*RaftTransaction).ListPage"); f != nil {
		c.Clause("R2", "C08.2")
		succ := eng.SuccessReturns(f, 1)
		c.Cut(f, "listing returned", succ, eng.GCallOK(f, `raft\.createListVerificationEntry$`), nil)
		var rec []ssa.Instruction
		for _, in := range eng.Instrs(f, func(in ssa.Instruction) bool {
			mu, ok := in.(*ssa.MapUpdate)
			return ok && strings.HasPrefix(eng.Expr(mu.Map), "t.lists")
		}) {
			rec = append(rec, in)
		}
		c.Floor(f, "t.lists records", len(rec), 1)
		c.Clause("R5", "C08.2")
		for _, ve := range eng.Calls(f, `raft\.createListVerificationEntry$`) {
			a := ve.Common().Args
			c.Prov(f, "prefix of the list verification entry", ve, a[0], `^param:prefix$`)
			c.Prov(f, "after of the list verification entry", ve, a[1], `^param:after$`)
		}
	}
	if f := c.Fn("raft.(*RaftTransaction).Commit"); f != nil {
		c.Clause("R3", "C08.2")
		apply := instrsOf(eng.Calls(f, `raft\.\(\*RaftBackend\)\.applyLog$`))
		if c.Floor(f, "applyLog", len(apply), 1) {
			// helpers of the same receiver type that Commit calls before applyLog (a loop extracted into
			// a method): the rules below follow them one level deep
			var helpers []*ssa.Function
			helperCall := map[*ssa.Function][]ssa.Instruction{}
			for _, cl := range eng.Calls(f, `^raft\.\(\*RaftTransaction\)\.`) {
				g := cl.Common().StaticCallee()
				if g == nil || g == f || g.Blocks == nil {
					continue
				}
				if _, seen := helperCall[g]; !seen {
					helpers = append(helpers, g)
				}
				helperCall[g] = append(helperCall[g], cl)
			}
			rangesOver := func(g *ssa.Function, set string) []ssa.Instruction {
				recv := ""
				if len(g.Params) > 0 {
					recv = eng.Expr(g.Params[0])
				}
				return eng.Instrs(g, func(in ssa.Instruction) bool {
					r, ok := in.(*ssa.Range)
					return ok && eng.Expr(r.X) == recv+"."+set
				})
			}
			// all three sets are ranged over before the log is applied
			for _, set := range []string{"reads", "lists", "updates"} {
				rng := rangesOver(f, set)
				what := "range over t." + set
				if len(rng) == 0 {
					for _, g := range helpers {
						if len(rangesOver(g, set)) > 0 {
							rng = append(rng, helperCall[g]...)
							what = "range over t." + set + " (in " + eng.FuncName(g) + ")"
						}
					}
				}
				if len(rng) == 0 {
					c.Undecided(f, "order{range over t."+set+" < applyLog}", f.Pos(), "no range over t."+set+" in Commit or in a method of the transaction it calls: moved? the rule cannot be evaluated")
					continue
				}
				c.Before(f, what, rng, "applyLog", apply)
			}
			// every element ranged over is shipped: an iteration of any of the
			// loops ends only by appending an entry to the log handed to applyLog,
			// or by having run a nested range to its end (whose iterations are held
			// to the same rule); an update may be skipped only when its op type is
			// neither put nor delete.
			c.Clause("R2", "C08.2")
			logv := apply[0].(ssa.CallInstruction).Common().Args[2]
			isAppend := func(v ssa.Value) bool {
				cl, ok := v.(*ssa.Call)
				if !ok {
					return false
				}
				bi, ok := cl.Call.Value.(*ssa.Builtin)
				return ok && bi.Name() == "append"
			}
			opsStore := func(in ssa.Instruction) (*ssa.Store, bool) {
				st, ok := in.(*ssa.Store)
				if !ok {
					return nil, false
				}
				fa, ok := st.Addr.(*ssa.FieldAddr)
				if !ok || fa.X != logv {
					return nil, false
				}
				if fv := eng.FieldVar(fa); fv == nil || fv.Name() != "Operations" {
					return nil, false
				}
				return st, true
			}
			type shipFn struct {
				fn   *ssa.Function
				ship []ssa.Instruction
			}
			scopes := []shipFn{{fn: f}}
			for _, in := range eng.Instrs(f, func(in ssa.Instruction) bool {
				st, ok := opsStore(in)
				return ok && isAppend(st.Val)
			}) {
				scopes[0].ship = append(scopes[0].ship, in)
			}
			// a helper whose result is stored into log.Operations and which only ever returns its
			// argument extended by appends: its appends ship too
			for _, g := range helpers {
				stored := false
				for _, cl := range helperCall[g] {
					if cv, ok := cl.(ssa.Value); ok && cv.Referrers() != nil {
						for _, r := range *cv.Referrers() {
							if st, ok := opsStore(r); ok && st.Val == cv {
								stored = true
							}
						}
					}
				}
				if !stored {
					continue
				}
				pure := true
				for _, r := range eng.Returns(g) {
					if r.Block().Comment == "recover" {
						continue
					}
					for _, o := range eng.Origins(r.Results[0]) {
						if _, isP := o.Val.(*ssa.Parameter); !isP && !isAppend(o.Val) {
							pure = false
						}
					}
				}
				if !pure {
					continue
				}
				sf := shipFn{fn: g}
				for _, in := range eng.Instrs(g, func(in ssa.Instruction) bool { v, ok := in.(ssa.Value); return ok && isAppend(v) }) {
					sf.ship = append(sf.ship, in)
				}
				scopes = append(scopes, sf)
			}
			nShip, nLoops := 0, 0
			for _, sc := range scopes {
				nShip += len(sc.ship)
				nLoops += len(c07Loops(sc.fn))
			}
			if c.Floor(f, "appends to the operations of the log handed to applyLog", nShip, 5) && c.Floor(f, "loops over the recorded reads, lists and updates", nLoops, 5) {
				putV, _ := c.P.ConstValue("raft.putOp")
				delV, _ := c.P.ConstValue("raft.deleteOp")
				for _, sc := range scopes {
					loops := c07Loops(sc.fn)
					var exits []eng.Edge
					for _, l := range loops {
						exits = append(exits, l.Exit)
					}
					for _, l := range loops {
						site := "every iteration ships its entry{" + eng.Normalize(l.If.Cond).Base + "}"
						again := func(in ssa.Instruction) bool { return in == ssa.Instruction(l.If) }
						var hit *eng.Hit
						for _, k := range []string{putV, delV} {
							skip := eng.CondEdges(sc.fn, `\.OpType == `+reQuote(k)+`$`, false)
							if h := eng.Reach(eng.Query{Fn: sc.fn, StartEdges: []eng.Edge{l.Body}, Blocked: append(append([]eng.Edge{}, exits...), skip...), Barriers: sc.ship, Target: again}); h != nil {
								hit = h
							}
						}
						if hit != nil {
							c.Violation(sc.fn, site, l.If.Pos(), "an iteration over the recorded reads/lists/updates can go on to the next element without appending its entry to the log: the read is not verified (or the write not applied) by the state machine", hit.Witness)
						} else {
							c.OK(sc.fn, site, l.If.Pos(), "no iteration reaches the next one without appending to log.Operations")
						}
					}
				}
			}
			c.Clause("R5", "C08.2")
			for _, bv := range eng.Calls(f, `raft\.createBeginTxOpValue$`) {
				c.Prov(f, "index shipped in beginTxOp", bv, bv.Common().Args[0], `^field:t\.index$`)
			}
			c.Floor(f, "createBeginTxOpValue", len(eng.Calls(f, `raft\.createBeginTxOpValue$`)), 1)
			// the commit error is what applyLog reports
			c.Clause("R2", "C08.2")
			var nilConst []ssa.Instruction
			for _, r := range eng.SuccessReturns(f, 0) {
				vals, _, _ := eng.ReturnVals(r.(*ssa.Return), 0)
				fwd := false
				for _, v := range vals {
					if v != nil {
						if ok, _, _ := eng.OriginsMatch(v, `^call:raft\.\(\*RaftBackend\)\.applyLog$`); ok {
							fwd = true // the verdict reported is applyLog's own
						}
					}
				}
				if !fwd {
					nilConst = append(nilConst, r)
				}
			}
			wr := eng.Or(eng.GCallOK(f, `raft\.\(\*RaftBackend\)\.applyLog$`), eng.G(f, `^t\.writable$`, false), eng.G(f, `^t\.haveWritten$`, false))
			c.Cut(f, "Commit succeeds", nilConst, wr, nil)
			// op types of the literal entries
			c.Clause("R12", "C08.2")
			ops := map[string]bool{}
			for _, g := range append([]*ssa.Function{f}, helpers...) {
				for _, st := range eng.Stores(g, `^&complit\.OpType$`) {
					ops[eng.Expr(st.Val)] = true
				}
			}
			want := []string{"raft.beginTxOp", "raft.commitTxOp", "raft.putOp", "raft.deleteOp"}
			var got []string
			for k := range ops {
				got = append(got, k)
			}
			sort.Strings(got)
			missing := false
			for _, w := range want {
				v, _ := c.P.ConstValue(w)
				if !ops[v] {
					missing = true
				}
			}
			if missing {
				c.Violation(f, "log entry op types", f.Pos(), fmt.Sprintf("Commit no longer emits begin/commit/put/delete entries: got op constants %v", got), nil)
			} else {
				c.OK(f, "log entry op types", f.Pos(), fmt.Sprintf("emits begin, commit, put and delete entries (%v)", got))
			}
		}
	}
	if f := c.Fn("raft.(*RaftBackend).newTransaction"); f != nil {
		c.Clause("R3", "C08.2")
		idx := instrsOf(eng.Calls(f, `raft\.\(\*RaftBackend\)\.AppliedIndex$`))
		begin := instrsOf(eng.Calls(f, `bbolt\.DB\)\.Begin$`))
		if c.Floor(f, "AppliedIndex", len(idx), 1) && c.Floor(f, "db.Begin", len(begin), 1) {
			c.Before(f, "start index read (AppliedIndex)", idx, "bolt snapshot opened (db.Begin)", begin)
			c.NotAfter(f, "db.Begin", begin, "start index read", idx)
		}
		c.Clause("R5", "C08.2")
		for _, tr := range eng.Calls(f, `trackTransaction$`) {
			c.Prov(f, "tracked start index", tr, tr.Common().Args[1], `^call:raft\.\(\*RaftBackend\)\.AppliedIndex$`)
		}
	}
	if f := c.Fn("raft.(*RaftBackend).AppliedIndex"); f != nil {
		c.Clause("R5", "C08.7")
		for _, r := range eng.Returns(f) {
			if r.Block().Comment == "recover" {
				continue
			}
			vals, _, _ := eng.ReturnVals(r, 0)
			for _, v := range vals {
				if v == nil || eng.Expr(v) == "0" {
					continue
				}
				c.Prov(f, "transaction start index source", r, v, `LatestState.*\.Index$`, `^const:0$`) // 0: no state machine yet
			}
		}
	}

	// ---------- C08.7 same clock for every trim bound
	c.Clause("R5", "C08.7")
	trimSites := c.P.FindCalls(mustStatic(c, "raft.(*fsmTxnCommitIndexTracker).clearOldEntries"), nil)
	for _, s := range trimSites {
		if eng.FuncName(eng.TopFunc(s.Fn)) == "raft.(*FSM).ApplyBatch" {
			continue // replicated bound, C09.3
		}
		args := nfCallOf(s.Call).Args // through a bound method value the receiver is bound, not passed
		checkBound(c, s.Fn, s.Call, args[len(args)-1], "argument of clearOldEntries")
	}
	c.Floor(nil, "clearOldEntries call sites", len(trimSites), 3)
	if f := c.Fn("raft.(*RaftBackend).applyLog"); f != nil {
		for _, st := range eng.Stores(f, `^command\.LowestActiveIndex$`) {
			checkBound(c, f, st, st.Val, "LogData.LowestActiveIndex shipped by applyLog")
		}
		c.Floor(f, "command.LowestActiveIndex store", len(eng.Stores(f, `^command\.LowestActiveIndex$`)), 1)
	}

	// ---------- C08.3 / C08.6 shared with C09
	raftFastPath(c, "C08.6")
	if f := c.Fn("raft.(*FSM).applyBatchTxOps"); f != nil {
		c.Clause("R3", "C08.3")
		writes := c09WriteSites(f)
		vr := instrsOf(eng.Calls(f, `doVerify(Read|List)$`))
		if c.Floor(f, "bucket writes", c09WriteCount(f), 2) && c.Floor(f, "verification calls", len(vr), 2) {
			c.NotAfter(f, "the first bucket write", writes, "a verification call", vr)
		}
	}

	// ---------- C08.4 inmem commit
	if f := c.Fn("inmem.(*InmemBackendTransaction).Commit"); f != nil {
		var replay *ssa.Function
		for _, cl := range eng.Closures(f) {
			if len(eng.Calls(cl, `go-radix\.Tree\)\.(Insert|Delete)$`)) > 0 {
				replay = cl
			}
		}
		c.Clause("R2", "C08.4")
		if replay == nil {
			c.Violation(f, "replay closure", f.Pos(), "the commit no longer replays its operations in a closure writing the parent tree", nil)
		} else {
			writes := eng.Calls(replay, `go-radix\.Tree\)\.(Insert|Delete)$`)
			cmp := eng.G(replay, `^reflect\.DeepEqual\(\)$`, true)
			c.Cut(replay, "write to the parent tree", instrsOf(writes), cmp, nil)
			// each write is immediately preceded by a compare of the same op: the compare's false edge returns an error
			c.Clause("R4", "C08.4")
			for _, e := range eng.CondEdges(replay, `^reflect\.DeepEqual\(\)$`, false) {
				rets := eng.ReturnsFrom(replay, []eng.Edge{e}, nil, instrsOf(writes))
				bad := false
				for _, r := range rets {
					if eng.IsNilConst(r.Results[0]) {
						bad = true
					}
				}
				if h := eng.Reach(eng.Query{Fn: replay, StartEdges: []eng.Edge{e}, Target: eng.IsTarget(instrsOf(writes))}); h != nil || bad {
					c.Violation(replay, "on{observed value changed} conflict", e.From.Instrs[len(e.From.Instrs)-1].Pos(), "after a failed comparison the replay can continue writing or report success", nil)
				} else {
					c.OK(replay, "on{observed value changed} conflict", e.From.Instrs[len(e.From.Instrs)-1].Pos(), "a changed value ends the replay with an error before any further write")
				}
			}
			// failure restores the copy
			c.Clause("R4", "C08.4")
			var restore []ssa.Instruction
			for _, st := range eng.Stores(f, `^i\.parent\.(InmemBackend\.)?root$`) {
				if ok, _, _ := eng.OriginsMatch(st.Val, `go-radix\.NewFromMap$`); ok {
					restore = append(restore, st)
				}
			}
			var rc ssa.CallInstruction
			for _, cl := range eng.Calls(f, `Commit\$1$`) {
				rc = cl
			}
			if rc == nil {
				c.Undecided(f, "replay invoked", f.Pos(), "call of the replay closure not found")
			} else {
				fe := eng.ValueNilEdges(eng.ResultValue(rc, 0), false)
				c.CleanupOnEdges(f, "replay failed", fe, "i.parent.root = radix.NewFromMap(copy)", restore)
				c.Before(f, "copy of the parent tree (ToMap)", instrsOf(eng.Calls(f, `go-radix\.Tree\)\.ToMap$`)), "replay", []ssa.Instruction{rc})
				// under the parent lock
				c.Clause("R9", "C08.4")
				held := eng.MustHold(f, eng.LockCall(`i\.parent`, "Lock"), eng.LockCall(`i\.parent`, "Unlock"))
				if held(rc) {
					c.OK(f, "locked{replay}", rc.Pos(), "replay runs with the parent backend's lock held")
				} else {
					c.Violation(f, "locked{replay}", rc.Pos(), "the replay onto the parent tree runs without the parent's lock", nil)
				}
			}
		}
	}
	// inmem Get/List inside a transaction record what they observed
	for m, op := range map[string]string{"Get": "GetInMemOp", "ListPage": "ListPageInMemOp"} {
		f := c.P.Func("inmem.(*InmemBackendTransaction)." + m)
		if f == nil {
			continue
		}
		c.Clause("R2", "C08.4")
		idx := f.Signature.Results().Len() - 1
		succ := eng.SuccessReturns(f, idx)
		rec := c08InmemRecordSites(c, f)
		if !c.Floor(f, "i.operations append", len(rec), 1) {
			continue
		}
		blockedObs := eng.CondEdges(f, `^i\.writable$`, false)
		for _, ic := range eng.Calls(f, `inmem\.\(\*InmemBackend\)\.(Get|List|ListPage|listPaginatedInternal|getInternal)$`) {
			blockedObs = append(blockedObs, eng.CallFailEdges(ic)...) // a failed read is returned as an error
		}
		if h := eng.Reach(eng.Query{Fn: f, Barriers: rec, Blocked: blockedObs, Target: eng.IsTarget(succ)}); h != nil {
			c.Violation(f, "observation recorded", h.Instr.Pos(), "a writable in-memory transaction can return a "+m+" result without recording it ("+op+") for verification at commit", h.Witness)
		} else {
			c.OK(f, "observation recorded", rec[0].Pos(), "every success return of a writable transaction records the observation")
		}
	}

	// ---------- C08.5 cache layer
	if f := c.Fn("physical.(*cacheTransaction).Commit"); f != nil {
		c.Clause("R2", "C08.5")
		var inval []ssa.Instruction // the per-key invalidation: direct lru.Remove calls or calls of a closure doing it
		for _, cl := range eng.Calls(f, `lru.*\.(Remove|Purge)$|TwoQueueCache.*\.(Remove|Purge)$`) {
			inval = append(inval, cl)
		}
		for _, clo := range eng.Closures(f) {
			if len(eng.Calls(clo, `TwoQueueCache.*\.(Remove|Purge)$`)) > 0 {
				for _, cl := range eng.Calls(f, reQuote("closure:"+eng.FuncName(clo))+`$`) {
					inval = append(inval, cl)
				}
			}
		}
		if c.Floor(f, "shared cache invalidation", len(inval), 1) {
			okCommit := eng.Guard{Desc: "success edge of the wrapped transaction's Commit"}
			for _, st := range nfMust(f, nil, func(nc nfCall, _ *nfFrame) bool {
				return nc.Name == "<physical.Transaction>.Commit"
			}, 1) {
				if cl, isCall := st.At.(ssa.CallInstruction); isCall && st.Fwd {
					okCommit.Edges = append(okCommit.Edges, eng.CallOKEdges(cl)...)
				}
			}
			c.Cut(f, "invalidate shared cache entries", inval, okCommit, nil)
			succ := eng.SuccessReturns(f, 0)
			var own []ssa.Instruction
			for _, r := range succ {
				if eng.IsNilConst(r.(*ssa.Return).Results[0]) {
					own = append(own, r)
				}
			}
			var rng []ssa.Instruction
			for _, in := range eng.Instrs(f, func(in ssa.Instruction) bool {
				r, ok := in.(*ssa.Range)
				return ok && strings.Contains(eng.Expr(r.X), "modified")
			}) {
				rng = append(rng, in)
			}
			if len(rng) == 0 {
				c.Violation(f, "range over the modified keys", f.Pos(), "Commit no longer walks the set of keys the transaction modified", nil)
			} else {
				c.Before(f, "walk over the modified keys", rng, "Commit reports success", own)
				// every key of the walk is invalidated: the loop body passes the invalidation before the next iteration
				body := eng.CondEdges(f, `^next\(range\(c\.modified\)\)#0$`, true)
				hdr := eng.EdgeIfs(body)
				if h := eng.Reach(eng.Query{Fn: f, StartEdges: body, Barriers: inval, Target: eng.IsTarget(hdr)}); h != nil {
					c.Violation(f, "every modified key invalidated", h.Instr.Pos(), "an iteration over the modified keys can skip the invalidation", h.Witness)
				} else {
					c.OK(f, "every modified key invalidated", rng[0].Pos(), "each iteration invalidates its key before the next")
				}
			}
		}
	}
	// the shared (parent) cache is reachable from a transaction only through
	// its parent field: the field is set by the two constructors and read by
	// Commit alone, and Commit never inserts into a cache
	c.Clause("R1", "C08.5")
	if fv := c.P.Field("physical.cacheTransaction.parent"); fv != nil {
		c.CallerTable("field cacheTransaction.parent (the shared cache)", c.P.FieldReads(fv, nil), map[string]string{
			"physical.(*transactionalCache).BeginTx":         "constructor: records the cache the transaction was started from",
			"physical.(*transactionalCache).BeginReadOnlyTx": "constructor: records the cache the transaction was started from",
			"physical.(*cacheTransaction).Commit":            "drops the modified keys from the shared cache after the inner commit succeeded (checked above)",
		}, 3)
	} else {
		c.Unresolved("physical.cacheTransaction.parent")
	}
	if f := c.P.Func("physical.(*cacheTransaction).Commit"); f != nil {
		c.Clause("R6", "C08.5")
		n := len(eng.Calls(f, `TwoQueueCache.*\.Add$`))
		for _, clo := range eng.Closures(f) {
			n += len(eng.Calls(clo, `TwoQueueCache.*\.Add$`))
		}
		if n > 0 {
			c.Violation(f, "commit only drops shared cache entries", f.Pos(), "Commit inserts into a cache: a value written inside the transaction would become visible to other readers without a read from storage", nil)
		} else {
			c.OK(f, "commit only drops shared cache entries", f.Pos(), "no cache insertion in Commit")
		}
	}
	if f := c.Fn("physical.(*cacheTransaction).Rollback"); f != nil {
		c.Clause("R6", "C08.5")
		if n := len(eng.Calls(f, `lru.*\.(Remove|Add|Purge)$`)); n > 0 {
			c.Violation(f, "rollback leaves the shared cache alone", f.Pos(), "Rollback touches the shared cache", nil)
		} else {
			c.OK(f, "rollback leaves the shared cache alone", f.Pos(), "no shared-cache mutation in Rollback")
		}
	}
	for _, m := range []string{"Put", "Delete"} {
		f := c.P.Func("physical.(*cacheTransaction)." + m)
		if f == nil {
			continue
		}
		c.Clause("R2", "C08.5")
		var rec []ssa.Instruction
		for _, in := range eng.Instrs(f, func(in ssa.Instruction) bool {
			mu, ok := in.(*ssa.MapUpdate)
			return ok && strings.Contains(eng.Expr(mu.Map), "modified")
		}) {
			rec = append(rec, in)
		}
		succ := eng.SuccessReturns(f, 0)
		if !c.Floor(f, "modified[key] record", len(rec), 1) {
			continue
		}
		blockedW := append(eng.CondEdges(f, `ShouldCache\(\)$`, false), eng.CondEdges(f, `^entry == nil$`, true)...)
		for _, ic := range eng.Calls(f, `<physical\.Backend>\.(Put|Delete)$`) {
			blockedW = append(blockedW, eng.CallFailEdges(ic)...)
		}
		if h := eng.Reach(eng.Query{Fn: f, Barriers: rec, Blocked: blockedW, Target: eng.IsTarget(succ)}); h != nil {
			c.Violation(f, "modified key recorded", h.Instr.Pos(), "a write inside a cached transaction can succeed without recording the key for invalidation at commit", h.Witness)
		} else {
			c.OK(f, "modified key recorded", rec[0].Pos(), "every successful write records its key")
		}
	}
	runC08Gaps2(c)
}

// checkBound: a bound that lets the tracker forget writes must come from the
// state machine's index (fsm.LatestState / RaftBackend.AppliedIndex) or from
// the tracker's own start indexes — never from raft's applied index, which
// runs ahead of the state machine.
func checkBound(c *eng.Ctx, fn *ssa.Function, at ssa.Instruction, v ssa.Value, what string) {
	var rs []string
	bad := ""
	for _, r := range eng.Roots(v, nil) {
		s := eng.ExprDeep(r)
		rs = append(rs, s)
		switch {
		case strings.Contains(s, "lowestActiveIndex"), strings.Contains(s, "LowestActiveIndex"),
			strings.Contains(s, "LatestState("), strings.Contains(s, "RaftBackend).AppliedIndex("),
			strings.HasPrefix(s, "min("), eng.IsNilConst(r):
		case strings.Contains(s, "hashicorp/raft.Raft).AppliedIndex") || strings.Contains(s, "raft.(*Raft).AppliedIndex"):
			bad = s
		default:
			if _, isConst := r.(*ssa.Const); !isConst {
				bad = s
			}
		}
	}
	// min(...) builtin: look at its operands too
	for _, r := range eng.Roots(v, nil) {
		if cl, ok := r.(*ssa.Call); ok {
			if b, ok := cl.Call.Value.(*ssa.Builtin); ok && b.Name() == "min" {
				for _, a := range cl.Call.Args {
					for _, rr := range eng.Roots(a, nil) {
						s := eng.ExprDeep(rr)
						rs = append(rs, "min-arg:"+s)
						if strings.Contains(s, "Raft).AppliedIndex") && !strings.Contains(s, "RaftBackend).AppliedIndex") {
							bad = s
						}
					}
				}
			}
		}
	}
	site := "bound{" + what + "}"
	if bad != "" {
		c.Violation(fn, site, at.Pos(), "a trim bound is derived from "+bad+": it must come from the state machine's index (transactions start there) or a recorded start index; raft's applied index runs ahead of the state machine", nil)
	} else {
		c.OK(fn, site, at.Pos(), "bound read out of "+strings.Join(rs, ", "))
	}
}
