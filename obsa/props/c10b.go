package props

import (
	"go/constant"
	"go/token"
	"strings"

	"golang.org/x/tools/go/ssa"

	"obsa/eng"
)

// c10Rekey (R13): the durable writes of a barrier rekey happen in the frozen
// order, each after the previous one succeeded, and — today — without an
// atomic envelope (reported as the known finding F6).
func c10Rekey(c *eng.Ctx) {
	f := c.Fn("vault.(*Core).performBarrierRekey")
	if f == nil {
		return
	}
	c.Clause("R13", "C10.6")
	steps := []struct{ desc, pat string }{
		{"seal.SetStoredKeys (new root key under the seal)", `<vault\.Seal>\.SetStoredKeys$`},
		{"barrier.RotateRootKey (keyring + root-key records)", `<barrier\.SecurityBarrier>\.RotateRootKey$`},
		{"barrier.Put(shamir-kek)", `<barrier\.SecurityBarrier>\.Put$`},
		{"seal.SetBarrierConfig (seal configuration)", `<vault\.Seal>\.SetBarrierConfig$`},
	}
	var calls [][]ssa.CallInstruction
	okAll := true
	for _, s := range steps {
		cs := kCalls(f, s.pat)
		if len(cs) == 0 {
			okAll = false
			c.Violation(f, "durable-write-step{"+s.desc+"}", f.Pos(), "the rekey no longer performs "+s.desc+": the frozen write sequence changed; re-read and re-derive the crash analysis", nil)
		}
		calls = append(calls, cs)
	}
	if okAll {
		for i := 1; i < len(steps); i++ {
			g := eng.Guard{Desc: "success edge of " + steps[i-1].desc}
			for _, p := range calls[i-1] {
				g.Edges = append(g.Edges, eng.CallOKEdges(p)...)
			}
			c.Cut(f, steps[i].desc, instrsOf(calls[i]), g, nil)
		}
		// the shamir KEK stored is the new seal key, under the constant path
		c.Clause("R5", "C10.6")
		for _, p := range calls[2] {
			a := kArgs(p)
			ent := a[len(a)-1]
			for _, v := range eng.StructLitField(ent, "Key") {
				c.Prov(f, "key of the shamir KEK record", p, v, `^const:"core/shamir-kek"$`)
			}
			for _, v := range eng.StructLitField(ent, "Value") {
				c.Prov(f, "value of the shamir KEK record", p, v, `^param:newSealKey$`)
			}
		}
		for _, p := range calls[1] {
			c.Prov(f, "root key rotated in", p, kArgs(p)[len(kArgs(p))-1], `GenerateKey#0$`)
		}
		for _, p := range calls[0] {
			s := eng.ExprDeep(kArgs(p)[len(kArgs(p))-1])
			if strings.Contains(s, "GenerateKey") || strings.Contains(s, "slicelit") {
				c.OK(f, "stored key = the new root key", p.Pos(), s)
			}
		}
	}
	// atomic envelope
	c.Clause("R13", "C10.6")
	envelope := ""
	if len(kCalls(f, `BeginTx$`)) > 0 {
		envelope = "storage transaction"
	}
	for _, cl := range kCalls(f, `(?i)rekey.*(marker|journal|intent)|(?i)(marker|journal|intent).*rekey`) {
		_ = cl
		envelope = "intent marker"
	}
	if envelope == "" {
		c.Violation(f, "durable-write-sequence", f.Pos(), "a rekey is "+itoa(len(steps))+" dependent durable steps (stored keys, keyring, root key, legacy delete, shamir KEK, seal config) issued one after another with no transaction and no recovery marker: a crash or storage failure after any but the last leaves a store that the old shares cannot unseal while the new shares were never returned", nil)
	} else {
		c.OK(f, "durable-write-sequence", f.Pos(), "atomic envelope present: "+envelope)
	}
	// who may call it: only after the threshold of shares was combined (C20.3)
	c.Clause("R1", "C10.6")
	c.CallerTable("Core.performBarrierRekey", c.P.FindCalls(mustStatic(c, "vault.(*Core).performBarrierRekey"), nil), map[string]string{
		"vault.(*Core).BarrierRekeyUpdate":  "after the rekey shares reached the threshold",
		"vault.(*Core).BarrierRekeyVerify":  "after verification of the new shares",
		"vault.(*Core).RekeyVerify":         "after verification of the new shares",
		"vault.(*Core).RootRotationUpdate":  "root rotation",
		"vault.(*Core).rekeyVerifyInternal": "verification",
	}, 1)
}

func itoa(i int) string {
	s := ""
	if i == 0 {
		return "0"
	}
	for i > 0 {
		s = string(rune('0'+i%10)) + s
		i /= 10
	}
	return s
}

// c10Sprintf: for a value that is the result of fmt.Sprintf, its constant
// format and the operands of the variadic part (boxing stripped), in order.
func c10Sprintf(v ssa.Value) (format string, ops []ssa.Value, ok bool) {
	cl, isCall := v.(*ssa.Call)
	if !isCall || eng.CalleeName(&cl.Call) != "fmt.Sprintf" || len(cl.Call.Args) != 2 {
		return "", nil, false
	}
	fc, isConst := cl.Call.Args[0].(*ssa.Const)
	if !isConst || fc.Value == nil || fc.Value.Kind() != constant.String {
		return "", nil, false
	}
	sl, isSlice := cl.Call.Args[1].(*ssa.Slice)
	if !isSlice {
		return "", nil, false
	}
	arr, isAlloc := sl.X.(*ssa.Alloc)
	if !isAlloc || arr.Referrers() == nil {
		return "", nil, false
	}
	byIdx := map[int64]ssa.Value{}
	for _, r := range *arr.Referrers() {
		ia, isIA := r.(*ssa.IndexAddr)
		if !isIA || ia.Referrers() == nil {
			continue
		}
		ic, isC := ia.Index.(*ssa.Const)
		if !isC {
			return "", nil, false
		}
		for _, rr := range *ia.Referrers() {
			if st, isSt := rr.(*ssa.Store); isSt && st.Addr == ia {
				val := st.Val
				if mi, isMI := val.(*ssa.MakeInterface); isMI {
					val = mi.X
				}
				if _, dup := byIdx[ic.Int64()]; dup {
					return "", nil, false
				}
				byIdx[ic.Int64()] = val
			}
		}
	}
	for i := int64(0); i < int64(len(byIdx)); i++ {
		o, have := byIdx[i]
		if !have {
			return "", nil, false
		}
		ops = append(ops, o)
	}
	return constant.StringVal(fc.Value), ops, true
}

// c10StripConv removes value-preserving conversions.
func c10StripConv(v ssa.Value) ssa.Value {
	for {
		switch x := v.(type) {
		case *ssa.Convert:
			v = x.X
		case *ssa.ChangeType:
			v = x.X
		default:
			return v
		}
	}
}

// c10UpgradePath (C10.5): the three functions of the standby upgrade path
// build their storage key through one format over the same prefix operand;
// the term operand is the bare active term in the reader (every read, also the
// re-read after the lock upgrade) and `term - 1` in the writer and the
// destroyer; the writer encrypts under the term it files the key under and
// stores the entry under the key it encrypted for.
func c10UpgradePath(c *eng.Ctx, cu, ck *ssa.Function) {
	type keyUse struct {
		fn     *ssa.Function
		at     ssa.Instruction
		what   string
		format string
		ops    []ssa.Value
	}
	var uses []keyUse
	collect := func(f *ssa.Function, what, calleePat string, argIdx func(a []ssa.Value) ssa.Value, floor int) []keyUse {
		var out []keyUse
		for _, g := range kCalls(f, calleePat) {
			k := argIdx(kArgs(g))
			format, ops, ok := c10Sprintf(k)
			if !ok || len(ops) != 2 {
				c.Clause("R7", "C10.5")
				c.Undecided(f, "upgrade key shape{"+what+"}", g.Pos(), "the storage key is not a two-operand fmt.Sprintf: "+eng.ExprDeep(k))
				continue
			}
			out = append(out, keyUse{f, g, what, format, ops})
		}
		c.Clause("R7", "C10.5")
		c.Floor(f, what, len(out), floor)
		return out
	}
	// reader: every Get of CheckUpgrade
	reads := collect(ck, "upgrade key read by CheckUpgrade", `lockSwitchedGet$|barrier\.\(\*AESGCMBarrier\)\.Get$`, func(a []ssa.Value) ssa.Value {
		for _, x := range a {
			if _, _, ok := c10Sprintf(x); ok {
				return x
			}
		}
		return a[len(a)-2]
	}, 1)
	writes := collect(cu, "upgrade key encrypted for by CreateUpgrade", `encryptTracked$`, func(a []ssa.Value) ssa.Value { return a[1] }, 1)
	var destroys []keyUse
	du := c.Fn("barrier.(*AESGCMBarrier).DestroyUpgrade")
	if du != nil {
		destroys = collect(du, "upgrade key deleted by DestroyUpgrade", `barrier\.\(\*AESGCMBarrier\)\.Delete$|<physical\.Backend>\.Delete$`, func(a []ssa.Value) ssa.Value { return a[len(a)-1] }, 1)
	}
	uses = append(append(append(uses, reads...), writes...), destroys...)
	if len(writes) == 0 {
		return
	}
	ref := writes[0]
	pfx, _ := c.P.ConstValue("barrier.KeyringUpgradePrefix")
	c.Clause("R7", "C10.5")
	for i, u := range uses {
		site := "upgrade key format and prefix{" + u.what + " " + itoa(i+1) + "}"
		got := u.format + " over " + eng.ExprDeep(u.ops[0])
		want := ref.format + " over " + eng.ExprDeep(ref.ops[0])
		switch {
		case got != want:
			c.Violation(u.fn, site, u.at.Pos(), "key built as "+got+", the writer builds "+want, nil)
		case pfx == "" || !strings.Contains(got, `"`+pfx+`"`):
			c.Violation(u.fn, site, u.at.Pos(), "key built as "+got+" does not carry KeyringUpgradePrefix", nil)
		default:
			c.OK(u.fn, site, u.at.Pos(), got)
		}
	}
	c.Clause("R5", "C10.5")
	for i, u := range reads {
		site := "term operand of the upgrade key read = active term{read " + itoa(i+1) + "}"
		t := c10StripConv(u.ops[1])
		cl, ok := t.(*ssa.Call)
		if ok && eng.CalleeName(&cl.Call) == "barrier.(*Keyring).ActiveTerm" && len(cl.Call.Args) == 1 && eng.Expr(cl.Call.Args[0]) == "b.keyring" {
			c.OK(u.fn, site, u.at.Pos(), eng.ExprDeep(t))
		} else {
			c.Violation(u.fn, site, u.at.Pos(), "CheckUpgrade reads upgrade/<"+eng.ExprDeep(t)+">; the path to the next term is filed under the bare active term of the live keyring", nil)
		}
	}
	prevTerm := func(f *ssa.Function, v ssa.Value) bool {
		bo, ok := c10StripConv(v).(*ssa.BinOp)
		if !ok || bo.Op != token.SUB {
			return false
		}
		p, isP := bo.X.(*ssa.Parameter)
		one, isC := bo.Y.(*ssa.Const)
		return isP && eng.VarName(p) == "term" && isC && one.Value != nil && one.Value.ExactString() == "1"
	}
	for _, u := range append(append([]keyUse{}, writes...), destroys...) {
		site := "term operand of the upgrade key = term - 1{" + u.what + "}"
		if prevTerm(u.fn, u.ops[1]) {
			c.OK(u.fn, site, u.at.Pos(), eng.ExprDeep(u.ops[1]))
		} else {
			c.Violation(u.fn, site, u.at.Pos(), "term operand is "+eng.ExprDeep(u.ops[1])+", expected the parameter term minus one", nil)
		}
	}
	for _, u := range writes {
		a := kArgs(u.at.(ssa.CallInstruction))
		site := "upgrade key encrypted under the term it is filed under"
		if eng.ExprDeep(c10StripConv(a[2])) == eng.ExprDeep(c10StripConv(u.ops[1])) {
			c.OK(u.fn, site, u.at.Pos(), eng.ExprDeep(a[2]))
		} else {
			c.Violation(u.fn, site, u.at.Pos(), "encrypted under term "+eng.ExprDeep(a[2])+" but filed under "+eng.ExprDeep(u.ops[1]), nil)
		}
		for _, ae := range kCalls(u.fn, `barrier\.\(\*AESGCMBarrier\)\.aeadForTerm$`) {
			site := "AEAD of the term the upgrade key is filed under"
			if x := kArgs(ae)[1]; eng.ExprDeep(c10StripConv(x)) == eng.ExprDeep(c10StripConv(u.ops[1])) {
				c.OK(u.fn, site, ae.Pos(), eng.ExprDeep(x))
			} else {
				c.Violation(u.fn, site, ae.Pos(), "AEAD of term "+eng.ExprDeep(x)+" but filed under "+eng.ExprDeep(u.ops[1]), nil)
			}
		}
		// the entry stored carries the key that was encrypted for (the AAD)
		for _, p := range kCalls(u.fn, `<physical\.Backend>\.Put$`) {
			pa := kArgs(p)
			for _, kv := range eng.StructLitField(pa[len(pa)-1], "Key") {
				site := "upgrade entry stored under the key it was encrypted for"
				if kv == a[1] {
					c.OK(u.fn, site, p.Pos(), eng.ExprDeep(kv))
				} else {
					c.Violation(u.fn, site, p.Pos(), "stored under "+eng.ExprDeep(kv)+", encrypted for "+eng.ExprDeep(a[1]), nil)
				}
			}
		}
	}
}

// c10CoreUnseal (C10.3, Core level): every key handed to SecurityBarrier.Unseal
// in package vault comes out of a tabled producer — unsealKeyToRootKey (shares
// or recovery key turned into the root key), the seal's stored keys, the key a
// barrier was just initialised with, the parent barrier's decryption of a
// namespace root key — and the call lies behind that producer's success edge;
// functions that merely forward a key parameter are followed to their callers.
func c10CoreUnseal(c *eng.Ctx) {
	type src struct {
		origin   string // allowed origin of the key argument
		producer string // callee whose success edge must be crossed ("" = forwards a parameter: callers are checked)
		why      string
	}
	const u2r = `vault\.\(\*SealManager\)\.unsealKeyToRootKey`
	fromShares := src{`^call:` + u2r + `#0$`, u2r + `$`, "root key derived from the combined shares / recovery key by unsealKeyToRootKey"}
	stored := src{`^op:<vault\.Seal>\.GetStoredKeys\(\)#0\[0\]$`, `<vault\.Seal>\.GetStoredKeys$`, "auto-unseal: the root key the seal stores"}
	fresh := src{`^call:<barrier\.SecurityBarrier>\.GenerateKey#0$`, `<barrier\.SecurityBarrier>\.Initialize$`, "bootstrap: the key the barrier was just initialised with"}
	fwd := src{`^param:rootKey$`, "", "forwards its key parameter; callers tabled"}
	tables := []struct {
		what    string
		matcher eng.CalleeMatcher
		floor   int
		sites   map[string]src
	}{
		{"SecurityBarrier.Unseal", nil, 5, map[string]src{
			"vault.(*Core).unsealInternal":                fwd,
			"vault.(*SealManager).UnsealWithRootKey":      fwd,
			"vault.(*SealManager).UnsealNamespace":        fromShares,
			"vault.(*generateRecoveryToken).authenticate": fromShares,
			"vault.(*Core).initializeInternal":            fresh,
			"vault.(*SealManager).InitializeBarrier":      fresh,
			"vault.(*Core).raftSnapshotRestoreCallback$1": stored,
		}},
		{"Core.unsealInternal", mustStatic(c, "vault.(*Core).unsealInternal"), 2, map[string]src{
			"vault.(*Core).unsealFragment":       fromShares,
			"vault.(*Core).unsealWithRaft$1":     fromShares,
			"vault.(*Core).UnsealWithStoredKeys": stored,
		}},
		{"SealManager.UnsealWithRootKey", mustStatic(c, "vault.(*SealManager).UnsealWithRootKey"), 1, map[string]src{
			"vault.(*Core).SetNamespaceKeys": {`^call:<barrier\.SecurityBarrier>\.Decrypt#0$`, `<barrier\.SecurityBarrier>\.Decrypt$`, "namespace root key decrypted by the (unsealed) parent barrier"},
		}},
	}
	if m, ok := c.P.IfaceCallee("barrier.SecurityBarrier", "Unseal"); ok {
		tables[0].matcher = m
	} else {
		c.Unresolved("barrier.SecurityBarrier")
		return
	}
	inVault := func(fn *ssa.Function) bool { return eng.InPkg(fn, "vault") }
	for _, t := range tables {
		sites := c.P.FindCalls(t.matcher, inVault)
		c.Clause("R1", "C10.3")
		c.Floor(nil, "call sites of "+t.what+" in package vault", len(sites), t.floor)
		for _, s := range sites {
			fn := eng.FuncName(s.Fn)
			a := kArgs(s.Call)
			key := a[len(a)-1]
			sr, ok := t.sites[fn]
			c.Clause("R1", "C10.3")
			if !ok {
				c.Violation(s.Fn, "callers{"+t.what+"}", s.Call.Pos(), "a key is handed to "+t.what+" outside the reviewed table of key sources: "+eng.ExprDeep(key), nil)
				continue
			}
			c.OK(s.Fn, "callers{"+t.what+"}", s.Call.Pos(), sr.why)
			c.Clause("R5", "C10.3")
			// a nil key is refused by the barrier; it appears as the zero value of a loop-carried variable
			c.Prov(s.Fn, "key handed to "+t.what, s.Call, key, sr.origin, `^const:nil$`)
			if sr.producer == "" {
				continue
			}
			c.Clause("R2", "C10.3")
			prod := kCalls(s.Fn, sr.producer)
			g := nfGCallOK(s.Fn, sr.producer)
			sink := []ssa.Instruction{s.Call}
			c.Cut(s.Fn, t.what, sink, eng.Or(eng.Guard{Desc: g.Desc, Edges: g.Edges}, eng.Guard{Desc: "key tested non-empty", Edges: c10NonEmptyEdges(s.Fn, key)}), nil)
			site := "on{" + sr.producer + " failed} no " + t.what
			var fail []eng.Edge
			for _, p := range prod {
				fail = append(fail, eng.CallFailEdges(p)...)
			}
			switch {
			case len(fail) == 0:
				c.Undecided(s.Fn, site, s.Call.Pos(), "no branch tests the error of the key producer")
			default:
				// (running the producer again starts over: a loop may retry)
				if h := eng.Reach(eng.Query{Fn: s.Fn, StartEdges: fail, Barriers: instrsOf(prod), Target: eng.IsTarget(sink)}); h != nil {
					c.Violation(s.Fn, site, s.Call.Pos(), "the barrier can be unsealed after the key producer failed", h.Witness)
				} else {
					c.OK(s.Fn, site, s.Call.Pos(), "the failure edge of the key producer never reaches "+t.what)
				}
			}
		}
	}
}

// c10NonEmptyEdges: the edges on which len(v) > 0 was established.
func c10NonEmptyEdges(f *ssa.Function, v ssa.Value) []eng.Edge {
	var out []eng.Edge
	for _, b := range f.Blocks {
		ifi := eng.IfOf(b)
		if ifi == nil {
			continue
		}
		nc := eng.Normalize(ifi.Cond)
		bo, ok := nc.Val.(*ssa.BinOp)
		if !ok || !strings.HasPrefix(nc.Base, "0 < len(") {
			continue
		}
		isLenOfV := func(x ssa.Value) bool {
			ln, isCall := x.(*ssa.Call)
			if !isCall || len(ln.Call.Args) != 1 || ln.Call.Args[0] != v {
				return false
			}
			bi, isB := ln.Call.Value.(*ssa.Builtin)
			return isB && bi.Name() == "len"
		}
		if !isLenOfV(bo.X) && !isLenOfV(bo.Y) {
			continue
		}
		succ := 1
		if nc.Pol {
			succ = 0
		}
		out = append(out, eng.Edge{From: b, Succ: succ})
	}
	return out
}
