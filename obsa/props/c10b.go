package props

import (
	"strings"

	"golang.org/x/tools/go/ssa"

	"obsa/eng"
)

// c10Rekey (R13): the durable writes of a barrier rekey happen in the frozen
// order, each after the previous one succeeded, and — today — without an
// atomic envelope (reported as the known finding F6).
func c10Rekey(c *eng.Ctx) {
	f := c.Fn("vault.(*Core).performBarrierRekey")
	if f == nil {
		return
	}
	c.Clause("R13", "C10.6")
	steps := []struct{ desc, pat string }{
		{"seal.SetStoredKeys (new root key under the seal)", `<vault\.Seal>\.SetStoredKeys$`},
		{"barrier.RotateRootKey (keyring + root-key records)", `<barrier\.SecurityBarrier>\.RotateRootKey$`},
		{"barrier.Put(shamir-kek)", `<barrier\.SecurityBarrier>\.Put$`},
		{"seal.SetBarrierConfig (seal configuration)", `<vault\.Seal>\.SetBarrierConfig$`},
	}
	var calls [][]ssa.CallInstruction
	okAll := true
	for _, s := range steps {
		cs := eng.Calls(f, s.pat)
		if len(cs) == 0 {
			okAll = false
			c.Violation(f, "durable-write-step{"+s.desc+"}", f.Pos(), "the rekey no longer performs "+s.desc+": the frozen write sequence changed; re-read and re-derive the crash analysis", nil)
		}
		calls = append(calls, cs)
	}
	if okAll {
		for i := 1; i < len(steps); i++ {
			g := eng.Guard{Desc: "success edge of " + steps[i-1].desc}
			for _, p := range calls[i-1] {
				g.Edges = append(g.Edges, eng.CallOKEdges(p)...)
			}
			c.Cut(f, steps[i].desc, instrsOf(calls[i]), g, nil)
		}
		// the shamir KEK stored is the new seal key, under the constant path
		c.Clause("R5", "C10.6")
		for _, p := range calls[2] {
			a := p.Common().Args
			ent := a[len(a)-1]
			for _, v := range eng.StructLitField(ent, "Key") {
				c.Prov(f, "key of the shamir KEK record", p, v, `^const:"core/shamir-kek"$`)
			}
			for _, v := range eng.StructLitField(ent, "Value") {
				c.Prov(f, "value of the shamir KEK record", p, v, `^param:newSealKey$`)
			}
		}
		for _, p := range calls[1] {
			c.Prov(f, "root key rotated in", p, p.Common().Args[len(p.Common().Args)-1], `GenerateKey#0$`)
		}
		for _, p := range calls[0] {
			s := eng.ExprDeep(p.Common().Args[len(p.Common().Args)-1])
			if strings.Contains(s, "GenerateKey") || strings.Contains(s, "slicelit") {
				c.OK(f, "stored key = the new root key", p.Pos(), s)
			}
		}
	}
	// atomic envelope
	c.Clause("R13", "C10.6")
	envelope := ""
	if len(eng.Calls(f, `BeginTx$`)) > 0 {
		envelope = "storage transaction"
	}
	for _, cl := range eng.Calls(f, `(?i)rekey.*(marker|journal|intent)|(?i)(marker|journal|intent).*rekey`) {
		_ = cl
		envelope = "intent marker"
	}
	if envelope == "" {
		c.Violation(f, "durable-write-sequence", f.Pos(), "a rekey is "+itoa(len(steps))+" dependent durable steps (stored keys, keyring, root key, legacy delete, shamir KEK, seal config) issued one after another with no transaction and no recovery marker: a crash or storage failure after any but the last leaves a store that the old shares cannot unseal while the new shares were never returned", nil)
	} else {
		c.OK(f, "durable-write-sequence", f.Pos(), "atomic envelope present: "+envelope)
	}
	// who may call it: only after the threshold of shares was combined (C20.3)
	c.Clause("R1", "C10.6")
	c.CallerTable("Core.performBarrierRekey", c.P.FindCalls(mustStatic(c, "vault.(*Core).performBarrierRekey"), nil), map[string]string{
		"vault.(*Core).BarrierRekeyUpdate":  "after the rekey shares reached the threshold",
		"vault.(*Core).BarrierRekeyVerify":  "after verification of the new shares",
		"vault.(*Core).RekeyVerify":         "after verification of the new shares",
		"vault.(*Core).RootRotationUpdate":  "root rotation",
		"vault.(*Core).rekeyVerifyInternal": "verification",
	}, 1)
}

func itoa(i int) string {
	s := ""
	if i == 0 {
		return "0"
	}
	for i > 0 {
		s = string(rune('0'+i%10)) + s
		i /= 10
	}
	return s
}
