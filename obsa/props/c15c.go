package props

import (
	"go/token"
	"regexp"
	"strconv"
	"strings"

	"golang.org/x/tools/go/ssa"

	"obsa/eng"
)

// c15minPhi recognises p = min(req, cap): an If compares the two merged values, the edge taken
// when req <= cap carries req directly into the phi, the other side carries cap.
func c15minPhi(p *ssa.Phi) (req, cap ssa.Value, ok bool) {
	if len(p.Edges) != 2 {
		return nil, nil, false
	}
	for i := 0; i < 2; i++ {
		pred, other := p.Block().Preds[i], p.Block().Preds[1-i]
		ifi := eng.IfOf(pred)
		if ifi == nil || len(other.Preds) != 1 || other.Preds[0] != pred {
			continue
		}
		bo, isBin := ifi.Cond.(*ssa.BinOp)
		if !isBin {
			continue
		}
		si := -1
		for k, s := range pred.Succs {
			if s == p.Block() {
				si = k
			}
		}
		if si < 0 {
			continue
		}
		a, b := p.Edges[i], p.Edges[1-i] // a flows in directly on edge si
		var small, big ssa.Value         // on edge si: small <= big
		switch {
		case bo.Op == token.GTR && si == 1: // !(X > Y)
			small, big = bo.X, bo.Y
		case bo.Op == token.LSS && si == 1: // !(X < Y)
			small, big = bo.Y, bo.X
		case bo.Op == token.LEQ && si == 0:
			small, big = bo.X, bo.Y
		case bo.Op == token.GEQ && si == 0:
			small, big = bo.Y, bo.X
		default:
			continue
		}
		if a == small && b == big {
			return a, b, true
		}
	}
	return nil, nil, false
}

// ---- C15.4 issuer bound and role lifetime bounds
func c15NotAfter(c *eng.Ctx) {
	f := c.Fn("pki.getCertificateNotAfter")
	if f == nil {
		return
	}
	permitC, ok1 := c.P.ConstValue("certutil.PermitNotAfterBehavior")
	truncC, ok2 := c.P.ConstValue("certutil.TruncateNotAfterBehavior")
	forbidB, ok3 := c.P.ConstValue("pki.ForbidNotAfterBound")
	ttlB, ok4 := c.P.ConstValue("pki.TTLNotAfterBound")
	if !ok1 || !ok2 || !ok3 || !ok4 {
		c.Unresolved("certutil.PermitNotAfterBehavior / pki.ForbidNotAfterBound")
		return
	}
	c.Clause("R2", "C15.4")
	succ := eng.SuccessReturns(f, 2)
	if !c.Floor(f, "success returns", len(succ), 1) {
		return
	}
	const issuerNA = "caSign.ParsedCertBundle.Certificate.NotAfter"
	// a value "is the issuer's NotAfter" when it is that field read, or a local that, on the
	// paths with an issuer, only ever holds it (var x time.Time; if caSign != nil { x = caSign...NotAfter })
	feIssuer := eng.Feasible(f, map[string]bool{`^caSign == nil$`: false})
	isIssuerNA := func(v ssa.Value) bool {
		if eng.Expr(v) == issuerNA {
			return true
		}
		if _, isPhi := v.(*ssa.Phi); !isPhi {
			return false
		}
		// the non-phi values merged into v along edges feasible with an issuer
		var leaves []ssa.Value
		eng.RootsVisit(v, feIssuer, func(x ssa.Value) bool {
			if _, isPhi := x.(*ssa.Phi); isPhi {
				return false
			}
			leaves = append(leaves, x)
			return true
		})
		for _, l := range leaves {
			if eng.Expr(l) != issuerNA {
				return false
			}
		}
		return len(leaves) > 0
	}
	var cmp *ssa.Call
	for _, a := range eng.Calls(f, `^time\.\(Time\)\.After$`) {
		if cv, ok := a.(*ssa.Call); ok && isIssuerNA(cv.Call.Args[1]) {
			cmp = cv
		}
	}
	if cmp == nil {
		c.Violation(f, "comparison with the issuer's NotAfter", f.Pos(), "getCertificateNotAfter no longer compares the computed NotAfter with caSign.Certificate.NotAfter", nil)
		return
	}
	// the verdict of the comparison is branched on directly, or kept in a flag whose other values are the constant false
	exceed, within := eng.BoolEdges(cmp, true), eng.BoolEdges(cmp, false)
	if refs := cmp.Referrers(); refs != nil {
		for _, r := range *refs {
			ph, ok := r.(*ssa.Phi)
			if !ok {
				continue
			}
			onlyFalse := true
			for _, l := range c15phiLeaves(ph) {
				if l != ssa.Value(cmp) && eng.Expr(l) != "false" {
					onlyFalse = false
				}
			}
			if onlyFalse {
				exceed = append(exceed, eng.BoolEdges(ph, true)...)
				within = append(within, eng.BoolEdges(ph, false)...) // compared and within, or no issuer
			}
		}
	}
	c.Cut(f, "NotAfter returned", succ, eng.Or(eng.G(f, `^caSign == nil$`, true), eng.Guard{Desc: "NotAfter compared with the issuer's NotAfter", Edges: c15edges(exceed, within)}), nil)
	c15unreach(c, f, "on{issuer present} success needs the comparison with the issuer's NotAfter", eng.Query{Assume: map[string]bool{`^caSign == nil$`: false}, Barriers: []ssa.Instruction{cmp}, Target: eng.IsTarget(succ)}, cmp.Pos(),
		"with a signing issuer every success passes the comparison of the computed NotAfter with the issuer's", "with a signing issuer a NotAfter can be returned without having been compared with the issuer's NotAfter")
	permit := eng.G(f, `^caSign\.LeafNotAfterBehavior == `+permitC+`$`, true)
	trunc := eng.G(f, `^caSign\.LeafNotAfterBehavior == `+truncC+`$`, true)
	if c.Floor(f, "exceeding arm of the comparison", len(exceed), 1) {
		c15unreach(c, f, "on{NotAfter beyond the issuer's} success only for permit/truncate", eng.Query{StartEdges: exceed, Blocked: c15edges(permit.Edges, trunc.Edges), Target: eng.IsTarget(succ)}, cmp.Pos(),
			"a NotAfter beyond the issuer's is returned only when leaf_not_after_behavior is permit or truncate; every other value (err, unknown) is refused", "a NotAfter beyond the issuer's can be returned although leaf_not_after_behavior is neither permit nor truncate")
	}
	// truncate returns the issuer's NotAfter
	c.Clause("R5", "C15.4")
	if len(trunc.Edges) > 0 {
		bad := ""
		for _, r := range eng.ReturnsFrom(f, trunc.Edges, nil, nil) {
			isSucc := false
			for _, s := range succ {
				if s == ssa.Instruction(r) {
					isSucc = true
				}
			}
			if !isSucc {
				continue
			}
			for _, l := range c15leavesFrom(r.Results[0], trunc.Edges) {
				if !isIssuerNA(l) {
					bad = eng.Expr(l)
				}
			}
		}
		if bad != "" {
			c.Violation(f, "on{truncate} NotAfter = issuer's NotAfter", trunc.Edges[0].From.Instrs[len(trunc.Edges[0].From.Instrs)-1].Pos(), "under truncate the returned NotAfter may be "+bad, nil)
		} else {
			c.OK(f, "on{truncate} NotAfter = issuer's NotAfter", trunc.Edges[0].From.Instrs[len(trunc.Edges[0].From.Instrs)-1].Pos(), "every success after the truncate arm returns caSign.Certificate.NotAfter")
		}
	}
	// the value returned is the value compared (or the issuer's)
	for _, r := range succ {
		ret := r.(*ssa.Return)
		bad := ""
		for _, l := range c15phiLeavesUntil(ret.Results[0], func(v ssa.Value) bool { return v == cmp.Call.Args[0] || isIssuerNA(v) }) {
			if l != cmp.Call.Args[0] && !isIssuerNA(l) {
				bad = eng.ExprDeep(l)
			}
		}
		if bad != "" {
			c.Violation(f, "prov{NotAfter returned}", r.Pos(), "the returned NotAfter may be "+bad+", a value that was not compared with the issuer's NotAfter", nil)
		} else {
			c.OK(f, "prov{NotAfter returned}", r.Pos(), "returned NotAfter ∈ {the value compared with the issuer's NotAfter, the issuer's NotAfter}")
		}
	}
	c15Prov(c, f, "NotAfter compared with the issuer's", cmp, cmp.Call.Args[0], `^call:time\.\(Time\)\.Add$`, `^call:time\.Parse#0$`)
	// TTL clamp
	var clamp *ssa.Phi
	for _, l := range c15phiLeaves(cmp.Call.Args[0]) {
		ad, ok := l.(*ssa.Call)
		if !ok || eng.CalleeName(&ad.Call) != "time.(Time).Add" {
			continue
		}
		c15Prov(c, f, "base of now+ttl", ad, ad.Call.Args[0], `^call:time\.Now$`)
		p, ok := ad.Call.Args[1].(*ssa.Phi)
		if !ok {
			c.Violation(f, "ttl clamped to the maximum", ad.Pos(), "the TTL added to now is not min(ttl, maxTTL): "+eng.ExprDeep(ad.Call.Args[1]), nil)
			continue
		}
		_, cp, ok := c15minPhi(p)
		if !ok {
			c.Violation(f, "ttl clamped to the maximum", ad.Pos(), "the TTL added to now is not the phi of `if ttl > maxTTL { ttl = maxTTL }`: "+eng.ExprDeep(p), nil)
			continue
		}
		clamp = p
		c.OK(f, "ttl clamped to the maximum", ad.Pos(), "now.Add(min(ttl, maxTTL))")
		c15Prov(c, f, "maximum TTL", ad, cp, `^field:data\.role\.MaxTTL$`, `^call:<logical\.SystemView>\.MaxLeaseTTL$`, `^const:0$`)
	}
	if clamp == nil {
		c.Floor(f, "now.Add(ttl)", 0, 1)
	}
	// the role's bounds
	c.Clause("R2", "C15.4")
	flagTrue := func(flag, desc string, arm []eng.Edge) {
		site := "on{" + desc + "} " + flag + " = true"
		if len(arm) == 0 {
			c.Undecided(f, site, token.NoPos, "switch arm not found: "+desc)
			return
		}
		n, bad := 0, ""
		for _, b := range f.Blocks {
			for _, in := range b.Instrs {
				p, ok := in.(*ssa.Phi)
				if !ok {
					break
				}
				if eng.VarName(p) != flag {
					continue
				}
				n++
				for _, l := range c15leavesFrom(p, arm) {
					if s := eng.Expr(l); s != "true" {
						bad = s
					}
				}
			}
		}
		if n == 0 {
			c.Undecided(f, site, token.NoPos, "flag "+flag+" not found")
		} else if bad != "" {
			c.Violation(f, site, arm[0].From.Instrs[len(arm[0].From.Instrs)-1].Pos(), "for "+desc+" the flag "+flag+" may be "+bad+": the bound is not enforced", nil)
		} else {
			c.OK(f, site, arm[0].From.Instrs[len(arm[0].From.Instrs)-1].Pos(), "the switch arm sets the flag on every path")
		}
	}
	flagTrue("forbidBound", "not_after_bound = forbid", eng.CondEdgesDeep(f, `^data\.role\.NotAfterBound == pki\.\(notAfterBound\)\.String\(`+forbidB+`\)$`, true))
	flagTrue("ttlLimitedBound", "not_after_bound = ttl-limited", eng.CondEdgesDeep(f, `^data\.role\.NotAfterBound == pki\.\(notAfterBound\)\.String\(`+ttlB+`\)$`, true))
	var parseOK []eng.Edge
	for _, tp := range eng.Calls(f, `^time\.Parse$`) {
		if eng.Expr(tp.Common().Args[1]) == "data.role.NotAfterBound" {
			parseOK = append(parseOK, eng.CallOKEdges(tp)...)
		}
	}
	flagTrue("timestampBound", "not_after_bound = explicit timestamp", parseOK)
	// forbid: a supplied not_after is refused
	c15unreach(c, f, "on{forbid and not_after supplied} no success", eng.Query{Assume: map[string]bool{`^φforbidBound\{`: true, `^framework\.\(\*FieldData\)\.GetOk\(\)#1$`: true, `^data\.role\.NotAfter == ""$`: true}, Target: eng.IsTarget(succ)}, succ[0].Pos(),
		"with not_after_bound=forbid a request carrying not_after never succeeds", "a request-supplied not_after is accepted although the role forbids it")
	// ttl-limited: the requested not_after is compared with now + clamped ttl
	var ttlCmp, tsCmp *ssa.Call
	for _, a := range eng.Calls(f, `^time\.\(Time\)\.After$`) {
		cv, ok := a.(*ssa.Call)
		if !ok || cv == cmp {
			continue
		}
		if ok, _, _ := eng.OriginsMatch(cv.Call.Args[1], `^call:time\.\(Time\)\.Add$`); ok {
			ttlCmp = cv
		}
		if ok, _, all := eng.OriginsMatch(cv.Call.Args[1], `^call:time\.Parse#0$`, `^const:zero$`); ok && len(all) > 1 {
			tsCmp = cv
		}
	}
	if ttlCmp == nil {
		c.Violation(f, "on{ttl-limited} not_after <= now + ttl", f.Pos(), "no comparison of the requested not_after with now+ttl", nil)
	} else {
		c.Cut(f, "NotAfter returned", succ, eng.Guard{Desc: "requested not_after is not after now + ttl", Edges: eng.BoolEdges(ttlCmp, false)}, map[string]bool{`^φttlLimitedBound\{`: true})
		c.Clause("R5", "C15.4")
		if ad, ok := ttlCmp.Call.Args[1].(*ssa.Call); ok && clamp != nil && ad.Call.Args[1] == ssa.Value(clamp) {
			c.OK(f, "prov{ttl used by the ttl-limited bound}", ttlCmp.Pos(), "the bound uses the TTL after clamping to maxTTL")
		} else {
			c.Violation(f, "prov{ttl used by the ttl-limited bound}", ttlCmp.Pos(), "the ttl-limited bound does not use the clamped TTL: "+eng.ExprDeep(ttlCmp.Call.Args[1]), nil)
		}
	}
	c.Clause("R2", "C15.4")
	if tsCmp == nil {
		c.Violation(f, "on{timestamp bound} NotAfter <= timestamp", f.Pos(), "no comparison of NotAfter with the role's explicit timestamp", nil)
	} else {
		c.Cut(f, "NotAfter returned", succ, eng.Guard{Desc: "NotAfter is not after the role's timestamp", Edges: eng.BoolEdges(tsCmp, false)}, map[string]bool{`^φtimestampBound\{`: true})
		c.Clause("R5", "C15.4")
		for _, r := range succ {
			if tsCmp.Call.Args[0] == r.(*ssa.Return).Results[0] {
				c.OK(f, "prov{value compared with the role's timestamp}", tsCmp.Pos(), "the returned NotAfter itself is compared")
			} else if ok, _, _ := eng.OriginsMatch(tsCmp.Call.Args[0], `^call:time\.\(Time\)\.Add$`, `^call:time\.Parse#0$`, `^field:`+regexp.QuoteMeta(issuerNA)+`$`); ok {
				c.OK(f, "prov{value compared with the role's timestamp}", tsCmp.Pos(), "a computed NotAfter is compared")
			} else {
				c.Violation(f, "prov{value compared with the role's timestamp}", tsCmp.Pos(), "compared value: "+eng.ExprDeep(tsCmp.Call.Args[0]), nil)
			}
		}
	}
}

// c15phiLeavesUntil is c15phiLeaves that does not look through a value accepted by stop.
func c15phiLeavesUntil(v ssa.Value, stop func(ssa.Value) bool) []ssa.Value {
	var out []ssa.Value
	seen := map[ssa.Value]bool{}
	var walk func(v ssa.Value)
	walk = func(v ssa.Value) {
		if v == nil || seen[v] {
			return
		}
		seen[v] = true
		if p, ok := v.(*ssa.Phi); ok && !stop(v) {
			for _, e := range p.Edges {
				walk(e)
			}
			return
		}
		out = append(out, v)
	}
	walk(v)
	return out
}

// ---- C15.5 serial numbers
func c15Serial(c *eng.Ctx) {
	if f := c.Fn("certutil.generateSerialNumber"); f != nil {
		c.Clause("R5", "C15.5")
		for _, r := range eng.SuccessReturns(f, 1) {
			c15Prov(c, f, "serial number", r, r.(*ssa.Return).Results[0], `^call:crypto/rand\.Int#0$`)
		}
		ri := eng.Calls(f, `^crypto/rand\.Int$`)
		if c.Floor(f, "crypto/rand.Int call", len(ri), 1) {
			c15Prov(c, f, "entropy source of the serial number", ri[0], ri[0].Common().Args[0], `^param:randReader$`)
			// size of the range: 2^N with 64 <= N <= 159 (RFC 5280: at most 20 octets, positive)
			c.Clause("R12", "C15.5")
			site := "const{serial number range}"
			okR := false
			if ex, ok := ri[0].Common().Args[1].(*ssa.Call); ok && strings.HasSuffix(eng.CalleeName(&ex.Call), "big.Int).Exp") && len(ex.Call.Args) >= 3 {
				arg := func(v ssa.Value) (int, bool) {
					if nc, ok := v.(*ssa.Call); ok && eng.CalleeName(&nc.Call) == "math/big.NewInt" {
						return c15intConst(nc.Call.Args[0])
					}
					return 0, false
				}
				base, ok1 := arg(ex.Call.Args[1])
				exp, ok2 := arg(ex.Call.Args[2])
				if ok1 && ok2 && base == 2 && exp >= 64 && exp <= 159 {
					okR = true
					c.OK(f, site, ri[0].Pos(), "serial drawn uniformly below 2^"+strconv.Itoa(exp))
				}
			}
			if !okR {
				c.Violation(f, site, ri[0].Pos(), "the serial number range is not 2^N with 64 <= N <= 159: "+eng.ExprDeep(ri[0].Common().Args[1]), nil)
			}
		}
	}
	if f := c.Fn("certutil.GenerateSerialNumber"); f != nil {
		c.Clause("R5", "C15.5")
		for _, g := range eng.Calls(f, `^certutil\.generateSerialNumber$`) {
			c15Prov(c, f, "entropy source of GenerateSerialNumber", g, g.Common().Args[0], `^global:crypto/rand\.Reader$`)
		}
	}
	c.Clause("R1", "C15.5")
	sites := c.P.FindCalls(mustStatic(c, "certutil.GenerateSerialNumberWithRandomSource"), func(fn *ssa.Function) bool { return eng.InPkg(fn, "pki") || eng.InPkg(fn, "certutil") })
	if len(sites) == 0 {
		c.OK(nil, "callers{GenerateSerialNumberWithRandomSource in pki/certutil}", token.NoPos, "no certificate serial is drawn from a caller-supplied reader")
	}
	for _, s := range sites {
		c.Violation(s.Fn, "callers{GenerateSerialNumberWithRandomSource in pki/certutil}", s.Call.Pos(), "a serial number is drawn from a caller-supplied entropy source", nil)
	}
	for _, fn := range []string{"certutil.createCertificate", "certutil.signCertificate", "certutil.createCertificateWithTemplate", "certutil.signCertificateWithTemplate"} {
		f := c.Fn(fn)
		if f == nil {
			continue
		}
		cc := eng.Calls(f, `^crypto/x509\.CreateCertificate$`)
		if !c.Floor(f, "x509.CreateCertificate call", len(cc), 1) {
			continue
		}
		c.Clause("R5", "C15.5")
		n := 0
		for _, st := range eng.Stores(f, `\.SerialNumber$`) {
			if fa, ok := st.Addr.(*ssa.FieldAddr); ok && structTypeName(fa.X.Type()) == "crypto/x509.Certificate" {
				n++
				c15Prov(c, f, "template SerialNumber", st, st.Val, `^call:certutil\.GenerateSerialNumber#0$`)
			}
		}
		c.Floor(f, "template SerialNumber store", n, 1)
		c.Clause("R2", "C15.5")
		c.Cut(f, "x509.CreateCertificate", instrsOf(cc), c15GCallOK(f, `^certutil\.GenerateSerialNumber$`), nil)
	}
}

// ---- C15.6 template construction and signer in certutil
func c15Template(c *eng.Ctx) {
	for _, fn := range []string{"certutil.createCertificate", "certutil.signCertificate"} {
		f := c.Fn(fn)
		if f == nil {
			continue
		}
		cc := eng.Calls(f, `^crypto/x509\.CreateCertificate$`)
		if len(cc) == 0 {
			continue
		}
		tpl, _ := cc[0].Common().Args[1].(*ssa.Alloc)
		if tpl == nil {
			c.Undecided(f, "template", token.NoPos, "the template given to x509.CreateCertificate is not a local literal")
			continue
		}
		c.Clause("R5", "C15.6")
		for _, v := range eng.StructLitField(tpl, "NotAfter") {
			c15Prov(c, f, "template NotAfter", tpl, v, `^field:data\.Params\.NotAfter$`)
		}
		if len(eng.StructLitField(tpl, "NotAfter")) != 1 {
			c.Violation(f, "template NotAfter", tpl.Pos(), "the template's NotAfter is not set exactly once from the validated parameters", nil)
		}
		// names: from the validated parameters; from the CSR only under UseCSRValues
		c.Clause("R2", "C15.6")
		var fromCSR []ssa.Instruction
		badName := ""
		n := 0
		for _, fld := range []string{"DNSNames", "EmailAddresses", "IPAddresses", "URIs", "Subject", "RawSubject"} {
			for _, st := range eng.Stores(f, `\.`+fld+`$`) {
				fa, ok := st.Addr.(*ssa.FieldAddr)
				if !ok || fa.X != ssa.Value(tpl) {
					continue
				}
				n++
				s := eng.Expr(st.Val)
				switch {
				case s == "data.Params."+fld:
				case strings.HasPrefix(s, "data.CSR."):
					fromCSR = append(fromCSR, st)
				default:
					badName = fld + " = " + s
				}
			}
		}
		if badName != "" {
			c.Violation(f, "template names", tpl.Pos(), "a name field of the template is neither the validated parameter nor the CSR's: "+badName, nil)
		} else if c.Floor(f, "template name stores", n, 5) {
			c.OK(f, "template names", tpl.Pos(), "Subject/DNS/e-mail/IP/URI fields are read from data.Params (or data.CSR)")
		}
		if fn == "certutil.signCertificate" {
			if c.Floor(f, "stores of CSR values into the template", len(fromCSR), 4) {
				c.Cut(f, "copy of CSR names into the template", fromCSR, eng.G(f, `^data\.Params\.UseCSRValues$`, true), nil)
			}
		} else if len(fromCSR) > 0 {
			c.Violation(f, "template names", fromCSR[0].Pos(), "createCertificate copies names from a CSR", nil)
		}
		// the signer is the signing bundle: parent certificate and private key
		c.Clause("R5", "C15.6")
		for _, x := range cc {
			a := x.Common().Args
			parent, priv := eng.Expr(a[2]), eng.Expr(a[4])
			site := "signer of the certificate"
			switch {
			case parent == "data.SigningBundle.ParsedCertBundle.Certificate" && priv == "data.SigningBundle.ParsedCertBundle.PrivateKey":
				c.OK(f, site, x.Pos(), "signed by the signing bundle's key with the signing bundle's certificate as parent")
			case fn == "certutil.createCertificate" && a[2] == a[1] && strings.HasSuffix(priv, ".PrivateKey") && !strings.Contains(priv, "SigningBundle"):
				// self-signed root: only without a signing bundle
				c.OK(f, site, x.Pos(), "self-signed with the freshly generated key")
				c.Clause("R2", "C15.6")
				c.Cut(f, "self-signed x509.CreateCertificate", []ssa.Instruction{x}, eng.G(f, `^data\.SigningBundle == nil$`, true), nil)
				c.Clause("R5", "C15.6")
			default:
				c.Violation(f, site, x.Pos(), "parent="+parent+" key="+priv+": the certificate would not verify under the issuing CA's public key", nil)
			}
		}
		// the usages of a non-CA certificate are the parameters' (role's) usages
	}
	if f := c.Fn("certutil.AddKeyUsages"); f != nil {
		c.Clause("R5", "C15.6")
		n := 0
		for _, st := range eng.Stores(f, `^certTemplate\.KeyUsage$`) {
			n++
			s := eng.Expr(st.Val)
			if s == "data.Params.KeyUsage" {
				c.OK(f, "leaf KeyUsage", st.Pos(), "non-CA KeyUsage = data.Params.KeyUsage")
				c.Clause("R2", "C15.6")
				c.Cut(f, "KeyUsage = Params.KeyUsage", []ssa.Instruction{st}, eng.G(f, `^data\.Params\.IsCA$`, false), nil)
				c.Clause("R5", "C15.6")
			} else {
				// CA usages: only behind IsCA
				c.Clause("R2", "C15.6")
				c.Cut(f, "KeyUsage with CertSign/CRLSign", []ssa.Instruction{st}, eng.G(f, `^data\.Params\.IsCA$`, true), nil)
				c.Clause("R5", "C15.6")
			}
		}
		c.Floor(f, "KeyUsage stores", n, 2)
	}
}

// ---- C15.7 key type and size
func c15KeyChecks(c *eng.Ctx) {
	c.Clause("R2", "C15.7")
	if f := c.Fn("pki.generateCert"); f != nil {
		gcb := c15SiteAts(c15Sites(f, `^pki\.generateCreationBundle$`))
		if c.Floor(f, "generateCreationBundle call", len(gcb), 1) {
			c.Cut(f, "generateCreationBundle (issue)", gcb, eng.Or(eng.G(f, `^input\.role\.KeyType == "rsa"$`, false), eng.G(f, `^input\.role\.KeyBits < 2048$`, false)), nil)
			c.Cut(f, "generateCreationBundle (issue)", gcb, eng.G(f, `^input\.role == nil$`, false), nil)
		}
	}
	f := c.Fn("pki.signCert")
	if f == nil {
		return
	}
	gcb := c15SiteAts(c15Sites(f, `^pki\.generateCreationBundle$`))
	if !c.Floor(f, "generateCreationBundle call", len(gcb), 1) {
		return
	}
	const csr = `crypto/x509\.ParseCertificateRequest\(\)#0`
	c.Cut(f, "generateCreationBundle (sign)", gcb, c15GCallOK(f, `^crypto/x509\.ParseCertificateRequest$`), nil)
	c.Cut(f, "generateCreationBundle (sign)", gcb, eng.G(f, `^`+csr+`\.PublicKey == nil$`, false), nil)
	algs := map[string]string{"rsa": "RSA", "ec": "ECDSA", "ed25519": "Ed25519"}
	types := []string{"rsa", "ec", "ed25519", "any"}
	for _, kt := range []string{"rsa", "ec", "ed25519"} {
		av, ok := c.P.ImportedConst("pki", "crypto/x509", algs[kt])
		if !ok {
			c.Unresolved("crypto/x509." + algs[kt])
			continue
		}
		asm := map[string]bool{}
		for _, o := range types {
			asm[`^data\.role\.KeyType == "`+o+`"$`] = o == kt
		}
		c.Cut(f, "generateCreationBundle (role key_type="+kt+")", gcb, eng.G(f, `^`+csr+`\.PublicKeyAlgorithm == `+av+`$`, true), asm)
	}
	none := map[string]bool{}
	for _, o := range types {
		none[`^data\.role\.KeyType == "`+o+`"$`] = false
	}
	c15unreach(c, f, "on{unknown role key_type} no signing", eng.Query{Assume: none, Target: eng.IsTarget(gcb)}, gcb[0].Pos(),
		"a role key type outside rsa/ec/ed25519/any is refused", "a CSR is signed for a role whose key type matches none of the known types")
	// minimum sizes on the actual key
	c.Cut(f, "generateCreationBundle (CSR key is RSA)", gcb, eng.G(f, `^φactualKeyBits\{.*\} < data\.role\.KeyBits$`, false), map[string]bool{`^φactualKeyType\{.*\} == "rsa"$`: true})
	c.Cut(f, "generateCreationBundle (CSR key is RSA)", gcb, eng.G(f, `^φactualKeyBits\{.*\} < 2048$`, false), map[string]bool{`^φactualKeyType\{.*\} == "rsa"$`: true})
	c.Cut(f, "generateCreationBundle (CSR key is EC)", gcb, eng.G(f, `^φactualKeyBits\{.*\} < data\.role\.KeyBits$`, false), map[string]bool{`^φactualKeyType\{.*\} == "rsa"$`: false, `^φactualKeyType\{.*\} == "ec"$`: true})
	// key_type=any: the minimum comes from the validated defaults, never 0 by omission
	c.Cut(f, "generateCreationBundle (role key_type=any)", gcb, c15GCallOK(f, `^certutil\.ValidateDefaultOrValueKeyTypeSignatureLength$`), map[string]bool{`^data\.role\.KeyType == "any"$`: true})

	if g := c.Fn("pki.(*backend).pathIssue"); g != nil {
		is := c15SiteAts(c15Sites(g, `^pki\.\(\*backend\)\.pathIssueSignCert$`))
		if c.Floor(g, "pathIssueSignCert call", len(is), 1) {
			c.Cut(g, "issuance with a role of key_type=any", is, c15GCallOK(g, `^certutil\.ValidateDefaultOrValueKeyTypeSignatureLength$`), map[string]bool{`^role\.KeyType == "any"$`: true})
		}
	}
}

// ---- C15.8 endpoint wiring
func c15Endpoints(c *eng.Ctx) {
	reqC, ok := c.P.ConstValue("pki.roleRequired")
	if !ok {
		c.Unresolved("pki.roleRequired")
		return
	}
	if f := c.Fn("pki.(*backend).metricsWrap$1"); f != nil {
		c.Clause("R2", "C15.8")
		op := eng.Calls(f, `^dyn:\^ofunc$`)
		if c.Floor(f, "handler call", len(op), 1) {
			asm := map[string]bool{`^0 < \^roleMode$`: true}
			c.Cut(f, "role handler", instrsOf(op), c15GCallOK(f, `^pki\.\(\*backend\)\.getRole$`), asm)
			c.Cut(f, "role handler (role required)", instrsOf(op), eng.G(f, `^pki\.\(\*backend\)\.getRole\(\)#0 == nil$`, false), map[string]bool{`^0 < \^roleMode$`: true, `^\^roleMode == ` + reqC + `$`: true})
			c.Clause("R5", "C15.8")
			c15Prov(c, f, "role handed to the handler", op[0], op[0].Common().Args[3], `^call:pki\.\(\*backend\)\.getRole#0$`, `^const:nil$`)
		}
	}
	// the registered callbacks are wrapped with the role mode that matches the handler
	c.Clause("R12", "C15.8")
	wantMode := map[string]string{"pki.(*backend).pathIssue": "roleRequired", "pki.(*backend).pathSign": "roleRequired", "pki.(*backend).pathSignVerbatim": "roleOptional"}
	n := 0
	for _, s := range c.P.FindCalls(mustStatic(c, "pki.(*backend).metricsWrap"), nil) {
		a := s.Call.Common().Args
		h := ""
		for _, o := range eng.Origins(a[3]) {
			if o.Kind == "func" {
				h = strings.TrimPrefix(o.Desc, "closure:")
				h = regexp.MustCompile(`\$bound$`).ReplaceAllString(h, "")
			}
		}
		w, tracked := wantMode[h]
		if !tracked {
			continue
		}
		n++
		wv, _ := c.P.ConstValue("pki." + w)
		if got := eng.Expr(a[2]); got == wv {
			c.OK(s.Fn, "const{role mode of "+h+"}", s.Call.Pos(), w)
		} else {
			c.Violation(s.Fn, "const{role mode of "+h+"}", s.Call.Pos(), "registered with role mode "+got+", expected "+w+" ("+wv+")", nil)
		}
	}
	c.Floor(nil, "metricsWrap registrations of issue/sign/sign-verbatim", n, 3)
	// flags and role passed on
	wantFlags := map[string][2]string{"pki.(*backend).pathIssue": {"false", "false"}, "pki.(*backend).pathSign": {"true", "false"}, "pki.(*backend).pathSignVerbatim": {"true", "true"}}
	for fn, w := range wantFlags {
		f := c.Fn(fn)
		if f == nil {
			continue
		}
		wiring := c15Sites(f, `^pki\.\(\*backend\)\.pathIssueSignCert$`)
		c.Floor(f, "pathIssueSignCert call", len(wiring), 1)
		for _, st := range wiring {
			s := st.Call
			c.Clause("R12", "C15.8")
			if eng.Expr(st.Arg(5)) == w[0] && eng.Expr(st.Arg(6)) == w[1] {
				c.OK(f, "const{useCSR, useCSRValues}", s.Pos(), "("+w[0]+", "+w[1]+")")
			} else {
				c.Violation(f, "const{useCSR, useCSRValues}", s.Pos(), "passes ("+eng.Expr(st.Arg(5))+", "+eng.Expr(st.Arg(6))+"), expected ("+w[0]+", "+w[1]+"): CSR values would bypass role validation", nil)
			}
			c.Clause("R5", "C15.8")
			if fn == "pki.(*backend).pathSignVerbatim" {
				c15Prov(c, f, "role used by sign-verbatim", s, st.Arg(4), `^call:pki\.buildSignVerbatimRole$`)
			} else {
				c15Prov(c, f, "role used for issuance", s, st.Arg(4), `^param:role$`)
			}
		}
	}
	if f := c.Fn("pki.(*backend).pathIssueSignCert"); f != nil {
		c.Clause("R5", "C15.8")
		for _, st := range c15Sites(f, `^pki\.(generateCert|signCert)$`) {
			s := st.Call
			in := st.Arg(1)
			roles, datas := eng.StructLitField(in, "role"), eng.StructLitField(in, "apiData")
			if len(roles) == 0 || len(datas) == 0 {
				c.Undecided(f, "input bundle handed to "+st.Name, s.Pos(), "the input bundle is not a locally built literal with role and apiData: "+eng.ExprDeep(in)+" (moved? the rule cannot be evaluated)")
			}
			for _, v := range roles {
				c15Prov(c, f, "role validated against", s, v, `^param:role$`)
			}
			for _, v := range datas {
				c15Prov(c, f, "request data validated", s, v, `^param:data$`)
			}
			if st.Name == "pki.signCert" {
				c15Prov(c, f, "useCSRValues handed to signCert", s, st.Arg(4), `^param:useCSRValues$`)
			}
		}
	}
	if f := c.Fn("pki.issueCertFromCsr"); f != nil {
		acme := c15Sites(f, `^pki\.signCert$`)
		for _, st := range acme {
			s := st.Call
			c.Clause("R12", "C15.8")
			if got := eng.Expr(st.Arg(4)); got == "false" {
				c.OK(f, "const{useCSRValues (ACME)}", s.Pos(), "false")
			} else {
				c.Violation(f, "const{useCSRValues (ACME)}", s.Pos(), "ACME passes useCSRValues="+got, nil)
			}
			c.Clause("R5", "C15.8")
			for _, v := range eng.StructLitField(st.Arg(1), "role") {
				c15Prov(c, f, "role validated against (ACME)", s, v, `^field:ac\.role$`)
			}
		}
		c.Clause("R2", "C15.8")
		sc := c15SiteAts(acme)
		if len(sc) > 0 {
			c.Cut(f, "signCert (ACME)", sc, c15GCallOK(f, `^pki\.getCertificateNotAfter$`), nil)
		}
	}
	// who may override the issuer's leaf_not_after_behavior, and with what
	c.Clause("R6", "C15.8")
	if fv := c.P.Field("certutil.CAInfoBundle.LeafNotAfterBehavior"); fv == nil {
		c.Unresolved("certutil.CAInfoBundle.LeafNotAfterBehavior")
	} else {
		permitC, _ := c.P.ConstValue("certutil.PermitNotAfterBehavior")
		truncC, _ := c.P.ConstValue("certutil.TruncateNotAfterBehavior")
		errC, _ := c.P.ConstValue("certutil.ErrNotAfterBehavior")
		n := 0
		for _, w := range c.P.FieldWriters(fv) {
			if !eng.InPkg(w.Fn, "pki") {
				continue
			}
			n++
			nm := eng.FuncName(eng.TopFunc(w.Fn))
			val := eng.Expr(w.Store.Val)
			site := "writers{CAInfoBundle.LeafNotAfterBehavior}"
			switch {
			case nm == "pki.(*storageContext).fetchCAInfoByIssuerId" && val == "pki.(*storageContext).fetchCertBundleByIssuerId()#0.LeafNotAfterBehavior":
				c.OK(w.Fn, site, w.Store.Pos(), "the issuer's configured behaviour")
			case nm == "pki.(*backend).pathIssuerSignIntermediate" && val == permitC:
				c.OK(w.Fn, site, w.Store.Pos(), "CA endpoint: intermediates may outlive the issuer")
			case nm == "pki.issueCertFromCsr" && val == truncC:
				c.OK(w.Fn, site, w.Store.Pos(), "ACME: err is tightened to truncate")
				c.Clause("R2", "C15.8")
				c.Cut(w.Fn, "LeafNotAfterBehavior = truncate (ACME)", []ssa.Instruction{w.Store}, eng.G(w.Fn, `LeafNotAfterBehavior == `+errC+`$`, true), nil)
				c.Clause("R6", "C15.8")
			default:
				c.Violation(w.Fn, site, w.Store.Pos(), "the issuer's leaf_not_after_behavior is overridden with "+val+" outside the tabled writers", nil)
			}
		}
		c.Floor(nil, "writers of LeafNotAfterBehavior in pki", n, 3)
	}
	// CEL endpoints: only a template verdict leads to a signature
	if f := c.Fn("pki.(*backend).pathCelIssueSignCert"); f != nil {
		c.Clause("R2", "C15.8")
		cel := c15Sites(f, `^pki\.(generateCELCert|signCELCert)$`)
		sg := c15SiteAts(cel)
		if c.Floor(f, "CEL signing calls", len(cel), 2) {
			c.Cut(f, "CEL signing", sg, c15GCallOK(f, `\.Evaluate$`), nil)
			c.Cut(f, "CEL signing", sg, c15GCallOK(f, `^pki\.CertProtoToX509$`), nil)
			c.Cut(f, "CEL signing", sg, c15GCallOK(f, `^pki\.\(\*backend\)\.fetchCaSigningBundle$`), nil)
			c.Cut(f, "CEL signing", sg, eng.G(f, `\.\(\*google\.golang\.org/protobuf/types/dynamicpb\.Message\)#1$`, true), nil)
			c.Clause("R5", "C15.8")
			for _, st := range cel {
				c15Prov(c, f, "CEL template", st.Call, st.Arg(2), `^call:pki\.CertProtoToX509#0$`)
				c15Prov(c, f, "CEL signing bundle", st.Call, st.Arg(1), `^call:pki\.\(\*backend\)\.fetchCaSigningBundle#0$`)
			}
		}
	}
}
