package props

import (
	"go/token"
	"go/types"
	"strings"

	"golang.org/x/tools/go/ssa"

	"obsa/eng"
)

// Second-tier mechanisms of C20 (gap round 2), all on the vault side of the
// threshold gate: the key rebuilt from the supplied shares is authenticated
// before the operation acts on it (otherwise any threshold-many well-formed
// byte strings pass for shares), "threshold not reached" stops the unseal, and
// the recorded unseal shares are discarded once the gate was passed.

func runC20Gaps2(c *eng.Ctx) {
	c20g2Authenticated(c)
	c20g2UnsealStops(c)
	c20g2ProgressDiscarded(c)
	c20g2Rows(c)
}

const (
	c20g2RKS    = `RecoveryKeySupported\(\)$`
	c20g2Shamir = `BarrierType\(\) == "[a-z0-9-]+"$`
	c20g2VRK    = `^<vault\.Seal>\.VerifyRecoveryKey$`
	c20g2VRoot  = `^<barrier\.SecurityBarrier>\.VerifyRoot$`
	c20g2GSK    = `^<vault\.Seal>\.GetStoredKeys$`
	c20g2SetKey = `\.SetAesGcmKeyBytes$`
)

// c20g2rebuilt: every leaf of v (through phis) is the key rebuilt from a
// progress slice: result 0 of shamir.Combine, element [0] of a progress field
// (the threshold-1 shortcut), or a fresh buffer (the copy of that element).
func c20g2rebuilt(v ssa.Value) (bool, string) { return c20g2rebuiltD(v, 0) }

func c20g2rebuiltD(v ssa.Value, depth int) (bool, string) {
	for _, l := range c17leaves(v) {
		l = c17strip(l)
		switch x := l.(type) {
		case *ssa.Extract:
			if k, ok := x.Tuple.(*ssa.Call); ok && x.Index == 0 {
				if eng.CalleeName(k.Common()) == "shamir.Combine" {
					continue
				}
				// a helper of package vault that itself returns nothing but a rebuilt key
				if fn := k.Common().StaticCallee(); fn != nil && depth == 0 && eng.InPkg(fn, "vault") && len(fn.Blocks) > 0 {
					good, n := true, 0
					for _, r := range eng.Returns(fn) {
						if r.Block().Comment == "recover" || len(r.Results) == 0 || eng.AllNilThroughPhi(r.Results[0]) {
							continue
						}
						n++
						ok, _ := c20g2rebuiltD(r.Results[0], 1)
						good = good && ok
					}
					if good && n > 0 {
						continue
					}
				}
			}
		case *ssa.MakeSlice:
			continue
		case *ssa.UnOp:
			if ia, ok := x.X.(*ssa.IndexAddr); ok && x.Op == token.MUL {
				if k, ok := ia.Index.(*ssa.Const); ok && k.Value != nil && k.Int64() == 0 {
					if _, isPar := c17strip(ia.X).(*ssa.Parameter); isPar && depth > 0 {
						continue
					}
					if ld, ok := ia.X.(*ssa.UnOp); ok && ld.Op == token.MUL {
						if fa, ok := ld.X.(*ssa.FieldAddr); ok {
							if fv := eng.FieldVar(fa); fv != nil && strings.HasSuffix(fv.Name(), "Progress") || fv != nil && fv.Name() == "Parts" {
								continue
							}
						}
					}
				}
			}
		}
		return false, eng.ExprDeep(l)
	}
	return true, ""
}

// c20g2lastArg: the key argument of the verification helpers is their last argument.
func c20g2lastArg(cl ssa.CallInstruction) ssa.Value {
	a := cl.Common().Args
	if len(a) == 0 {
		return nil
	}
	return a[len(a)-1]
}

type c20g2cut struct {
	when   string          // description of the assumption
	assume map[string]bool // nil: on every path
	guards []string        // callee patterns whose success edge must be crossed
}

func c20g2Authenticated(c *eng.Ctx) {
	type keyArg struct {
		call string
		idx  int    // argument index (-1: last)
		from string // "rebuilt" | "param" | origin regexp
	}
	for _, h := range []struct {
		fn    string
		sinks string
		cuts  []c20g2cut
		keys  []keyArg
		floor int
	}{
		{"vault.(*SealManager).UpdateRotation", `^vault\.\(\*SealManager\)\.update(Recovery|Root)Rotation$`,
			[]c20g2cut{{"recovery-key rotation", map[string]bool{`^PARAM:bool$`: true}, []string{c20g2VRK}}, {"seal with recovery keys", map[string]bool{c20g2RKS: true}, []string{c20g2VRK}}},
			[]keyArg{{c20g2VRK, -1, `^call:vault\.\(\*SealManager\)\.progressRotation#0$`}}, 2},
		{"vault.(*SealManager).updateRootRotation", `^vault\.\(\*SealManager\)\.(generateKey|performRootRotation|requireVerification)$`,
			[]c20g2cut{{"Shamir barrier", map[string]bool{c20g2Shamir: true}, []string{c20g2SetKey, c20g2GSK, c20g2VRoot}}},
			[]keyArg{{c20g2SetKey, -1, "param"}, {c20g2VRoot, -1, `^call:<vault\.Seal>\.GetStoredKeys#0$`}}, 3},
		{"vault.(*Core).BarrierRekeyUpdate", `^vault\.\(\*SealManager\)\.generateKey$|^vault\.\(\*Core\)\.performBarrierRekey$`,
			[]c20g2cut{{"seal with recovery keys", map[string]bool{c20g2RKS: true}, []string{c20g2VRK}}, {"Shamir barrier without recovery keys", map[string]bool{c20g2RKS: false, c20g2Shamir: true}, []string{c20g2SetKey, c20g2GSK, c20g2VRoot}}},
			[]keyArg{{c20g2VRK, -1, "rebuilt"}, {c20g2SetKey, -1, "rebuilt"}, {c20g2VRoot, -1, `^call:<vault\.Seal>\.GetStoredKeys#0$`}}, 2},
		{"vault.(*Core).RecoveryRekeyUpdate", `^<barrier\.SecurityBarrier>\.GenerateKey$|^shamir\.Split$|^vault\.\(\*Core\)\.performRecoveryRekey$`,
			[]c20g2cut{{"", nil, []string{c20g2VRK}}},
			[]keyArg{{c20g2VRK, -1, "rebuilt"}}, 3},
		{"vault.(*Core).lockedGenerateRootUpdate", `^<vault\.GenerateRootStrategy>\.generate$`,
			[]c20g2cut{{"", nil, []string{`^<vault\.GenerateRootStrategy>\.authenticate$`}}},
			[]keyArg{{`^<vault\.GenerateRootStrategy>\.authenticate$`, -1, "rebuilt"}}, 1},
		{"vault.(generateStandardRootToken).authenticate", "success",
			[]c20g2cut{{"", nil, []string{`^vault\.\(\*SealManager\)\.AuthenticateRootKey$`}}},
			[]keyArg{{`^vault\.\(\*SealManager\)\.AuthenticateRootKey$`, -1, "param"}}, 1},
		{"vault.(*generateRecoveryToken).authenticate", "success",
			[]c20g2cut{{"", nil, []string{`^vault\.\(\*SealManager\)\.unsealKeyToRootKey$`}}},
			[]keyArg{{`^vault\.\(\*SealManager\)\.unsealKeyToRootKey$`, 3, "param"}}, 1},
		{"vault.(*SealManager).AuthenticateRootKey", "success",
			[]c20g2cut{{"", nil, []string{`^vault\.\(\*SealManager\)\.unsealKeyToRootKey$`, c20g2VRoot}}},
			[]keyArg{{`^vault\.\(\*SealManager\)\.unsealKeyToRootKey$`, 3, "param"}, {c20g2VRoot, -1, `^call:vault\.\(\*SealManager\)\.unsealKeyToRootKey#0$`}}, 1},
		{"vault.(*SealManager).unsealKeyToRootKey", "key",
			[]c20g2cut{{"Shamir barrier", map[string]bool{c20g2Shamir: true}, []string{c20g2SetKey, c20g2GSK}}, {"other barrier", map[string]bool{c20g2Shamir: false}, []string{c20g2VRK, c20g2GSK}}},
			[]keyArg{{c20g2SetKey, -1, "param"}, {c20g2VRK, -1, "param"}}, 1},
		{"vault.(*SealManager).getUnsealKey", "key",
			[]c20g2cut{{"seal with recovery keys", map[string]bool{c20g2RKS: true}, []string{c20g2VRK}}},
			[]keyArg{{c20g2VRK, -1, "rebuilt"}}, 1},
	} {
		f := c.Fn(h.fn)
		if f == nil {
			continue
		}
		var sinks []ssa.Instruction
		sinkDesc := "operation acting on the rebuilt key"
		switch h.sinks {
		case "success":
			sinkDesc = "authentication reported successful"
			// a return that hands on the verifier's own verdict needs no branch
			passed := 0
			for _, r := range eng.SuccessReturns(f, f.Signature.Results().Len()-1) {
				ret := r.(*ssa.Return)
				through := false
				if len(ret.Results) > 0 {
					if k, ok := c17strip(ret.Results[len(ret.Results)-1]).(*ssa.Call); ok {
						for _, ct := range h.cuts {
							for _, g := range ct.guards {
								for _, cl := range c17calls(f, g) {
									through = through || cl.Value() == k
								}
							}
						}
					}
				}
				if through {
					passed++
				} else {
					sinks = append(sinks, r)
				}
			}
			if passed > 0 && len(sinks) == 0 {
				c.Clause("R2", "C20.6")
				c.OK(f, "sink{"+sinkDesc+"} guard{the verifier's verdict is returned unchanged}", f.Pos(), "every success return returns the verification call's own error result")
			}
		case "key":
			sinks = eng.NonNilResultReturns(f, 0)
			sinkDesc = "key handed to the caller"
		default:
			sinks = instrsOf(c17calls(f, h.sinks))
		}
		if h.sinks == "success" && len(sinks) == 0 {
			// pass-through only: nothing to cut, the key provenance is still checked
		} else if !c.Floor(f, sinkDesc, len(sinks), h.floor) {
			continue
		}
		c.Clause("R2", "C20.6")
		for _, ct := range h.cuts {
			if len(sinks) == 0 {
				break
			}
			assume := map[string]bool{}
			for k, v := range ct.assume {
				if k == `^PARAM:bool$` {
					// the function's bool parameter (recovery), by its frozen name
					for _, p := range f.Params {
						if b, ok := p.Type().Underlying().(*types.Basic); ok && b.Kind() == types.Bool {
							k = `^` + eng.VarName(p) + `$`
						}
					}
				}
				assume[k] = v
			}
			if len(assume) == 0 {
				assume = nil
			}
			for _, g := range ct.guards {
				c.Cut(f, sinkDesc+ifs(ct.when != "", " ("+ct.when+")"), sinks, c17GCallOK(f, g), assume)
			}
		}
		// what is authenticated is the key rebuilt from the shares
		c.Clause("R5", "C20.6")
		for _, k := range h.keys {
			for _, cl := range c17calls(f, k.call) {
				var v ssa.Value
				if k.idx < 0 {
					v = c20g2lastArg(cl)
				} else {
					v = c17arg(cl, k.idx)
				}
				site := "prov{key given to " + eng.CalleeName(cl.Common()) + "}"
				switch k.from {
				case "rebuilt":
					if ok, bad := c20g2rebuilt(v); ok {
						c.OK(f, site, cl.Pos(), "the key rebuilt from the progress slice: "+eng.Expr(v))
					} else {
						c.Violation(f, site, cl.Pos(), "the key that is authenticated may be "+bad+", not the key rebuilt from the supplied shares", nil)
					}
				case "param":
					ok := false
					for _, p := range f.Params {
						if ssa.Value(p) == c17strip(v) {
							if sl, isSl := p.Type().Underlying().(*types.Slice); isSl {
								if b, isB := sl.Elem().Underlying().(*types.Basic); isB && b.Kind() == types.Byte {
									ok = true
								}
							}
						}
					}
					if ok {
						c.OK(f, site, cl.Pos(), "the caller's key: "+eng.Expr(v))
					} else {
						c.Violation(f, site, cl.Pos(), "the key that is authenticated is "+eng.ExprDeep(v)+", not the key this function was given", nil)
					}
				default:
					var roots []string
					good := true
					for _, r := range eng.Roots(v, nil) {
						ok, _, all := eng.OriginsMatch(r, k.from)
						roots = append(roots, all...)
						good = good && ok
					}
					if good && len(roots) > 0 {
						c.OK(f, site, cl.Pos(), strings.Join(roots, ","))
					} else {
						c.Violation(f, site, cl.Pos(), "the key that is verified is read out of "+strings.Join(roots, ",")+"; expected "+k.from, nil)
					}
				}
			}
		}
	}

	// rotation verification: the new shares must rebuild the pending key
	vk := c.P.Field("vault.SealConfig.VerificationKey")
	if vk == nil {
		c.Unresolved("vault.SealConfig.VerificationKey")
		return
	}
	for _, h := range []struct{ fn, sinks string }{
		{"vault.(*SealManager).VerifyRotation", `^vault\.\(\*SealManager\)\.perform(Recovery|Root)Rotation$`},
		{"vault.(*Core).RekeyVerify", `^vault\.\(\*Core\)\.perform(Barrier|Recovery)Rekey$`},
	} {
		f := c.Fn(h.fn)
		if f == nil {
			continue
		}
		sinks := c17calls(f, h.sinks)
		if !c.Floor(f, "perform the verified rotation", len(sinks), 2) {
			continue
		}
		findCmp := func(g *ssa.Function) []ssa.Value {
			var out []ssa.Value
			for _, cl := range c17calls(g, `^crypto/subtle\.ConstantTimeCompare$`) {
				a0, a1 := c17arg(cl, 0), c17arg(cl, 1)
				for _, p := range [][2]ssa.Value{{a0, a1}, {a1, a0}} {
					if ok, _ := c20g2rebuilt(p[0]); ok && c17loadOf(vk)(p[1]) {
						out = append(out, cl.Value())
					}
				}
			}
			return out
		}
		cmpGuard := func(g *ssa.Function, cmp []ssa.Value) eng.Guard {
			return c17guard("ConstantTimeCompare(rebuilt key, VerificationKey) == 1", c17rel(g, true, c17is(cmp...), c17const("1"), true))
		}
		cmp := findCmp(f)
		c.Clause("R2", "C20.6")
		site := "sink{perform the verified rotation} guard{ConstantTimeCompare(rebuilt key, VerificationKey) == 1}"
		if len(cmp) == 0 {
			// the reconstruction and comparison may have been extracted into a helper of the package that
			// hands back the key the sinks install: follow it one level
			followed := false
			for _, sk := range sinks {
				for _, a := range sk.Common().Args {
					ex, ok := c17strip(a).(*ssa.Extract)
					if !ok || ex.Index != 0 {
						continue
					}
					k, ok := ex.Tuple.(*ssa.Call)
					if !ok {
						continue
					}
					h := k.Common().StaticCallee()
					if h == nil || !eng.InPkg(h, "vault") || len(h.Blocks) == 0 {
						continue
					}
					hc := findCmp(h)
					if len(hc) == 0 || followed {
						continue
					}
					followed = true
					c.Cut(h, "rebuilt key handed back", eng.NonNilResultReturns(h, 0), cmpGuard(h, hc), nil)
					c.Cut(f, "perform the verified rotation", instrsOf(sinks), eng.Guard{Desc: "success edge of the helper that compared the rebuilt key", Edges: eng.CallOKEdges(k), Pass: []ssa.Instruction{k}}, nil)
				}
			}
			if !followed {
				c.Undecided(f, site, f.Pos(), "no constant-time comparison of the key rebuilt from the verification shares with the pending VerificationKey in this function or in the helper that hands back the key: moved? the rule cannot be evaluated")
				continue
			}
		} else {
			c.Cut(f, "perform the verified rotation", instrsOf(sinks), cmpGuard(f, cmp), nil)
		}
		c.Clause("R5", "C20.6")
		for _, s := range sinks {
			var key ssa.Value
			for _, a := range s.Common().Args {
				if sl, ok := a.Type().Underlying().(*types.Slice); ok {
					if b, ok := sl.Elem().Underlying().(*types.Basic); ok && b.Kind() == types.Byte {
						key = a
					}
				}
			}
			if ok, bad := c20g2rebuilt(key); key != nil && ok {
				c.OK(f, "prov{key installed by "+eng.CalleeName(s.Common())+"}", s.Pos(), "the verified rebuilt key")
			} else {
				c.Violation(f, "prov{key installed by "+eng.CalleeName(s.Common())+"}", s.Pos(), "the key installed may be "+bad+", not the key the verification compared", nil)
			}
		}
	}
}

// c20g2UnsealStops (C20.3): the unseal goes on to the root-key lookup and the
// barrier only with the key the threshold gate returned.
func c20g2UnsealStops(c *eng.Ctx) {
	for _, h := range []struct {
		fn, sinks string
		floor     int
	}{
		{"vault.(*SealManager).UnsealNamespace", `^<barrier\.SecurityBarrier>\.Unseal$`, 1},
		{"vault.(*Core).unsealFragment", `^vault\.\(\*Core\)\.(unsealInternal|unsealWithRaft)$`, 2},
	} {
		f := c.Fn(h.fn)
		if f == nil {
			continue
		}
		uf := c17one(f, `^vault\.\(\*SealManager\)\.unsealFragment$`)
		sinks := c17calls(f, h.sinks)
		k2r := c17calls(f, `^vault\.\(\*SealManager\)\.unsealKeyToRootKey$`)
		if uf == nil || !c.Floor(f, "unseal of the barrier", len(sinks), h.floor) || !c.Floor(f, "unsealKeyToRootKey", len(k2r), 1) {
			continue
		}
		key := eng.ResultValue(uf, 0)
		c.Clause("R2", "C20.3")
		all := append(instrsOf(sinks), instrsOf(k2r)...)
		c.Cut(f, "root-key lookup / barrier unseal", all, c17GCallOK(f, `^vault\.\(\*SealManager\)\.unsealFragment$`), nil)
		c.Cut(f, "root-key lookup / barrier unseal", all, c17guard("the threshold gate returned a key (unsealFragment()#0 != nil)", c17rel(f, true, c17is(key), eng.IsNilConst, false)), nil)
		var direct []ssa.Instruction
		for _, s := range sinks {
			if !strings.HasSuffix(eng.CalleeName(s.Common()), "unsealWithRaft") {
				direct = append(direct, s)
			}
		}
		c.Cut(f, "barrier unseal", direct, c17GCallOK(f, `^vault\.\(\*SealManager\)\.unsealKeyToRootKey$`), nil)
		c.Clause("R5", "C20.3")
		var pv []c17pv
		for _, k := range k2r {
			pv = append(pv, c17pv{"combined key given to unsealKeyToRootKey", c17arg(k, 3), []string{`^call:vault\.\(\*SealManager\)\.unsealFragment#0$`}})
		}
		for _, s := range sinks {
			if strings.HasSuffix(eng.CalleeName(s.Common()), "unsealWithRaft") {
				pv = append(pv, c17pv{"key given to unsealWithRaft", c20g2lastArg(s), []string{`^call:vault\.\(\*SealManager\)\.unsealFragment#0$`}})
			} else {
				pv = append(pv, c17pv{"root key given to the barrier", c20g2lastArg(s), []string{`^call:vault\.\(\*SealManager\)\.unsealKeyToRootKey#0$`}})
			}
		}
		c17provAll(c, f, "unseal uses the key the threshold gate returned", uf, pv)
	}
}

// c20g2ProgressDiscarded (C20.3): once len(Parts) >= threshold, getUnsealKey
// leaves with the recorded shares discarded, on success as on failure: sealing
// a namespace does not reset them, so shares kept after a successful unseal
// would count towards the next one.
func c20g2ProgressDiscarded(c *eng.Ctx) {
	f := c.Fn("vault.(*SealManager).getUnsealKey")
	parts, thr, umap := c.P.Field("vault.unlockInformation.Parts"), c.P.Field("vault.SealConfig.SecretThreshold"), c.P.Field("vault.SealManager.unlockInformationByNamespace")
	if f == nil {
		return
	}
	if parts == nil || thr == nil || umap == nil {
		c.Unresolved("vault.unlockInformation.Parts / SealConfig.SecretThreshold / SealManager.unlockInformationByNamespace")
		return
	}
	c.Clause("R4", "C20.3")
	site := "on{threshold reached} the recorded shares are discarded on every exit"
	isLenParts := func(v ssa.Value) bool {
		k := c17g2isCallTo(v, "len")
		return k != nil && c17loadOf(parts)(c17arg(k, 0))
	}
	reached := c17rel(f, false, isLenParts, c17loadOf(thr), false)
	if len(reached) == 0 {
		c.Undecided(f, site, f.Pos(), "anchor moved: no comparison len(Parts) < SecretThreshold")
		return
	}
	isDiscard := func(fn *ssa.Function) []ssa.Instruction {
		var out []ssa.Instruction
		for _, d := range c17calls(fn, `^delete$`) {
			if c17loadOf(umap)(c17arg(d, 0)) {
				out = append(out, d)
			}
		}
		return out
	}
	isRet := func(in ssa.Instruction) bool { _, ok := in.(*ssa.Return); return ok }
	cleanup := isDiscard(f)
	for _, in := range eng.Instrs(f, func(in ssa.Instruction) bool { _, ok := in.(*ssa.Defer); return ok }) {
		mc, ok := in.(*ssa.Defer).Call.Value.(*ssa.MakeClosure)
		if !ok {
			continue
		}
		clo := mc.Fn.(*ssa.Function)
		ds := isDiscard(clo)
		if len(ds) == 0 {
			continue
		}
		if h := eng.Reach(eng.Query{Fn: clo, Barriers: ds, Target: isRet}); h != nil {
			c.Violation(clo, site, h.Instr.Pos(), "the deferred discard is conditional: the closure can return without deleting the namespace's unlock information", h.Witness)
			return
		}
		cleanup = append(cleanup, in)
	}
	if len(cleanup) == 0 {
		c.Violation(f, site, f.Pos(), "getUnsealKey never deletes the namespace's unlock information", nil)
		return
	}
	c.CleanupOnEdges(f, "threshold reached", reached, "discard of the recorded shares (delete of the unlock information, possibly deferred)", cleanup)
}

// c20g2Rows (C20.1d / C20.2e): Split allocates and fills one row per requested
// share (the evaluation loop runs up to `parts`, not up to another bound), and
// Combine returns a secret one byte shorter than the shares (the tag byte is
// not interpolated into the result).
func c20g2Rows(c *eng.Ctx) {
	isBytes2 := func(t types.Type) bool {
		sl, ok := t.Underlying().(*types.Slice)
		if !ok {
			return false
		}
		in, ok := sl.Elem().Underlying().(*types.Slice)
		if !ok {
			return false
		}
		b, ok := in.Elem().Underlying().(*types.Basic)
		return ok && b.Kind() == types.Byte
	}
	if f := c.Fn("shamir.Split"); f != nil && len(f.Params) == 3 {
		parts := ssa.Value(f.Params[1])
		c.Clause("R12", "C20.1d")
		n := 0
		for _, in := range eng.Instrs(f, func(in ssa.Instruction) bool { _, ok := in.(*ssa.MakeSlice); return ok }) {
			ms := in.(*ssa.MakeSlice)
			if !isBytes2(ms.Type()) {
				continue
			}
			n++
			if c17strip(ms.Len) == parts {
				c.OK(f, "const{one share row per requested part}", ms.Pos(), "make([][]byte, "+eng.Expr(ms.Len)+")")
			} else {
				c.Violation(f, "const{one share row per requested part}", ms.Pos(), "the share list is allocated with "+eng.ExprDeep(ms.Len)+" rows, not `parts`", nil)
			}
		}
		c.Floor(f, "allocation of the share list", n, 1)
		// every branch that decides whether the evaluation block runs (again) compares a counter with `parts`
		evs := c17calls(f, `^shamir\.\(\*polynomial\)\.evaluate$`)
		if c.Floor(f, "evaluate call", len(evs), 1) {
			blk := evs[0].Block()
			n, bad := 0, false
			for _, cm := range c17cmps(f) {
				into := false
				for _, s := range cm.blk.Succs {
					into = into || s == blk
				}
				if !into || cm.eq {
					continue
				}
				n++
				if c17strip(cm.R) != parts {
					bad = true
					c.Violation(f, "const{every share row is evaluated: the evaluation loop is bounded by `parts`}", evs[0].Pos(), "the loop that evaluates the polynomial for each share runs while "+eng.ExprDeep(cm.L)+" < "+eng.ExprDeep(cm.R)+": rows beyond that bound keep zero bytes", nil)
				}
			}
			if !bad && c.Floor(f, "bounds of the evaluation loop", n, 1) {
				c.OK(f, "const{every share row is evaluated: the evaluation loop is bounded by `parts`}", evs[0].Pos(), "all loop tests leading into the evaluation compare with parts")
			}
		}
	}
	if f := c.Fn("shamir.Combine"); f != nil {
		c.Clause("R12", "C20.2e")
		for _, r := range eng.SuccessReturns(f, 1) {
			ret := r.(*ssa.Return)
			ms, ok := c17strip(ret.Results[0]).(*ssa.MakeSlice)
			site := "const{secret returned is one byte shorter than the shares}"
			if !ok {
				c.Undecided(f, site, r.Pos(), "the returned secret is not a buffer allocated in Combine")
				continue
			}
			good := false
			if bo, ok := ms.Len.(*ssa.BinOp); ok && bo.Op == token.SUB && c20ConstInt(bo.Y, 1) {
				if k := c17g2isCallTo(bo.X, "len"); k != nil {
					// len(parts[0])
					if ld, ok := c17arg(k, 0).(*ssa.UnOp); ok && ld.Op == token.MUL {
						if ia, ok := ld.X.(*ssa.IndexAddr); ok && c17strip(ia.X) == ssa.Value(f.Params[0]) && c20ConstInt(ia.Index, 0) {
							good = true
						}
					}
				}
			}
			if good {
				c.OK(f, site, ms.Pos(), "make([]byte, len(parts[0])-1)")
			} else {
				c.Violation(f, site, ms.Pos(), "the secret buffer is allocated with "+eng.ExprDeep(ms.Len)+" bytes; the last byte of a share is its x tag, not part of the secret", nil)
			}
		}
	}
}
