package props

import (
	"go/token"
	"regexp"

	"golang.org/x/tools/go/ssa"

	"obsa/eng"
)

// ---------------------------------------------------------------------------
// C20.2 input validation inside package shamir

func c20Validation(c *eng.Ctx) {
	// ---- Split: five refusals before any randomness / success
	if f := c.Fn("shamir.Split"); f != nil && len(f.Params) == 3 {
		s, p, t := regexp.QuoteMeta(eng.VarName(f.Params[0])), regexp.QuoteMeta(eng.VarName(f.Params[1])), regexp.QuoteMeta(eng.VarName(f.Params[2]))
		c.Clause("R2", "C20.2a")
		sinks := instrsOf(eng.Calls(f, `^shamir\.(makePolynomial|shuffledXCoordinates)$`))
		sinks = append(sinks, eng.SuccessReturns(f, 1)...)
		if c.Floor(f, "randomness calls and success return of Split", len(sinks), 3) {
			c.Cut(f, "polynomial/coordinates/success", sinks, eng.G(f, `^`+p+` < `+t+`$`, false), nil)
			c.Cut(f, "polynomial/coordinates/success", sinks, eng.G(f, `^255 < `+p+`$`, false), nil)
			c.Cut(f, "polynomial/coordinates/success", sinks, eng.G(f, `^`+t+` < 2$`, false), nil)
			c.Cut(f, "polynomial/coordinates/success", sinks, eng.G(f, `^255 < `+t+`$`, false), nil)
			c.Cut(f, "polynomial/coordinates/success", sinks, eng.Or(eng.G(f, `^len\(`+s+`\) == 0$`, false), eng.G(f, `^len\(`+s+`\) < 1$`, false)), nil)
		}
		c.Clause("R4", "C20.2a")
		for _, g := range []struct {
			pat string
			val bool
		}{{`^` + p + ` < ` + t + `$`, true}, {`^255 < ` + p + `$`, true}, {`^` + t + ` < 2$`, true}, {`^255 < ` + t + `$`, true}, {`^len\(` + s + `\) == 0$`, true}} {
			if e := eng.CondEdges(f, g.pat, g.val); len(e) > 0 {
				c.NilResultOnEdges(f, "refusal "+g.pat, e, 0, "share list")
			}
		}
	}

	// ---- Combine
	if f := c.Fn("shamir.Combine"); f != nil && len(f.Params) == 1 {
		parts := f.Params[0]
		pn := regexp.QuoteMeta(eng.VarName(parts))
		interp := instrsOf(eng.Calls(f, `^shamir\.interpolatePolynomial$`))
		if !c.Floor(f, "interpolatePolynomial call", len(interp), 1) {
			return
		}
		sinks := append(append([]ssa.Instruction{}, interp...), eng.SuccessReturns(f, 1)...)
		c.Clause("R2", "C20.2b")
		c.Cut(f, "interpolation/success", sinks, eng.G(f, `^len\(`+pn+`\) < 2$`, false), nil)
		c.Cut(f, "interpolation/success", sinks, eng.G(f, `^len\(`+pn+`\[0\]\) < 2$`, false), nil)
		c.Clause("R4", "C20.2b")
		for _, pat := range []string{`^len\(` + pn + `\) < 2$`, `^len\(` + pn + `\[0\]\) < 2$`} {
			if e := eng.CondEdges(f, pat, true); len(e) > 0 {
				c.NilResultOnEdges(f, "refusal "+pat, e, 0, "secret")
			}
		}

		loops := c20LoopsOver(f, eng.VarName(parts), true)

		// equal-length loop: the loop over parts that contains a test len(parts[i]) == len(parts[0])
		c.Clause("R2", "C20.2c")
		site := "every part is length-checked before interpolation"
		var eqIf []*ssa.If
		for _, b := range f.Blocks {
			ifi := eng.IfOf(b)
			if ifi == nil {
				continue
			}
			x, y, ok := c20Eq(ifi)
			if !ok {
				continue
			}
			lx, ly := c20StaticCall(x, "len"), c20StaticCall(y, "len")
			if lx == nil || ly == nil {
				continue
			}
			ax, ix, ok1 := c20ElemLoad(lx.Call.Args[0])
			ay, iy, ok2 := c20ElemLoad(ly.Call.Args[0])
			if !ok1 || !ok2 || ax != ssa.Value(parts) || ay != ssa.Value(parts) {
				continue
			}
			if c20ConstInt(iy, 0) != c20ConstInt(ix, 0) { // one side is parts[0], the other parts[i]
				eqIf = append(eqIf, ifi)
			}
		}
		if len(eqIf) == 0 {
			c.Violation(f, site, f.Pos(), "no test len(parts[i]) == len(parts[0]) exists: shares of unequal length reach interpolation (index out of range or silent truncation)", nil)
		} else {
			var eqEdges, neEdges []eng.Edge
			for _, i := range eqIf {
				eqEdges = append(eqEdges, c20BaseEdge(i, true))
				neEdges = append(neEdges, c20BaseEdge(i, false))
			}
			var lp *c20Loop
			for i := range loops {
				if loops[i].set[eqIf[0].Block()] {
					lp = &loops[i]
				}
			}
			if lp == nil {
				c.Violation(f, site, eqIf[0].Cond.Pos(), "the length comparison is not inside a loop over all of parts (from index 0 or 1 to len(parts))", nil)
			} else {
				c.Cut(f, "interpolation/success", sinks, eng.Guard{Desc: "exit of the length-check loop over parts", Edges: []eng.Edge{lp.exit}}, nil)
				if h := c20EveryIteration(f, *lp, eqEdges, nil); h != nil {
					c.Violation(f, site, h.Instr.Pos(), "an iteration of the loop over parts can complete without crossing len(parts[i]) == len(parts[0])", h.Witness)
				} else {
					c.OK(f, site, eqIf[0].Cond.Pos(), "every iteration of the loop over parts crosses the equal-length edge")
				}
			}
			c.Clause("R4", "C20.2c")
			c.NilResultOnEdges(f, "a part has a different length", neEdges, 0, "secret")
			if h := eng.Reach(eng.Query{Fn: f, StartEdges: neEdges, Target: eng.IsTarget(interp)}); h != nil {
				c.Violation(f, "on{unequal length} no interpolation", h.Instr.Pos(), "interpolation reachable after a length mismatch", h.Witness)
			} else {
				c.OK(f, "on{unequal length} no interpolation", eqIf[0].Cond.Pos(), "the mismatch arm never reaches interpolatePolynomial")
			}
		}

		// duplicate-x loop
		c.Clause("R2", "C20.2d")
		site = "no two parts carry the same x"
		var lk *ssa.Lookup
		var lkIf *ssa.If
		for _, b := range f.Blocks {
			ifi := eng.IfOf(b)
			if ifi == nil {
				continue
			}
			nc := eng.Normalize(ifi.Cond)
			if l, ok := nc.Val.(*ssa.Lookup); ok {
				if _, isMk := l.X.(*ssa.MakeMap); isMk {
					lk, lkIf = l, ifi
				}
			}
		}
		xsArg := interp[0].(ssa.CallInstruction).Common().Args[0]
		ysArg := interp[0].(ssa.CallInstruction).Common().Args[1]
		if lk == nil {
			c.Violation(f, site, f.Pos(), "no membership test on a locally built set guards the x values: two shares with the same x reach div (division by zero panic) or skew the result", nil)
		} else {
			dup := c20BaseEdge(lkIf, true)
			fresh := c20BaseEdge(lkIf, false)
			var lp *c20Loop
			for i := range loops {
				if loops[i].set[lkIf.Block()] {
					lp = &loops[i]
				}
			}
			var ups []ssa.Instruction
			for _, in := range eng.Instrs(f, func(in ssa.Instruction) bool { _, ok := in.(*ssa.MapUpdate); return ok }) {
				mu := in.(*ssa.MapUpdate)
				if mu.Map == lk.X && mu.Key == lk.Index && eng.Expr(mu.Value) == "true" {
					ups = append(ups, in)
				}
			}
			switch {
			case lp == nil:
				c.Violation(f, site, lkIf.Cond.Pos(), "the duplicate test is not inside a loop over all of parts", nil)
			case len(ups) == 0:
				c.Violation(f, site, lkIf.Cond.Pos(), "the set is never updated with the x that was just tested (no checkMap[x] = true with the same key): the test can never fire", nil)
			default:
				c.Cut(f, "interpolation/success", sinks, eng.Guard{Desc: "exit of the duplicate-x loop over parts", Edges: []eng.Edge{lp.exit}}, nil)
				if h := c20EveryIteration(f, *lp, []eng.Edge{fresh}, nil); h != nil {
					c.Violation(f, site, h.Instr.Pos(), "an iteration can complete without crossing the not-seen-before edge", h.Witness)
				} else if h := c20EveryIteration(f, *lp, nil, ups); h != nil {
					c.Violation(f, site, h.Instr.Pos(), "an iteration can complete without recording its x in the set", h.Witness)
				} else {
					c.OK(f, site, lkIf.Cond.Pos(), "every iteration tests set[x], crosses the not-seen edge and records set[x] = true")
				}
			}
			c.Clause("R4", "C20.2d")
			c.NilResultOnEdges(f, "duplicate x", []eng.Edge{dup}, 0, "secret")
			// the x tested is the part's last byte and is the value handed to interpolation
			c.Clause("R5", "C20.2d")
			site = "x tested == x interpolated == last byte of the part"
			px, pidx, okx := c20ElemLoad(lk.Index)
			var prow, prk ssa.Value
			okRow := false
			if okx {
				prow, prk, okRow = c20ElemLoad(px)
			}
			last := false
			if okx {
				if bo, ok := c20Strip(pidx).(*ssa.BinOp); ok && bo.Op == token.SUB && c20ConstInt(bo.Y, 1) {
					if ln := c20StaticCall(bo.X, "len"); ln != nil {
						if a, i0, ok := c20ElemLoad(ln.Call.Args[0]); ok && a == ssa.Value(parts) && c20ConstInt(i0, 0) {
							last = true
						}
					}
				}
			}
			var xst *ssa.Store
			if refs := lk.Index.Referrers(); refs != nil {
				for _, r := range *refs {
					if st, ok := r.(*ssa.Store); ok && st.Val == lk.Index {
						if ia, ok := st.Addr.(*ssa.IndexAddr); ok && ia.X == xsArg {
							xst = st
						}
					}
				}
			}
			switch {
			case !okx || !okRow || prow != ssa.Value(parts) || !last:
				c.Violation(f, site, lkIf.Cond.Pos(), "the tested key is "+eng.ExprDeep(lk.Index)+", not parts[k][len(parts[0])-1] (where Split put the x)", nil)
			case xst == nil:
				c.Violation(f, site, lkIf.Cond.Pos(), "the x handed to interpolatePolynomial is not the value that was tested for duplicates", nil)
			case xst.Addr.(*ssa.IndexAddr).Index != prk:
				c.Violation(f, site, xst.Pos(), "x of part k is stored at x_samples["+eng.ExprDeep(xst.Addr.(*ssa.IndexAddr).Index)+"], not at k", nil)
			default:
				c.OK(f, site, xst.Pos(), "x_samples[k] = parts[k][len(parts[0])-1], the same value the set was probed with")
			}
		}

		// interpolation at 0 over (xs, ys), ys[k] = parts[k][idx], secret[idx] = result
		c.Clause("R12", "C20.2e")
		ic := interp[0].(ssa.CallInstruction)
		if c20ConstInt(ic.Common().Args[2], 0) {
			c.OK(f, "interpolation point", ic.Pos(), "interpolatePolynomial(xs, ys, 0): the intercept is what is reconstructed")
		} else {
			c.Violation(f, "interpolation point", ic.Pos(), "interpolation is evaluated at "+eng.ExprDeep(ic.Common().Args[2])+", not 0", nil)
		}
		c.Clause("R5", "C20.2e")
		site = "y_samples[k] = parts[k][idx]; secret[idx] = interpolated value"
		var yst, sst *ssa.Store
		for _, in := range eng.Instrs(f, func(in ssa.Instruction) bool { _, ok := in.(*ssa.Store); return ok }) {
			st := in.(*ssa.Store)
			ia, ok := st.Addr.(*ssa.IndexAddr)
			if !ok {
				continue
			}
			if ia.X == ysArg {
				yst = st
			}
			if st.Val == ssa.Value(ic.(*ssa.Call)) {
				sst = st
			}
		}
		_, isMkX := xsArg.(*ssa.MakeSlice)
		_, isMkY := ysArg.(*ssa.MakeSlice)
		switch {
		case !isMkX || !isMkY || xsArg == ysArg:
			c.Violation(f, site, ic.Pos(), "x and y samples are not two distinct local buffers", nil)
		case yst == nil || sst == nil:
			c.Violation(f, site, ic.Pos(), "the y buffer is never filled or the interpolated byte is never stored", nil)
		default:
			row, col, ok1 := c20ElemLoad(yst.Val)
			var rp, rk ssa.Value
			ok2 := false
			if ok1 {
				rp, rk, ok2 = c20ElemLoad(row)
			}
			yi := yst.Addr.(*ssa.IndexAddr).Index
			si := sst.Addr.(*ssa.IndexAddr)
			switch {
			case !ok1 || !ok2 || rp != ssa.Value(parts) || rk != yi:
				c.Violation(f, site, yst.Pos(), "y_samples["+eng.ExprDeep(yi)+"] = "+eng.ExprDeep(yst.Val)+": not the byte of the same part", nil)
			case si.Index != col:
				c.Violation(f, site, sst.Pos(), "the byte interpolated from column "+eng.ExprDeep(col)+" is stored at secret["+eng.ExprDeep(si.Index)+"]", nil)
			default:
				c.OK(f, site, sst.Pos(), "column idx of every part is interpolated into secret[idx]")
				// all y's are set before interpolating: the call sits behind the exit of the inner loop over parts
				var inner *c20Loop
				for i := range loops {
					if loops[i].set[yst.Block()] && !loops[i].set[ic.Block()] {
						inner = &loops[i]
					}
				}
				c.Clause("R2", "C20.2e")
				if inner == nil {
					c.Violation(f, "all y samples set before interpolation", ic.Pos(), "the y buffer is not filled by a loop over all of parts that completes before the interpolation", nil)
				} else if h := eng.Reach(eng.Query{Fn: f, StartEdges: []eng.Edge{inner.body}, Blocked: []eng.Edge{inner.exit}, Target: eng.IsTarget(interp)}); h != nil {
					c.Violation(f, "all y samples set before interpolation", h.Instr.Pos(), "interpolation reachable from inside the fill loop", h.Witness)
				} else {
					c.OK(f, "all y samples set before interpolation", ic.Pos(), "interpolatePolynomial is only reached through the exit of the fill loop over parts")
				}
				// the returned secret is the buffer written
				c.Clause("R5", "C20.2e")
				for _, r := range eng.SuccessReturns(f, 1) {
					if r.(*ssa.Return).Results[0] == si.X {
						c.OK(f, "returned secret", r.Pos(), "the buffer holding the interpolated bytes is returned")
					} else {
						c.Violation(f, "returned secret", r.Pos(), "the nil-error return yields "+eng.ExprDeep(r.(*ssa.Return).Results[0])+", not the interpolated buffer", nil)
					}
				}
			}
		}
	}

	// ---- evaluate / div panic guards
	c.Clause("R2", "C20.2f")
	if f := c.Fn("shamir.(*polynomial).evaluate"); f != nil && len(f.Params) == 2 {
		c20ZeroPanic(c, f, f.Params[1], "evaluation at x = 0 returns the secret byte")
	}
	if f := c.Fn("shamir.div"); f != nil && len(f.Params) == 2 {
		c20ZeroPanic(c, f, f.Params[1], "a zero divisor has no inverse (a^254 = 0 would silently yield 0)")
	}
}

// c20ZeroPanic: f tests parameter p against 0, the zero arm panics, and every call and return of f lies behind the non-zero arm.
func c20ZeroPanic(c *eng.Ctx, f *ssa.Function, p *ssa.Parameter, why string) {
	site := "zero " + eng.VarName(p) + " panics before any arithmetic"
	var guard *ssa.If
	for _, b := range f.Blocks {
		if ifi := eng.IfOf(b); ifi != nil {
			if x, y, ok := c20Eq(ifi); ok && c20Strip(x) == ssa.Value(p) && c20ConstInt(y, 0) {
				guard = ifi
			}
		}
	}
	if guard == nil {
		c.Violation(f, site, f.Pos(), "no test "+eng.VarName(p)+" == 0 exists: "+why, nil)
		return
	}
	zero, nonzero := c20BaseEdge(guard, true), c20BaseEdge(guard, false)
	if !c20EndsInPanic(zero.To()) {
		c.Violation(f, site, guard.Cond.Pos(), "the "+eng.VarName(p)+" == 0 arm does not panic: "+why, nil)
		return
	}
	var sinks []ssa.Instruction
	for _, cl := range eng.Calls(f, `^shamir\.[^$]*$`) { // the package's field operations, not the function's own closures
		sinks = append(sinks, cl)
	}
	for _, r := range eng.Returns(f) {
		sinks = append(sinks, r)
	}
	c.Cut(f, "arithmetic and return of "+eng.FuncName(f), sinks, eng.Guard{Desc: "[" + eng.VarName(p) + " == 0]=false", Edges: []eng.Edge{nonzero}}, nil)
}
