package props

import (
	"strings"

	"golang.org/x/tools/go/ssa"

	"obsa/eng"
)

func init() {
	register(&Prop{
		ID: "C07",
		Explanation: "Structural necessary conditions of 'token creation and login never escalate privilege', as guard-cuts on every path of TokenStore.handleCreateCommon to the token-creating call (ts.create) and on the helpers it relies on: " +
			"(1) no parent / batch parent / use-limited parent refusals; (2) cross-namespace creation needs sudo and may not name root; (3) a caller-chosen ID, the no_parent orphaning and a period are stored only behind the sudo test (and root namespace for IDs); orphaning otherwise only from the role's orphan flag or the create-orphan endpoint argument; writers of these TokenEntry fields are tabled; " +
			"(4) the final policy list comes only from resolveTokenPolicies, root in it requires a root parent and a non-batch type, and no store to the policy list is reachable after that check (the guard is looked for on every path to ts.create in handleCreateCommon or, failing that, in a same-package function it hands &te and the parent entry to; the sudo answer may reach its uses through a closure that only forwards SudoPrivilege); " +
			"(5) resolveTokenPolicies reaches its final policy set only through the role-with-lists arm, the cross-namespace arm, parent inheritance, the subset test or sudo, checks role allow/deny lists and rejects non-assignable policies on every returning path; the role arm hands its list on only after, for each of the role's four lists separately, that list was found empty or the loop testing every policy against it ran to its end (or, for the allowed lists, the role's own allowed list was adopted); " +
			"(6) non-expiring root only from a non-expiring root parent; TTLs come out of CalculateTTL or the explicit maximum; " +
			"(7) login token creation (LoginCreateToken, Core.RegisterAuth) rejects root and non-assignable policies over token+identity policies before registering and refuses non-root zero TTL; " +
			"(8) the three create endpoints differ only in their constant orphan/role arguments; " +
			"(9) in parseAndMergeTTLPeriod the role's explicit max TTL / period replaces the requested one only when the requested one is unset or larger, and the role's bounds are examined on every returning path with a role and a non-batch type; " +
			"(10) tokenStoreRole carries the legacy period / explicit_max_ttl / bound_cidrs fields of roles stored by older versions over to the token_* fields before the role is used; " +
			"(11) resolveEntityAlias returns an entity ID only with a role, for an alias (lower-cased) found in the role's allowed list or globs, from a successfully fetched, non-disabled entity; te.EntityID is that ID or the parent's, the latter only for non-orphans; " +
			"(12) te.NumUses is replaced only by the role's token_num_uses, only when the request named none or more; " +
			"(13) SudoPrivilege answers only false or the RootPrivs of AllowOperation on the ACL built from the looked-up caller token's policies and identity policies (honouring no_identity_policies) for the given path; " +
			"(14) the login token entry takes its TTL from the CalculateTTL result handed in, its policies from the sanitised token policies, and has no parent; " +
			"(15) renewal re-imposes the stored explicit max TTL and period of a role-less token, and the role's for role tokens, before every response; a role token's own stored explicit max TTL is read on every role-arm path and replaces the role's value only when that is unset or larger. (16) framework.CalculateTTL — which bounds every login and renewal — evaluates the backend-maximum and the explicit-maximum narrowing tests on every path before the effective maximum is used (shared with C05.1); " +
			"(17) Core.RegisterAuth copies the created entry's ID, accessor, TTL and orphan-ness into the auth block unconditionally — each copy lies on every path from ts.create to the expiration manager's RegisterAuth and to the success return, and the auth's TTL is only ever stored from te.TTL; the create endpoint's response auth block is built after ts.create from the created entry's fields.",
		NotDecided: "correctness of SanitizePolicies, StrListSubset and glob matching (values); the full cross product of role list semantics; what sudo on the create path is granted to.",
		Run:        runC07,
	})
}

func runC07(c *eng.Ctx, thorough bool) {
	batch, okb := c.P.ConstValue("logical.TokenTypeBatch")
	if !okb {
		c.Unresolved("logical.TokenTypeBatch")
		return
	}
	if f := c.Fn("vault.(*TokenStore).handleCreateCommon"); f != nil {
		create := gcIns(f, `vault\.\(\*TokenStore\)\.create$`)
		if !c.Floor(f, "ts.create", len(create), 1) {
			return
		}
		// the sudo answer: a call of extendedSystemView.SudoPrivilege, possibly through a local closure that only forwards it
		sudo := eng.Guard{Desc: "[SudoPrivilege()]=true", Edges: c07gFwdCondEdges(f, c07gIsSudoCall, true)}
		parent := `vault\.\(\*TokenStore\)\.Lookup\(\)#0`
		// ---- C07.1
		c.Clause("R2", "C07.1")
		c.Cut(f, "ts.create", create, eng.GCallOK(f, `vault\.\(\*TokenStore\)\.Lookup$`), nil)
		c.Cut(f, "ts.create", create, eng.G(f, `^`+parent+` == nil$`, false), nil)
		c.Cut(f, "ts.create", create, eng.G(f, `^`+parent+`\.Type == `+batch+`$`, false), nil)
		c.Cut(f, "ts.create", create, eng.G(f, `^0 < `+parent+`\.NumUses$`, false), nil)
		c.Clause("R5", "C07.1")
		for _, l := range eng.Calls(f, `vault\.\(\*TokenStore\)\.Lookup$`) {
			c.Prov(f, "parent looked up", l, l.Common().Args[2], `^field:req\.ClientToken$`)
		}
		// ---- C07.2 cross-namespace
		c.Clause("R2", "C07.2")
		sameNS := eng.G(f, `^namespace\.FromContext\(\)#0\.ID == `+parent+`\.NamespaceID$`, true)
		c.Cut(f, "ts.create", create, eng.Or(sameNS, sudo), nil)
		c.Cut(f, "ts.create", create, eng.Or(sameNS, eng.GD(f, `^slices\.Contains\[.*\]\(framework\.\(\*FieldData\)\.Get\(.*"policies"\)\.\(\[\]string\), "root"\)$`, false)), nil)
		// ---- C07.3 guarded field stores
		c.Clause("R2", "C07.3")
		idSt := instrsOf(eng.Stores(f, `^&te\.ID$`))
		if c.Floor(f, "te.ID store", len(idSt), 1) {
			c.Cut(f, "te.ID = id", idSt, sudo, nil)
			c.Cut(f, "te.ID = id", idSt, eng.G(f, `^namespace\.FromContext\(\)#0\.ID == "root"$`, true), nil)
		}
		var orphanSt []ssa.Instruction
		for _, st := range eng.Stores(f, `^&te\.Parent$`) {
			if eng.Expr(st.Val) == `""` {
				orphanSt = append(orphanSt, st)
			}
		}
		if c.Floor(f, `te.Parent = "" stores`, len(orphanSt), 3) {
			c.Cut(f, `te.Parent = ""`, orphanSt, eng.Or(eng.G(f, `^role\.Orphan$`, true), sudo, eng.G(f, `^orphan$`, true)), nil)
			// the no_parent arm specifically: reachable only with sudo when there is no role and orphan=false
			c.Cut(f, `te.Parent = "" (plain create endpoint: role == nil, orphan == false)`, orphanSt, sudo, map[string]bool{`^role == nil$`: true, `^orphan$`: false})
		}
		// initial parent is the caller
		c.Clause("R5", "C07.3")
		for _, st := range eng.Stores(f, `^&te\.Parent$`) {
			if eng.Expr(st.Val) != `""` {
				c.Prov(f, "te.Parent initial value", st, st.Val, `^field:req\.ClientToken$`)
			}
		}
		// ---- C07.4 root guard and frozen policies
		c.Clause("R2", "C07.4")
		teRoot := eng.GD(f, `^slices\.Contains\[.*\]\(&te\.Policies, "root"\)$`, false)
		parentRoot := eng.GD(f, `^slices\.Contains\[.*\]\(vault\.\(\*TokenStore\)\.Lookup\(.*\)#0\.Policies, "root"\)$`, true)
		rootIfs := eng.EdgeIfs(eng.CondEdgesDeep(f, `^slices\.Contains\[.*\]\(&te\.Policies, "root"\)$`, true))
		polSt := instrsOf(eng.Stores(f, `^&te\.Policies$`))
		c.Floor(f, "te.Policies store", len(polSt), 1)
		// the root tests that lie on every path to ts.create (the later test in the TTL computation does not)
		var first []ssa.Instruction
		for _, i := range rootIfs {
			if dominatedInstr(f, i, create) {
				first = append(first, i)
			}
		}
		if len(first) == 0 {
			// no dominating test of te.Policies containing "root" in this function: extracted into a helper?
			if !c07gRootGuardInHelper(c, f, create, polSt, batch) {
				c.Undecided(f, "root guard", f.Pos(), "no test of te.Policies containing \"root\" on every path to ts.create in handleCreateCommon, nor in a same-package function it hands &te and the parent to: moved? the rule cannot be evaluated")
			}
		} else {
			c.Cut(f, "ts.create", create, eng.Or(teRoot, parentRoot), nil)
			c.Cut(f, "ts.create", create, eng.Or(teRoot, eng.G(f, `^&te\.Type == `+batch+`$`, false)), nil)
			c.Clause("R3", "C07.4")
			// the root check that guards create must come after every policy store: no store after the first such If
			guardIf := eng.EdgeIfs(eng.Nearest(f, eng.CondEdgesDeep(f, `^slices\.Contains\[.*\]\(&te\.Policies, "root"\)$`, true), nil))
			_ = guardIf
			// all dominating root tests must precede no policy store
			c.NotAfter(f, "the root-policy check", first, "store to te.Policies", polSt)
		}
		c.Clause("R5", "C07.4")
		for _, st := range polSt {
			c.Prov(f, "te.Policies", st, st.(*ssa.Store).Val, `^call:vault\.\(\*TokenStore\)\.resolveTokenPolicies#1$`)
		}
		c.Clause("R2", "C07.4")
		c.Cut(f, "ts.create", create, eng.GCallOK(f, `vault\.\(\*TokenStore\)\.resolveTokenPolicies$`), nil)
		c.Cut(f, "ts.create", create, eng.G(f, `^vault\.\(\*TokenStore\)\.resolveTokenPolicies\(\)#0 == nil$`, true), nil)
		c.Clause("R5", "C07.4")
		for _, rp := range eng.Calls(f, `vault\.\(\*TokenStore\)\.resolveTokenPolicies$`) {
			a := rp.Common().Args
			c.Prov(f, "parent given to resolveTokenPolicies", rp, a[5], `^call:vault\.\(\*TokenStore\)\.Lookup#0$`)
			if c07gFwd(a[6], c07gIsSudoCall, 0) {
				c.OK(f, "prov{isSudo given to resolveTokenPolicies}", rp.Pos(), "the result of SudoPrivilege (directly or through a forwarding closure)")
			} else {
				c.Prov(f, "isSudo given to resolveTokenPolicies", rp, a[6], `SudoPrivilege$`)
			}
		}
		nSudo := 0
		for _, e := range gcEffs(f, `SudoPrivilege$`) {
			nSudo++
			a := gcArgs(e)
			gcProv(c, f, "token whose sudo capability is tested", e.Call.In, a[len(a)-1], e.Fr, `^field:\^?req\.ClientToken$`)
		}
		c.Floor(f, "SudoPrivilege calls (in the function or its closures)", nSudo, 1)
		// ---- C07.6 TTLs
		c.Clause("R2", "C07.6")
		ttlZero := eng.Guard{Desc: "[&te.TTL == 0]=false (nearest to ts.create)", Edges: eng.Nearest(f, eng.CondEdges(f, `^&te\.TTL == 0$`, false), create)}
		c.Cut(f, "ts.create", create, eng.Or(ttlZero, eng.G(f, `^`+parent+`\.TTL == 0$`, true)), nil)
		c.Cut(f, "ts.create", create, eng.GCallOK(f, `vault\.\(\*TokenStore\)\.parseAndMergeTTLPeriod$`), nil)
		c.Clause("R5", "C07.6")
		for _, st := range eng.Stores(f, `^&te\.TTL$`) {
			c.Prov(f, "te.TTL", st, st.Val, `^call:sdk/framework\.CalculateTTL#0$`, `^call:framework\.CalculateTTL#0$`, `^call:vault\.\(\*TokenStore\)\.parseAndMergeTTLPeriod#0$`)
		}
		for _, ct := range eng.Calls(f, `framework\.CalculateTTL$`) {
			a := ct.Common().Args
			c.Prov(f, "explicit max given to CalculateTTL", ct, a[5], `^call:vault\.\(\*TokenStore\)\.parseAndMergeTTLPeriod#0$`)
			c.Prov(f, "period given to CalculateTTL", ct, a[3], `^call:vault\.\(\*TokenStore\)\.parseAndMergeTTLPeriod#1$`)
		}
		// CalculateTTL is skipped only for a TTL-less root token
		c.Clause("R2", "C07.6")
		calc := gcIns(f, `framework\.CalculateTTL$`)
		if c.Floor(f, "CalculateTTL call", len(calc), 1) {
			blocked := eng.CondEdgesDeep(f, `^slices\.Contains\[.*\]\(&te\.Policies, "root"\)$`, true)
			// a negative TTL (0 < TTL false and TTL == 0 false) is excluded by parseAndMergeTTLPeriod's "must be positive" refusals (checked in C07.3)
			for _, ne := range eng.CondEdges(f, `^0 < &te\.TTL$`, false) {
				for _, ze := range eng.CondEdges(f, `^&te\.TTL == 0$`, false) {
					if ze.From == ne.To() {
						blocked = append(blocked, ze)
					}
				}
			}
			if h := eng.Reach(eng.Query{Fn: f, Barriers: calc, Blocked: blocked, Target: eng.IsTarget(create)}); h != nil {
				c.Violation(f, "CalculateTTL unless TTL-less root", h.Instr.Pos(), "ts.create is reachable without CalculateTTL on a path that did not establish the root policy", h.Witness)
			} else {
				c.OK(f, "CalculateTTL unless TTL-less root", calc[0].Pos(), "every path to ts.create runs CalculateTTL or crossed the te.Policies-contains-root edge")
			}
		}
		// num_uses negative refused
		c.Cut(f, "ts.create", create, eng.GD(f, `^\(?framework\.\(\*FieldData\)\.Get\(.*"num_uses"\)\.\(int\)\)? < 0$`, false), nil)
	}

	// ---- C07.3 period behind sudo
	if f := c.Fn("vault.(*TokenStore).parseAndMergeTTLPeriod"); f != nil {
		c.Clause("R2", "C07.3")
		var userPeriod []ssa.Instruction
		for _, st := range eng.Stores(f, `^te\.Period$`) {
			if ok, _, _ := eng.OriginsMatch(st.Val, `ParseDurationSecond#0$`); ok {
				userPeriod = append(userPeriod, st)
			}
		}
		if c.Floor(f, "te.Period = <requested period>", len(userPeriod), 1) {
			c.Cut(f, "te.Period = <requested period>", userPeriod, eng.G(f, `^isSudo$`, true), nil)
		}
		// negative durations refused
		for _, st := range eng.Stores(f, `^te\.(TTL|ExplicitMaxTTL|Period)$`) {
			if ok, _, _ := eng.OriginsMatch(st.Val, `ParseDurationSecond#0$`); ok {
				c.Cut(f, eng.InstrStr(st), []ssa.Instruction{st}, eng.G(f, `ParseDurationSecond\(\)#0 < 0$`, false), nil)
			}
		}
	}

	// ---- C07.3 writers of the privileged TokenEntry fields inside the token store
	c.Clause("R6", "C07.3")
	writers := map[string]map[string]string{
		"logical.TokenEntry.Period": {
			"vault.(*TokenStore).parseAndMergeTTLPeriod": "requested (sudo) or role period",
			"vault.(*Core).RegisterAuth":                 "login token literal: period from the auth backend",
		},
		"logical.TokenEntry.Parent": {
			"vault.(*TokenStore).handleCreateCommon": "caller token, or orphaned behind the tabled guards",
			"vault.(*TokenStore).revokeInternal":     "orphaning children of a revoked token",
			"vault.(*TokenStore).handleTidy":         "tidy orphans children of missing parents",
			"vault.(*TokenStore).rootToken":          "n/a",
		},
	}
	for fld, tbl := range writers {
		fv := c.P.Field(fld)
		if fv == nil {
			c.Unresolved(fld)
			continue
		}
		n := 0
		for _, w := range c.P.FieldWriters(fv) {
			if !eng.InPkg(w.Fn, "vault") {
				continue
			}
			n++
			top := eng.FuncName(eng.TopFunc(w.Fn))
			if r, ok := tbl[top]; ok {
				c.OK(eng.TopFunc(w.Fn), "writer{"+fld+"}", w.Store.Pos(), r)
			} else {
				c.Violation(eng.TopFunc(w.Fn), "writer{"+fld+"}", w.Store.Pos(), "store to "+fld+" outside the reviewed table: "+eng.InstrStr(w.Store), nil)
			}
		}
		c.Floor(nil, "writers of "+fld, n, 2)
	}

	// ---- C07.5 resolveTokenPolicies
	if f := c.Fn("vault.(*TokenStore).resolveTokenPolicies"); f != nil {
		c.Clause("R2", "C07.5")
		// the final SanitizePolicies call: its result flows to the returned list
		var final []ssa.Instruction
		var succ []ssa.Instruction
		for _, r := range eng.SuccessReturns(f, 2) {
			ret := r.(*ssa.Return)
			if eng.IsNilConst(ret.Results[1]) {
				continue
			}
			succ = append(succ, r)
			for _, o := range eng.Origins(ret.Results[1]) {
				if cl, ok := o.Val.(*ssa.Call); ok && strings.HasSuffix(eng.CalleeName(&cl.Call), "policyutil.SanitizePolicies") {
					final = append(final, cl)
				}
			}
		}
		c.Floor(f, "returns of a policy list", len(succ), 1)
		if c.Floor(f, "final SanitizePolicies call", len(final), 1) {
			roleLists := eng.G(f, `^0 < len\(role\.(Allowed|Disallowed)Policies(Glob)?\)$`, true)
			g := eng.Or(roleLists,
				eng.G(f, `^ns\.ID == parent\.NamespaceID$`, false),
				eng.GD(f, `^\(?len\(framework\.\(\*FieldData\)\.Get\(.*"policies"\)\.\(\[\]string\)\)\)? == 0$`, true),
				eng.G(f, `StrListSubset\(\)$`, true),
				eng.G(f, `^isSudo$`, true))
			c.Cut(f, "final policy set computed", final, g, nil)
			// without sudo, without a role and in the parent's namespace: subset or inherit
			c.Cut(f, "final policy set computed (no sudo, no role, same namespace)", final, eng.Or(
				eng.GD(f, `^\(?len\(framework\.\(\*FieldData\)\.Get\(.*"policies"\)\.\(\[\]string\)\)\)? == 0$`, true),
				eng.G(f, `StrListSubset\(\)$`, true)),
				map[string]bool{`^isSudo$`: false, `^role == nil$`: true, `^ns\.ID == parent\.NamespaceID$`: true})
		}
		// subset test compares the request with the parent's policies
		c.Clause("R5", "C07.5")
		for _, ss := range eng.Calls(f, `StrListSubset$`) {
			a := ss.Common().Args
			if s := eng.ExprDeep(a[0]); strings.Contains(s, "parent.Policies") {
				c.OK(f, "subset superset = parent policies", ss.Pos(), s)
			} else {
				c.Violation(f, "subset superset = parent policies", ss.Pos(), "StrListSubset's superset is "+s+", expected the sanitized parent policies", nil)
			}
			if s := eng.ExprDeep(a[1]); strings.Contains(s, `"policies"`) {
				c.OK(f, "subset subset = requested policies", ss.Pos(), s)
			} else {
				c.Violation(f, "subset subset = requested policies", ss.Pos(), "StrListSubset's subset is "+s+", expected the sanitized requested policies", nil)
			}
		}
		// inheritance takes the parent's policies
		for _, sp := range eng.Calls(f, `policyutil\.SanitizePolicies$`) {
			_ = sp
		}
		// role lists: violations return no policy list
		c.Clause("R4", "C07.5")
		type edgeSpec struct {
			desc, pat string
			val       bool
		}
		for _, es := range []edgeSpec{
			{"requested policy not in role's allowed globs", `^github\.com/hashicorp/go-secure-stdlib/strutil\.StrListContainsGlob\(policyutil\.SanitizePolicies\(role\.AllowedPoliciesGlob`, false},
			{"requested policy in role's disallowed list", `^slices\.Contains\[.*\]\(github\.com/hashicorp/go-secure-stdlib/strutil\.RemoveDuplicates\(role\.DisallowedPolicies,`, true},
			{"requested policy matches role's disallowed globs", `^github\.com/hashicorp/go-secure-stdlib/strutil\.StrListContainsGlob\(github\.com/hashicorp/go-secure-stdlib/strutil\.RemoveDuplicates\(role\.DisallowedPoliciesGlob`, true},
			{"non-assignable policy requested", `^slices\.Contains\[.*\]\(policy\.NonAssignablePolicies,`, true},
			{"not a subset of the parent's policies", `StrListSubset\(`, false},
		} {
			c.NilResultOnEdges(f, es.desc, eng.CondEdgesDeep(f, es.pat, es.val), 1, "policy list")
		}
		// role arm: the list the role arm hands on (policies = finalPolicies) was
		// checked against each of the role's four lists: for every list the
		// hand-over is reachable only across an edge on which that list is empty,
		// or across the exit of the loop that tests every element against it (for
		// the allowed lists also: the role's own allowed list was adopted).
		c.Clause("R2", "C07.5")
		isFinal := func(v ssa.Value) bool { p, ok := v.(*ssa.Phi); return ok && eng.VarName(p) == "finalPolicies" }
		handOver := eng.PhiEdges(f, "policies", isFinal)
		if c.Floor(f, "role arm hand-over (policies = finalPolicies)", len(handOver), 1) {
			// the true edges of the membership tests whose haystack (first argument) is built from the role's list
			member := func(callee, list string) []eng.Edge {
				return c07CallCondEdges(f, callee, `\brole\.`+list+`\b`, true)
			}
			disIn := member(`^slices\.Contains\[`, "DisallowedPolicies")
			disGlob := member(`strutil\.StrListContainsGlob$`, "DisallowedPoliciesGlob")
			// disallowed loop: every iteration tests the element against the list
			disLoop := func(tests []eng.Edge) []eng.Edge { return c07LoopExits(f, nil, eng.EdgeIfs(tests)) }
			// allowed loop: the next element is reached only across an allowing edge
			allowing := append(member(`^slices\.Contains\[`, "AllowedPolicies"), member(`strutil\.StrListContainsGlob$`, "AllowedPoliciesGlob")...)
			var allowLoop []eng.Edge
			if len(allowing) > 0 {
				allowLoop = c07LoopExits(f, allowing, nil)
			}
			adopt := eng.GD(f, `^\(?len\(φfinalPolicies\{.*\}\)\)? == 0$`, true)
			c.Floor(f, "per-element tests against the role's disallowed lists", len(disIn)+len(disGlob), 2)
			c.Floor(f, "per-element tests against the role's allowed lists", len(allowing), 2)
			for _, l := range []struct {
				list  string
				exits []eng.Edge
				extra []eng.Guard
			}{
				{"DisallowedPolicies", disLoop(disIn), nil},
				{"DisallowedPoliciesGlob", disLoop(disGlob), nil},
				{"AllowedPolicies", allowLoop, []eng.Guard{adopt}},
				{"AllowedPoliciesGlob", allowLoop, []eng.Guard{adopt}},
			} {
				gs := []eng.Guard{
					eng.G(f, `^0 < len\(role\.`+l.list+`\)$`, false),
					{Desc: "exit of the loop testing every policy against role." + l.list, Edges: l.exits},
				}
				gs = append(gs, l.extra...)
				c.CutEdges(f, "role arm hands on its policy list (role."+l.list+")", handOver, eng.Or(gs...))
			}
		}
		// every returned list went through the non-assignable loop
		c.Clause("R3", "C07.5")
		hdr := eng.EdgeIfs(eng.CondEdges(f, `rangeindex.*len\(φfinalPolicies\{.*StrListDelete`, true))
		c.Before(f, "non-assignable policy loop", hdr, "return of a policy list", succ)
	}

	// ---- C07.7 logins
	if f := c.Fn("vault.(*Core).LoginCreateToken"); f != nil {
		c.Clause("R2", "C07.7")
		reg := gcIns(f, `vault\.\(\*Core\)\.RegisterAuth$`)
		if c.Floor(f, "RegisterAuth call", len(reg), 1) {
			loopDone := eng.CondEdges(f, `rangeindex.*len\(policyutil\.SanitizePolicies\(\)\)$`, false)
			c.Cut(f, "Core.RegisterAuth", reg, eng.Guard{Desc: "exit edge of the loop over token+identity policies", Edges: loopDone}, nil)
			for _, es := range []struct {
				d, p string
			}{{"login policy is root", `== "root"$`}, {"login policy is non-assignable", ""}} {
				e := eng.CondEdges(f, es.p, true)
				if es.p == "" {
					// slices.Contains(policy.NonAssignablePolicies, …), directly or through a forwarding closure
					e = c07gFwdCondEdges(f, c07gIsNonAssignableTest, true)
				}
				if len(e) == 0 {
					c.Violation(f, "refusal{"+es.d+"}", f.Pos(), "the login path no longer tests: "+es.d, nil)
					continue
				}
				if h := eng.Reach(eng.Query{Fn: f, StartEdges: e, Target: eng.IsTarget(reg)}); h != nil {
					c.Violation(f, "refusal{"+es.d+"}", h.Instr.Pos(), "token registration still reachable after: "+es.d, h.Witness)
				} else {
					c.OK(f, "refusal{"+es.d+"}", e[0].From.Instrs[len(e[0].From.Instrs)-1].Pos(), "the refusing edge never reaches Core.RegisterAuth")
				}
			}
			// the list checked covers token policies and identity policies
			c.Clause("R5", "C07.7")
			found := false
			for _, b := range f.Blocks {
				for _, in := range b.Instrs {
					cl, ok := in.(*ssa.Call)
					if !ok || !strings.HasSuffix(eng.CalleeName(&cl.Call), "policyutil.SanitizePolicies") {
						continue
					}
					s := eng.ExprDeep(cl.Call.Args[0])
					if c07gIsTokenPolicies(f, cl.Call.Args[0]) && strings.Contains(s, "fetchEntityAndDerivedPolicies(") && strings.Contains(s, "[ns.ID]") {
						// and it is the one ranged over
						found = true
						c.OK(f, "policies checked = token ∪ identity", cl.Pos(), s)
					}
				}
			}
			if !found {
				c.Violation(f, "policies checked = token ∪ identity", f.Pos(), "no policy list built from auth.TokenPolicies and the entity's identity policies of this namespace is checked before token creation", nil)
			}
			c.Clause("R5", "C07.7")
			for _, ct := range eng.Calls(f, `framework\.CalculateTTL$`) {
				a := ct.Common().Args
				c.Prov(f, "login explicit max", ct, a[5], `\.ExplicitMaxTTL$`)
				c.Prov(f, "login max ttl", ct, a[4], `\.MaxTTL$`)
			}
			for _, r := range reg {
				c.Prov(f, "login token TTL", r, r.(ssa.CallInstruction).Common().Args[2], `CalculateTTL#0$`)
			}
		}
	}
	if f := c.Fn("vault.(*Core).RegisterAuth"); f != nil {
		c.Clause("R2", "C07.7")
		create := gcIns(f, `vault\.\(\*TokenStore\)\.create$`)
		if c.Floor(f, "ts.create", len(create), 1) {
			// the conditions may be kept in a boolean flag first (isRootOnly := len(p) == 1 && p[0] == "root")
			c.Cut(f, "ts.create (login)", create, eng.Or(c18G(f, `^&te\.TTL == 0$`, false), c18G(f, `^&te\.Policies\[0\] == "root"$`, true)), nil)
		}
	}

	// ---- C07.8 endpoints
	c.Clause("R12", "C07.8")
	if m, miss := c.P.StaticCallee("vault.(*TokenStore).handleCreateCommon"); len(miss) == 0 {
		want := map[string][2]string{
			"vault.(*TokenStore).handleCreate":            {"false", "nil"},
			"vault.(*TokenStore).handleCreateOrphan":      {"true", "nil"},
			"vault.(*TokenStore).handleCreateAgainstRole": {"false", "*"},
		}
		n := 0
		for _, s := range c.P.FindCalls(m, nil) {
			n++
			top := eng.FuncName(eng.TopFunc(s.Fn))
			a := s.Call.Common().Args
			w, ok := want[top]
			if !ok {
				c.Violation(eng.TopFunc(s.Fn), "caller{handleCreateCommon}", s.Call.Pos(), "new caller of handleCreateCommon outside the three reviewed endpoints", nil)
				continue
			}
			orphan, role := eng.Expr(a[4]), eng.Expr(a[5])
			if orphan == w[0] && (w[1] == "*" || role == w[1]) {
				c.OK(eng.TopFunc(s.Fn), "caller{handleCreateCommon}", s.Call.Pos(), "orphan="+orphan+" role="+role)
			} else {
				c.Violation(eng.TopFunc(s.Fn), "caller{handleCreateCommon}", s.Call.Pos(), "endpoint passes orphan="+orphan+" role="+role+", table expects orphan="+w[0]+" role="+w[1], nil)
			}
		}
		c.Floor(nil, "handleCreateCommon callers", n, 3)
	} else {
		c.Unresolved("vault.(*TokenStore).handleCreateCommon")
	}
	if f := c.Fn("vault.(*TokenStore).handleCreateAgainstRole"); f != nil {
		c.Clause("R2", "C07.8")
		cc := gcIns(f, `handleCreateCommon$`)
		c.Cut(f, "handleCreateCommon(role)", cc, eng.G(f, `tokenStoreRole\(\)#0 == nil$`, false), nil)
	}
	runC07Gaps2(c)
	// lifetime clause of C07 ("bounded by its explicit maximum and the mount maximum"): shared with C05.1
	c05gEveryCapConsidered(c, "C07.16")
}

// c07CallCondEdges: the edges of the branches of f that test the result of a
// call whose callee matches calleePat and whose first argument (deep
// rendering) matches arg0Pat, on which the call's result has the value want.
func c07CallCondEdges(f *ssa.Function, calleePat, arg0Pat string, want bool) []eng.Edge {
	var out []eng.Edge
	for _, b := range f.Blocks {
		ifi := eng.IfOf(b)
		if ifi == nil {
			continue
		}
		nc := eng.Normalize(ifi.Cond)
		cl, ok := nc.Val.(*ssa.Call)
		if !ok || len(cl.Call.Args) == 0 {
			continue
		}
		if ok, _ := regexpMatch(calleePat, eng.CalleeName(&cl.Call)); !ok {
			continue
		}
		if ok, _ := regexpMatch(arg0Pat, eng.ExprDeep(cl.Call.Args[0])); !ok {
			continue
		}
		succ := 1
		if nc.Pol == want {
			succ = 0
		}
		out = append(out, eng.Edge{From: b, Succ: succ})
	}
	return out
}

// c07Loop is a loop header of a function: the branch that decides between one
// more iteration (body) and leaving the loop (exit).
type c07Loop struct {
	If         *ssa.If
	Body, Exit eng.Edge
}

// c07Loops lists the loop headers of f (blocks the SSA builder labels *.loop
// that end in a branch of which exactly one successor lies in the natural
// loop of the header).
func c07Loops(f *ssa.Function) []c07Loop {
	var out []c07Loop
	for _, b := range f.Blocks {
		ifi := eng.IfOf(b)
		if ifi == nil || !strings.HasSuffix(b.Comment, ".loop") {
			continue
		}
		// natural loop: the successor is dominated by the header and leads back
		// to it through blocks the header dominates
		back := func(si int) bool {
			seen := map[*ssa.BasicBlock]bool{}
			stack := []*ssa.BasicBlock{b.Succs[si]}
			for len(stack) > 0 {
				x := stack[len(stack)-1]
				stack = stack[:len(stack)-1]
				if x == b {
					return true
				}
				if seen[x] || !b.Dominates(x) {
					continue
				}
				seen[x] = true
				stack = append(stack, x.Succs...)
			}
			return false
		}
		bi := 0 // the successor that is the loop body: the one that leads back to the header
		switch b0, b1 := back(0), back(1); {
		case b0 && !b1:
		case b1 && !b0:
			bi = 1
		default:
			continue
		}
		out = append(out, c07Loop{ifi, eng.Edge{From: b, Succ: bi}, eng.Edge{From: b, Succ: 1 - bi}})
	}
	return out
}

// c07LoopExits: the exit edges of the loops of f in which the next iteration
// is reachable from the loop body only across one of the `across` edges or
// through one of the `through` instructions (every iteration performs the
// test).
func c07LoopExits(f *ssa.Function, across []eng.Edge, through []ssa.Instruction) []eng.Edge {
	var out []eng.Edge
	if len(across) == 0 && len(through) == 0 {
		return nil
	}
	for _, l := range c07Loops(f) {
		again := func(in ssa.Instruction) bool { return in == ssa.Instruction(l.If) }
		if eng.Reach(eng.Query{Fn: f, StartEdges: []eng.Edge{l.Body}, Blocked: across, Barriers: through, Target: again}) == nil {
			out = append(out, l.Exit)
		}
	}
	return out
}

func teRootNearest(f *ssa.Function) []eng.Edge {
	return eng.CondEdgesDeep(f, `^slices\.Contains\[.*\]\(&te\.Policies, "root"\)$`, false)
}

// dominatedInstr: every path from entry to each sink executes `at`.
func dominatedInstr(f *ssa.Function, at ssa.Instruction, sinks []ssa.Instruction) bool {
	return eng.Reach(eng.Query{Fn: f, Barriers: []ssa.Instruction{at}, Target: eng.IsTarget(sinks)}) == nil
}
