package props

import (
	"go/token"
	"regexp"
	"strconv"
	"strings"

	"golang.org/x/tools/go/ssa"

	"obsa/eng"
)

func init() {
	register(&Prop{
		ID: "C15",
		Explanation: "Structural necessary conditions of 'issued certificates respect issuer, role and lifetime constraints' in the PKI engine: " +
			"(1) the certutil signing primitives (and crypto/x509.CreateCertificate) are called from package pki only by the tabled wrappers; the bundle they sign was produced by generateCreationBundle on its success edge and only the tabled CA-only fields are modified afterwards; the name/lifetime fields of CreationParameters have generateCreationBundle as their only writer in pki; " +
			"(2) CreationParameters.IsCA is written only by generateCert/signCert from their isCA parameter; the leaf endpoints (issue, sign, sign-verbatim, ACME) pass the constant false, only root generation and sign-intermediate pass true; a leaf issuance always carries a non-nil signing bundle (a nil bundle would self-sign a CA); certutil sets IsCA only for a nil signing bundle / Params.IsCA and never copies a CSR's BasicConstraints extension; " +
			"(3) in generateCreationBundle every non-nil bundle return crosses the accepting edge of validateCommonName, validateSerialNumber, validateNames (DNS and e-mail: the very values stored in the bundle), validateOtherSANs (error, bad name, bad OID), the IP-SAN role switch and CIDR loop, validateURISAN for every appended URI, validateUserId, and the success edges of getCertificateNotBefore/NotAfter; each refusing edge returns no bundle; key type/bits/usages/subject attributes of the bundle are read from the role; the validators themselves accept a name only behind a role switch and never bypass hostname/wildcard enforcement; every suffix match in validateNames (localhost forms, display name, allowed domains) is anchored at a label boundary — the suffix operand leads with the constant '.' (partial: the rest of the string semantics is not decided); " +
			"(4) getCertificateNotAfter compares the computed NotAfter with the issuer's on every path with an issuer, the exceeding arm succeeds only for permit/truncate (error default), truncate returns the issuer's NotAfter, the TTL is clamped to the role/mount maximum, and the role's forbid/ttl-limited/timestamp bounds are enforced; " +
			"(5) serial numbers come from crypto/rand over at least 64 bits and every template's SerialNumber is that value; " +
			"(6) certutil builds the template from the validated parameters (NotAfter, names), signs with the signing bundle's certificate and key, and copies CSR values only under UseCSRValues; " +
			"(7) key type/size of the role is enforced before the bundle is built (RSA >= 2048, CSR key algorithm = role key type, minimum bits); " +
			"(8) the endpoints pass the role they looked up, the useCSRValues flag is true only for sign-verbatim / sign-intermediate, the issuer's leaf_not_after_behavior is only overridden by the tabled writers, the CEL endpoints refuse on a non-template verdict; " +
			"(gaps) issue/:role overwrites the role's key type/bits from the request only for key_type=any roles; " +
			"certutil.AddKeyUsages appends each x509 extended key usage only behind the test of its own Params.ExtKeyUsage bit and parseExtKeyUsages sets each legacy flag's bit only behind that role flag; " +
			"getCertificateNotBefore never succeeds from the forbid arm and leaves the duration arm only across the comparison with now - not_before_duration; " +
			"the signing bundle of issue/sign/ACME is fetched with IssuanceUsage, the usage is handed unchanged down to fetchCAInfoByIssuerId, which returns a bundle only across the success edge of EnsureUsage(usage); " +
			"buildSignVerbatimRole copies the role's ttl/max_ttl into the sign-verbatim role; getRole upgrades a legacy role's ttl/max_ttl from its own legacy field; " +
			"validateUserId, validateSerialNumber, validateURISAN and validateOtherSANs accept only behind a match against the role's list (constant flags, no acceptance after a missing OID or unmatched value); " +
			"with allow_globs_in_identity_templates off, identity templates in validateNames/validateURISAN are populated only after * was blocked; " +
			"the update and patch issuer endpoints store for each leaf_not_after_behavior name the enum value certutil's name table gives it, and every other writer of issuerEntry.LeafNotAfterBehavior stores err; " +
			"a match flag tested inside a loop of a validator (validateOtherSANs, validateNames, validateUserId, validateSerialNumber, validateURISAN) never carries the value of the previous iteration: it is assigned afresh inside the innermost loop over the requested values; " +
			"URI SANs enter the bundle element by element behind their own validateURISAN verdict — a whole slice is appended only after a loop in generateCreationBundle validated every element of that very slice (an any-match test over the slice is a violation); " +
			"every field of the caller's role that buildSignVerbatimRole copies (ttl, max_ttl, generate_lease, not_before_duration, no_store, issuer, basic_constraints_valid_for_non_ca) is stored into the same field of the synthetic role and the copy is reachable whatever the tests of the role's other fields decide.",
		NotDecided: "the string/suffix/glob semantics of validateNames over DNS labels (values); that the parsed certificate satisfies all constraints simultaneously; serial uniqueness (probabilistic); arithmetic of time comparisons; the policy expressed by a CEL role program (CEL roles replace, not refine, classic roles); crypto/x509's own encoding.",
		Run:        runC15,
	})
}

// ---------------------------------------------------------------- helpers

// c15uses: x is computed from v through comparisons, negations, len(), conversions and extracts.
func c15uses(x, v ssa.Value, d int) bool {
	if x == nil || d < 0 {
		return false
	}
	if x == v {
		return true
	}
	switch t := x.(type) {
	case *ssa.BinOp:
		return c15uses(t.X, v, d-1) || c15uses(t.Y, v, d-1)
	case *ssa.UnOp:
		return c15uses(t.X, v, d-1)
	case *ssa.Call:
		if _, ok := t.Call.Value.(*ssa.Builtin); ok {
			for _, a := range t.Call.Args {
				if c15uses(a, v, d-1) {
					return true
				}
			}
		}
	case *ssa.Extract:
		return c15uses(t.Tuple, v, d-1)
	case *ssa.Convert:
		return c15uses(t.X, v, d-1)
	case *ssa.ChangeType:
		return c15uses(t.X, v, d-1)
	case *ssa.MakeInterface:
		return c15uses(t.X, v, d-1)
	}
	return false
}

// c15condEdgesOn: edges of the Ifs whose normalised condition matches pat and is computed from v, on which base == want.
func c15condEdgesOn(f *ssa.Function, v ssa.Value, pat string, want bool) []eng.Edge {
	re := regexp.MustCompile(pat)
	var out []eng.Edge
	for _, b := range f.Blocks {
		ifi := eng.IfOf(b)
		if ifi == nil {
			continue
		}
		nc := eng.Normalize(ifi.Cond)
		if !re.MatchString(nc.Base) || !c15uses(nc.Val, v, 5) {
			continue
		}
		if nc.Pol == want {
			out = append(out, eng.Edge{From: b, Succ: 0})
		} else {
			out = append(out, eng.Edge{From: b, Succ: 1})
		}
	}
	return out
}

// c15emptyEdges: the edges on which the string/slice/map v is known to be empty (or non-empty),
// whatever the spelling of the test: len(v) == 0, len(v) > 0, v == "".
func c15emptyEdges(f *ssa.Function, v ssa.Value, empty bool) []eng.Edge {
	out := c15condEdgesOn(f, v, `^len\(.*\) == 0$|^.* == ""$`, empty)
	return append(out, c15condEdgesOn(f, v, `^0 < len\(.*\)$`, !empty)...)
}

// c15ctrl: the If in the unique predecessor of b, and the successor index leading to b.
func c15ctrl(b *ssa.BasicBlock) (*ssa.If, int) {
	if len(b.Preds) != 1 {
		return nil, 0
	}
	p := b.Preds[0]
	ifi := eng.IfOf(p)
	if ifi == nil {
		return nil, 0
	}
	for i, s := range p.Succs {
		if s == b {
			return ifi, i
		}
	}
	return nil, 0
}

// c15std matches static calls to functions outside the loaded module by full ssa name.
func c15std(names ...string) eng.CalleeMatcher {
	set := map[string]bool{}
	for _, n := range names {
		set[n] = true
	}
	return func(cc *ssa.CallCommon) bool {
		f := cc.StaticCallee()
		return f != nil && set[f.String()]
	}
}

// c15unreach records one obligation: no target is reachable under the query.
func c15unreach(c *eng.Ctx, f *ssa.Function, site string, q eng.Query, pos token.Pos, okFact, badFact string) bool {
	q.Fn = f
	if h := eng.Reach(q); h != nil {
		c.Violation(f, site, h.Instr.Pos(), badFact, h.Witness)
		return false
	}
	c.OK(f, site, pos, okFact)
	return true
}

// c15allocs: the allocations of struct type typ in f.
func c15allocs(f *ssa.Function, typ string) []*ssa.Alloc {
	var out []*ssa.Alloc
	for _, b := range f.Blocks {
		for _, in := range b.Instrs {
			if a, ok := in.(*ssa.Alloc); ok && isAllocOf(a, typ) {
				out = append(out, a)
			}
		}
	}
	return out
}

// c15sliceVals: the values stored into the elements of a slice literal / varargs slice.
func c15sliceVals(v ssa.Value) []ssa.Value {
	sl, ok := v.(*ssa.Slice)
	if !ok {
		return nil
	}
	a, ok := sl.X.(*ssa.Alloc)
	if !ok || a.Referrers() == nil {
		return nil
	}
	var out []ssa.Value
	for _, r := range *a.Referrers() {
		ia, ok := r.(*ssa.IndexAddr)
		if !ok || ia.Referrers() == nil {
			continue
		}
		for _, rr := range *ia.Referrers() {
			if st, ok := rr.(*ssa.Store); ok && st.Addr == ia {
				out = append(out, st.Val)
			}
		}
	}
	return out
}

// c15phiLeaves: the non-phi values merged into v.
func c15phiLeaves(v ssa.Value) []ssa.Value {
	var out []ssa.Value
	seen := map[ssa.Value]bool{}
	var walk func(v ssa.Value)
	walk = func(v ssa.Value) {
		if v == nil || seen[v] {
			return
		}
		seen[v] = true
		if p, ok := v.(*ssa.Phi); ok {
			for _, e := range p.Edges {
				walk(e)
			}
			return
		}
		out = append(out, v)
	}
	walk(v)
	return out
}

// c15leavesFrom: the values v may carry when control arrived over one of the start edges: phis
// placed in blocks reachable from the edges are resolved along incoming edges that are themselves
// reachable; anything computed before is a leaf.
func c15leavesFrom(v ssa.Value, start []eng.Edge) []ssa.Value {
	reach := eng.ReachableBlocks(v.(ssa.Instruction).Parent(), start)
	var out []ssa.Value
	seen := map[ssa.Value]bool{}
	var walk func(v ssa.Value)
	walk = func(v ssa.Value) {
		if v == nil || seen[v] {
			return
		}
		seen[v] = true
		p, ok := v.(*ssa.Phi)
		if !ok || !reach[p.Block()] {
			out = append(out, v)
			return
		}
		for i, e := range p.Edges {
			pred := p.Block().Preds[i]
			feasible := reach[pred]
			for _, se := range start {
				if se.From == pred && se.To() == p.Block() {
					feasible = true
				}
			}
			if feasible {
				walk(e)
			}
		}
	}
	walk(v)
	return out
}

func c15isBuiltin(call ssa.CallInstruction, name string) bool {
	b, ok := call.Common().Value.(*ssa.Builtin)
	return ok && b.Name() == name
}

func c15edges(gs ...[]eng.Edge) []eng.Edge {
	var out []eng.Edge
	for _, g := range gs {
		out = append(out, g...)
	}
	return out
}

func c15intConst(v ssa.Value) (int, bool) {
	cst, ok := v.(*ssa.Const)
	if !ok || cst.Value == nil {
		return 0, false
	}
	n, err := strconv.Atoi(cst.Value.ExactString())
	return n, err == nil
}

// ---------------------------------------------------------------- the property

func runC15(c *eng.Ctx, thorough bool) {
	c15Callers(c)
	c15CABit(c)
	c15Bundle(c)
	c15Validators(c)
	c15NotAfter(c)
	c15Serial(c)
	c15Template(c)
	c15KeyChecks(c)
	c15Endpoints(c)
	runC15Gaps2(c)
}

// ---- C15.1 who may call the signing primitives; the bundle comes from generateCreationBundle
func c15Callers(c *eng.Ctx) {
	inPki := func(fn *ssa.Function) bool { return eng.InPkg(fn, "pki") }
	inPkiOrCertutil := func(fn *ssa.Function) bool { return eng.InPkg(fn, "pki") || eng.InPkg(fn, "certutil") }
	c.Clause("R1", "C15.1")
	bundlePrims := []string{"certutil.CreateCertificate", "certutil.CreateCertificateWithRandomSource", "certutil.CreateCertificateWithKeyGenerator", "certutil.SignCertificate", "certutil.SignCertificateWithRandomSource"}
	tplPrims := []string{"certutil.CreateCertificateWithTemplate", "certutil.SignCertificateWithTemplate"}
	c.CallerTable("certutil.Create/SignCertificate* (bundle primitives), callers in pki", c.P.FindCalls(mustStatic(c, bundlePrims...), inPki), map[string]string{
		"pki.generateCABundle": "key generation / existing key / external key wrapper of generateCert",
		"pki.signCert":         "CSR signing after generateCreationBundle",
	}, 2)
	c.CallerTable("certutil.*CertificateWithTemplate (CEL primitives), callers in pki", c.P.FindCalls(mustStatic(c, tplPrims...), inPki), map[string]string{
		"pki.generateCELCert": "CEL issue",
		"pki.signCELCert":     "CEL sign",
	}, 2)
	c.CallerTable("certutil.createCertificate", c.P.FindCalls(mustStatic(c, "certutil.createCertificate"), nil), map[string]string{
		"certutil.CreateCertificate":                 "exported wrapper",
		"certutil.CreateCertificateWithRandomSource": "exported wrapper",
		"certutil.CreateCertificateWithKeyGenerator": "exported wrapper",
	}, 3)
	c.CallerTable("certutil.signCertificate", c.P.FindCalls(mustStatic(c, "certutil.signCertificate"), nil), map[string]string{
		"certutil.SignCertificate":                 "exported wrapper",
		"certutil.SignCertificateWithRandomSource": "exported wrapper",
	}, 2)
	c.CallerTable("crypto/x509.CreateCertificate, callers in pki and certutil", c.P.FindCalls(c15std("crypto/x509.CreateCertificate"), inPkiOrCertutil), map[string]string{
		"certutil.createCertificate":              "issue (leaf or self-signed root)",
		"certutil.signCertificate":                "sign a CSR",
		"certutil.createCertificateWithTemplate":  "CEL issue",
		"certutil.signCertificateWithTemplate":    "CEL sign",
		"pki.(*backend).pathIssuerSignSelfIssued": "CA endpoint: re-sign a self-issued CA certificate",
		"pki.getSelfSigned":                       "test helper compiled into the package",
	}, 6)
	c.CallerTable("pki.generateCABundle", c.P.FindCalls(mustStatic(c, "pki.generateCABundle"), nil), map[string]string{"pki.generateCert": "the only issuing wrapper"}, 1)
	c.CallerTable("pki.generateCert", c.P.FindCalls(mustStatic(c, "pki.generateCert"), nil), map[string]string{
		"pki.(*backend).pathIssueSignCert":  "issue/:role",
		"pki.(*backend).pathCAGenerateRoot": "root/generate, root/rotate (CA endpoint)",
	}, 2)
	c.CallerTable("pki.signCert", c.P.FindCalls(mustStatic(c, "pki.signCert"), nil), map[string]string{
		"pki.(*backend).pathIssueSignCert":          "sign/:role, sign-verbatim",
		"pki.(*backend).pathIssuerSignIntermediate": "sign-intermediate (CA endpoint)",
		"pki.issueCertFromCsr":                      "ACME finalize",
	}, 3)
	c.CallerTable("pki.generateCELCert / pki.signCELCert", c.P.FindCalls(mustStatic(c, "pki.generateCELCert", "pki.signCELCert"), nil), map[string]string{
		"pki.(*backend).pathCelIssueSignCert": "cel/issue, cel/sign",
	}, 2)
	c.CallerTable("pki.(*backend).pathIssueSignCert", c.P.FindCalls(mustStatic(c, "pki.(*backend).pathIssueSignCert"), nil), map[string]string{
		"pki.(*backend).pathIssue":        "issue/:role",
		"pki.(*backend).pathSign":         "sign/:role",
		"pki.(*backend).pathSignVerbatim": "sign-verbatim",
	}, 3)
	c.CallerTable("pki.generateCreationBundle", c.P.FindCalls(mustStatic(c, "pki.generateCreationBundle"), nil), map[string]string{
		"pki.generateCert":            "issue",
		"pki.signCert":                "sign",
		"pki.generateIntermediateCSR": "intermediate CSR (no certificate is signed)",
	}, 3)
	// none of the wrappers escapes as a function value
	uses := c.P.FuncValueUses(append(append([]string{"pki.generateCert", "pki.signCert", "pki.generateCABundle", "pki.generateCELCert", "pki.signCELCert", "pki.(*backend).pathIssueSignCert"}, bundlePrims...), tplPrims...)...)
	n := 0
	for _, u := range uses {
		if !inPki(u.Fn) {
			continue
		}
		n++
		c.Violation(eng.TopFunc(u.Fn), "callers{signing wrappers as function values}", u.Fn.Pos(), "a signing wrapper/primitive is taken as a function value: the who-may-call tables no longer bound its callers", nil)
	}
	if n == 0 {
		c.OK(nil, "callers{signing wrappers as function values}", token.NoPos, "no signing wrapper or certutil primitive is used as a function value in package pki")
	}

	// the bundle handed to the primitive
	c.Clause("R5", "C15.1")
	if f := c.Fn("pki.signCert"); f != nil {
		sc := c15Sites(f, `^certutil\.SignCertificate$`)
		if c.Floor(f, "certutil.SignCertificate call", len(sc), 1) {
			for _, s := range sc {
				c15Prov(c, f, "bundle signed by signCert", s.Call, s.Arg(0), `^call:pki\.generateCreationBundle#0$`)
			}
			c.Clause("R2", "C15.1")
			c.Cut(f, "certutil.SignCertificate", c15SiteAts(sc), c15GCallOK(f, `^pki\.generateCreationBundle$`), nil)
		}
	}
	if f := c.Fn("pki.generateCert"); f != nil {
		c.Clause("R5", "C15.1")
		gc := c15Sites(f, `^pki\.generateCABundle$`)
		if c.Floor(f, "generateCABundle call", len(gc), 1) {
			for _, s := range gc {
				c15Prov(c, f, "bundle issued by generateCert", s.Call, s.Arg(2), `^call:pki\.generateCreationBundle#0$`)
			}
			c.Clause("R2", "C15.1")
			c.Cut(f, "generateCABundle", c15SiteAts(gc), c15GCallOK(f, `^pki\.generateCreationBundle$`), nil)
		}
	}
	if f := c.Fn("pki.generateCABundle"); f != nil {
		c.Clause("R5", "C15.1")
		for _, s := range c15Sites(f, `^certutil\.CreateCertificate`) {
			c15Prov(c, f, "bundle handed to certutil", s.Call, s.Arg(0), `^param:data$`)
		}
		// the wrapper does not touch the parameters
		st := eng.Stores(f, `\.Params(\.|$)`)
		if len(st) > 0 {
			c.Violation(f, "bundle untouched by generateCABundle", st[0].Pos(), "generateCABundle modifies the creation parameters after validation: "+eng.InstrStr(st[0]), nil)
		} else {
			c.OK(f, "bundle untouched by generateCABundle", f.Pos(), "no store into the creation parameters")
		}
	}
	// after validation only the tabled CA-only fields are modified
	c.Clause("R6", "C15.1")
	allowedAfter := map[string]bool{"IsCA": true, "UseCSRValues": true, "PermittedDNSDomains": true, "KeyUsage": true, "ExtKeyUsage": true, "URLs": true, "MaxPathLength": true}
	for _, fn := range []string{"pki.generateCert", "pki.signCert"} {
		f := c.P.Func(fn)
		if f == nil {
			continue
		}
		bad := ""
		n := 0
		for _, st := range eng.Stores(f, `\.Params\.\w+$`) {
			fa, ok := st.Addr.(*ssa.FieldAddr)
			if !ok {
				continue
			}
			n++
			if nm := eng.FieldVar(fa).Name(); !allowedAfter[nm] {
				bad = nm
				c.Violation(f, "fields modified after validation", st.Pos(), "the validated bundle's "+nm+" is overwritten after generateCreationBundle: "+eng.InstrStr(st), nil)
			}
		}
		if bad == "" && c.Floor(f, "stores into the bundle parameters", n, 2) {
			c.OK(f, "fields modified after validation", f.Pos(), "only IsCA/UseCSRValues/PermittedDNSDomains/KeyUsage/ExtKeyUsage/URLs/MaxPathLength are written after generateCreationBundle ("+strconv.Itoa(n)+" stores)")
		}
	}
	// the validated name / lifetime fields have one writer in pki
	nw, badW := 0, false
	fields := []string{"Subject", "DNSNames", "EmailAddresses", "IPAddresses", "URIs", "OtherSANs", "NotAfter", "NotBefore", "KeyType", "KeyBits", "ExtKeyUsageOIDs", "PolicyIdentifiers", "BasicConstraintsValidForNonCA"}
	for _, fld := range fields {
		fv := c.P.Field("certutil.CreationParameters." + fld)
		if fv == nil {
			c.Unresolved("certutil.CreationParameters." + fld)
			continue
		}
		n := 0
		for _, w := range c.P.FieldWriters(fv) {
			if !inPki(w.Fn) {
				continue
			}
			n++
			if nm := eng.FuncName(eng.TopFunc(w.Fn)); nm != "pki.generateCreationBundle" {
				badW = true
				c.Violation(eng.TopFunc(w.Fn), "writers{CreationParameters."+fld+"}", w.Store.Pos(), "written outside generateCreationBundle: the value escapes role validation", nil)
			}
		}
		c.Floor(nil, "writers of CreationParameters."+fld+" in pki", n, 1)
		nw += n
	}
	if !badW {
		c.OK(c.P.Func("pki.generateCreationBundle"), "writers{CreationParameters name/lifetime/key fields}", token.NoPos, "only generateCreationBundle writes "+strings.Join(fields, ", ")+" in package pki ("+strconv.Itoa(nw)+" stores)")
	}
}

// ---- C15.2 the CA bit
func c15CABit(c *eng.Ctx) {
	c.Clause("R6", "C15.2")
	if fv := c.P.Field("certutil.CreationParameters.IsCA"); fv == nil {
		c.Unresolved("certutil.CreationParameters.IsCA")
	} else {
		tab := map[string]bool{"pki.generateCert": true, "pki.signCert": true}
		n := 0
		for _, w := range c.P.FieldWriters(fv) {
			n++
			nm := eng.FuncName(eng.TopFunc(w.Fn))
			if !tab[nm] {
				c.Violation(eng.TopFunc(w.Fn), "writers{CreationParameters.IsCA}", w.Store.Pos(), "CreationParameters.IsCA is written outside generateCert/signCert", nil)
				continue
			}
			c.Clause("R5", "C15.2")
			c15Prov(c, w.Fn, "value of Params.IsCA", w.Store, w.Store.Val, `^param:isCA$`)
			c.Clause("R6", "C15.2")
		}
		c.Floor(nil, "writers of CreationParameters.IsCA", n, 2)
	}
	// CA-only overrides lie behind isCA
	c.Clause("R2", "C15.2")
	for _, fn := range []string{"pki.generateCert", "pki.signCert"} {
		f := c.Fn(fn)
		if f == nil {
			continue
		}
		over := instrsOf(eng.Stores(f, `\.Params\.(PermittedDNSDomains|KeyUsage|ExtKeyUsage|URLs|MaxPathLength)$`))
		if c.Floor(f, "CA-only overrides", len(over), 4) {
			c.Cut(f, "override of KeyUsage/ExtKeyUsage/PermittedDNSDomains/URLs/MaxPathLength from request data", over, eng.G(f, `^isCA$`, true), nil)
		}
	}
	// constants at the call sites
	c.Clause("R12", "C15.2")
	wantCA := map[string]string{
		"pki.(*backend).pathIssueSignCert":          "false",
		"pki.issueCertFromCsr":                      "false",
		"pki.(*backend).pathCAGenerateRoot":         "true",
		"pki.(*backend).pathIssuerSignIntermediate": "true",
	}
	idx := map[string]int{"pki.generateCert": 3, "pki.signCert": 3}
	n := 0
	for callee, i := range idx {
		for _, s := range c.P.FindCalls(mustStatic(c, callee), nil) {
			n++
			caller := eng.FuncName(eng.TopFunc(s.Fn))
			got := eng.Expr(s.Call.Common().Args[i])
			site := "const{isCA passed to " + callee + "}"
			if want, ok := wantCA[caller]; ok && got == want {
				c.OK(s.Fn, site, s.Call.Pos(), "isCA = "+got)
			} else {
				c.Violation(s.Fn, site, s.Call.Pos(), "isCA = "+got+" (expected the constant "+wantCA[caller]+"): only root generation and sign-intermediate may produce CA certificates", nil)
			}
		}
	}
	c.Floor(nil, "call sites of generateCert/signCert", n, 5)

	// a leaf issuance always has a signing bundle
	for _, h := range []struct{ fn, fetch string }{
		{"pki.(*backend).pathIssueSignCert", `^pki\.\(\*backend\)\.fetchCaSigningBundle$`},
		{"pki.issueCertFromCsr", `^pki\.\(\*storageContext\)\.fetchCAInfoWithIssuer$`},
	} {
		f := c.Fn(h.fn)
		if f == nil {
			continue
		}
		calls := c15Sites(f, `^pki\.(generateCert|signCert)$`)
		if !c.Floor(f, "generateCert/signCert call", len(calls), 1) {
			continue
		}
		c.Clause("R5", "C15.2")
		for _, s := range calls {
			c15Prov(c, f, "signing bundle of a leaf issuance", s.Call, s.Arg(2), strings.TrimSuffix(strings.Replace(h.fetch, "^", "^call:", 1), "$")+`#0$`)
		}
		c.Clause("R2", "C15.2")
		c.Cut(f, "generateCert/signCert", c15SiteAts(calls), c15GCallOK(f, h.fetch), nil)
	}
	c.Clause("R4", "C15.2")
	for _, fn := range []string{"pki.(*backend).fetchCaSigningBundle", "pki.(*storageContext).fetchCAInfoWithIssuer", "pki.(*storageContext).fetchCAInfoByIssuerId", "pki.(*storageContext).fetchCAInfo"} {
		f := c.Fn(fn)
		if f == nil {
			continue
		}
		errIdx := f.Signature.Results().Len() - 1
		succ := eng.SuccessReturns(f, errIdx)
		if !c.Floor(f, "success returns", len(succ), 1) {
			continue
		}
		bad := false
		for _, r := range succ {
			for _, l := range c15phiLeaves(r.(*ssa.Return).Results[0]) {
				s := eng.Expr(l)
				switch {
				case isAllocOf(l, "certutil.CAInfoBundle"):
				case regexp.MustCompile(`^pki\.\(\*storageContext\)\.(fetchCAInfo|fetchCAInfoWithIssuer|fetchCAInfoByIssuerId)\(\)#0$`).MatchString(s):
				default:
					bad = true
					c.Violation(f, "success returns a signing bundle", r.Pos(), "a nil-error return may carry "+s+" as the CA bundle: a leaf issued with a nil signing bundle is self-signed with IsCA=true", nil)
				}
			}
		}
		if !bad {
			c.OK(f, "success returns a signing bundle", succ[0].Pos(), "every nil-error return carries a freshly built CAInfoBundle or the callee's bundle")
		}
	}

	// certutil: where the template's CA bit can become true
	if f := c.Fn("certutil.createCertificate"); f != nil {
		c15templateCA(c, f, eng.G(f, `^data\.SigningBundle == nil$`, true))
	}
	if f := c.Fn("certutil.signCertificate"); f != nil {
		c15templateCA(c, f, eng.G(f, `^data\.Params\.IsCA$`, true))
		// CSR extensions copied under UseCSRValues never include BasicConstraints
		c.Clause("R2", "C15.2")
		var copies []ssa.Instruction
		for _, a := range eng.Calls(f, `^append$`) {
			for _, v := range c15sliceVals(a.Common().Args[1]) {
				if ok, _, _ := eng.OriginsMatch(v, `data\.CSR\.Extensions`); ok {
					copies = append(copies, a)
				}
			}
		}
		if c.Floor(f, "copy of a CSR extension into the template", len(copies), 1) {
			c.Cut(f, "copy of a CSR extension into the template", copies, eng.GD(f, `Equal\(.*certutil\.ExtensionBasicConstraintsOID\)$`, false), nil)
			c.Cut(f, "copy of a CSR extension into the template", copies, eng.G(f, `^data\.Params\.UseCSRValues$`, true), nil)
		}
	}
}

// c15templateCA: stores of IsCA=true into the x509 template lie behind guard; every other store is false.
// When f itself no longer holds the stores (the block was extracted), the static callees of f in
// the same package that store the template's IsCA are judged instead, each against the read of
// CreationParameters.IsCA inside it (selected by field identity, the helper's names are unknown).
func c15templateCA(c *eng.Ctx, f *ssa.Function, g eng.Guard) {
	c.Clause("R2", "C15.2")
	caStores := func(fn *ssa.Function) (all, trues []ssa.Instruction) {
		for _, st := range eng.Stores(fn, `\.IsCA$`) {
			fa, ok := st.Addr.(*ssa.FieldAddr)
			if !ok || structTypeName(fa.X.Type()) != "crypto/x509.Certificate" {
				continue
			}
			all = append(all, st)
			if eng.Expr(st.Val) != "false" {
				trues = append(trues, st)
			}
		}
		return
	}
	type site struct {
		fn    *ssa.Function
		g     eng.Guard
		trues []ssa.Instruction
	}
	var sites []site
	all, trues := caStores(f)
	n := len(all)
	sites = append(sites, site{f, g, trues})
	if n < 2 {
		isCA := c.P.Field("certutil.CreationParameters.IsCA")
		seen := map[*ssa.Function]bool{f: true}
		for _, cl := range eng.Calls(f, `.`) {
			callee := cl.Common().StaticCallee()
			if callee == nil || seen[callee] || callee.Pkg == nil || callee.Pkg != f.Pkg || len(callee.Blocks) == 0 {
				continue
			}
			seen[callee] = true
			a2, t2 := caStores(callee)
			if len(a2) == 0 {
				continue
			}
			n += len(a2)
			var edges []eng.Edge
			for _, b := range callee.Blocks {
				ifi := eng.IfOf(b)
				if ifi == nil {
					continue
				}
				nc := eng.Normalize(ifi.Cond)
				if ld, ok := nc.Val.(*ssa.UnOp); ok && isCA != nil {
					if fa, ok := ld.X.(*ssa.FieldAddr); ok && eng.FieldVar(fa) == isCA {
						edges = append(edges, eng.BoolEdges(ld, true)...)
					}
				}
			}
			sites = append(sites, site{callee, eng.Guard{Desc: "read of CreationParameters.IsCA is true", Edges: edges}, t2})
		}
	}
	if !c.Floor(f, "stores of the template's IsCA", n, 2) {
		return
	}
	for _, s := range sites {
		if len(s.trues) == 0 {
			if s.fn == f && len(sites) == 1 {
				c.OK(f, "template IsCA", f.Pos(), "the template's IsCA is never set")
			}
			continue
		}
		for _, t := range s.trues {
			if v := eng.Expr(t.(*ssa.Store).Val); v != "true" {
				c.Violation(s.fn, "template IsCA", t.Pos(), "the template's IsCA is computed ("+v+") instead of being the constant true behind the CA condition", nil)
			}
		}
		c.Cut(s.fn, "template.IsCA = true", s.trues, s.g, nil)
	}
}
