package props

import (
	"go/token"
	"go/types"
	"sort"
	"strings"

	"golang.org/x/tools/go/ssa"

	"obsa/eng"
)

// runC08Gaps2: second-tier mechanisms of C08 (constructors, flags Commit
// consults, private copies, the record kept for repeated listings, caps of the
// node-local trim bounds, ownership of the LRU).
func runC08Gaps2(c *eng.Ctx) {
	c08g2Begin(c)
	c08g2Written(c)
	c08g2InmemCopy(c)
	c08g2InmemList(c)
	c08g2ListRecord(c)
	c08g2Caps(c, "C08.7")
	raftListRecordsKept(c, "C08.2")
	c08g2Registered(c)
	c08g2TrackPairing(c)
	c08g2CacheOwner(c)
	cacheLruUnderKeyLock(c, "C08.5")
	c09g2TrackerBookkeeping(c, "C08.7")
	raftTrimBoundSkip(c, "C08.7")
}

// c08g2FailEdges: the non-nil-error edges of every call of f (a failed
// inner call is returned as an error, never as success).
func c08g2FailEdges(f *ssa.Function) []eng.Edge {
	var out []eng.Edge
	for _, cl := range eng.Calls(f, `.`) {
		out = append(out, eng.CallFailEdges(cl)...)
	}
	return out
}

// c08g2Begin (C08.8): 'read-only transactions refuse writes' starts at the
// constructor. Every implementation of physical.Transactional /
// logical.Transactional is tabled as a leaf (builds the transaction itself) or
// a wrapper (asks the wrapped backend). A wrapper's BeginReadOnlyTx must open a
// read-only transaction below (wrappers have no read-only check of their own);
// a leaf's BeginReadOnlyTx must build a transaction whose write flag refuses.
func c08g2Begin(c *eng.Ctx) {
	const (
		wrapper  = "wrapper"
		leafFlag = "leaf: constructor flag"
		leafSet  = "leaf: flag cleared on the transaction BeginTx built"
		rpc      = "rpc stub (out of process, not decided)"
	)
	known := map[string]string{
		"physical.transactionalCache":               wrapper,
		"physical.transactionalStorageEncoding":     wrapper,
		"physical.transactionalErrorInjector":       wrapper,
		"physical.transactionalWriteNotifier":       wrapper,
		"logical.TransactionalLogicalStorage":       wrapper,
		"logical.transactionalStorageView":          wrapper,
		"keysutil.transactionalEncryptedKeyStorage": wrapper,
		"barrier.transactionalView":                 wrapper,
		"barrier.TransactionalAESGCMBarrier":        wrapper,
		"raft.RaftBackend":                          leafFlag,
		"postgresql.PostgreSQLBackend":              leafFlag,
		"inmem.TransactionalInmemBackend":           leafSet,
	}
	// the field of the transaction that decides whether writes are accepted, and its value when they are
	type flag struct {
		ctor  string
		field string
		rwVal string
	}
	flags := map[string]flag{
		"raft.RaftBackend":                {"raft.(*RaftBackend).newTransaction", "writable", "true"},
		"postgresql.PostgreSQLBackend":    {"postgresql.(*PostgreSQLBackend).newTransaction", "readOnly", "false"},
		"inmem.TransactionalInmemBackend": {"", "writable", "true"},
	}
	var ifaces []*types.Interface
	for _, n := range []string{"physical.Transactional", "logical.Transactional"} {
		nt := c.P.NamedType(n)
		if nt == nil {
			c.Unresolved(n)
			continue
		}
		if it, ok := nt.Underlying().(*types.Interface); ok {
			ifaces = append(ifaces, it)
		}
	}
	if len(ifaces) == 0 {
		return
	}
	var impls []string
	for _, pk := range c.P.Pkgs {
		sc := pk.Types.Scope()
		for _, n := range sc.Names() {
			tn, ok := sc.Lookup(n).(*types.TypeName)
			if !ok {
				continue
			}
			nt, ok := tn.Type().(*types.Named)
			if !ok {
				continue
			}
			if _, isIface := nt.Underlying().(*types.Interface); isIface {
				continue
			}
			for _, it := range ifaces {
				if types.Implements(types.NewPointer(nt), it) || types.Implements(nt, it) {
					impls = append(impls, eng.Short(pk.PkgPath+"."+n))
					break
				}
			}
		}
	}
	sort.Strings(impls)
	n := 0
	for _, im := range impls {
		if strings.Contains(im, "testhelpers") || strings.Contains(im, "testing") || strings.HasPrefix(im, "pb.") {
			continue
		}
		dot := strings.LastIndex(im, ".")
		ro := c.P.Func(im[:dot] + ".(*" + im[dot+1:] + ").BeginReadOnlyTx")
		rw := c.P.Func(im[:dot] + ".(*" + im[dot+1:] + ").BeginTx")
		if ro == nil || rw == nil {
			c.Notes = append(c.Notes, im+": BeginReadOnlyTx/BeginTx promoted from an embedded value")
			continue
		}
		kind, ok := known[im]
		c.Clause("R8", "C08.8")
		if !ok {
			if strings.Contains(im, "GRPC") || strings.HasPrefix(im, "plugin.") {
				c.OK(ro, "family{Transactional} "+im, ro.Pos(), rpc)
				continue
			}
			c.Violation(ro, "family{Transactional} "+im, ro.Pos(), "new implementation of BeginReadOnlyTx/BeginTx outside the reviewed family: whether its read-only transactions refuse writes has not been checked", nil)
			continue
		}
		n++
		c.OK(ro, "family{Transactional} "+im, ro.Pos(), "reviewed implementation: "+kind)
		site := "read-only begin opens a read-only transaction"
		switch kind {
		case wrapper:
			c.Clause("R2", "C08.8")
			var inner, rwCalls []ssa.CallInstruction
			for _, cl := range eng.Calls(ro, `\.BeginReadOnlyTx$`) {
				if cl.Common().StaticCallee() != ro {
					inner = append(inner, cl)
				}
			}
			for _, cl := range eng.Calls(ro, `\.BeginTx$`) {
				rwCalls = append(rwCalls, cl)
			}
			switch {
			case len(rwCalls) > 0:
				c.Violation(ro, site, rwCalls[0].Pos(), "the wrapper's BeginReadOnlyTx opens a read-write transaction on the wrapped backend ("+eng.CalleeName(rwCalls[0].Common())+"): the wrapper has no read-only check of its own, so a read-only transaction accepts writes", nil)
			case len(inner) == 0:
				c.Violation(ro, site, ro.Pos(), "the wrapper's BeginReadOnlyTx no longer asks the wrapped backend for a read-only transaction", nil)
			default:
				var okEdges []eng.Edge
				for _, cl := range inner {
					okEdges = append(okEdges, eng.CallOKEdges(cl)...)
				}
				succ := eng.SuccessReturns(ro, 1)
				var own []ssa.Instruction
				for _, r := range succ {
					fwd := false
					for _, cl := range inner {
						if v, isV := cl.(ssa.Value); isV {
							for _, o := range eng.Origins(r.(*ssa.Return).Results[1]) {
								if ex, isEx := o.Val.(*ssa.Extract); isEx && ex.Tuple == v {
									fwd = true
								}
							}
						}
					}
					if !fwd {
						own = append(own, r)
					}
				}
				if h := eng.Reach(eng.Query{Fn: ro, Blocked: okEdges, Target: eng.IsTarget(own)}); h != nil {
					c.Violation(ro, site, h.Instr.Pos(), "BeginReadOnlyTx can hand out a transaction without the wrapped backend's BeginReadOnlyTx having succeeded", h.Witness)
				} else {
					c.OK(ro, site, inner[0].Pos(), "every success crosses the success edge of the wrapped backend's BeginReadOnlyTx; BeginTx is not called")
				}
			}
		case leafFlag:
			c.Clause("R5", "C08.8")
			fl := flags[im]
			ctor := c.Fn(fl.ctor)
			if ctor == nil {
				continue
			}
			// which parameter of the constructor becomes the write flag
			pidx := -1
			for _, st := range eng.Stores(ctor, `^&complit\.`+fl.field+`$`) {
				for i, q := range ctor.Params {
					if ok, _, _ := eng.OriginsMatch(st.Val, `^param:`+reQuote(eng.VarName(q))+`$`); ok {
						pidx = i
					}
				}
			}
			if pidx < 0 {
				c.Undecided(ctor, "write flag of the transaction", ctor.Pos(), "the constructor no longer stores one of its parameters into "+fl.field)
				continue
			}
			for _, pr := range []struct {
				f    *ssa.Function
				want string
				what string
			}{{ro, c08g2Neg(fl.rwVal), "BeginReadOnlyTx"}, {rw, fl.rwVal, "BeginTx"}} {
				cs := eng.Calls(pr.f, `^`+reQuote(fl.ctor)+`$`)
				if !c.Floor(pr.f, "constructor call", len(cs), 1) {
					continue
				}
				for _, cl := range cs {
					got := eng.Expr(cl.Common().Args[pidx])
					s := site
					if pr.want == fl.rwVal {
						s = "read-write begin opens a writable transaction"
					}
					if got == pr.want {
						c.OK(pr.f, s, cl.Pos(), pr.what+" passes "+fl.field+"="+got)
					} else {
						c.Violation(pr.f, s, cl.Pos(), pr.what+" builds its transaction with "+fl.field+"="+got+", expected "+pr.want+": a read-only transaction must refuse writes (and a read-write one accept them)", nil)
					}
				}
			}
		case leafSet:
			c.Clause("R2", "C08.8")
			fl := flags[im]
			var clr []ssa.Instruction
			for _, st := range eng.Instrs(ro, func(in ssa.Instruction) bool {
				st, isSt := in.(*ssa.Store)
				if !isSt {
					return false
				}
				fa, isFa := st.Addr.(*ssa.FieldAddr)
				return isFa && eng.FieldVar(fa) != nil && eng.FieldVar(fa).Name() == fl.field && eng.Expr(st.Val) == c08g2Neg(fl.rwVal)
			}) {
				clr = append(clr, st)
			}
			succ := eng.SuccessReturns(ro, 1)
			if !c.Floor(ro, "success returns", len(succ), 1) {
				continue
			}
			if h := eng.Reach(eng.Query{Fn: ro, Barriers: clr, Blocked: c08g2FailEdges(ro), Target: eng.IsTarget(succ)}); h != nil {
				c.Violation(ro, site, h.Instr.Pos(), "BeginReadOnlyTx can hand out the transaction BeginTx built without setting "+fl.field+"="+c08g2Neg(fl.rwVal)+": the read-only transaction accepts writes", h.Witness)
			} else {
				c.OK(ro, site, clr[0].Pos(), "every success passes "+fl.field+" = "+c08g2Neg(fl.rwVal))
			}
		}
	}
	c.Clause("R8", "C08.8")
	c.Floor(nil, "reviewed BeginReadOnlyTx implementations", n, 10)
}

func c08g2Neg(s string) string {
	if s == "true" {
		return "false"
	}
	return "true"
}

// c08g2Written (C08.9): Commit of every leaf ships/replays nothing when the
// transaction's 'written' flag is unset and reports success. So a write that
// is accepted must set the flag, or a committed write is silently lost.
func c08g2Written(c *eng.Ctx) {
	for _, lf := range []struct{ typ, field string }{
		{"raft.(*RaftTransaction)", "haveWritten"},
		{"inmem.(*InmemBackendTransaction)", "written"},
		{"postgresql.(*PostgreSQLBackendTransaction)", "haveWritten"},
	} {
		// the flag is what Commit consults
		if cm := c.Fn(lf.typ + ".Commit"); cm != nil {
			c.Clause("R8", "C08.9")
			if len(eng.CondEdges(cm, `^[a-z]+\.`+lf.field+`$`, false)) == 0 {
				c.Undecided(cm, "Commit consults the written flag", cm.Pos(), "no branch of Commit on "+lf.field+": the table of this clause is out of date")
			} else {
				c.OK(cm, "Commit consults the written flag", cm.Pos(), "Commit branches on "+lf.field)
			}
		}
		for _, m := range []string{"Put", "Delete"} {
			f := c.Fn(lf.typ + "." + m)
			if f == nil {
				continue
			}
			c.Clause("R2", "C08.9")
			var marks []ssa.Instruction
			for _, in := range eng.Instrs(f, func(in ssa.Instruction) bool {
				st, ok := in.(*ssa.Store)
				if !ok {
					return false
				}
				fa, ok := st.Addr.(*ssa.FieldAddr)
				return ok && eng.FieldVar(fa) != nil && eng.FieldVar(fa).Name() == lf.field && eng.Expr(st.Val) == "true"
			}) {
				marks = append(marks, in)
			}
			succ := eng.SuccessReturns(f, 0)
			site := "accepted write marks the transaction written"
			if len(marks) == 0 {
				c.Violation(f, site, f.Pos(), m+" no longer sets "+lf.field+": Commit takes its 'nothing written' exit and reports success although the write is never shipped/replayed", nil)
				continue
			}
			if !c.Floor(f, "success returns", len(succ), 1) {
				continue
			}
			if h := eng.Reach(eng.Query{Fn: f, Barriers: marks, Blocked: c08g2FailEdges(f), Target: eng.IsTarget(succ)}); h != nil {
				c.Violation(f, site, h.Instr.Pos(), m+" can succeed without setting "+lf.field+": Commit then skips the write and reports success", h.Witness)
			} else {
				c.OK(f, site, marks[0].Pos(), "every success return passes "+lf.field+" = true")
			}
		}
	}
}

// c08g2InmemCopy (C08.10): an in-memory transaction works on a private copy of
// the parent's tree, taken under the parent's lock; its writes reach the
// parent only through Commit's replay.
func c08g2InmemCopy(c *eng.Ctx) {
	f := c.Fn("inmem.(*TransactionalInmemBackend).BeginTx")
	if f == nil {
		return
	}
	c.Clause("R5", "C08.10")
	roots := eng.Stores(f, `^&complit\.root$`)
	if !c.Floor(f, "root of the transaction's tree", len(roots), 1) {
		return
	}
	held := eng.MustHold(f, eng.LockCall(`^i\.InmemBackend\.RWMutex$`, "Lock", "RLock"), eng.LockCall(`^i\.InmemBackend\.RWMutex$`, "Unlock", "RUnlock"))
	for _, st := range roots {
		site := "transaction tree is a private copy"
		nf, isCall := st.Val.(*ssa.Call)
		if !isCall || !strings.HasSuffix(eng.CalleeName(nf.Common()), "go-radix.NewFromMap") {
			c.Violation(f, site, st.Pos(), "the transaction's tree is "+eng.ExprDeep(st.Val)+", not a fresh tree built from a copy of the parent's entries: uncommitted writes would be visible outside the transaction and survive rollback", nil)
			continue
		}
		tm, isTM := nf.Call.Args[0].(*ssa.Call)
		if !isTM || !strings.HasSuffix(eng.CalleeName(tm.Common()), "go-radix.Tree).ToMap") || eng.ExprDeep(tm.Call.Args[0]) != "i.InmemBackend.root" {
			c.Violation(f, site, st.Pos(), "the fresh tree is built from "+eng.ExprDeep(nf.Call.Args[0])+", not from the parent's entries (i.root.ToMap())", nil)
			continue
		}
		c.OK(f, site, st.Pos(), "radix.NewFromMap(i.root.ToMap())")
		c.Clause("R9", "C08.10")
		if held(tm) {
			c.OK(f, "locked{copy of the parent tree}", tm.Pos(), "copy taken with the parent's lock held")
		} else {
			c.Violation(f, "locked{copy of the parent tree}", tm.Pos(), "the parent's tree is copied without the parent's lock: a concurrent commit can be half visible in the copy", nil)
		}
		c.Clause("R5", "C08.10")
	}
	// the parent's tree is written by the plain operations and by Commit's replay only
	c.Clause("R6", "C08.10")
	if fv := c.P.Field("inmem.InmemBackend.root"); fv != nil {
		for _, w := range c.P.FieldWriters(fv) {
			switch eng.FuncName(eng.TopFunc(w.Fn)) {
			case "inmem.NewDirectInmem", "inmem.(*TransactionalInmemBackend).BeginTx", "inmem.(*InmemBackendTransaction).Commit":
				c.OK(w.Fn, "writer{InmemBackend.root}", w.Store.Pos(), "tabled writer")
			default:
				c.Violation(w.Fn, "writer{InmemBackend.root}", w.Store.Pos(), "unexpected writer of the tree pointer", nil)
			}
		}
	} else {
		c.Unresolved("inmem.InmemBackend.root")
	}
}

// c08g2InmemList (C08.4): the unpaginated List of an in-memory transaction has
// its own body (it does not delegate to ListPage): it must record what it
// observed like Get and ListPage do.
func c08g2InmemList(c *eng.Ctx) {
	f := c.P.Func("inmem.(*InmemBackendTransaction).List")
	if f == nil {
		return
	}
	c.Clause("R2", "C08.4")
	if len(eng.Calls(f, `InmemBackendTransaction\)\.ListPage$`)) > 0 {
		c.OK(f, "observation recorded", f.Pos(), "delegates to ListPage")
		return
	}
	succ := eng.SuccessReturns(f, 1)
	rec := c08InmemRecordSites(c, f)
	if len(rec) == 0 {
		if len(eng.Calls(f, `^inmem\.`)) > 0 {
			c.Undecided(f, "observation recorded", f.Pos(), "no append to the transaction's operations in List or in a helper it calls on every path: moved? the rule cannot be evaluated")
		} else {
			c.Violation(f, "observation recorded", f.Pos(), "the transaction's List neither delegates to ListPage nor appends to i.operations: the listing is not verified at commit", nil)
		}
		return
	}
	blocked := append(c08g2FailEdges(f), eng.CondEdges(f, `^i\.writable$`, false)...)
	if h := eng.Reach(eng.Query{Fn: f, Barriers: rec, Blocked: blocked, Target: eng.IsTarget(succ)}); h != nil {
		c.Violation(f, "observation recorded", h.Instr.Pos(), "a writable in-memory transaction can return a List result without recording it for verification at commit", h.Witness)
	} else {
		c.OK(f, "observation recorded", rec[0].Pos(), "every success return records the observation")
	}
}

// c08g2ListRecord (C08.2): one verification entry is kept per (prefix, after).
// When the same listing is repeated the kept entry may only be replaced by one
// with a wider replay window; otherwise the part of the prefix the transaction
// observed beyond the smaller window is not verified at commit.
func c08g2ListRecord(c *eng.Ctx) {
	f := c.Fn("raft.(*RaftTransaction).ListPage")
	if f == nil {
		return
	}
	c.Clause("R2", "C08.2")
	var recs, drops []ssa.Instruction
	for _, in := range eng.Instrs(f, func(in ssa.Instruction) bool { _, ok := in.(*ssa.MapUpdate); return ok }) {
		mu := in.(*ssa.MapUpdate)
		if strings.HasPrefix(eng.Expr(mu.Map), "t.lists") && strings.HasSuffix(mu.Value.Type().String(), "LogOperation") {
			recs = append(recs, in)
		}
	}
	for _, d := range eng.Calls(f, `^delete$`) {
		if strings.HasPrefix(eng.Expr(d.Common().Args[0]), "t.lists") {
			drops = append(drops, d)
		}
	}
	if !c.Floor(f, "verification entry stored into t.lists", len(recs), 1) {
		return
	}
	const pat = `^φexistingLimit\{[^}]*\} < \(?φverifyLimit\{`
	wider := eng.G(f, pat, true)
	keep := eng.G(f, pat, false)
	site := "kept list verification replaced only by a wider one"
	if len(wider.Edges) == 0 {
		c.Violation(f, site, f.Pos(), "ListPage no longer compares the window of the kept verification entry with the new one as 'kept < new': "+wider.Desc+" absent", nil)
		return
	}
	succ := eng.SuccessReturns(f, 1)
	if h := eng.Reach(eng.Query{Fn: f, Barriers: recs, Blocked: keep.Edges, Target: eng.IsTarget(succ)}); h != nil {
		c.Violation(f, site, h.Instr.Pos(), "a listing can be returned without its verification entry being stored although the kept entry's window is not at least as wide", h.Witness)
	} else {
		c.OK(f, site, recs[0].Pos(), "a listing is returned unrecorded only when the kept entry's window is at least as wide")
	}
	if len(drops) > 0 {
		c.Cut(f, "kept list verification dropped", drops, wider, nil)
	}
}

// c08g2Caps (C08.7): a node-local trim bound (Rollback, the leak cleanup, the
// bound applyLog ships) is the minimum of the lowest active start index and
// the state machine's index: with no open transaction the former is MaxUint64,
// and a batch being applied concurrently has recorded writes above the state
// machine's index which a transaction started before that batch still needs.
func c08g2Caps(c *eng.Ctx, clause string) {
	c.Clause("R5", clause)
	n := 0
	// the state machine's index: fsm.LatestState().Index, read directly or returned (on every path) by
	// a function literal / function of the package that is called for it
	var isFsmIndex func(v ssa.Value, depth int) bool
	isFsmIndex = func(v ssa.Value, depth int) bool {
		if s := eng.ExprDeep(v); strings.Contains(s, "FSM).LatestState(") && strings.HasSuffix(s, "#0.Index") {
			return true
		}
		cl, ok := v.(*ssa.Call)
		if !ok || depth == 0 || cl.Call.IsInvoke() {
			return false
		}
		g, _ := nfFuncValue(cl.Call.Value)
		if g == nil || len(g.Blocks) == 0 || !eng.InPkg(eng.TopFunc(g), "raft") {
			return false
		}
		n := 0
		for _, r := range eng.Returns(g) {
			if r.Block().Comment == "recover" {
				continue
			}
			n++
			if len(r.Results) != 1 || !isFsmIndex(r.Results[0], depth-1) {
				return false
			}
		}
		return n > 0
	}
	check := func(fn *ssa.Function, at ssa.Instruction, v ssa.Value, what string) {
		n++
		site := "cap{" + what + "}"
		var bad []string
		for _, r := range eng.Roots(v, nil) {
			cl, ok := r.(*ssa.Call)
			capped := false
			if ok {
				if b, isB := cl.Call.Value.(*ssa.Builtin); isB && b.Name() == "min" {
					for _, a := range cl.Call.Args {
						if isFsmIndex(a, 1) {
							capped = true
						}
					}
				}
			}
			if !capped {
				bad = append(bad, eng.ExprDeep(r))
			}
		}
		if len(bad) > 0 {
			c.Violation(fn, site, at.Pos(), "the trim bound can be "+strings.Join(bad, " / ")+", which is not capped by the state machine's index (min(…, fsm.LatestState().Index)): with no open transaction it is MaxUint64 and the record of a batch in flight is dropped", nil)
		} else {
			c.OK(fn, site, at.Pos(), "min(lowest active start index, state machine index)")
		}
	}
	for _, s := range c.P.FindCalls(mustStatic(c, "raft.(*fsmTxnCommitIndexTracker).clearOldEntries"), nil) {
		if eng.FuncName(eng.TopFunc(s.Fn)) == "raft.(*FSM).ApplyBatch" {
			continue // replicated bound (capped where it was shipped)
		}
		args := nfCallOf(s.Call).Args
		check(s.Fn, s.Call, args[len(args)-1], "argument of clearOldEntries")
	}
	if f := c.Fn("raft.(*RaftBackend).applyLog"); f != nil {
		fv := c.P.Field("raft.LogData.LowestActiveIndex")
		isBoundStore := func(in ssa.Instruction) bool {
			st, ok := in.(*ssa.Store)
			if !ok {
				return false
			}
			fa, ok := st.Addr.(*ssa.FieldAddr)
			return ok && fv != nil && eng.FieldVar(fa) == fv
		}
		var stores []ssa.Instruction
		for _, in := range eng.Instrs(f, isBoundStore) {
			stores = append(stores, in)
			check(f, in, in.(*ssa.Store).Val, "LogData.LowestActiveIndex shipped by applyLog")
		}
		// ... and the cap is unconditional: whatever the caller put into the entry, the entry is
		// serialised for raft only after applyLog itself stored a (capped, see above) bound into it.
		// A bound a caller pre-computed (a transaction's commit) is MaxUint64 when that transaction is
		// the only open one: shipped as it is, every replica drops its whole record.
		c.Clause("R2", clause)
		barriers := append([]ssa.Instruction{}, stores...)
		// one level of helper: a function of the package every normal return of which lies behind such a store
		for _, cl := range eng.Calls(f, `^raft\.`) {
			g := cl.Common().StaticCallee()
			if g == nil || g == f || len(g.Blocks) == 0 || !eng.InPkg(g, "raft") {
				continue
			}
			gs := eng.Instrs(g, isBoundStore)
			if len(gs) == 0 {
				continue
			}
			if eng.Reach(eng.Query{Fn: g, Barriers: gs, Target: nfIsNormalReturn}) == nil {
				barriers = append(barriers, cl)
				for _, in := range gs {
					check(g, in, in.(*ssa.Store).Val, "LogData.LowestActiveIndex shipped by applyLog")
				}
			}
		}
		ship := instrsOf(eng.Calls(f, `protobuf/proto\.Marshal$|hashicorp/raft\.Raft\)\.(Apply|ApplyLog)$|go-raftchunking\.ChunkingApply$`))
		site := "entry shipped only with the bound applyLog capped"
		if c.Floor(f, "stores of the shipped LowestActiveIndex", len(barriers), 1) && c.Floor(f, "serialisation / raft apply of the entry", len(ship), 2) {
			if h := eng.Reach(eng.Query{Fn: f, Barriers: barriers, Target: eng.IsTarget(ship)}); h != nil {
				c.Violation(f, site, h.Instr.Pos(), "the log entry can be serialised and handed to raft without applyLog having stored the capped bound into it: a bound the caller pre-computed is shipped uncapped (MaxUint64 when the committing transaction is the only open one) and every replica drops its whole record of recent writes", h.Witness)
			} else {
				c.OK(f, site, stores[0].Pos(), "every path to proto.Marshal / raft.Apply passes the store of min(…, state machine index)")
			}
		}
		c.Clause("R5", clause)
	}
	c.Floor(nil, "node-local trim bounds", n, 3)
}

// raftListRecordsKept (R2/R6, shared by C08.2 and C13.2): a raft transaction
// keeps one verification entry per listed (prefix, after) page in
// t.lists[prefix][after]; all of them are shipped at commit. The per-prefix
// map is (re)created only when there is none for the prefix yet, the per-page
// map only when there is none for the page yet - a fresh map anywhere else
// drops the entries of pages listed earlier, which are then not verified.
func raftListRecordsKept(c *eng.Ctx, clause string) {
	f := c.Fn("raft.(*RaftTransaction).ListPage")
	fv := c.P.Field("raft.RaftTransaction.lists")
	if f == nil {
		return
	}
	if fv == nil {
		c.Unresolved("raft.RaftTransaction.lists")
		return
	}
	isOuter := func(v ssa.Value) bool { // the value of t.lists
		ld, ok := v.(*ssa.UnOp)
		if !ok || ld.Op != token.MUL {
			return false
		}
		fa, ok := ld.X.(*ssa.FieldAddr)
		return ok && eng.FieldVar(fa) == fv
	}
	isInner := func(v ssa.Value) bool { // t.lists[x]
		lk, ok := v.(*ssa.Lookup)
		return ok && isOuter(lk.X)
	}
	isPage := func(v ssa.Value) bool { // t.lists[x][y]
		lk, ok := v.(*ssa.Lookup)
		if !ok {
			return false
		}
		x := lk.X
		if ex, isEx := x.(*ssa.Extract); isEx && ex.Index == 0 {
			x = ex.Tuple
		}
		return isInner(x)
	}
	// edges on which a lookup selected by `which` found nothing (comma-ok false, or compared equal to nil)
	missEdges := func(g *ssa.Function, which func(ssa.Value) bool) []eng.Edge {
		var out []eng.Edge
		for _, b := range g.Blocks {
			ifi := eng.IfOf(b)
			if ifi == nil {
				continue
			}
			v := eng.Normalize(ifi.Cond).Val
			if ex, ok := v.(*ssa.Extract); ok && ex.Index == 1 && which(ex.Tuple) {
				out = append(out, eng.BoolEdges(v, false)...)
				continue
			}
			if bo, ok := v.(*ssa.BinOp); ok && (bo.Op == token.EQL || bo.Op == token.NEQ) {
				for _, side := range []ssa.Value{bo.X, bo.Y} {
					if which(side) {
						out = append(out, eng.ValueNilEdges(side, true)...)
					}
				}
			}
		}
		return out
	}
	isFresh := func(v ssa.Value) bool { _, ok := v.(*ssa.MakeMap); return ok }
	var newPrefix, newPage []ssa.Instruction
	for _, in := range eng.Instrs(f, func(in ssa.Instruction) bool { _, ok := in.(*ssa.MapUpdate); return ok }) {
		mu := in.(*ssa.MapUpdate)
		switch {
		case isOuter(mu.Map):
			newPrefix = append(newPrefix, in) // any assignment of t.lists[prefix] replaces the pages kept for it
		case isInner(mu.Map) && isFresh(mu.Value):
			newPage = append(newPage, in)
		}
	}
	c.Clause("R2", clause)
	noPrefix := eng.Guard{Desc: "no map kept for the prefix yet (lookup of t.lists[prefix] missed)", Edges: missEdges(f, isInner)}
	noPage := eng.Guard{Desc: "no map kept for the page yet (lookup of t.lists[prefix][after] missed)", Edges: missEdges(f, isPage)}
	if c.Floor(f, "creation of the per-prefix map of kept list verifications", len(newPrefix), 1) {
		c.Cut(f, "kept list verifications of a prefix replaced by a fresh map", newPrefix, noPrefix, nil)
	}
	if c.Floor(f, "creation of the per-page map of kept list verifications", len(newPage), 1) {
		c.Cut(f, "kept list verification of a page replaced by a fresh map", newPage, eng.Or(noPrefix, noPage), nil)
	}
	// who else touches the record
	c.Clause("R6", clause)
	for _, w := range c.P.FieldWriters(fv) {
		switch n := eng.FuncName(eng.TopFunc(w.Fn)); n {
		case "raft.(*RaftBackend).newTransaction", "raft.(*RaftTransaction).Commit", "raft.(*RaftTransaction).Rollback":
			c.OK(w.Fn, "writer{RaftTransaction.lists}", w.Store.Pos(), "created with the transaction / cleared when it finished")
		default:
			c.Violation(w.Fn, "writer{RaftTransaction.lists}", w.Store.Pos(), n+" replaces the transaction's record of listings", nil)
		}
	}
	nUpd := 0
	for _, g := range c.P.Funcs {
		if !eng.InPkg(g, "raft") {
			continue
		}
		for _, in := range eng.Instrs(g, func(in ssa.Instruction) bool {
			switch x := in.(type) {
			case *ssa.MapUpdate:
				return isOuter(x.Map) || isInner(x.Map)
			case ssa.CallInstruction:
				if bi, ok := x.Common().Value.(*ssa.Builtin); ok && (bi.Name() == "delete" || bi.Name() == "clear") && len(x.Common().Args) > 0 {
					return isOuter(x.Common().Args[0]) || isInner(x.Common().Args[0])
				}
			}
			return false
		}) {
			nUpd++
			if eng.TopFunc(g) == f {
				c.OK(g, "mapwriter{RaftTransaction.lists}", in.Pos(), "ListPage keeps the record")
			} else {
				c.Violation(g, "mapwriter{RaftTransaction.lists}", in.Pos(), "the per-prefix / per-page maps of kept list verifications are modified outside ListPage", nil)
			}
		}
	}
	c.Floor(nil, "updates of the per-prefix / per-page maps", nUpd, 3)
}

// c08g2Registered (C08.7): bounds are computed from the registered start
// indexes, so a writable transaction is registered before it is handed out.
func c08g2Registered(c *eng.Ctx) {
	f := c.Fn("raft.(*RaftBackend).newTransaction")
	if f == nil {
		return
	}
	c.Clause("R2", "C08.7")
	reg := instrsOf(eng.Calls(f, `fsmTxnCommitIndexTracker\)\.trackTransaction$`))
	succ := eng.SuccessReturns(f, 1)
	if !c.Floor(f, "trackTransaction", len(reg), 1) || !c.Floor(f, "success returns", len(succ), 1) {
		return
	}
	ro := eng.CondEdges(f, `^writable$`, false)
	site := "writable transaction registered with the tracker"
	if h := eng.Reach(eng.Query{Fn: f, Barriers: reg, Blocked: ro, Target: eng.IsTarget(succ)}); h != nil {
		c.Violation(f, site, h.Instr.Pos(), "a writable transaction can be handed out without its start index being registered (trackTransaction): trim bounds computed meanwhile ignore it", h.Witness)
	} else {
		c.OK(f, site, reg[0].Pos(), "every success return with writable=true passes trackTransaction")
	}
}

// c08g2CacheOwner (C08.5): the LRU and the lock table of a cache are set when
// the cache is constructed and never re-pointed: a transaction's private cache
// must not come to share the LRU of the cache it was started from.
func c08g2CacheOwner(c *eng.Ctx) {
	c.Clause("R6", "C08.5")
	for _, fld := range []string{"physical.cache.lru", "physical.cache.locks"} {
		fv := c.P.Field(fld)
		if fv == nil {
			c.Unresolved(fld)
			continue
		}
		ws := c.P.FieldWriters(fv)
		for _, w := range ws {
			if n := eng.FuncName(eng.TopFunc(w.Fn)); n == "physical.newCache" {
				c.OK(w.Fn, "writer{"+fld+"}", w.Store.Pos(), "set by the constructor")
			} else {
				c.Violation(w.Fn, "writer{"+fld+"}", w.Store.Pos(), n+" re-points "+fld+" of an existing cache: a transaction's private cache sharing the LRU of its parent makes uncommitted writes visible and lets reads bypass the transaction", nil)
			}
		}
		c.Floor(nil, "writers of "+fld, len(ws), 1)
	}
}

// cacheLruUnderKeyLock (R9, shared by C08.5 and C13.5): the LRU of a physical
// cache is mutated only while the per-key lock of the SAME cache for the SAME
// key is held - the write lock for a removal, the write or read lock for an
// insertion (a plain Get holds the read lock across miss -> backend read ->
// insert, so a removal that does not take the write lock can slip in between
// and the reader re-installs the old value). Purge needs every lock of the
// table. A mutation with no such lock is a violation, not a vacuous pass.
func cacheLruUnderKeyLock(c *eng.Ctx, clause string) {
	const lruPat = `TwoQueueCache\[string, \*physical\.Entry\]\)\.(Add|Remove|Purge)$`
	nRemove, nAdd, nPurge := 0, 0, 0
	var fns []*ssa.Function
	for _, f := range c.P.Funcs {
		if eng.InPkg(f, "physical") && len(eng.Calls(f, lruPat)) > 0 {
			fns = append(fns, f)
		}
	}
	sort.Slice(fns, func(i, j int) bool { return fns[i].String() < fns[j].String() })
	// the LockForKey call a mutex operand belongs to
	lockForKeyOf := func(recv ssa.Value) *ssa.Call {
		for i := 0; i < 4 && recv != nil; i++ {
			switch x := recv.(type) {
			case *ssa.FieldAddr:
				recv = x.X
			case *ssa.Call:
				if strings.HasPrefix(eng.CalleeName(x.Common()), "locksutil.LockForKey") {
					return x
				}
				return nil
			default:
				return nil
			}
		}
		return nil
	}
	for _, f := range fns {
		for _, mu := range eng.Calls(f, lruPat) {
			c.Clause("R9", clause)
			a := mu.Common().Args
			op := mu.Common().StaticCallee().Name()
			owner := strings.TrimSuffix(c08g2Ident(a[0]), ".lru")
			if op == "Purge" {
				nPurge++
				var all []ssa.Instruction
				for _, lk := range eng.Calls(f, `^sync\.\(\*RWMutex\)\.Lock$`) {
					if r := strings.ReplaceAll(eng.ExprDeep(lk.Common().Args[0]), "^", ""); strings.HasPrefix(r, owner+".locks[") && strings.Contains(r, "rangeindex") {
						all = append(all, lk)
					}
				}
				site := "purge of the LRU under every per-key lock"
				// the purge is reached only over the exit of a loop over the lock table whose every iteration locks its entry
				var exits []eng.Edge
				for _, l := range c07Loops(f) {
					if !strings.Contains(eng.Normalize(l.If.Cond).Base, "len("+owner+".locks)") {
						continue
					}
					again := func(in ssa.Instruction) bool { return in == ssa.Instruction(l.If) }
					if eng.Reach(eng.Query{Fn: f, StartEdges: []eng.Edge{l.Body}, Barriers: all, Target: again}) == nil {
						exits = append(exits, l.Exit)
					}
				}
				if len(all) == 0 || len(exits) == 0 {
					c.Violation(f, site, mu.Pos(), "the LRU of "+owner+" is purged without a loop that locks every entry of "+owner+".locks", nil)
				} else {
					c.Cut(f, "purge of the LRU", []ssa.Instruction{mu}, eng.Guard{Desc: "exit of the loop locking every entry of " + owner + ".locks", Edges: exits}, nil)
				}
				continue
			}
			key := c08g2Ident(a[1])
			site := "LRU " + strings.ToLower(op) + " under the per-key lock of the same cache and key"
			if op == "Remove" {
				nRemove++
			} else {
				nAdd++
			}
			var acq []ssa.CallInstruction
			recvs := map[string]bool{}
			wrong := ""
			for _, lk := range eng.Calls(f, `^sync\.\(\*RWMutex\)\.(Lock|RLock)$`) {
				lfk := lockForKeyOf(lk.Common().Args[0])
				if lfk == nil {
					continue
				}
				if lk.Common().StaticCallee().Name() == "RLock" && op == "Remove" {
					wrong = "only the read lock is taken"
					continue
				}
				t, k := c08g2Ident(lfk.Call.Args[0]), c08g2Ident(lfk.Call.Args[1])
				if t != owner+".locks" {
					wrong = "the lock comes from " + t
					continue
				}
				if k != key {
					wrong = "the lock is for key " + k
					continue
				}
				acq = append(acq, lk)
				recvs[eng.ExprDeep(lk.Common().Args[0])] = true
			}
			if len(acq) == 0 {
				why := "no per-key lock is taken in this function"
				if wrong != "" {
					why = wrong
				}
				c.Violation(f, site, mu.Pos(), op+"("+key+") on the LRU of "+owner+" without holding LockForKey("+owner+".locks, "+key+"): "+why+"; a reader that missed the LRU can re-install the value it read before the change", nil)
				continue
			}
			isAcq := func(cl ssa.CallInstruction) bool {
				for _, x := range acq {
					if x == cl {
						return true
					}
				}
				return false
			}
			isRel := func(cl ssa.CallInstruction) bool {
				g := cl.Common().StaticCallee()
				return g != nil && (g.Name() == "Unlock" || g.Name() == "RUnlock") && len(cl.Common().Args) > 0 && recvs[eng.ExprDeep(cl.Common().Args[0])]
			}
			if eng.MustHold(f, isAcq, isRel)(mu) {
				c.OK(f, site, mu.Pos(), "LockForKey("+owner+".locks, "+key+") held")
			} else {
				c.Violation(f, site, mu.Pos(), op+"("+key+") on the LRU of "+owner+" is reachable without LockForKey("+owner+".locks, "+key+") being held", nil)
			}
		}
	}
	c.Clause("R9", clause)
	c.Floor(nil, "LRU removals of the physical cache", nRemove, 4)
	c.Floor(nil, "LRU insertions of the physical cache", nAdd, 3)
	c.Floor(nil, "LRU purges of the physical cache", nPurge, 1)
}

// c08g2Ident: what a value is, independent of how the function got hold of it:
// a value read through a local alias or through a variable a function literal
// captured is resolved to what was assigned (nfOrigins); the rendering carries
// no capture marks, so `c.parent.(*T).lru` in Commit and in its literal agree.
func c08g2Ident(v ssa.Value) string {
	os := nfOrigins(v, nil)
	if len(os) == 1 && os[0].Val != nil {
		v = os[0].Val
	}
	return strings.ReplaceAll(eng.ExprDeep(v), "^", "")
}

// c08g2TrackPairing (C08.7, R2/R3 "acquire and release agree"): the tracker
// counts open WRITE transactions per start index; trim bounds are computed
// from that count. A transaction is registered (trackTransaction) exactly when
// it is writable, so it must be released (completeTransaction) exactly when it
// is writable - by the same predicate over the same transaction: a read-only
// transaction releasing an index it never registered removes a sibling write
// transaction begun at that index from the count, the bound rises and the
// records that sibling must be checked against are trimmed. Every finish of a
// live writable transaction releases, and no path releases twice.
func c08g2TrackPairing(c *eng.Ctx) {
	fv := c.P.Field("raft.RaftTransaction.writable")
	ctor := c.Fn("raft.(*RaftBackend).newTransaction")
	if fv == nil {
		c.Unresolved("raft.RaftTransaction.writable")
		return
	}
	if ctor == nil {
		return
	}
	// the constructor's parameter that becomes the transaction's writable flag
	var wparam *ssa.Parameter
	for _, w := range c.P.FieldWriters(fv) {
		if w.Fn != ctor {
			continue
		}
		for _, o := range nfOrigins(w.Store.Val, nil) {
			if p, ok := o.Val.(*ssa.Parameter); ok && p.Parent() == ctor {
				wparam = p
			}
		}
	}
	isWritable := func(v ssa.Value) bool {
		if ld, ok := v.(*ssa.UnOp); ok && ld.Op == token.MUL {
			if fa, isFa := ld.X.(*ssa.FieldAddr); isFa && eng.FieldVar(fa) == fv {
				return true
			}
		}
		if wparam == nil {
			return false
		}
		os := nfOrigins(v, nil)
		if len(os) == 0 {
			return false
		}
		for _, o := range os {
			if o.Val != ssa.Value(wparam) {
				return false
			}
		}
		return true
	}
	writableEdges := func(f *ssa.Function, want bool) []eng.Edge {
		var out []eng.Edge
		for _, b := range f.Blocks {
			if ifi := eng.IfOf(b); ifi != nil {
				if v := eng.Normalize(ifi.Cond).Val; isWritable(v) {
					out = append(out, eng.BoolEdges(v, want)...)
				}
			}
		}
		return out
	}
	sitesOf := func(method string) map[*ssa.Function][]ssa.Instruction {
		out := map[*ssa.Function][]ssa.Instruction{}
		for _, f := range c.P.Funcs {
			if !eng.InPkg(f, "raft") {
				continue
			}
			for _, ci := range nfAllCalls(f) {
				if nfCallOf(ci).Name == "raft.(*fsmTxnCommitIndexTracker)."+method {
					out[f] = append(out[f], ci)
				}
			}
		}
		return out
	}
	sorted := func(m map[*ssa.Function][]ssa.Instruction) []*ssa.Function {
		var fs []*ssa.Function
		for f := range m {
			fs = append(fs, f)
		}
		sort.Slice(fs, func(i, j int) bool { return fs[i].String() < fs[j].String() })
		return fs
	}
	tracks, releases := sitesOf("trackTransaction"), sitesOf("completeTransaction")
	nT, nR := 0, 0
	c.Clause("R2", "C08.7")
	for _, pr := range []struct {
		m    map[*ssa.Function][]ssa.Instruction
		what string
		n    *int
	}{{tracks, "registered", &nT}, {releases, "released", &nR}} {
		for _, f := range sorted(pr.m) {
			*pr.n += len(pr.m[f])
			site := "start index " + pr.what + " with the tracker"
			g := eng.Guard{Desc: "[writable flag of the same transaction]=true", Edges: writableEdges(f, true)}
			if len(g.Edges) == 0 && eng.TopFunc(f) == f {
				// a helper that is not shown the flag: the decision is its callers' (one level)
				var callers []eng.CallSite
				if m, miss := c.P.StaticCallee(eng.FuncName(f)); len(miss) == 0 {
					callers = append(c.P.FindCalls(m, nil), c.P.FuncValueUses(eng.FuncName(f))...)
				}
				if len(callers) == 0 {
					c.Undecided(f, site, pr.m[f][0].Pos(), "the function does not test the transaction's writable flag and has no caller that could: the rule cannot be evaluated")
					continue
				}
				for _, cs := range callers {
					if cs.Call == nil {
						c.Undecided(f, site, pr.m[f][0].Pos(), "used as a function value in "+eng.FuncName(cs.Fn)+": the rule cannot be evaluated")
						continue
					}
					c.Cut(cs.Fn, site+" (through "+eng.FuncName(f)+")", []ssa.Instruction{cs.Call}, eng.Guard{Desc: g.Desc, Edges: writableEdges(cs.Fn, true)}, nil)
				}
				continue
			}
			c.Cut(f, site, pr.m[f], g, nil)
		}
	}
	c.Floor(nil, "trackTransaction sites", nT, 1)
	c.Floor(nil, "completeTransaction sites", nR, 3)
	// no path releases twice
	c.Clause("R3", "C08.7")
	for _, f := range sorted(releases) {
		rs := releases[f]
		twice := false
		for _, r := range rs {
			if h := eng.Reach(eng.Query{Fn: f, StartAfter: r, Target: eng.IsTarget(rs)}); h != nil {
				twice = true
				c.Violation(f, "start index released once", h.Instr.Pos(), "completeTransaction can run twice on one path: the second call removes a sibling transaction begun at the same index from the count", h.Witness)
			}
		}
		if !twice {
			c.OK(f, "start index released once", rs[0].Pos(), "no path from one completeTransaction to another")
		}
	}
	// every finish of a live writable transaction releases
	for _, m := range []string{"Commit", "Rollback"} {
		f := c.Fn("raft.(*RaftTransaction)." + m)
		if f == nil {
			continue
		}
		c.Clause("R4", "C08.7")
		// a release: a direct call, or arming a deferred literal that releases on every path on which the flag is true
		arms := append([]ssa.Instruction{}, releases[f]...)
		direct := len(arms)
		for _, in := range eng.Instrs(f, func(in ssa.Instruction) bool { _, ok := in.(*ssa.Defer); return ok }) {
			g, _ := nfFuncValue(in.(*ssa.Defer).Call.Value)
			if g == nil || len(releases[g]) == 0 {
				continue
			}
			if eng.Reach(eng.Query{Fn: g, Barriers: releases[g], Blocked: writableEdges(g, false), Target: nfIsNormalReturn}) == nil {
				arms = append(arms, in)
			}
		}
		site := m + " of a live writable transaction releases its start index"
		live := eng.CondEdges(f, `^t\.haveFinishedTx$`, false)
		if len(live) == 0 || !c.Floor(f, "release of the start index (direct or deferred)", len(arms), 1) {
			if len(live) == 0 {
				c.Undecided(f, site, f.Pos(), "no test of the finished flag found: the rule cannot be evaluated")
			}
			continue
		}
		if direct > 0 && len(arms) > direct {
			c.Violation(f, site, arms[0].Pos(), m+" releases the start index both directly and in a deferred function literal", nil)
			continue
		}
		if h := eng.Reach(eng.Query{Fn: f, StartEdges: live, Barriers: arms, Blocked: writableEdges(f, false), Target: nfIsNormalReturn}); h != nil {
			c.Violation(f, site, h.Instr.Pos(), m+" of a live writable transaction can return without completeTransaction: its start index stays in the count and the record is never trimmed past it", h.Witness)
		} else {
			c.OK(f, site, arms[0].Pos(), "every return behind the finished check passes the release (or arms the deferred literal that performs it)")
		}
	}
}

// c08InmemRecordSites: where f records an observation of the in-memory
// transaction: a store to the transaction's operations field (by field
// identity), or a call - with f's own receiver - of a method of the package
// every normal return of which lies behind such a store.
func c08InmemRecordSites(c *eng.Ctx, f *ssa.Function) []ssa.Instruction {
	fv := c.P.Field("inmem.InmemBackendTransaction.operations")
	stores := func(g *ssa.Function) []ssa.Instruction {
		return eng.Instrs(g, func(in ssa.Instruction) bool {
			st, ok := in.(*ssa.Store)
			if !ok {
				return false
			}
			fa, ok := st.Addr.(*ssa.FieldAddr)
			return ok && fv != nil && eng.FieldVar(fa) == fv
		})
	}
	out := stores(f)
	if len(f.Params) == 0 {
		return out
	}
	for _, ci := range nfAllCalls(f) {
		if _, plain := ci.(*ssa.Call); !plain {
			continue
		}
		g := ci.Common().StaticCallee()
		if g == nil || g == f || len(g.Blocks) == 0 || g.Pkg != f.Pkg || len(ci.Common().Args) == 0 || ci.Common().Args[0] != ssa.Value(f.Params[0]) {
			continue
		}
		if gs := stores(g); len(gs) > 0 && eng.Reach(eng.Query{Fn: g, Barriers: gs, Target: nfIsNormalReturn}) == nil {
			out = append(out, ci)
		}
	}
	return out
}
