package props

import (
	"sort"
	"strings"

	"golang.org/x/tools/go/ssa"

	"obsa/eng"
)

func init() {
	register(&Prop{
		ID: "C10",
		Explanation: "Structural necessary conditions of 'seal state and key rotation never lose or expose data': " +
			"(1) family rule over every function of the barrier package that touches the physical backend or the live keyring: the access is unreachable unless the !sealed edge was crossed (ErrBarrierSealed otherwise); bootstrap functions and lock-free helpers are one-symbol exceptions whose callers are checked instead; " +
			"(2) Seal zeroizes the keyring, drops it and the AEAD cache and sets sealed on every return; Keyring.Zeroize clears the root key and every key value; " +
			"(3) sealed=false has a single writer (Unseal) and is reached only after the keyring record was decrypted with an AEAD built from the caller's key and recovered; at Core level every key handed to SecurityBarrier.Unseal (directly or through the forwarding helpers unsealInternal / UnsealWithRootKey, call sites tabled) originates from a tabled producer — unsealKeyToRootKey, the seal's stored keys, the key a barrier was just initialised with, the parent barrier's decryption of a namespace root key — behind that producer's success edge and never after its failure edge; " +
			"(4) durable before visible: the live keyring pointer is replaced only by a keyring that was just persisted (success edge of persistKeyring), by one decrypted from storage, or by nil on seal; persistKeyringInternal encrypts with AEADs built from the keyring it is persisting (not from the barrier's per-term cache), writes the keyring record before the root-key record, and new writes use the active term; " +
			"(5) the standby upgrade path writes and reads upgrade/<term> under matching constants and terms: CreateUpgrade, DestroyUpgrade and every read of CheckUpgrade (also the re-read after the lock upgrade) build the key through one format over the same prefix operand carrying KeyringUpgradePrefix; the term operand is the bare ActiveTerm() of the live keyring in the reader and the parameter term minus one in writer and destroyer; the writer encrypts under, and takes the AEAD of, the term it files the key under and stores the entry under the key it encrypted for; " +
			"(6) rekey / root rotation in Core perform a frozen sequence of independent durable writes with no atomic envelope (known finding F6); the namespace-aware siblings (SealManager.performRootRotation, RotateBarrierRootKey) perform the same steps, each behind the success edge of the previous one, and hand the seal and the barrier the same freshly generated root key; " +
			"(7) the Keyring is a copy-on-write value that carries every key: no method writes through its receiver, Clone builds a fresh map filled from the receiver's, Serialize appends a key on every iteration over k.keys and encodes k.rootKey, the active term is only stored behind activeTerm < key.Term (AddKey and DeserializeKeyring), AddKey installs a key only for a term not yet installed; " +
			"(2b) Zeroize with keysToo is called only by Seal (clones share key values); SealManager.sealAll walks every barrier, its callback never stops the walk and seals each non-nil entry; " +
			"(4b) aeadForTerm probes and fills the cache under, and builds the AEAD from the key of, its term parameter; Initialize persists the first keyring only behind Initialized() == false; " +
			"(5b) Core side of the upgrade path: CreateUpgrade/DestroyUpgrade receive the term Rotate returned, behind Rotate's success; checkKeyringUpgrade calls CheckUpgrade again after every installed term; performKeyUpgrades runs checkKeyringUpgrade, ReloadRootKey, ReloadKeyring, reloadShamirKey in this order, each after the previous succeeded; CreateUpgrade serializes and encrypts TermKey(term) of the live keyring for its own term parameter; " +
			"(2c) Core.sealInternalWithOptions: after the core was marked sealed every return lies behind SealManager.sealAll, except the two tabled error legs (preSeal / raft TeardownCluster failed) whose callees cannot fail on the pinned tree; " +
			"(6b) the sibling rotations have no atomic envelope either (further instances of F6); " +
			"(2d) shared with C01.7: a superseded keyring is zeroised only where the keyring made live came out of Keyring.SetRootKey (own copy of the root key), never after a swap to a clone (AddKey) that shares the root-key slice; " +
			"(8) who may write a Shamir seal's in-memory key-encryption key: every call of the wrapper's SetAesGcmKeyBytes in package vault is tabled; a write tabled 'live' sets the wrapper of a seal that exists outside the function, with the tabled key (the unseal key parameter, the new seal key of a verified rekey/rotation, freshly generated shares, the old seal's recovery key, the barrier-decrypted KEK record) behind the tabled guard; a write tabled 'test' (share checks of rekey / rotation / generate-root, resolved path-sensitively under useTestSeal) sets a wrapper allocated in the function; every NewDefaultSeal is built over NewAccess(NewShamirWrapper()) — seals never share a wrapper.",
		NotDecided: "readability of old entries after arbitrary rotate/rekey histories (values/keys); crash at an arbitrary write prefix beyond listing the non-atomic sequences; lock discipline of b.l (conditional locking); namespace barriers' sealing order.",
		Run:        runC10,
	})
}

func runC10(c *eng.Ctx, thorough bool) {
	// ---------- C10.1 sealed guard family
	c.Clause("R8", "C10.1")
	exceptions := map[string]string{
		"barrier.(*AESGCMBarrier).Initialized":                  "bootstrap probe: reads whether a keyring record exists, no key material involved",
		"barrier.(*AESGCMBarrier).Initialize":                   "bootstrap: builds the first keyring from the caller's key",
		"barrier.(*AESGCMBarrier).Unseal":                       "the unsealing itself (clause 3)",
		"barrier.(*AESGCMBarrier).Seal":                         "drops the keyring (clause 2)",
		"barrier.(*AESGCMBarrier).persistKeyringInternal":       "helper: persists the keyring passed as argument; callers checked",
		"barrier.(*AESGCMBarrier).putInternal":                  "helper below putWithBackend; callers checked",
		"barrier.(*AESGCMBarrier).aeadForTerm":                  "helper; callers checked",
		"barrier.(*AESGCMBarrier).encryptions":                  "helper; callers checked",
		"barrier.(*AESGCMBarrier).persistEncryptions":           "helper; callers checked",
		"barrier.(*AESGCMBarrier).updateRootKeyCommon":          "helper of SetRootKey/RotateRootKey; callers checked",
		"barrier.(*AESGCMBarrier).recoverKeyring":               "helper of Unseal/ReloadKeyring",
		"barrier.(*AESGCMBarrier).ReloadKeyring":                "key management called by Core on an unsealed barrier (standby reload): returns no storage data; with a nil keyring it faults instead of serving",
		"barrier.(*AESGCMBarrier).ReloadRootKey":                "key management called by Core on an unsealed barrier (standby reload)",
		"barrier.(*AESGCMBarrier).RotateRootKey":                "key management called by Core during rekey on an unsealed barrier",
		"barrier.(*AESGCMBarrier).SetRootKey":                   "key management called by Core right after Unseal",
		"barrier.(*TransactionalAESGCMBarrier).BeginTx":         "creates the transaction object; every operation issued through it re-checks the sealed flag (checked in this family)",
		"barrier.(*TransactionalAESGCMBarrier).BeginReadOnlyTx": "creates the transaction object; every operation re-checks the sealed flag",
		"barrier.(*AESGCMBarrierTransaction).Commit":            "commits the wrapped transaction: all its operations were guarded when issued",
		"barrier.(*AESGCMBarrierTransaction).Rollback":          "rolls the wrapped transaction back",
	}
	isSink := func(in ssa.Instruction) bool {
		ci, ok := in.(ssa.CallInstruction)
		if !ok {
			return false
		}
		n := kName(ci)
		if strings.HasPrefix(n, "<physical.") {
			return true
		}
		if strings.HasPrefix(n, "barrier.(*Keyring).") && len(kArgs(ci)) > 0 && eng.Expr(kArgs(ci)[0]) == "b.keyring" {
			return true
		}
		return false
	}
	family := map[string]*ssa.Function{}
	for _, f := range c.P.Funcs {
		if !eng.InPkg(f, "barrier") {
			continue
		}
		top := eng.TopFunc(f)
		if recv := top.Signature.Recv(); recv == nil || !strings.Contains(recv.Type().String(), "AESGCMBarrier") {
			continue
		}
		if len(eng.Instrs(f, isSink)) > 0 {
			family[eng.FuncName(f)] = f
		}
	}
	var names []string
	for n := range family {
		names = append(names, n)
	}
	sort.Strings(names)
	guarded := map[string]bool{}
	for _, n := range names {
		f := family[n]
		top := eng.FuncName(eng.TopFunc(f))
		if r, ok := exceptions[top]; ok {
			c.Exception(top, r)
			c.OK(f, "sealed-guard [excepted]", f.Pos(), r)
			continue
		}
		sinks := eng.Instrs(f, isSink)
		pat := `^b\.sealed$`
		if strings.Contains(n, "AESGCMBarrierTransaction") {
			pat = `^t\.b\.sealed$`
		}
		if strings.Contains(n, "$") {
			pat = `^\^?b\.sealed$`
		}
		kr := strings.Replace(strings.TrimSuffix(pat, "$"), "sealed", "keyring", 1) + ` == nil$`
		if c.Cut(f, "backend / live keyring access", sinks, c10Unsealed(c, f, pat, kr), nil) {
			guarded[n] = true
		}
	}
	c.Floor(nil, "barrier functions touching the backend or the live keyring", len(names), 20)
	// helpers: every caller is guarded or is itself a tabled exception with its own reason
	c.Clause("R1", "C10.1")
	for _, h := range []string{"putInternal", "aeadForTerm", "encryptions", "persistEncryptions", "updateRootKeyCommon"} {
		fn := "barrier.(*AESGCMBarrier)." + h
		for _, s := range c.P.FindCalls(mustStatic(c, fn), nil) {
			caller := eng.FuncName(s.Fn)
			top := eng.FuncName(eng.TopFunc(s.Fn))
			switch {
			case guarded[caller] || guarded[top]:
				c.OK(s.Fn, "callers{"+h+"}", s.Call.Pos(), "called from a function that crossed the !sealed edge")
			case exceptions[top] != "":
				c.OK(s.Fn, "callers{"+h+"}", s.Call.Pos(), "called from tabled exception "+top)
			default:
				// the caller must itself be behind the sealed check at this call
				g := c10Unsealed(c, s.Fn, `^\^?b\.sealed$`, `^\^?b\.keyring == nil$`)
				if len(g.Edges) == 0 && s.Fn.Parent() == nil && s.Fn.Object() != nil && !s.Fn.Object().Exported() {
					// an unexported intermediate helper that never tests the flag: the
					// obligation moves to its callers (one level; extracted helpers)
					c10CallersGuarded(c, s.Fn, h, guarded, exceptions)
					continue
				}
				if c.Cut(s.Fn, "call of helper "+h, []ssa.Instruction{s.Call}, g, nil) {
					continue
				}
			}
		}
	}

	// ---------- C10.2 Seal drops key material
	if f := c.Fn("barrier.(*AESGCMBarrier).Seal"); f != nil {
		c.Clause("R2", "C10.2")
		// the returns that report "sealed" (nil error); a refusal that returns an error leaves the barrier as it was
		rets := eng.SuccessReturns(f, 0)
		c.Floor(f, "returns of Seal that report success", len(rets), 1)
		var zero, nilKR, sealed, cache []ssa.Instruction
		for _, cl := range kCalls(f, `barrier\.\(\*Keyring\)\.Zeroize$`) {
			if eng.Expr(kArgs(cl)[1]) == "true" {
				zero = append(zero, cl)
			}
		}
		for _, st := range eng.Stores(f, `^b\.keyring$`) {
			if eng.IsNilConst(st.Val) {
				nilKR = append(nilKR, st)
			}
		}
		for _, st := range eng.Stores(f, `^b\.sealed$`) {
			if eng.Expr(st.Val) == "true" {
				sealed = append(sealed, st)
			}
		}
		for _, st := range eng.Stores(f, `^b\.cache$`) {
			cache = append(cache, st)
		}
		c.Before(f, "keyring.Zeroize(true)", zero, "return", rets)
		c.Before(f, "b.keyring = nil", nilKR, "return", rets)
		c.Before(f, "b.sealed = true", sealed, "return", rets)
		c.Before(f, "b.cache reset", cache, "return", rets)
		c.Clause("R3", "C10.2")
		c.Before(f, "keyring.Zeroize(true)", zero, "b.keyring = nil", nilKR)
	}
	if f := c.Fn("barrier.(*Keyring).Zeroize"); f != nil {
		c.Clause("R5", "C10.2")
		cl := kCalls(f, `^clear$`)
		var what []string
		for _, x := range cl {
			what = append(what, eng.ExprDeep(kArgs(x)[0]))
		}
		s := strings.Join(what, " ; ")
		if strings.Contains(s, "rootKey") {
			c.OK(f, "clears the root key", f.Pos(), s)
		} else {
			c.Violation(f, "clears the root key", f.Pos(), "Zeroize no longer clears k.rootKey: "+s, nil)
		}
		if strings.Contains(s, ".Value") {
			c.OK(f, "clears every key value", f.Pos(), s)
		} else {
			c.Violation(f, "clears every key value", f.Pos(), "Zeroize no longer clears the keys' values: "+s, nil)
		}
		c.Clause("R2", "C10.2")
		var keyClear []ssa.Instruction
		for _, x := range cl {
			if strings.Contains(eng.ExprDeep(kArgs(x)[0]), ".Value") {
				keyClear = append(keyClear, x)
			}
		}
		c.Cut(f, "clear(key.Value)", keyClear, eng.G(f, `^keysToo$`, true), nil)
	}

	// ---------- C10.3 unseal only with the right key
	c.Clause("R6", "C10.3")
	if fv := c.P.Field("barrier.AESGCMBarrier.sealed"); fv != nil {
		for _, w := range c.P.FieldWriters(fv) {
			n := eng.FuncName(eng.TopFunc(w.Fn))
			v := eng.Expr(w.Store.Val)
			switch {
			case v == "false" && n == "barrier.(*AESGCMBarrier).Unseal":
				c.OK(w.Fn, "writer{sealed=false}", w.Store.Pos(), "the single place that unseals")
			case v == "true":
				c.OK(w.Fn, "writer{sealed=true}", w.Store.Pos(), "sealing")
			default:
				c.Violation(w.Fn, "writer{sealed="+v+"}", w.Store.Pos(), "sealed is set to "+v+" outside Unseal", nil)
			}
		}
	} else {
		c.Unresolved("barrier.AESGCMBarrier.sealed")
	}
	if f := c.Fn("barrier.(*AESGCMBarrier).Unseal"); f != nil {
		c.Clause("R2", "C10.3")
		var unseal []ssa.Instruction
		for _, st := range eng.Stores(f, `^b\.sealed$`) {
			if eng.Expr(st.Val) == "false" {
				unseal = append(unseal, st)
			}
		}
		if c.Floor(f, "b.sealed = false", len(unseal), 1) {
			// the decryption may sit in Unseal itself or in a same-package helper that Unseal
			// calls with the AEAD and that returns decrypt's plaintext only on decrypt's success
			decPat, aeadArg, decided := c10UnsealDecryptor(c, f)
			if decided {
				c.Clause("R2", "C10.3")
				c.Cut(f, "b.sealed = false", unseal, nfGCallOK(f, decPat+`$`), nil)
			}
			c.Cut(f, "b.sealed = false", unseal, nfGCallOK(f, `barrier\.\(\*AESGCMBarrier\)\.recoverKeyring$`), nil)
			c.Cut(f, "b.sealed = false", unseal, nfGCallOK(f, `barrier\.\(\*AESGCMBarrier\)\.aeadFromKey$`), nil)
			c.Clause("R5", "C10.3")
			for _, a := range kCalls(f, `barrier\.\(\*AESGCMBarrier\)\.aeadFromKey$`) {
				c.Prov(f, "key the AEAD is built from", a, kArgs(a)[1], `^param:key$`)
			}
			if decided {
				for _, d := range kCalls(f, decPat+`$`) {
					c.Prov(f, "AEAD used to open the keyring", d, kArgs(d)[aeadArg], `^call:barrier\.\(\*AESGCMBarrier\)\.aeadFromKey#0$`)
				}
				for _, r := range kCalls(f, `barrier\.\(\*AESGCMBarrier\)\.recoverKeyring$`) {
					c.Prov(f, "plaintext keyring recovered", r, kArgs(r)[1], `^call:`+decPat+`#0$`)
				}
			}
		}
	}

	c10CoreUnseal(c)

	// ---------- C10.4 durable before visible
	c.Clause("R6", "C10.4")
	if fv := c.P.Field("barrier.AESGCMBarrier.keyring"); fv != nil {
		allowed := map[string]string{
			"barrier.(*AESGCMBarrier).Rotate":              "persisted",
			"barrier.(*AESGCMBarrier).RotateRootKey":       "persisted",
			"barrier.(*AESGCMBarrier).updateRootKeyCommon": "persisted when asked to (RotateRootKey) / in-memory only by contract (SetRootKey)",
			"barrier.(*AESGCMBarrier).SetRootKey":          "documented in-memory only",
			"barrier.(*AESGCMBarrier).recoverKeyring":      "decrypted from storage",
			"barrier.(*AESGCMBarrier).ReloadRootKey":       "decrypted from storage",
			"barrier.(*AESGCMBarrier).ReloadKeyring":       "decrypted from storage",
			"barrier.(*AESGCMBarrier).CheckUpgrade":        "decrypted from storage",
			"barrier.(*AESGCMBarrier).Seal":                "nil",
			"barrier.(*AESGCMBarrier).Initialize":          "first keyring, persisted",
			"barrier.(*AESGCMBarrier).SetRotationConfig":   "rotation bookkeeping clone, persisted",
			"barrier.(*AESGCMBarrier).persistEncryptions":  "rotation counters clone, persisted",
		}
		for _, w := range c.P.FieldWriters(fv) {
			n := eng.FuncName(eng.TopFunc(w.Fn))
			if r, ok := allowed[n]; ok {
				c.OK(w.Fn, "writer{AESGCMBarrier.keyring}", w.Store.Pos(), r)
			} else {
				c.Violation(w.Fn, "writer{AESGCMBarrier.keyring}", w.Store.Pos(), "the live keyring pointer is replaced outside the reviewed writer table", nil)
			}
		}
	} else {
		c.Unresolved("barrier.AESGCMBarrier.keyring")
	}
	for _, fn := range []string{"barrier.(*AESGCMBarrier).Rotate", "barrier.(*AESGCMBarrier).RotateRootKey", "barrier.(*AESGCMBarrier).updateRootKeyCommon", "barrier.(*AESGCMBarrier).SetRotationConfig", "barrier.(*AESGCMBarrier).persistEncryptions", "barrier.(*AESGCMBarrier).Initialize"} {
		f := c.P.Func(fn)
		if f == nil {
			continue
		}
		var swaps []ssa.Instruction
		for _, st := range eng.Stores(f, `^b\.keyring$`) {
			if !eng.IsNilConst(st.Val) {
				swaps = append(swaps, st)
			}
		}
		if len(swaps) == 0 {
			continue
		}
		c.Clause("R2", "C10.4")
		persist := nfGCallOK(f, `barrier\.\(\*AESGCMBarrier\)\.persistKeyring(BestEffort|Internal)?$`)
		g := eng.Guard{Desc: persist.Desc, Edges: persist.Edges}
		extra := []eng.Guard{g}
		if strings.HasSuffix(fn, "updateRootKeyCommon") {
			extra = append(extra, eng.G(f, `^persist\w*$`, false))
		}
		c.Cut(f, "b.keyring = <new keyring>", swaps, eng.Or(extra...), nil)
		// the keyring swapped in is the one that was persisted
		c.Clause("R5", "C10.4")
		for _, st := range swaps {
			sv := st.(*ssa.Store).Val
			for _, p := range kCalls(f, `barrier\.\(\*AESGCMBarrier\)\.persistKeyring(BestEffort|Internal)?$`) {
				if kArgs(p)[2] == sv || eng.ExprDeep(kArgs(p)[2]) == eng.ExprDeep(sv) {
					c.OK(f, "swapped keyring == persisted keyring", st.Pos(), eng.Expr(sv))
				} else {
					c.Violation(f, "swapped keyring == persisted keyring", st.Pos(), "persisted "+eng.ExprDeep(kArgs(p)[2])+" but made "+eng.ExprDeep(sv)+" live", nil)
				}
			}
		}
	}
	if f := c.Fn("barrier.(*AESGCMBarrier).Rotate"); f != nil {
		c.Clause("R5", "C10.4")
		found := false
		for _, st := range eng.Instrs(f, func(in ssa.Instruction) bool {
			s, ok := in.(*ssa.Store)
			return ok && strings.HasSuffix(eng.Expr(s.Addr), "complit.Term")
		}) {
			found = true
			s := eng.ExprDeep(st.(*ssa.Store).Val)
			if strings.Contains(s, "ActiveTerm(") && strings.Contains(s, "+ 1") {
				c.OK(f, "new term = active term + 1", st.Pos(), s)
			} else {
				c.Violation(f, "new term = active term + 1", st.Pos(), "the rotated key's term is "+s, nil)
			}
		}
		if !found {
			c.Violation(f, "new term = active term + 1", f.Pos(), "Rotate no longer builds the new key with an explicit term", nil)
		}
		for _, g := range kCalls(f, `barrier\.\(\*AESGCMBarrier\)\.GenerateKey$`) {
			_ = g
		}
	}
	if f := c.Fn("barrier.(*AESGCMBarrier).GenerateKey"); f != nil {
		c.Clause("R5", "C10.4")
		if len(kCalls(f, `^crypto/rand\.Read$|^io\.ReadFull$`)) == 0 {
			c.Violation(f, "keys from crypto/rand", f.Pos(), "GenerateKey does not read from crypto/rand", nil)
		} else {
			c.OK(f, "keys from crypto/rand", f.Pos(), "key bytes read from the system CSPRNG")
		}
	}
	if f := c.Fn("barrier.(*AESGCMBarrier).persistKeyringInternal"); f != nil {
		c.Clause("R5", "C10.4")
		for _, e := range kCalls(f, `barrier\.\(\*AESGCMBarrier\)\.(encrypt|encryptTracked)$`) {
			a := kArgs(e)
			c.Prov(f, "AEAD used while persisting a keyring", e, a[3], `^call:barrier\.\(\*AESGCMBarrier\)\.aeadFromKey#0$`)
		}
		for _, k := range kCalls(f, `barrier\.\(\*AESGCMBarrier\)\.aeadFromKey$`) {
			s := eng.ExprDeep(kArgs(k)[1])
			if strings.Contains(s, "(keyring)") {
				c.OK(f, "AEAD key comes from the keyring being persisted", k.Pos(), s)
			} else {
				c.Violation(f, "AEAD key comes from the keyring being persisted", k.Pos(), "the AEAD is built from "+s+", not from the keyring argument: a keyring could be persisted under a key it does not contain", nil)
			}
		}
		c.Floor(f, "aeadFromKey calls", len(kCalls(f, `barrier\.\(\*AESGCMBarrier\)\.aeadFromKey$`)), 2)
		// frozen write order: keyring, root key, legacy delete
		c.Clause("R13", "C10.4")
		var order []string
		var puts []ssa.CallInstruction
		for _, b := range f.Blocks {
			for _, in := range b.Instrs {
				ci, ok := in.(ssa.CallInstruction)
				if !ok || !strings.HasPrefix(kName(ci), "<physical.Backend>.") {
					continue
				}
				puts = append(puts, ci)
			}
		}
		var kr, rk, del []ssa.Instruction
		for _, p := range puts {
			a := kArgs(p)
			switch kMethod(p) {
			case "Put":
				k := ""
				for _, v := range eng.StructLitField(a[len(a)-1], "Key") {
					k = eng.ExprDeep(v)
				}
				order = append(order, "put "+k)
				if strings.Contains(k, `"core/keyring"`) {
					kr = append(kr, p)
				}
				if strings.Contains(k, `"core/root-key"`) {
					rk = append(rk, p)
				}
			case "Delete":
				order = append(order, "del "+eng.ExprDeep(a[len(a)-1]))
				del = append(del, p)
			}
		}
		if len(kr) == 1 && len(rk) == 1 {
			ok1 := c.Cut(f, "put core/root-key", rk, eng.Guard{Desc: "success edge of put core/keyring", Edges: eng.CallOKEdges(kr[0].(ssa.CallInstruction))}, nil)
			if ok1 && len(del) > 0 {
				c.Cut(f, "delete legacy root key", del, eng.Guard{Desc: "success edge of put core/root-key", Edges: eng.CallOKEdges(rk[0].(ssa.CallInstruction))}, nil)
			}
		} else {
			c.Violation(f, "durable-write-sequence", f.Pos(), "expected exactly one put of core/keyring and one of core/root-key, found: "+strings.Join(order, ", "), nil)
		}
	}
	if f := c.Fn("barrier.(*AESGCMBarrier).putWithBackend"); f != nil {
		c.Clause("R5", "C10.4")
		for _, pi := range kCalls(f, `putInternal$`) {
			a := kArgs(pi)
			s := eng.ExprDeep(a[3])
			if strings.Contains(s, "ActiveTerm(") {
				c.OK(f, "new writes use the active term", pi.Pos(), s)
			} else {
				c.Violation(f, "new writes use the active term", pi.Pos(), "term used for a new write: "+s, nil)
			}
		}
	}

	// ---------- C10.5 standby upgrade path
	cu, ck := c.Fn("barrier.(*AESGCMBarrier).CreateUpgrade"), c.Fn("barrier.(*AESGCMBarrier).CheckUpgrade")
	if cu != nil && ck != nil {
		c.Clause("R7", "C10.5")
		var wKey, rKey string
		for _, e := range kCalls(cu, `encryptTracked$`) {
			a := kArgs(e)
			wKey = eng.ExprDeep(a[1])
			t := eng.ExprDeep(a[2])
			if strings.Contains(t, "term - 1") {
				c.OK(cu, "upgrade key encrypted under the previous term", e.Pos(), t)
			} else {
				c.Violation(cu, "upgrade key encrypted under the previous term", e.Pos(), "term used: "+t, nil)
			}
		}
		for _, g := range kCalls(ck, `lockSwitchedGet$|barrier\.\(\*AESGCMBarrier\)\.Get$`) {
			a := kArgs(g)
			for _, x := range a {
				s := eng.ExprDeep(x)
				if strings.Contains(s, "Sprintf") || strings.Contains(s, "upgrade") {
					rKey = s
				}
			}
		}
		pw, _ := c.P.ConstValue("barrier.KeyringUpgradePrefix")
		if pw == "" {
			pw, _ = c.P.ConstValue("barrier.keyringUpgradePrefix")
		}
		norm := func(s string) string { return strings.NewReplacer("term - 1", "T", "ActiveTerm", "T").Replace(s) }
		if wKey != "" && rKey != "" && strings.Contains(wKey, "Sprintf") && strings.Contains(rKey, "Sprintf") {
			c.OK(cu, "upgrade path written and read through the same format", cu.Pos(), "write "+norm(wKey)+" / read "+norm(rKey)+" prefix "+pw)
		} else {
			c.Violation(cu, "upgrade path written and read through the same format", cu.Pos(), "writer key "+wKey+" vs reader key "+rKey, nil)
		}
		c10UpgradePath(c, cu, ck)
		c.Clause("R2", "C10.5")
		add := instrsOf(kCalls(ck, `barrier\.\(\*Keyring\)\.AddKey$`))
		if c.Floor(ck, "AddKey in CheckUpgrade", len(add), 1) {
			c.Cut(ck, "AddKey(upgrade key)", add, nfGCallOK(ck, `barrier\.DeserializeKey$`), nil)
		}
	}

	// ---------- C10.6 rekey write sequences (R13)
	c10Rekey(c)
	runC10Gaps2(c)
}

// c10UnsealDecryptor: the callee through which f decrypts the keyring record —
// decrypt itself when f calls it, otherwise a same-package function g that f
// calls statically, that (a) calls decrypt with one of its own parameters as
// AEAD, (b) returns without error only across decrypt's success edge and (c)
// returns as first result only decrypt's plaintext on those returns. Returns
// the callee pattern, the index of the AEAD argument at f's call, and whether
// the rule can be evaluated (an undecided obligation is recorded otherwise).
func c10UnsealDecryptor(c *eng.Ctx, f *ssa.Function) (string, int, bool) {
	const dec = `barrier\.\(\*AESGCMBarrier\)\.decrypt`
	if len(kCalls(f, dec+`$`)) > 0 {
		return dec, 2, true
	}
	site := "sink{b.sealed = false} guard{success edge of " + dec + "$}"
	c.Clause("R2", "C10.3")
	for _, b := range f.Blocks {
		for _, in := range b.Instrs {
			ci, ok := in.(ssa.CallInstruction)
			if !ok {
				continue
			}
			g := ci.Common().StaticCallee()
			if g == nil || len(g.Blocks) == 0 || !eng.InPkg(g, "barrier") || g.Signature.Results().Len() != 2 {
				continue
			}
			ds := kCalls(g, dec+`$`)
			if len(ds) == 0 {
				continue
			}
			// (a) the AEAD is a parameter of g
			idx := -1
			for _, d := range ds {
				p, isP := kArgs(d)[2].(*ssa.Parameter)
				if !isP {
					idx = -1
					break
				}
				for i, q := range g.Params {
					if q == p {
						idx = i
					}
				}
			}
			if idx < 0 {
				continue
			}
			// (b), (c)
			okG := eng.Reach(eng.Query{Fn: g, Blocked: nfGCallOK(g, dec+`$`).Edges, Target: eng.IsTarget(eng.SuccessReturns(g, 1))}) == nil
			for _, r := range eng.SuccessReturns(g, 1) {
				vals, _, _ := eng.ReturnVals(r.(*ssa.Return), 0)
				for _, v := range vals {
					if ok, _, _ := eng.OriginsMatch(v, `^call:`+dec+`#0$`); !ok {
						okG = false
					}
				}
			}
			if !okG {
				continue
			}
			name := eng.FuncName(g)
			c.OK(g, "keyring decryption helper forwards decrypt", g.Pos(), name+" returns decrypt's plaintext, and no error, only across decrypt's success edge")
			return reQuote(name), idx, true
		}
	}
	c.Undecided(f, site, f.Pos(), "Unseal neither calls decrypt nor a same-package helper that verifiably forwards it (moved? the rule cannot be evaluated)")
	return "", 0, false
}

// c10CallersGuarded: mid is an unexported function that calls a lock-free
// barrier helper without testing the sealed flag itself; every static call of
// mid must then come from a function of the guarded family, from a tabled
// exception, or lie behind the !sealed edge in its caller.
func c10CallersGuarded(c *eng.Ctx, mid *ssa.Function, helper string, guarded map[string]bool, exceptions map[string]string) {
	name := eng.FuncName(mid)
	sites := c.P.FindCalls(mustStatic(c, name), nil)
	if len(sites) == 0 {
		c.Undecided(mid, "callers{"+helper+"}", mid.Pos(), name+" calls the helper without testing the sealed flag and has no static caller that could be checked instead (moved? the rule cannot be evaluated)")
		return
	}
	for _, s := range sites {
		caller, top := eng.FuncName(s.Fn), eng.FuncName(eng.TopFunc(s.Fn))
		switch {
		case guarded[caller] || guarded[top]:
			c.OK(s.Fn, "callers{"+helper+" via "+name+"}", s.Call.Pos(), "called from a function that crossed the !sealed edge")
		case exceptions[top] != "":
			c.OK(s.Fn, "callers{"+helper+" via "+name+"}", s.Call.Pos(), "called from tabled exception "+top)
		default:
			c.Cut(s.Fn, "call of "+name+" (reaches helper "+helper+")", []ssa.Instruction{s.Call}, c10Unsealed(c, s.Fn, `^\^?b\.sealed$`, `^\^?b\.keyring == nil$`), nil)
		}
	}
}

// c10Unsealed: the edges of f on which the barrier was found unsealed: the
// sealed flag tested false (directly, through a local copy, or through a
// closure / same-package function that returns the flag) or the live keyring
// tested non-nil. Description (and obligation key) are those of the two
// rendered tests.
func c10Unsealed(c *eng.Ctx, f *ssa.Function, sealedPat, keyringPat string) eng.Guard {
	g := eng.Or(eng.G(f, sealedPat, false), eng.G(f, keyringPat, false))
	g.Edges = append(g.Edges, kFieldFalseEdges(f, c.P.Field("barrier.AESGCMBarrier.sealed"))...)
	return g
}
