package props

import (
	"fmt"
	"go/token"
	"regexp"
	"sort"
	"strings"

	"golang.org/x/tools/go/ssa"

	"obsa/eng"
)

// Second-tier mechanisms of C13: the third paginate-by-slicing implementation
// (file backend), the page-full test of the in-memory walk, the cut-off
// comparison of the transactional raft listing, the failure leg of the
// in-memory transaction commit, the pending-update table of a raft
// transaction, the LRU of a transaction's cache, the paged HandleListPage
// helper and the prefix of a view's transaction.

const c13gFileListPage = "(*" + eng.ModSDK + "/physical/file.FileBackend).ListPageInternal"

func runC13Gaps2(c *eng.Ctx) {
	c13gFileSlicePagination(c)
	c13gInmemPageFull(c)
	c13gCutoffOperand(c)
	c13gInmemCommitRestore(c)
	c13gRaftTxnUpdates(c)
	c13gCacheLRU(c)
	c13gHandleListPage(c)
	c13gViewTxnPrefix(c)
	c13gTxnLayers(c)
	c13gSeekNotCleaned(c)
	c13gFileKeyEncoding(c)
	c13gCursorStep(c)
	c13gScanLoop(c)
}

// ---- file backend: sort, then skip the element equal to 'after', then cut to a positive limit
func c13gFileSlicePagination(c *eng.Ctx) {
	f := c.Fn(c13gFileListPage)
	if f == nil {
		return
	}
	c.Clause("R8", "C13.3")
	sorts := eng.Calls(f, `^sort\.Strings$`)
	if !c.Floor(f, "sort of the directory names", len(sorts), 1) {
		return
	}
	sorted := sorts[0].Common().Args[0]
	// the function that slices the page out of the sorted names: ListPageInternal itself, or a
	// helper of the same package it hands the sorted names, 'after' and 'limit' to
	host, afterN, limitN, sortedIn := f, "after", "limit", sorted
	var via ssa.CallInstruction
	if len(eng.Calls(f, `^sort\.SearchStrings$`)) == 0 {
		for _, cl := range eng.Calls(f, `.`) {
			g := cl.Common().StaticCallee()
			if g == nil || g.Pkg != f.Pkg || len(g.Blocks) == 0 || len(eng.Calls(g, `^sort\.SearchStrings$`)) == 0 || len(g.Params) != len(cl.Common().Args) {
				continue
			}
			var a, l string
			var sv ssa.Value
			for i, arg := range cl.Common().Args {
				if p, ok := arg.(*ssa.Parameter); ok && eng.VarName(p) == "after" {
					a = eng.VarName(g.Params[i])
				}
				if p, ok := arg.(*ssa.Parameter); ok && eng.VarName(p) == "limit" {
					l = eng.VarName(g.Params[i])
				}
				if arg == sorted {
					sv = g.Params[i]
				}
			}
			if a != "" && l != "" && sv != nil {
				host, afterN, limitN, sortedIn, via = g, a, l, sv, cl
			}
		}
	}
	ss := eng.Calls(host, `^sort\.SearchStrings$`)
	if !c.Floor(f, "binary search for the page start", len(ss), 1) {
		return
	}
	qa, ql := regexp.QuoteMeta(afterN), regexp.QuoteMeta(limitN)
	for _, s := range ss {
		c.Prov(host, "search key of the page start", s, s.Common().Args[1], `^param:`+qa+`$`)
	}
	eq := eng.CondEdges(host, `\[.*sort\.SearchStrings\(\).*\] == `+qa+`$`, true)
	adv := false
	for _, in := range eng.Instrs(host, func(in ssa.Instruction) bool { b, ok := in.(*ssa.BinOp); return ok && b.Op == token.ADD }) {
		b := in.(*ssa.BinOp)
		if strings.Contains(eng.Expr(b.X), "sort.SearchStrings()") && eng.Expr(b.Y) == "1" {
			adv = true
		}
	}
	switch {
	case len(eq) == 0:
		c.Violation(host, "page starts after the element equal to 'after'", ss[0].Pos(), "no test 'names[idx] == after' follows the search: the page would include 'after' itself", nil)
	case !adv:
		c.Violation(host, "page starts after the element equal to 'after'", ss[0].Pos(), "the index is not advanced past the element equal to 'after'", nil)
	default:
		c.OK(host, "page starts after the element equal to 'after'", ss[0].Pos(), "names[idx] == after ⇒ idx+1")
	}
	c.Clause("R2", "C13.3")
	var cuts []ssa.Instruction
	for _, in := range eng.Instrs(host, func(in ssa.Instruction) bool {
		sl, ok := in.(*ssa.Slice)
		return ok && sl.High != nil
	}) {
		for _, o := range eng.Origins(in.(*ssa.Slice).High) {
			if o.Kind == "param" && o.Desc == limitN {
				cuts = append(cuts, in)
				break
			}
		}
	}
	if c.Floor(host, "truncation to limit", len(cuts), 1) {
		c.Cut(host, "truncate the page to limit", cuts, eng.G(host, `^0 < `+ql+`$`, true), nil)
	}
	// the names are sorted before they are searched, sliced or returned
	c.Clause("R3", "C13.3")
	site := "order{sort.Strings(names) < binary search, slicing, return of a non-empty listing}"
	same := true
	for _, s := range ss {
		if s.Common().Args[0] != sortedIn {
			same = false
		}
	}
	targets := eng.NonNilResultReturns(f, 0)
	if via != nil {
		targets = append(targets, via)
	} else {
		targets = append(targets, eng.AsInstrs(ss)...)
	}
	for _, in := range eng.Instrs(f, func(in ssa.Instruction) bool { _, ok := in.(*ssa.Slice); return ok }) {
		if in.(*ssa.Slice).X == sorted {
			targets = append(targets, in)
		}
	}
	h := eng.Reach(eng.Query{Fn: f, Barriers: eng.AsInstrs(sorts), Assume: map[string]bool{`^0 < len\(`: true}, Target: eng.IsTarget(targets)})
	switch {
	case !same:
		c.Violation(f, site, ss[0].Pos(), "the slice that is binary-searched is not the slice that was sorted", nil)
	case h != nil:
		c.Violation(f, site, h.Instr.Pos(), "a non-empty listing is searched, sliced or returned without having been sorted: pages are not slices of the sorted full listing", h.Witness)
	default:
		c.OK(f, site, sorts[0].Pos(), fmt.Sprintf("%d search/slice/return site(s) lie behind the sort of the same slice (for a non-empty directory)", len(targets)))
	}
}

// ---- in-memory walk: the page is full when the entries RETURNED reach the limit
func c13gInmemPageFull(c *eng.Ctx) {
	c.Clause("R8", "C13.3")
	parent := c.Fn("inmem.(*InmemBackend).listPaginatedInternal")
	walk := c13gInmemWalk(c)
	if parent == nil || walk == nil {
		return
	}
	// the accumulator the parent returns on success
	returned := map[ssa.Value]bool{}
	for _, r := range eng.SuccessReturns(parent, 1) {
		vals, _, _ := eng.ReturnVals(r.(*ssa.Return), 0)
		vals = append(vals, r.(*ssa.Return).Results[0])
		for _, v := range vals {
			if u, ok := v.(*ssa.UnOp); ok && u.Op == token.MUL {
				returned[u.X] = true
			}
			for _, root := range eng.Roots(v, nil) {
				returned[root] = true
				if u, ok := root.(*ssa.UnOp); ok && u.Op == token.MUL {
					returned[u.X] = true
				}
			}
		}
	}
	// free variable of the walk -> the parent's cell it is bound to
	bound := map[ssa.Value]ssa.Value{}
	for _, in := range eng.Instrs(parent, func(in ssa.Instruction) bool { mc, ok := in.(*ssa.MakeClosure); return ok && mc.Fn == ssa.Value(walk) }) {
		mc := in.(*ssa.MakeClosure)
		for i, fv := range walk.FreeVars {
			if i < len(mc.Bindings) {
				bound[fv] = mc.Bindings[i]
			}
		}
	}
	site := "page is full when the returned entries reach the limit"
	n := 0
	for _, e := range eng.CondEdges(walk, `^len\(.*\) < \^?limit$`, false) {
		iff := eng.IfOf(e.From)
		bo, ok := iff.Cond.(*ssa.BinOp)
		if !ok {
			continue
		}
		var lenArg ssa.Value
		for _, side := range []ssa.Value{bo.X, bo.Y} {
			if cl, ok := side.(*ssa.Call); ok && eng.CalleeName(&cl.Call) == "len" {
				lenArg = cl.Call.Args[0]
			}
		}
		if lenArg == nil {
			continue
		}
		n++
		var cell ssa.Value
		if u, ok := lenArg.(*ssa.UnOp); ok && u.Op == token.MUL {
			cell = bound[u.X]
		}
		if cell != nil && returned[cell] {
			c.OK(walk, site, iff.Cond.Pos(), "len("+eng.Expr(lenArg)+") >= limit, and that accumulator is what the listing returns")
		} else {
			c.Violation(walk, site, iff.Cond.Pos(), "the page-full test counts "+eng.Expr(lenArg)+", which is not the list that is returned: pages come back short or long and the paginated listing is no longer a slice of the full one", nil)
		}
	}
	c.Floor(walk, "page-full tests", n, 1)
}

// ---- the 'after' cut-off is compared with the entry name that is emitted
func c13gCutoffOperand(c *eng.Ctx) {
	f := c.Fn("raft.listShouldIncludeEntry")
	if f == nil {
		return
	}
	c.Clause("R5", "C13.3")
	var pAfter *ssa.Parameter
	for _, p := range f.Params {
		if eng.VarName(p) == "after" {
			pAfter = p
		}
	}
	if pAfter == nil && len(f.Params) == 3 {
		pAfter = f.Params[1]
	}
	if pAfter == nil {
		c.Unresolved("raft.listShouldIncludeEntry(prefix, after, key)")
		return
	}
	site := "prov{value compared with 'after' = the entry name returned}"
	n := 0
	for _, b := range f.Blocks {
		iff := eng.IfOf(b)
		if iff == nil {
			continue
		}
		bo, ok := iff.Cond.(*ssa.BinOp)
		if !ok || !(bo.Op == token.LSS || bo.Op == token.LEQ || bo.Op == token.GTR || bo.Op == token.GEQ) {
			continue
		}
		var other ssa.Value
		switch {
		case bo.X == ssa.Value(pAfter):
			other = bo.Y
		case bo.Y == ssa.Value(pAfter):
			other = bo.X
		default:
			continue
		}
		n++
		want := eng.ExprDeep(other)
		var bad []string
		nr := 0
		// the returns this decision leads to, on paths consistent with the tests that
		// necessarily precede it (a condition tested before and again after the comparison)
		known := c13gFactsBefore(f, iff)
		for si := range b.Succs {
			for _, r := range eng.Returns(f) {
				if eng.Reach(eng.Query{Fn: f, StartEdges: []eng.Edge{{From: b, Succ: si}}, Assume: known, Target: func(in ssa.Instruction) bool { return in == ssa.Instruction(r) }}) == nil {
					continue
				}
				nr++
				if got := eng.ExprDeep(r.Results[0]); got != want {
					bad = append(bad, got)
				}
			}
		}
		if len(bad) == 0 && nr > 0 {
			c.OK(f, site, iff.Cond.Pos(), "compares and returns "+want)
		} else {
			c.Violation(f, site, iff.Cond.Pos(), fmt.Sprintf("the cut-off test compares %s with 'after' but the entry emitted on that decision is %s: an entry is skipped or repeated across pages", want, strings.Join(bad, " / ")), nil)
		}
	}
	c.Floor(f, "ordering comparisons with 'after'", n, 2)
	if g := c.Fn("raft.listPageInner"); g != nil {
		c13gCutoffAppend(c, g, 2)
	}
	if g := c13gInmemWalk(c); g != nil {
		c13gCutoffAppend(c, g, 2)
	}
}

// c13gFactsBefore: the branch conditions whose value is the same on every
// path from the entry of a loop-free function to the test at: as an Assume map
// for eng.Reach (exact normalised condition -> value).
func c13gFactsBefore(f *ssa.Function, at *ssa.If) map[string]bool {
	facts := map[string]bool{}
	isAt := func(in ssa.Instruction) bool { return in == ssa.Instruction(at) }
	if eng.Reach(eng.Query{Fn: f, Target: isAt}) == nil {
		return facts
	}
	// loop-free only: a fact established in an earlier iteration may be stale
	color := map[*ssa.BasicBlock]int{}
	var cyclic func(b *ssa.BasicBlock) bool
	cyclic = func(b *ssa.BasicBlock) bool {
		color[b] = 1
		for _, s := range b.Succs {
			if color[s] == 1 || (color[s] == 0 && cyclic(s)) {
				return true
			}
		}
		color[b] = 2
		return false
	}
	if cyclic(f.Blocks[0]) {
		return facts
	}
	for _, b := range f.Blocks {
		d := eng.IfOf(b)
		if d == nil || d == at {
			continue
		}
		nc := eng.Normalize(d.Cond)
		for si := 0; si < 2; si++ {
			if eng.Reach(eng.Query{Fn: f, Blocked: []eng.Edge{{From: b, Succ: si}}, Target: isAt}) == nil {
				// without this edge the test is unreachable: every path to it takes this edge
				facts["^"+regexp.QuoteMeta(nc.Base)+"$"] = (si == 0) == nc.Pol
			}
		}
	}
	return facts
}

// c13gIsAfter: v is the listing's 'after' (parameter, or a captured variable read in a closure).
func c13gIsAfter(v ssa.Value) bool {
	if u, ok := v.(*ssa.UnOp); ok && u.Op == token.MUL {
		v = u.X
	}
	switch v.(type) {
	case *ssa.Parameter, *ssa.FreeVar:
		return eng.VarName(v) == "after"
	}
	return false
}

// c13gAppended: the single elements appended by `append(s, x)`.
func c13gAppended(ap ssa.CallInstruction) []ssa.Value {
	a := ap.Common().Args
	if len(a) != 2 {
		return nil
	}
	sl, ok := a[1].(*ssa.Slice)
	if !ok {
		return nil
	}
	arr, ok := sl.X.(*ssa.Alloc)
	if !ok || arr.Referrers() == nil {
		return nil
	}
	var out []ssa.Value
	for _, r := range *arr.Referrers() {
		if ia, ok := r.(*ssa.IndexAddr); ok && ia.Referrers() != nil {
			for _, rr := range *ia.Referrers() {
				if st, ok := rr.(*ssa.Store); ok && st.Addr == ssa.Value(ia) {
					out = append(out, st.Val)
				}
			}
		}
	}
	return out
}

// c13gCutoffAppend: in a listing loop body, the value compared with 'after'
// is the entry appended to the result on the edge that keeps it.
func c13gCutoffAppend(c *eng.Ctx, f *ssa.Function, floor int) {
	c.Clause("R5", "C13.3")
	site := "prov{value compared with 'after' = the entry appended to the page}"
	var stops []ssa.Instruction
	appends := eng.Calls(f, `^append$`)
	stops = append(stops, eng.AsInstrs(appends)...)
	stops = append(stops, eng.AsInstrs(eng.Returns(f))...)
	stops = append(stops, eng.AsInstrs(eng.Calls(f, `bbolt\.Cursor\)\.Next$`))...)
	n := 0
	for _, b := range f.Blocks {
		iff := eng.IfOf(b)
		if iff == nil {
			continue
		}
		bo, ok := iff.Cond.(*ssa.BinOp)
		if !ok || !(bo.Op == token.LSS || bo.Op == token.LEQ || bo.Op == token.GTR || bo.Op == token.GEQ) {
			continue
		}
		var other ssa.Value
		switch {
		case c13gIsAfter(bo.X):
			other = bo.Y
		case c13gIsAfter(bo.Y):
			other = bo.X
		default:
			continue
		}
		n++
		want := eng.ExprDeep(other)
		var bad []string
		hit := 0
		for si := range b.Succs {
			for _, ap := range appends {
				var others []ssa.Instruction
				for _, st := range stops {
					if st != ssa.Instruction(ap) {
						others = append(others, st)
					}
				}
				if eng.Reach(eng.Query{Fn: f, StartEdges: []eng.Edge{{From: b, Succ: si}}, Barriers: others, Target: func(in ssa.Instruction) bool { return in == ssa.Instruction(ap) }}) == nil {
					continue
				}
				hit++
				for _, el := range c13gAppended(ap) {
					if got := eng.ExprDeep(el); got != want {
						bad = append(bad, got)
					}
				}
			}
		}
		switch {
		case hit == 0:
			c.Violation(f, site, iff.Cond.Pos(), "the cut-off test on "+want+" decides no append of the same iteration", nil)
		case len(bad) > 0:
			c.Violation(f, site, iff.Cond.Pos(), fmt.Sprintf("the cut-off test compares %s with 'after' but the entry appended on that decision is %s: an entry is skipped or repeated across pages", want, strings.Join(bad, " / ")), nil)
		default:
			c.OK(f, site, iff.Cond.Pos(), "compares and appends "+want)
		}
	}
	c.Floor(f, "ordering comparisons with 'after'", n, floor)
}

// ---- a failed in-memory commit restores the parent tree
func c13gInmemCommitRestore(c *eng.Ctx) {
	f := c.Fn("inmem.(*InmemBackendTransaction).Commit")
	if f == nil {
		return
	}
	replay := eng.Calls(f, `^closure:inmem\.\(\*InmemBackendTransaction\)\.Commit\$\d+$`)
	snaps := eng.Calls(f, `go-radix\.Tree\)\.ToMap$`)
	c.Clause("R4", "C13.2")
	if !c.Floor(f, "replay of the recorded operations", len(replay), 1) || !c.Floor(f, "snapshot of the parent tree", len(snaps), 1) {
		return
	}
	var restore []ssa.Instruction
	for _, s := range eng.Stores(f, `\.parent\.(\w+\.)*root$`) {
		for _, sn := range snaps {
			if sv, ok := sn.(ssa.Value); ok && c14gMentions(s.Val, c14gIs(sv)) {
				restore = append(restore, s)
			}
		}
	}
	var fail []eng.Edge
	for _, r := range replay {
		if rv, ok := r.(ssa.Value); ok {
			fail = append(fail, eng.ValueNilEdges(rv, false)...)
		}
	}
	c.CleanupOnEdges(f, "replay of the transaction's operations failed", fail, "parent tree restored from the snapshot taken before the replay", restore)
	c.Clause("R3", "C13.2")
	c.Before(f, "snapshot of the parent tree", eng.AsInstrs(snaps), "replay of the operations", eng.AsInstrs(replay))
}

// ---- a raft transaction's Put/Delete always leave their record in the pending-update table
func c13gRaftTxnUpdates(c *eng.Ctx) {
	for _, m := range []struct{ fn, op, what string }{
		{"raft.(*RaftTransaction).Delete", "raft.deleteOp", "delete"},
		{"raft.(*RaftTransaction).Put", "raft.putOp", "put"},
	} {
		f := c.Fn(m.fn)
		if f == nil || len(f.Params) < 3 {
			continue
		}
		opv, ok := c.P.ConstValue(m.op)
		if !ok {
			c.Unresolved(m.op)
			continue
		}
		c.Clause("R4", "C13.2")
		arg := f.Params[2] // key (Delete) / entry (Put)
		var recs []ssa.Instruction
		var why []string
		for _, in := range eng.Instrs(f, func(in ssa.Instruction) bool { _, ok := in.(*ssa.MapUpdate); return ok }) {
			mu := in.(*ssa.MapUpdate)
			if ld, base := c14LoadOfField(mu.Map, "updates"); ld == nil || base != ssa.Value(f.Params[0]) {
				continue
			}
			keyOK := mu.Key == ssa.Value(arg)
			if !keyOK {
				if ld, base := c14LoadOfField(mu.Key, "Key"); ld != nil && base == ssa.Value(arg) {
					keyOK = true
				}
			}
			ops := eng.StructLitField(mu.Value, "OpType")
			opOK := len(ops) > 0
			for _, o := range ops {
				if eng.Expr(o) != opv {
					opOK = false
				}
			}
			cont := eng.StructLitField(mu.Value, "Contents")
			contOK := (m.what == "delete" && len(cont) == 0) || (m.what == "put" && len(cont) > 0)
			for _, cv := range cont {
				if m.what == "put" {
					ks := eng.StructLitField(cv, "Key")
					vs := eng.StructLitField(cv, "Value")
					if len(ks) == 0 || len(vs) == 0 {
						contOK = false
					}
					for _, k := range ks {
						if ld, base := c14LoadOfField(k, "Key"); ld == nil || base != ssa.Value(arg) {
							contOK = false
						}
					}
					for _, v := range vs {
						if !c14gMentions(v, func(x ssa.Value) bool {
							ld, base := c14LoadOfField(x, "Value")
							return ld != nil && base == ssa.Value(arg)
						}) {
							contOK = false
						}
					}
				}
			}
			if keyOK && opOK && contOK {
				recs = append(recs, mu)
			} else {
				why = append(why, fmt.Sprintf("t.updates[%s] = %s (key=%v op=%v contents=%v)", eng.Expr(mu.Key), eng.ExprDeep(mu.Value), keyOK, opOK, contOK))
			}
		}
		site := "on{" + m.what + " accepted} cleanup{t.updates[key] = the " + m.what + " record}"
		rets := eng.SuccessReturns(f, 0)
		if !c.Floor(f, "success returns", len(rets), 1) {
			continue
		}
		if len(recs) == 0 {
			c.Violation(f, site, f.Pos(), "no store of a well-formed "+m.what+" record into t.updates under the operation's key: "+strings.Join(why, "; "), nil)
			continue
		}
		if h := eng.Reach(eng.Query{Fn: f, Barriers: recs, Target: eng.IsTarget(rets)}); h != nil {
			c.Violation(f, site, h.Instr.Pos(), "the transaction reports the "+m.what+" as accepted on a path that does not leave the "+m.what+" record in its pending updates: a later Get/List in the transaction and the commit do not see it", h.Witness)
		} else {
			c.OK(f, site, recs[0].Pos(), fmt.Sprintf("every nil-error return passes t.updates[key] = {%s …} (%d store site(s))", m.op, len(recs)))
		}
	}
}

// ---- a cache's LRU is created with the cache and never shared or swapped
func c13gCacheLRU(c *eng.Ctx) {
	c.Clause("R6", "C13.5")
	fv := c.P.Field("physical.cache.lru")
	if fv == nil {
		c.Unresolved("physical.cache.lru")
		return
	}
	ws := c.P.FieldWriters(fv)
	bad := 0
	var first *ssa.Function
	var pos token.Pos
	for _, w := range ws {
		top := eng.TopFunc(w.Fn)
		fresh := false
		if cl := c14ExtractOf(w.Store.Val, 0); cl != nil && strings.Contains(eng.CalleeName(&cl.Call), "golang-lru") && strings.Contains(eng.CalleeName(&cl.Call), "New") {
			fresh = true
		}
		if eng.FuncName(top) == "physical.newCache" && fresh {
			if first == nil {
				first, pos = top, w.Store.Pos()
			}
			continue
		}
		bad++
		c.Violation(top, "writer{physical.cache.lru}", w.Store.Pos(), "a cache's LRU is set to "+eng.ExprDeep(w.Store.Val)+" outside its constructor: a transaction's cache sharing (or swapping) an LRU makes uncommitted or rolled-back writes visible to other readers", nil)
	}
	if bad == 0 && first != nil {
		c.OK(first, "writer{physical.cache.lru}", pos, fmt.Sprintf("%d writer(s): the constructor, with a freshly created LRU", len(ws)))
	}
	c.Floor(nil, "writers of physical.cache.lru", len(ws), 1)
}

// ---- HandleListPage: page after page of the storage it was given, until a short or empty page
func c13gHandleListPage(c *eng.Ctx) {
	f := c.Fn("logical.HandleListPage")
	if f == nil {
		return
	}
	lps, lpRecv := c13gMethodCalls(f, "ListPage")
	c.Clause("R5", "C13.4")
	if !c.Floor(f, "ListPage in HandleListPage", len(lps), 1) {
		return
	}
	for _, l := range lps {
		a := l.Common().Args
		c.Prov(f, "storage listed", l, lpRecv[l], `^param:storage$`)
		c.Prov(f, "prefix listed", l, a[1], `^param:prefix$`)
		c.Prov(f, "page size", l, a[3], `^param:limit$`)
		okA := true
		var os []string
		for _, o := range eng.Origins(a[2]) {
			s := o.Kind + ":" + o.Desc
			os = append(os, s)
			if s == `const:""` {
				continue
			}
			if idx, isElem := c13gListedElem(o.Val, lps); isElem && c13gIsLastIndex(idx, lps) {
				continue
			}
			okA = false
		}
		if okA && len(os) == 2 {
			c.OK(f, "next page starts after the last listed element", l.Pos(), strings.Join(os, " | "))
		} else {
			c.Violation(f, "next page starts after the last listed element", l.Pos(), "'after' of HandleListPage's ListPage originates from "+strings.Join(os, " | "), nil)
		}
	}
	// the loop ends normally only on an empty page, an unlimited listing or a short page
	c.Clause("R2", "C13.4")
	var done []ssa.Instruction
	for _, r := range eng.Returns(f) {
		if len(r.Results) == 1 && eng.IsNilConst(r.Results[0]) {
			done = append(done, r)
		}
	}
	if c.Floor(f, "normal end of the page loop", len(done), 1) {
		c.Cut(f, "end of the page loop", done, eng.Or(
			eng.G(f, `^len\(<logical\.Storage>\.ListPage\(\)#0\) == 0$`, true),
			eng.G(f, `^0 < limit$`, false),
			eng.G(f, `^len\(<logical\.Storage>\.ListPage\(\)#0\) < limit$`, true)), nil)
	}
}

// ---- a transaction begun on a prefix view is a view of the transaction under the same prefix
func c13gViewTxnPrefix(c *eng.Ctx) {
	c.Clause("R5", "C13.1")
	n := 0
	for _, fn := range []string{"logical.(*transactionalStorageView).BeginTx", "logical.(*transactionalStorageView).BeginReadOnlyTx"} {
		f := c.Fn(fn)
		if f == nil {
			continue
		}
		begins := eng.Calls(f, `^<logical\.TransactionalStorage>\.Begin(ReadOnly)?Tx$`)
		if !c.Floor(f, "transaction begun on the wrapped storage", len(begins), 1) {
			continue
		}
		site := "prov{transaction view = (storage: the transaction begun, prefix: the view's prefix)}"
		for _, r := range eng.NonNilResultReturns(f, 0) {
			n++
			v := r.(*ssa.Return).Results[0]
			if mi, ok := v.(*ssa.MakeInterface); ok {
				v = mi.X
			}
			// the embedded storageView literal
			inner := v
			if em := eng.StructLitField(v, "storageView"); len(em) == 1 {
				inner = em[0]
				if u, ok := inner.(*ssa.UnOp); ok && u.Op == token.MUL {
					inner = u.X
				}
			}
			sts, pfx := eng.StructLitField(inner, "storage"), eng.StructLitField(inner, "prefix")
			okS := len(sts) > 0
			for _, s := range sts {
				cl := c14ExtractOf(s, 0)
				if mi, isMI := s.(*ssa.MakeInterface); isMI {
					cl = c14ExtractOf(mi.X, 0)
				}
				if ci, isCI := s.(*ssa.ChangeInterface); isCI {
					cl = c14ExtractOf(ci.X, 0)
				}
				if cl == nil || ssa.CallInstruction(cl) != begins[0] {
					okS = false
				}
			}
			okP := len(pfx) > 0
			for _, p := range pfx {
				if ld, _ := c14LoadOfField(p, "prefix"); ld == nil || !c13MentionsParam(p, f.Params[0]) {
					okP = false
				}
			}
			if okS && okP {
				c.OK(f, site, r.Pos(), "storage = "+eng.Expr(sts[0])+", prefix = "+eng.Expr(pfx[0]))
			} else {
				c.Violation(f, site, r.Pos(), fmt.Sprintf("the transaction view is %s (storage is the transaction begun: %v, prefix is the view's own: %v): its keys are no longer confined to the view's prefix", eng.ExprDeep(v), okS, okP), nil)
			}
		}
	}
	c.Floor(nil, "transaction views built by prefix views", n, 2)
}

// ---- transaction layers: every operation of a type that wraps another
// transaction (its Commit commits a handle reached from the receiver) reaches
// that same handle — never only the non-transactional parent the transaction
// was begun from (seed C13-c).
func c13gTxnHandlePath(v ssa.Value, recv *ssa.Parameter) string {
	for {
		switch x := v.(type) {
		case *ssa.TypeAssert:
			v = x.X
			continue
		case *ssa.ChangeInterface:
			v = x.X
			continue
		case *ssa.MakeInterface:
			v = x.X
			continue
		}
		break
	}
	s := eng.Expr(v)
	rn := eng.VarName(recv)
	if s == rn {
		return "·"
	}
	if strings.HasPrefix(s, rn+".") {
		return "·" + s[len(rn):]
	}
	return ""
}

func c13gTxnLayers(c *eng.Ctx) {
	c.Clause("R8", "C13.2")
	byRecv := map[string]map[string]*ssa.Function{}
	for _, f := range c.P.Funcs {
		if f.Signature.Recv() == nil || f.Parent() != nil || f.Synthetic != "" || len(f.Blocks) == 0 || len(f.Params) == 0 {
			continue
		}
		r := c13Recv(f)
		if byRecv[r] == nil {
			byRecv[r] = map[string]*ssa.Function{}
		}
		byRecv[r][f.Name()] = f
	}
	var typs []string
	for r, ms := range byRecv {
		if ms["Commit"] != nil && ms["Rollback"] != nil {
			typs = append(typs, r)
		}
	}
	sort.Strings(typs)
	// operands of the calls of f, as access paths from its receiver
	reaches := func(f *ssa.Function, handles map[string]bool) bool {
		for _, cl := range eng.Calls(f, `.`) {
			cc := cl.Common()
			ops := append([]ssa.Value{}, cc.Args...)
			if cc.IsInvoke() {
				ops = append(ops, cc.Value)
			}
			for _, o := range ops {
				if p := c13gTxnHandlePath(o, f.Params[0]); p != "" && p != "·" && handles[p] {
					return true
				}
			}
		}
		return false
	}
	nWrap, nOps := 0, 0
	var base []string
	for _, t := range typs {
		ms := byRecv[t]
		cm := ms["Commit"]
		handles := map[string]bool{}
		for _, cl := range eng.Calls(cm, `\.Commit$`) {
			cc := cl.Common()
			var recv ssa.Value
			if cc.IsInvoke() {
				recv = cc.Value
			} else if len(cc.Args) > 0 {
				recv = cc.Args[0]
			}
			if p := c13gTxnHandlePath(recv, cm.Params[0]); p != "" && p != "·" {
				handles[p] = true
			}
		}
		if len(handles) == 0 {
			base = append(base, t)
			continue
		}
		var hs []string
		for h := range handles {
			hs = append(hs, h)
		}
		sort.Strings(hs)
		nWrap++
		for _, m := range c13Ops {
			f := ms[m]
			if f == nil {
				continue // promoted from an embedded layer: held to the layer rules of that type
			}
			nOps++
			site := m + " of a transaction layer reaches the wrapped transaction handle"
			ok := reaches(f, handles)
			via := strings.Join(hs, ", ")
			if !ok {
				// delegation to a sibling operation of the same receiver
				for _, cl := range eng.Calls(f, `.`) {
					cc := cl.Common()
					if cc.IsInvoke() || len(cc.Args) == 0 || cc.Args[0] != ssa.Value(f.Params[0]) {
						continue
					}
					callee := cc.StaticCallee()
					if callee != nil && c13Recv(callee) == t && callee != f && len(callee.Params) > 0 && reaches(callee, handles) {
						ok = true
						via = "its own " + callee.Name() + ", which uses " + strings.Join(hs, ", ")
					}
				}
			}
			if ok {
				c.OK(f, site, f.Pos(), "through "+via)
			} else {
				c.Violation(f, site, f.Pos(), fmt.Sprintf("%s commits %s but its %s never touches that handle: inside the transaction the operation addresses the non-transactional store (no read-your-writes, no isolation, not verified at commit)", t, strings.Join(hs, ", "), m), nil)
			}
		}
	}
	c.Floor(nil, "transaction types wrapping another transaction", nWrap, 3)
	c.Floor(nil, "operations declared on wrapping transaction types", nOps, 8)
	if len(base) > 0 {
		c.OK(nil, "family{transaction layers}", token.NoPos, fmt.Sprintf("%d wrapping transaction type(s); base transactions (own Commit, not held to this rule): %s", nWrap, strings.Join(base, ", ")))
	}
}

// c13gSeekConcat: the seek position is []byte(prefix + after) of the listing's own parameters.
func c13gSeekConcat(pos ssa.Value) bool {
	for {
		if cv, ok := pos.(*ssa.Convert); ok {
			pos = cv.X
			continue
		}
		break
	}
	bo, ok := pos.(*ssa.BinOp)
	if !ok || bo.Op != token.ADD {
		return false
	}
	x, okX := bo.X.(*ssa.Parameter)
	y, okY := bo.Y.(*ssa.Parameter)
	return okX && okY && eng.VarName(x) == "prefix" && eng.VarName(y) == "after"
}

// ---- the seek position of a paginated raft listing is not a cleaned path:
// 'after' is an arbitrary string that is compared bytewise with entry names;
// cleaning it (filepath.Join / Clean) moves the start of the scan past entries
// that sort after 'after' ("./y", "a/../y").
func c13gSeekNotCleaned(c *eng.Ctx) {
	c.Clause("R5", "C13.3")
	n := 0
	for _, f := range c.P.Funcs {
		if !eng.InPkg(f, "raft") {
			continue
		}
		var pAfter *ssa.Parameter
		for _, p := range f.Params {
			if eng.VarName(p) == "after" {
				pAfter = p
			}
		}
		if pAfter == nil {
			continue
		}
		for _, sk := range eng.Calls(f, `bbolt\.Cursor\)\.Seek$`) {
			pos := sk.Common().Args[1]
			if !c14gMentions(pos, c14gIs(pAfter)) {
				continue
			}
			n++
			site := "prov{seek position of a paginated listing is not a cleaned path}"
			var cleaner string
			c14gMentions(pos, func(v ssa.Value) bool {
				if cl, ok := v.(*ssa.Call); ok {
					switch nm := eng.CalleeName(&cl.Call); nm {
					case "path/filepath.Join", "path/filepath.Clean", "path.Join", "path.Clean":
						if c14gMentions(cl, c14gIs(pAfter)) {
							cleaner = nm
							return true
						}
					}
				}
				return false
			})
			if cleaner == "" {
				c.OK(f, site, sk.Pos(), eng.ExprDeep(pos))
			} else {
				c.Violation(f, site, sk.Pos(), "the cursor seeks to "+cleaner+"(…after…): cleaning changes the byte order of 'after' (\"./y\" becomes \"y\", \"a/../y\" becomes \"y\"), the scan starts beyond entries that sort after 'after' and the page is not the corresponding slice of the full listing", nil)
			}
		}
	}
	c.Floor(nil, "cursor seeks positioned by 'after'", n, 2)
}

// ---- the file backend's on-disk name of a key: a key is an arbitrary string
// ("foo" and "foo/", "a/b" and "a//b" are different keys of every other
// backend); deriving the file name through path cleaning (filepath.Join / Base
// / Dir) maps distinct keys to one file unless unclean keys are refused first.
func c13gFileKeyEncoding(c *eng.Ctx) {
	const recv = "(*" + eng.ModSDK + "/physical/file.FileBackend)."
	f := c.Fn(recv + "expandPath")
	vp := c.Fn(recv + "validatePath")
	if f == nil || vp == nil || len(f.Params) < 2 || len(vp.Params) < 2 {
		return
	}
	c.Clause("R5", "C13.2")
	key := f.Params[1]
	cleaners := map[string]bool{"path/filepath.Join": true, "path/filepath.Clean": true, "path/filepath.Base": true, "path/filepath.Dir": true, "path.Join": true, "path.Clean": true, "path.Base": true, "path.Dir": true}
	var used []string
	seen := map[string]bool{}
	for _, r := range eng.Returns(f) {
		for _, res := range r.Results {
			c14gMentions(res, func(v ssa.Value) bool {
				if cl, ok := v.(*ssa.Call); ok {
					if nm := eng.CalleeName(&cl.Call); cleaners[nm] && !seen[nm] && c14gMentions(cl, c14gIs(key)) {
						seen[nm] = true
						used = append(used, nm)
					}
				}
				return false
			})
		}
	}
	sort.Strings(used)
	site := "prov{on-disk name of a key is not a cleaned path of it (or unclean keys are refused)}"
	if len(used) == 0 {
		c.OK(f, site, f.Pos(), "the file name is not derived from the key through a path-cleaning function")
		return
	}
	// does validatePath refuse keys that cleaning changes? (a comparison of Clean(path) with path)
	refuses := false
	for _, b := range vp.Blocks {
		iff := eng.IfOf(b)
		if iff == nil {
			continue
		}
		bo, ok := iff.Cond.(*ssa.BinOp)
		if !ok || !(bo.Op == token.EQL || bo.Op == token.NEQ) {
			continue
		}
		isClean := func(v ssa.Value) bool {
			cl, ok := v.(*ssa.Call)
			return ok && strings.HasSuffix(eng.CalleeName(&cl.Call), ".Clean") && len(cl.Call.Args) == 1 && cl.Call.Args[0] == ssa.Value(vp.Params[1])
		}
		if (isClean(bo.X) && bo.Y == ssa.Value(vp.Params[1])) || (isClean(bo.Y) && bo.X == ssa.Value(vp.Params[1])) {
			refuses = true
		}
	}
	if refuses {
		c.OK(f, site, f.Pos(), "name derived through "+strings.Join(used, ", ")+", and validatePath compares Clean(key) with the key")
	} else {
		c.Violation(f, site, f.Pos(), "the file that stores a key is named through "+strings.Join(used, ", ")+" of the key and validatePath only refuses \"..\": the distinct keys \"foo\" and \"foo/\" (\"a/b\" and \"a//b\", \"a/./b\") share one file — a put of one overwrites the other, a delete of one removes the other, and listings differ from every other backend", nil)
	}
}

// c13gMethodCalls: the calls of a method named name in f — interface invokes
// and calls through a method value bound earlier (m := recv.Name; m(...)) —
// with the receiver each call addresses.
func c13gMethodCalls(f *ssa.Function, name string) ([]ssa.CallInstruction, map[ssa.CallInstruction]ssa.Value) {
	recv := map[ssa.CallInstruction]ssa.Value{}
	var out []ssa.CallInstruction
	for _, cl := range eng.Calls(f, `.`) {
		cc := cl.Common()
		switch {
		case cc.IsInvoke() && cc.Method.Name() == name:
			recv[cl] = cc.Value
			out = append(out, cl)
		case !cc.IsInvoke():
			if mc, ok := cc.Value.(*ssa.MakeClosure); ok && len(mc.Bindings) == 1 {
				if fn, ok := mc.Fn.(*ssa.Function); ok && fn.Synthetic != "" && strings.TrimSuffix(fn.Name(), "$bound") == name && strings.HasSuffix(fn.Name(), "$bound") {
					recv[cl] = mc.Bindings[0]
					out = append(out, cl)
				}
			}
		}
	}
	return out, recv
}

// c13gListedElem: v is an element result#0[idx] of one of the listing calls.
func c13gListedElem(v ssa.Value, lps []ssa.CallInstruction) (ssa.Value, bool) {
	u, ok := v.(*ssa.UnOp)
	if !ok || u.Op != token.MUL {
		return nil, false
	}
	ia, ok := u.X.(*ssa.IndexAddr)
	if !ok {
		return nil, false
	}
	ex, ok := ia.X.(*ssa.Extract)
	if !ok || ex.Index != 0 {
		return nil, false
	}
	for _, l := range lps {
		if lv, isV := l.(ssa.Value); isV && ex.Tuple == lv {
			return ia.Index, true
		}
	}
	return nil, false
}

// c13gIsLastIndex: idx is len(result#0 of a listing call) - 1.
func c13gIsLastIndex(idx ssa.Value, lps []ssa.CallInstruction) bool {
	bo, ok := idx.(*ssa.BinOp)
	if !ok || bo.Op != token.SUB || eng.Expr(bo.Y) != "1" {
		return false
	}
	cl, ok := bo.X.(*ssa.Call)
	if !ok || eng.CalleeName(&cl.Call) != "len" || len(cl.Call.Args) != 1 {
		return false
	}
	ex, ok := cl.Call.Args[0].(*ssa.Extract)
	if !ok || ex.Index != 0 {
		return false
	}
	for _, l := range lps {
		if lv, isV := l.(ssa.Value); isV && ex.Tuple == lv {
			return true
		}
	}
	return false
}

// c13gInmemWalk: the per-key callback of the in-memory listing: the frozen
// anchor, or (when the closure is no longer handed to WalkPrefix directly, e.g.
// through a forwarding closure) the one closure of listPaginatedInternal that
// captures 'after' and appends to a result.
func c13gInmemWalk(c *eng.Ctx) *ssa.Function {
	const name = "inmem.(*InmemBackend).listPaginatedInternal"
	if w := c.P.Func(name + "$1"); w != nil {
		return w
	}
	parent := c.P.Func(name)
	if parent == nil {
		return nil // reported by the caller's c.Fn
	}
	var cands []*ssa.Function
	for _, cl := range eng.Closures(parent) {
		capt := false
		for _, fv := range cl.FreeVars {
			if eng.VarName(fv) == "after" {
				capt = true
			}
		}
		if capt && len(eng.Calls(cl, `^append$`)) > 0 {
			cands = append(cands, cl)
		}
	}
	if len(cands) == 1 {
		return cands[0]
	}
	c.Unresolved(name + "$1")
	return nil
}

// ---- the bolt cursor of a raft listing is moved exactly once per key examined:
// every cursor move (Seek / Next / First / Last / Prev) is followed by the
// loop's test of the key it returned before any other move — a re-positioning
// inside the loop body followed by the post-statement's Next steps over the key
// the cursor just landed on (seed C13-f).
func c13gCursorStep(c *eng.Ctx) {
	const movePat = `bbolt\.Cursor\)\.(Seek|Next|First|Last|Prev)$`
	n := 0
	for _, fn := range []string{"raft.listPageInner", "raft.(*RaftTransaction).ListPage"} {
		f := c.Fn(fn)
		if f == nil {
			continue
		}
		c.Clause("R3", "C13.3")
		moves := eng.Calls(f, movePat)
		if !c.Floor(f, "cursor moves", len(moves), 2) {
			continue
		}
		isMoveKey := func(v ssa.Value) bool {
			e, ok := v.(*ssa.Extract)
			if !ok || e.Index != 0 {
				return false
			}
			for _, m := range moves {
				if mv, isV := m.(ssa.Value); isV && e.Tuple == mv {
					return true
				}
			}
			return false
		}
		// the loop's test of the current key: k == nil on the value the moves produce
		var tests []ssa.Instruction
		keyPhi := map[ssa.Value]bool{}
		for _, b := range f.Blocks {
			iff := eng.IfOf(b)
			if iff == nil {
				continue
			}
			bo, ok := iff.Cond.(*ssa.BinOp)
			if !ok || !(bo.Op == token.EQL || bo.Op == token.NEQ) {
				continue
			}
			for _, side := range [][2]ssa.Value{{bo.X, bo.Y}, {bo.Y, bo.X}} {
				if !eng.IsNilConst(side[1]) {
					continue
				}
				fed := isMoveKey(side[0])
				if phi, isPhi := side[0].(*ssa.Phi); isPhi {
					for _, e := range phi.Edges {
						if isMoveKey(e) {
							fed = true
						}
					}
				}
				if fed {
					tests = append(tests, iff)
					keyPhi[side[0]] = true
				}
			}
		}
		site := "order{every cursor move is followed by the loop's test of the key it returned before the next move}"
		if len(tests) == 0 {
			c.Undecided(f, site, moves[0].Pos(), "the loop's nil test of the cursor key was not found (moved?): the rule cannot be evaluated")
			continue
		}
		n++
		bad := false
		for _, m := range moves {
			// the key the move returns is the one the loop examines
			used := false
			if mv, isV := m.(ssa.Value); isV && mv.Referrers() != nil {
				for _, r := range *mv.Referrers() {
					if e, isE := r.(*ssa.Extract); isE && e.Index == 0 && e.Referrers() != nil {
						for _, rr := range *e.Referrers() {
							if phi, isPhi := rr.(*ssa.Phi); isPhi && keyPhi[phi] {
								used = true
							}
							if bo, isB := rr.(*ssa.BinOp); isB && keyPhi[ssa.Value(e)] && (bo.X == ssa.Value(e) || bo.Y == ssa.Value(e)) {
								used = true
							}
						}
					}
				}
			}
			if !used {
				bad = true
				c.Violation(f, site, m.Pos(), "the key returned by "+eng.CalleeName(m.Common())+" is not the one the loop goes on to examine: the cursor is re-positioned behind the loop's back and the post-statement's Next steps over the key it landed on", nil)
				continue
			}
			if h := eng.Reach(eng.Query{Fn: f, StartAfter: m, Barriers: tests, Target: func(in ssa.Instruction) bool {
				ci, ok := in.(ssa.CallInstruction)
				if !ok {
					return false
				}
				for _, o := range moves {
					if o == ci {
						return true
					}
				}
				return false
			}}); h != nil {
				bad = true
				c.Violation(f, site, h.Instr.Pos(), "after "+eng.CalleeName(m.Common())+" another cursor move is reachable before the key was examined: a key is skipped and the page is not the corresponding slice of the full listing", h.Witness)
			}
		}
		if !bad {
			c.OK(f, site, moves[0].Pos(), fmt.Sprintf("%d cursor move(s), each followed by the loop test before any other move", len(moves)))
		}
	}
	c.Clause("R3", "C13.3")
	c.Floor(nil, "raft listings with a cursor loop", n, 2)
}

// ---- scanViewPaginated: the paging loop of one directory ends (other than by
// an error / a callback's stop) only when the page was empty, shorter than the
// page size, or in the single-empty-entry case — exactly one entry AND that
// entry is "" AND the page size is above one; and inside a page every entry is
// either reported or queued (seed C13-g). Operands are selected by identity:
// the ListPage result, its length, the pageSize parameter.
func c13gScanLoop(c *eng.Ctx) {
	f := c.Fn("logical.scanViewPaginated")
	if f == nil {
		return
	}
	c.Clause("R2", "C13.4")
	lps, _ := c13gMethodCalls(f, "ListPage")
	if !c.Floor(f, "ListPage in the scan", len(lps), 1) {
		return
	}
	var pSize *ssa.Parameter
	for _, p := range f.Params {
		if eng.VarName(p) == "pageSize" {
			pSize = p
		}
	}
	if pSize == nil {
		c.Unresolved("logical.scanViewPaginated(pageSize)")
		return
	}
	isListing := func(v ssa.Value) bool {
		ex, ok := v.(*ssa.Extract)
		if !ok || ex.Index != 0 {
			return false
		}
		for _, l := range lps {
			if lv, isV := l.(ssa.Value); isV && ex.Tuple == lv {
				return true
			}
		}
		return false
	}
	isLen := func(v ssa.Value) bool {
		cl, ok := v.(*ssa.Call)
		return ok && eng.CalleeName(&cl.Call) == "len" && len(cl.Call.Args) == 1 && isListing(cl.Call.Args[0])
	}
	isConst := func(v ssa.Value, s string) bool {
		_, ok := v.(*ssa.Const)
		return ok && eng.Expr(v) == s
	}
	// the single entry of a one-element page: element 0, the last element, or the 'after' cursor taken from it
	isEntry := func(v ssa.Value) bool {
		var elem func(v ssa.Value, d int) bool
		elem = func(v ssa.Value, d int) bool {
			if idx, ok := c13gListedElem(v, lps); ok {
				return eng.Expr(idx) == "0" || c13gIsLastIndex(idx, lps)
			}
			if phi, ok := v.(*ssa.Phi); ok && d < 3 {
				any := false
				for _, e := range phi.Edges {
					if isConst(e, `""`) {
						continue
					}
					if !elem(e, d+1) {
						return false
					}
					any = true
				}
				return any
			}
			return false
		}
		return elem(v, 0)
	}
	// edges on which a relation between two classified operands holds
	var empty, short, one, blank, multi []eng.Edge
	var rangeBody []eng.Edge
	var rangeIfs []ssa.Instruction
	for _, b := range f.Blocks {
		iff := eng.IfOf(b)
		if iff == nil {
			continue
		}
		bo, ok := iff.Cond.(*ssa.BinOp)
		if !ok {
			continue
		}
		T, F := eng.Edge{From: b, Succ: 0}, eng.Edge{From: b, Succ: 1}
		x, y := bo.X, bo.Y
		eqEdge := func() (eng.Edge, bool) {
			switch bo.Op {
			case token.EQL:
				return T, true
			case token.NEQ:
				return F, true
			}
			return T, false
		}
		// x < y holds on ...
		lessEdge := func(a, b2 func(ssa.Value) bool) (eng.Edge, bool) {
			switch {
			case bo.Op == token.LSS && a(x) && b2(y), bo.Op == token.GTR && a(y) && b2(x):
				return T, true
			case bo.Op == token.GEQ && a(x) && b2(y), bo.Op == token.LEQ && a(y) && b2(x):
				return F, true
			}
			return T, false
		}
		isSize := func(v ssa.Value) bool { return v == ssa.Value(pSize) }
		is0 := func(v ssa.Value) bool { return isConst(v, "0") }
		is1 := func(v ssa.Value) bool { return isConst(v, "1") }
		is2 := func(v ssa.Value) bool { return isConst(v, "2") }
		if e, ok := eqEdge(); ok {
			switch {
			case (isLen(x) && is0(y)) || (isLen(y) && is0(x)):
				empty = append(empty, e)
			case (isLen(x) && is1(y)) || (isLen(y) && is1(x)):
				one = append(one, e)
			case (isEntry(x) && isConst(y, `""`)) || (isEntry(y) && isConst(x, `""`)):
				blank = append(blank, e)
			}
			continue
		}
		if e, ok := lessEdge(isLen, isSize); ok {
			short = append(short, e)
		}
		if e, ok := lessEdge(isLen, is1); ok { // len < 1
			empty = append(empty, e)
		}
		if e, ok := lessEdge(is1, isSize); ok { // 1 < pageSize
			multi = append(multi, e)
		}
		if e, ok := lessEdge(isSize, is2); ok { // pageSize < 2 is the negation
			multi = append(multi, eng.Edge{From: b, Succ: 1 - e.Succ})
		}
		// the loop over the entries of a page: idx < len(listing)
		if bo.Op == token.LSS && isLen(y) && !is0(x) && !is1(x) && !isSize(x) {
			rangeBody = append(rangeBody, T)
			rangeIfs = append(rangeIfs, iff)
		}
	}
	// where paging of the current directory stops normally: the outer loop's test, or the final return nil
	var stops []ssa.Instruction
	for _, b := range f.Blocks {
		if iff := eng.IfOf(b); iff != nil {
			if bo, ok := iff.Cond.(*ssa.BinOp); ok {
				for _, side := range []ssa.Value{bo.X, bo.Y} {
					if cl, isC := side.(*ssa.Call); isC && eng.CalleeName(&cl.Call) == "len" && len(cl.Call.Args) == 1 && !isListing(cl.Call.Args[0]) && strings.HasPrefix(eng.Expr(cl.Call.Args[0]), "φfrontier") {
						stops = append(stops, iff)
					}
				}
			}
		}
	}
	for _, r := range eng.Returns(f) {
		if len(r.Results) == 1 && eng.IsNilConst(r.Results[0]) {
			stops = append(stops, r)
		}
	}
	if !c.Floor(f, "normal ends of a directory's paging (outer loop test / return nil)", len(stops), 2) {
		return
	}
	var start []eng.Edge
	for _, l := range lps {
		start = append(start, eng.CallOKEdges(l)...)
	}
	if len(start) == 0 {
		c.Undecided(f, "end of a directory's paging", lps[0].Pos(), "the error of ListPage is not tested (moved?): the rule cannot be evaluated")
		return
	}
	base := append(append([]eng.Edge{}, empty...), short...)
	site := "end of a directory's paging: page empty, page short, or (one entry AND entry == \"\" AND pageSize > 1)"
	var missing []string
	var wit []string
	for _, cj := range []struct {
		what  string
		edges []eng.Edge
	}{{"exactly one entry was listed (len(page) == 1)", one}, {"that entry is the empty string", blank}, {"the page size is above one", multi}} {
		blocked := append(append([]eng.Edge{}, base...), cj.edges...)
		if h := eng.Reach(eng.Query{Fn: f, StartEdges: start, Blocked: blocked, Barriers: eng.AsInstrs(lps), Target: eng.IsTarget(stops)}); h != nil {
			missing = append(missing, cj.what)
			wit = h.Witness
		}
	}
	if len(missing) == 0 {
		c.OK(f, site, lps[0].Pos(), fmt.Sprintf("every path from a successful ListPage to the end of the directory's paging crosses len(page)==0 (%d edge(s)), len(page)<pageSize (%d) or all three conjuncts of the single-empty-entry case", len(empty), len(short)))
	} else {
		c.Violation(f, site, lps[0].Pos(), "the scan can stop paging a directory after a page that was neither empty nor short without having established that "+strings.Join(missing, " / ")+": the remaining pages are never listed (ScanView, CollectKeys and CountKeys under-report, ClearView leaves keys behind)", wit)
	}
	// inside a page every entry is reported or queued
	cbs := eng.Calls(f, `^dyn:cb$`)
	var handled []ssa.Instruction
	handled = append(handled, eng.AsInstrs(cbs)...)
	for _, ap := range eng.Calls(f, `^append$`) {
		if strings.HasPrefix(eng.Expr(ap.Common().Args[0]), "φfrontier") {
			handled = append(handled, ap)
		}
	}
	site = "every listed entry is reported to the callback or queued on the frontier"
	if c.Floor(f, "loop over the entries of a page", len(rangeBody), 1) && c.Floor(f, "callback / frontier push", len(handled), 2) {
		if h := eng.Reach(eng.Query{Fn: f, StartEdges: rangeBody, Barriers: handled, Target: eng.IsTarget(append(append([]ssa.Instruction{}, rangeIfs...), stops...))}); h != nil {
			c.Violation(f, site, h.Instr.Pos(), "an entry of a page can be passed over without being reported or queued", h.Witness)
		} else {
			c.OK(f, site, rangeIfs[0].Pos(), "from the loop body the next entry (or the end of paging) is reached only past the callback or the frontier push")
		}
	}
}
