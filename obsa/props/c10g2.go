package props

import (
	"go/types"
	"regexp"
	"strings"

	"golang.org/x/tools/go/ssa"

	"obsa/eng"
)

// runC10Gaps2: second-tier mechanisms of C10 — the Keyring value type the
// barrier's durable-before-visible discipline rests on, the per-term AEAD
// cache, re-initialisation, the namespace-aware siblings of the rekey, the
// Core side of the standby upgrade path, and sealing every barrier.
func runC10Gaps2(c *eng.Ctx) {
	c10gKeyring(c)
	c10gZeroizeCallers(c)
	c10gAeadForTerm(c)
	c10gInitializeOnce(c)
	c10gRotationSiblings(c)
	c10gUpgradeDrivers(c)
	c10gSealAll(c)
	c10gKeyVerification(c)
	c10gRawProtectsKeyring(c)
	c10gSealInternal(c)
	c10gRotationEnvelope(c)
	c10gUpgradeKeyPublished(c)
	keyringZeroizeOwnership(c, "C10.2")
	c10gKEKWriters(c)
}

// c10gRecvKeyring: f is a method with receiver *Keyring.
func c10gRecvKeyring(f *ssa.Function) bool {
	if f.Signature == nil || f.Signature.Recv() == nil || len(f.Params) == 0 {
		return false
	}
	p, ok := f.Signature.Recv().Type().(*types.Pointer)
	if !ok {
		return false
	}
	n, ok := p.Elem().(*types.Named)
	return ok && n.Obj().Name() == "Keyring"
}

// C10.7 the Keyring is a copy-on-write value that carries every key:
// methods never write through their receiver (candidates handed to
// persistKeyring are copies, the live keyring is untouched until the swap);
// Clone builds a fresh map filled from the receiver's; Serialize appends a key
// on every iteration over k.keys; the active term only ever moves up; a term's
// key is installed only if the term is not installed yet.
func c10gKeyring(c *eng.Ctx) {
	c.Clause("R6", "C10.7")
	methods := 0
	for _, f := range c.P.Funcs {
		if !eng.InPkg(f, "barrier") || !c10gRecvKeyring(f) {
			continue
		}
		methods++
		recv := f.Params[0]
		bad := 0
		for _, b := range f.Blocks {
			for _, in := range b.Instrs {
				switch x := in.(type) {
				case *ssa.Store:
					if fa, ok := x.Addr.(*ssa.FieldAddr); ok && fa.X == recv {
						bad++
						c.Violation(f, "keyring methods never write through the receiver", x.Pos(), "stores "+eng.Expr(x.Val)+" into "+eng.Expr(x.Addr)+" of the receiver: a keyring that is live in the barrier is modified before the modified copy was persisted", nil)
					}
				case *ssa.MapUpdate:
					if ld, ok := x.Map.(*ssa.UnOp); ok {
						if fa, ok := ld.X.(*ssa.FieldAddr); ok && fa.X == recv {
							bad++
							c.Violation(f, "keyring methods never write through the receiver", x.Pos(), "updates the key map of the receiver in place", nil)
						}
					}
				}
			}
		}
		if bad == 0 {
			c.OK(f, "keyring methods never write through the receiver", f.Pos(), "no store to a field or map of the receiver")
		}
	}
	c.Floor(nil, "methods of *Keyring", methods, 8)

	if f := c.Fn("barrier.(*Keyring).Clone"); f != nil {
		c.Clause("R5", "C10.7")
		fresh := 0
		for _, st := range eng.Stores(f, `\.keys$`) {
			if _, ok := st.Val.(*ssa.MakeMap); ok {
				fresh++
				c.OK(f, "clone gets its own key map", st.Pos(), "fresh map")
			} else {
				c.Violation(f, "clone gets its own key map", st.Pos(), "the clone's key map is "+eng.ExprDeep(st.Val)+": clone and original share one map, AddKey on a candidate installs the key in the live keyring", nil)
			}
		}
		c.Floor(f, "store of the clone's key map", fresh, 1)
		var copies []ssa.Instruction
		for _, cp := range kCalls(f, `^maps\.Copy\b`) {
			if a := kArgs(cp); len(a) == 2 && eng.Expr(a[1]) == "k.keys" {
				copies = append(copies, cp)
			}
		}
		// (a hand-written fill loop over k.keys is the same thing)
		loopFill := 0
		for _, in := range eng.Instrs(f, func(in ssa.Instruction) bool { _, ok := in.(*ssa.MapUpdate); return ok }) {
			if ok, _, _ := eng.OriginsMatch(in.(*ssa.MapUpdate).Value, `^other:next\(range\(k\.keys\)\)#2$`); ok {
				loopFill++
			}
		}
		c.Clause("R3", "C10.7")
		if len(copies) == 0 && loopFill > 0 {
			c.OK(f, "clone's map filled from k.keys", f.Pos(), "fill loop over k.keys")
		} else {
			c.Before(f, "maps.Copy(clone.keys, k.keys)", copies, "return", instrsOf(eng.Returns(f)))
		}
	}

	if f := c.Fn("barrier.(*Keyring).Serialize"); f != nil {
		c.Clause("R4", "C10.7")
		var appends []ssa.Instruction
		for _, ap := range kCalls(f, `^append$`) {
			if strings.HasSuffix(eng.Expr(kArgs(ap)[0]), ".Keys") {
				appends = append(appends, ap)
			}
		}
		if c.Floor(f, "append to the encoded key list", len(appends), 1) {
			c.CleanupOnEdges(f, "another key of k.keys was fetched", eng.CondEdges(f, `^next\(range\(k\.keys\)\)#0$`, true), "append(enc.Keys, key)", appends)
		}
		c.Clause("R5", "C10.7")
		rk := eng.Stores(f, `\.RootKey$`)
		if c.Floor(f, "encoded root key", len(rk), 1) {
			for _, st := range rk {
				c.Prov(f, "root key serialized", st, st.Val, `^field:k\.rootKey$`)
			}
		}
	}

	// the active term only moves up
	for _, fn := range []string{"barrier.DeserializeKeyring", "barrier.(*Keyring).AddKey"} {
		f := c.Fn(fn)
		if f == nil {
			continue
		}
		c.Clause("R2", "C10.7")
		st := eng.Stores(f, `\.activeTerm$`)
		if c.Floor(f, "store of the active term", len(st), 1) {
			c.Cut(f, "activeTerm = key.Term", instrsOf(st), eng.G(f, `\.activeTerm < .*\.Term\)?$`, true), nil)
		}
	}

	if f := c.Fn("barrier.(*Keyring).AddKey"); f != nil {
		c.Clause("R2", "C10.7")
		ups := eng.Instrs(f, func(in ssa.Instruction) bool {
			mu, ok := in.(*ssa.MapUpdate)
			return ok && strings.HasSuffix(eng.Expr(mu.Map), ".keys")
		})
		if c.Floor(f, "installation of a key in the key map", len(ups), 1) {
			c.Cut(f, "keys[key.Term] = key", ups, eng.G(f, `^k\.keys\[key\.Term\]#1$`, false), nil)
		}
	}
}

// C10.2: only Seal — which drops the keyring — may clear key values: clones
// share the *Key values, so Zeroize(true) on a superseded keyring wipes the
// keys of the live one.
func c10gZeroizeCallers(c *eng.Ctx) {
	c.Clause("R1", "C10.2")
	sites := c.P.FindCalls(mustStatic(c, "barrier.(*Keyring).Zeroize"), nil)
	c.Floor(nil, "calls of Keyring.Zeroize", len(sites), 4)
	for _, s := range sites {
		a := kArgs(s.Call)
		site := "Zeroize(keysToo) outside Seal leaves key values alone"
		switch {
		case eng.Expr(a[len(a)-1]) == "false":
			c.OK(s.Fn, site, s.Call.Pos(), "root key only")
		case eng.FuncName(eng.TopFunc(s.Fn)) == "barrier.(*AESGCMBarrier).Seal":
			c.OK(s.Fn, site, s.Call.Pos(), "Seal: the keyring is dropped")
		default:
			c.Violation(s.Fn, site, s.Call.Pos(), "Zeroize("+eng.ExprDeep(a[len(a)-1])+") on a superseded keyring: the key values are shared with the keyring that stays live", nil)
		}
	}
}

// C10.4: the AEAD cached and returned for a term is built from that term's key.
func c10gAeadForTerm(c *eng.Ctx) {
	f := c.Fn("barrier.(*AESGCMBarrier).aeadForTerm")
	if f == nil {
		return
	}
	c.Clause("R5", "C10.4")
	tk := kCalls(f, `barrier\.\(\*Keyring\)\.TermKey$`)
	if c.Floor(f, "Keyring.TermKey", len(tk), 1) {
		for _, t := range tk {
			c.Prov(f, "term whose key is looked up", t, kArgs(t)[1], `^param:term$`)
		}
	}
	ak := kCalls(f, `barrier\.\(\*AESGCMBarrier\)\.aeadFromKey$`)
	if c.Floor(f, "aeadFromKey", len(ak), 1) {
		for _, a := range ak {
			c.Prov(f, "key the term's AEAD is built from", a, kArgs(a)[1], `^field:barrier\.\(\*Keyring\)\.TermKey\(\)\.Value$`)
		}
	}
	n := 0
	for _, b := range f.Blocks {
		for _, in := range b.Instrs {
			switch x := in.(type) {
			case *ssa.MapUpdate:
				if eng.Expr(x.Map) != "b.cache" {
					continue
				}
				n++
				c.Prov(f, "term the AEAD is cached under", x, x.Key, `^param:term$`)
				c.Prov(f, "AEAD cached", x, x.Value, `^call:barrier\.\(\*AESGCMBarrier\)\.aeadFromKey#0$`)
			case *ssa.Lookup:
				if eng.Expr(x.X) != "b.cache" {
					continue
				}
				n++
				c.Prov(f, "term the cache is probed with", x, x.Index, `^param:term$`)
			}
		}
	}
	c.Floor(f, "cache probe and cache fill", n, 2)
}

// C10.4: the first keyring is only written to a store that has none.
func c10gInitializeOnce(c *eng.Ctx) {
	f := c.Fn("barrier.(*AESGCMBarrier).Initialize")
	if f == nil {
		return
	}
	c.Clause("R2", "C10.4")
	p := kCalls(f, `barrier\.\(\*AESGCMBarrier\)\.persistKeyring(BestEffort|Internal)?$`)
	if c.Floor(f, "persist of the first keyring", len(p), 1) {
		c.Cut(f, "persist of the first keyring", instrsOf(p), eng.G(f, `^barrier\.\(\*AESGCMBarrier\)\.Initialized\(\)#0$`, false), nil)
		c.Cut(f, "persist of the first keyring", instrsOf(p), nfGCallOK(f, `barrier\.\(\*AESGCMBarrier\)\.Initialized$`), nil)
	}
}

// c10gSliceLitElems: the values stored into the elements of a slice literal
// handed on as lit[:].
func c10gSliceLitElems(v ssa.Value) []ssa.Value {
	sl, ok := v.(*ssa.Slice)
	if !ok {
		return nil
	}
	arr, ok := sl.X.(*ssa.Alloc)
	if !ok || arr.Referrers() == nil {
		return nil
	}
	var out []ssa.Value
	for _, r := range *arr.Referrers() {
		ia, ok := r.(*ssa.IndexAddr)
		if !ok || ia.Referrers() == nil {
			continue
		}
		for _, rr := range *ia.Referrers() {
			if st, ok := rr.(*ssa.Store); ok && st.Addr == ia {
				out = append(out, st.Val)
			}
		}
	}
	return out
}

// C10.6 (siblings): the namespace-aware root rotation and the root-key
// rotation of sys/rotate/root perform the same durable steps as
// performBarrierRekey, each behind the success edge of the previous one, and
// hand the seal and the barrier the same freshly generated root key.
func c10gRotationSiblings(c *eng.Ctx) {
	const (
		setStored = `<vault\.Seal>\.SetStoredKeys$`
		rotRoot   = `<barrier\.SecurityBarrier>\.RotateRootKey$`
	)
	type step struct{ desc, pat string }
	for _, t := range []struct {
		fn    string
		steps []step
	}{
		{"vault.(*SealManager).performRootRotation", []step{
			{"seal.SetStoredKeys (new root key under the seal)", setStored},
			{"barrier.RotateRootKey (keyring + root-key records)", rotRoot},
			{"barrier.Put(shamir-kek)", `<barrier\.SecurityBarrier>\.Put$`},
			{"seal.SetBarrierConfig (seal configuration)", `<vault\.Seal>\.SetBarrierConfig$`},
		}},
		{"vault.(*SealManager).RotateBarrierRootKey", []step{
			{"seal.SetStoredKeys (new root key under the seal)", setStored},
			{"barrier.RotateRootKey (keyring + root-key records)", rotRoot},
		}},
	} {
		f := c.Fn(t.fn)
		if f == nil {
			continue
		}
		c.Clause("R13", "C10.6")
		var calls [][]ssa.CallInstruction
		okAll := true
		for _, s := range t.steps {
			cs := kCalls(f, s.pat)
			if len(cs) == 0 {
				okAll = false
				c.Violation(f, "durable-write-step{"+s.desc+"}", f.Pos(), "the rotation no longer performs "+s.desc+": the frozen write sequence changed", nil)
			}
			calls = append(calls, cs)
		}
		if !okAll {
			continue
		}
		for i := 1; i < len(t.steps); i++ {
			g := eng.Guard{Desc: "success edge of " + t.steps[i-1].desc}
			for _, p := range calls[i-1] {
				g.Edges = append(g.Edges, eng.CallOKEdges(p)...)
			}
			if strings.Contains(t.steps[i-1].desc, "shamir-kek") {
				// an auto-unseal seal has no KEK to store: the record is skipped for an empty seal key only
				c.Cut(f, t.steps[i].desc, instrsOf(calls[i]), eng.Or(g, eng.G(f, `^0 < len\(newSealKey\)$`, false)), nil)
				continue
			}
			c.Cut(f, t.steps[i].desc, instrsOf(calls[i]), g, nil)
		}
		c.Clause("R5", "C10.6")
		for _, r := range calls[1] {
			ra := kArgs(r)
			key := ra[len(ra)-1]
			c.Prov(f, "root key rotated in", r, key, `^call:<barrier\.SecurityBarrier>\.GenerateKey#0$`)
			for _, s := range calls[0] {
				sa := kArgs(s)
				elems := c10gSliceLitElems(sa[len(sa)-1])
				site := "stored key == root key rotated in"
				switch {
				case len(elems) != 1:
					c.Undecided(f, site, s.Pos(), "the keys handed to SetStoredKeys are not a one-element literal: "+eng.ExprDeep(sa[len(sa)-1]))
				case elems[0] == key:
					c.OK(f, site, s.Pos(), eng.Expr(key))
				default:
					c.Violation(f, site, s.Pos(), "the seal stores "+eng.ExprDeep(elems[0])+" but the keyring is re-encrypted under "+eng.ExprDeep(key), nil)
				}
			}
		}
		if len(t.steps) > 2 {
			for _, p := range calls[2] {
				a := kArgs(p)
				for _, v := range eng.StructLitField(a[len(a)-1], "Key") {
					c.Prov(f, "key of the shamir KEK record", p, v, `^const:"core/shamir-kek"$`)
				}
				for _, v := range eng.StructLitField(a[len(a)-1], "Value") {
					c.Prov(f, "value of the shamir KEK record", p, v, `^param:newSealKey$`)
				}
			}
		}
	}
}

// C10.5 (Core side): the upgrade path is created (and later destroyed) for
// the term Rotate returned; a standby follows the path until no further term
// is found; a node taking over installs upgrade terms, then the root key, then
// the keyring, each after the previous step succeeded.
func c10gUpgradeDrivers(c *eng.Ctx) {
	const rot0 = `^call:<barrier\.SecurityBarrier>\.Rotate#0$`
	if m, ok := c.P.IfaceCallee("barrier.SecurityBarrier", "CreateUpgrade", "DestroyUpgrade"); ok {
		sites := c.P.FindCalls(m, func(fn *ssa.Function) bool { return eng.InPkg(fn, "vault") })
		c.Clause("R5", "C10.5")
		c.Floor(nil, "CreateUpgrade / DestroyUpgrade calls in package vault", len(sites), 2)
		for _, s := range sites {
			a := kArgs(s.Call)
			term := a[len(a)-1]
			what := "term handed to " + kMethod(s.Call)
			if s.Fn.Parent() == nil {
				c.Prov(s.Fn, what, s.Call, term, rot0)
				c.Clause("R2", "C10.5")
				c.Cut(s.Fn, kMethod(s.Call), []ssa.Instruction{s.Call}, nfGCallOK(s.Fn, `<barrier\.SecurityBarrier>\.Rotate$`), nil)
				c.Clause("R5", "C10.5")
				continue
			}
			// inside a closure: the term is a captured variable whose binding holds Rotate's result
			okAll, bound := true, 0
			for _, o := range eng.Origins(term) {
				fv, isFV := o.Val.(*ssa.UnOp)
				var free *ssa.FreeVar
				if isFV {
					free, _ = fv.X.(*ssa.FreeVar)
				}
				if free == nil {
					free, _ = o.Val.(*ssa.FreeVar)
				}
				if free == nil {
					okAll = false
					continue
				}
				for _, b := range c10gBindings(s.Fn, free) {
					bound++
					if ok, _, _ := eng.OriginsMatch(b, rot0); !ok {
						okAll = false
					}
				}
			}
			if okAll && bound > 0 {
				c.OK(s.Fn, "prov{"+what+"}", s.Call.Pos(), "captured variable bound to the term Rotate returned")
			} else {
				c.Violation(s.Fn, "prov{"+what+"}", s.Call.Pos(), "the term "+eng.ExprDeep(term)+" is not (only) the captured result of Rotate", nil)
			}
		}
	} else {
		c.Unresolved("barrier.SecurityBarrier")
	}

	if f := c.Fn("vault.(*Core).checkKeyringUpgrade"); f != nil {
		c.Clause("R4", "C10.5")
		cu := kCalls(f, `<barrier\.SecurityBarrier>\.CheckUpgrade$`)
		if c.Floor(f, "CheckUpgrade", len(cu), 1) {
			c.CleanupOnEdges(f, "an upgrade term was installed", eng.CondEdges(f, `^<barrier\.SecurityBarrier>\.CheckUpgrade\(\)#0$`, true), "another CheckUpgrade", instrsOf(cu))
		}
	}

	if f := c.Fn("vault.(*Core).performKeyUpgrades"); f != nil {
		c.Clause("R13", "C10.5")
		steps := []struct{ desc, pat string }{
			{"checkKeyringUpgrade (install missing terms)", `vault\.\(\*Core\)\.checkKeyringUpgrade$`},
			{"barrier.ReloadRootKey", `<barrier\.SecurityBarrier>\.ReloadRootKey$`},
			{"barrier.ReloadKeyring", `<barrier\.SecurityBarrier>\.ReloadKeyring$`},
			{"reloadShamirKey", `vault\.\(\*Core\)\.reloadShamirKey$`},
		}
		var prev []ssa.CallInstruction
		for i, s := range steps {
			cs := kCalls(f, s.pat)
			if len(cs) == 0 {
				c.Violation(f, "reload-step{"+s.desc+"}", f.Pos(), "a node taking over no longer performs "+s.desc, nil)
				break
			}
			if i > 0 {
				g := eng.Guard{Desc: "success edge of " + steps[i-1].desc}
				for _, p := range prev {
					g.Edges = append(g.Edges, eng.CallOKEdges(p)...)
				}
				c.Cut(f, s.desc, instrsOf(cs), g, nil)
			}
			prev = cs
		}
	}
}

// c10gBindings: the values bound to free variable fv of closure fn where the
// closure is created.
func c10gBindings(fn *ssa.Function, fv *ssa.FreeVar) []ssa.Value {
	idx := -1
	for i, v := range fn.FreeVars {
		if v == fv {
			idx = i
		}
	}
	parent := fn.Parent()
	if idx < 0 || parent == nil {
		return nil
	}
	var out []ssa.Value
	for _, b := range parent.Blocks {
		for _, in := range b.Instrs {
			if mc, ok := in.(*ssa.MakeClosure); ok && mc.Fn == fn && idx < len(mc.Bindings) {
				out = append(out, mc.Bindings[idx])
			}
		}
	}
	return out
}

// C10.2 (batch): sealing the core seals every barrier — the walk over the
// barriers is never cut short and seals each non-nil entry.
func c10gSealAll(c *eng.Ctx) {
	f := c.Fn("vault.(*SealManager).sealAll")
	if f == nil {
		return
	}
	c.Clause("R3", "C10.2")
	walks := kCalls(f, `go-radix\.Tree\)\.Walk$`)
	if !c.Floor(f, "walk over the barriers", len(walks), 1) {
		return
	}
	c.Before(f, "walk over every barrier", instrsOf(walks), "return", instrsOf(eng.Returns(f)))
	n := 0
	for _, w := range walks {
		a := kArgs(w)
		mc, ok := c10StripConv(a[len(a)-1]).(*ssa.MakeClosure)
		if !ok {
			c.Undecided(f, "walk callback", w.Pos(), "the walk callback is not a closure literal")
			continue
		}
		cb := mc.Fn.(*ssa.Function)
		c.Clause("R5", "C10.2")
		for _, r := range eng.Returns(cb) {
			if len(r.Results) == 1 && eng.Expr(r.Results[0]) == "false" {
				c.OK(cb, "the walk is never terminated early", r.Pos(), "returns false (continue)")
			} else {
				c.Violation(cb, "the walk is never terminated early", r.Pos(), "the callback may return "+eng.ExprDeep(r.Results[0])+": the walk stops and the remaining barriers keep their keyrings after the core sealed", nil)
			}
		}
		seals := kCalls(cb, `<barrier\.SecurityBarrier>\.Seal$`)
		n += len(seals)
		c.Clause("R4", "C10.2")
		if len(seals) > 0 {
			c.CleanupOnEdges(cb, "the entry holds a barrier", eng.CondEdges(cb, `^b == nil$`, false), "barrier.Seal()", instrsOf(seals))
		}
	}
	c.Floor(f, "Seal of each walked barrier", n, 1)
}

// C10.3 (producers): the root key is read from the seal only after the
// supplied key was installed in (Shamir) or verified against (auto-unseal) the
// seal; the verifications compare the whole submitted key with the whole
// reference key and succeed only on the equal edge.
func c10gKeyVerification(c *eng.Ctx) {
	if f := c.Fn("vault.(*SealManager).unsealKeyToRootKey"); f != nil {
		c.Clause("R2", "C10.3")
		gets := kCalls(f, `<vault\.Seal>\.GetStoredKeys$`)
		checks := append(kCalls(f, `aead\.Wrapper\)\.SetAesGcmKeyBytes$`), kCalls(f, `<vault\.Seal>\.VerifyRecoveryKey$`)...)
		if c.Floor(f, "GetStoredKeys", len(gets), 1) && c.Floor(f, "key installation / verification", len(checks), 2) {
			g := eng.Guard{Desc: "success edge of SetAesGcmKeyBytes(key) or VerifyRecoveryKey(key)"}
			for _, k := range checks {
				g.Edges = append(g.Edges, eng.CallOKEdges(k)...)
			}
			c.Cut(f, "read of the root key the seal stores", instrsOf(gets), g, nil)
			c.Clause("R5", "C10.3")
			for _, k := range checks {
				a := kArgs(k)
				c.Prov(f, "key installed in / verified against the seal", k, a[len(a)-1], `^param:combinedKey$`)
			}
		}
	}
	for _, t := range []struct{ fn, ref, refDesc string }{
		{"vault.(*autoSeal).VerifyRecoveryKey", `^vault\.\(\*autoSeal\)\.getRecoveryKeyInternal$`, "the stored recovery key"},
		{"barrier.(*AESGCMBarrier).VerifyRoot", `^barrier\.\(\*Keyring\)\.RootKey$`, "the live root key"},
	} {
		f := c.Fn(t.fn)
		if f == nil {
			continue
		}
		cmps := kCalls(f, `^crypto/subtle\.ConstantTimeCompare$`)
		c.Clause("R2", "C10.3")
		if !c.Floor(f, "constant-time comparison", len(cmps), 1) {
			continue
		}
		c.Cut(f, "return without error", eng.SuccessReturns(f, 0), eng.G(f, `^crypto/subtle\.ConstantTimeCompare\(\) == 1$`, true), nil)
		c.Clause("R5", "C10.3")
		for _, cm := range cmps {
			site := "whole submitted key compared with " + t.refDesc
			var isKey, isRef bool
			for _, a := range kArgs(cm) {
				switch x := a.(type) {
				case *ssa.Parameter:
					isKey = isKey || eng.VarName(x) == "key"
				case *ssa.Extract:
					if cl, ok := x.Tuple.(*ssa.Call); ok && x.Index == 0 && c10gMatch(t.ref, eng.CalleeName(&cl.Call)) {
						isRef = true
					}
				case *ssa.Call:
					isRef = isRef || c10gMatch(t.ref, eng.CalleeName(&x.Call))
				}
			}
			if isKey && isRef {
				c.OK(f, site, cm.Pos(), eng.ExprDeep(kArgs(cm)[0])+" vs "+eng.ExprDeep(kArgs(cm)[1]))
			} else {
				c.Violation(f, site, cm.Pos(), "operands are "+eng.ExprDeep(kArgs(cm)[0])+" and "+eng.ExprDeep(kArgs(cm)[1])+": not the key parameter itself and the reference key itself (a slice or a function of either accepts partial keys)", nil)
			}
		}
	}
}

func c10gMatch(pat, s string) bool { return regexp.MustCompile(pat).MatchString(s) }

// C10.4 (sibling endpoint): sys/raw cannot overwrite or delete a keyring
// record, of the root or of a namespace barrier: the protected prefixes carry
// barrier.KeyringPath, are matched against the namespace-relative remainder of
// the path, and a match yields no accessor.
func c10gRawProtectsKeyring(c *eng.Ctx) {
	c.Clause("R7", "C10.4")
	kp, ok := c.P.ConstValue("barrier.KeyringPath")
	vals, pos, ok2 := c.P.VarLitConsts("vault", "protectedPaths")
	if !ok || !ok2 {
		c.Unresolved("barrier.KeyringPath / vault.protectedPaths")
		return
	}
	has := false
	for _, v := range vals {
		has = has || v == kp
	}
	if has {
		c.OK(nil, "sys/raw protected prefixes carry the keyring path", pos, kp)
	} else {
		c.Violation(nil, "sys/raw protected prefixes carry the keyring path", pos, "protectedPaths is "+strings.Join(vals, ", ")+": the keyring record "+kp+" can be overwritten or deleted through sys/raw", nil)
	}
	f := c.Fn("vault.(*RawBackend).storageByPath")
	if f == nil {
		return
	}
	c.Clause("R5", "C10.4")
	var hp []ssa.CallInstruction
	for _, h := range kCalls(f, `^strings\.HasPrefix$`) {
		if ok, _, _ := eng.OriginsMatch(kArgs(h)[1], `^op:vault\.protectedPaths\[`); ok {
			hp = append(hp, h)
		}
	}
	if !c.Floor(f, "prefix test against protectedPaths", len(hp), 1) {
		return
	}
	var hit []eng.Edge
	for _, h := range hp {
		c.Prov(f, "path matched against the protected prefixes", h, kArgs(h)[0], `^call:vault\.\(\*Core\)\.NamespaceByStoragePath#1$`)
		hit = append(hit, eng.BoolEdges(h.Value(), true)...)
	}
	c.Clause("R4", "C10.4")
	c.NilResultOnEdges(f, "a protected prefix matched", hit, 0, "storage accessor")
}

// C10.2 (Core): once the core is marked sealed (the CompareAndSwap succeeded)
// every return of sealInternalWithOptions lies behind SealManager.sealAll —
// a node that reports sealed holds no keyring. Two error legs return earlier;
// they are tabled exceptions keyed by the callee whose error they test: on the
// pinned tree neither callee can return an error (triage/c10_seal_error_before_sealall).
func c10gSealInternal(c *eng.Ctx) {
	f := c.Fn("vault.(*Core).sealInternalWithOptions")
	if f == nil {
		return
	}
	c.Clause("R4", "C10.2")
	marked := eng.CondEdges(f, `^\(\*sync/atomic\.Bool\)\.CompareAndSwap\(\)$`, true)
	seals := kCalls(f, `vault\.\(\*SealManager\)\.sealAll$`)
	if !c.Floor(f, "core marked sealed (CompareAndSwap succeeded)", len(marked), 1) || !c.Floor(f, "SealManager.sealAll", len(seals), 1) {
		return
	}
	excepted := []struct{ pat, sym, why string }{
		{`vault\.\(\*Core\)\.preSeal$`, "vault.(*Core).preSeal", "error leg `return errors.New(\"internal error\")` before sealAll: every error source of preSeal (teardownAudits, stopExpiration, teardownCredentials, teardownPolicyStore, stopRollback, unloadMounts, teardownLoginMFA, teardownNamespaceStore) returns nil on the pinned tree; not demonstrable without injecting a fault"},
		{`raft\.\(\*RaftBackend\)\.TeardownCluster$`, "raft.(*RaftBackend).TeardownCluster", "error leg before sealAll: TeardownCluster returns raft's shutdown future error, which is always nil (hashicorp/raft shutdownFuture.Error)"},
	}
	var blocked []eng.Edge
	for _, e := range excepted {
		for _, cl := range kCalls(f, e.pat) {
			fe := eng.CallFailEdges(cl)
			if len(fe) == 0 {
				continue
			}
			blocked = append(blocked, fe...)
			c.Exception(e.sym, e.why)
			c.OK(f, "sealed core seals every barrier [excepted leg: "+e.sym+" failed]", cl.Pos(), e.why)
		}
	}
	isRet := func(in ssa.Instruction) bool { _, ok := in.(*ssa.Return); return ok }
	site := "on{core marked sealed} cleanup{SealManager.sealAll}"
	if h := eng.Reach(eng.Query{Fn: f, StartEdges: marked, Blocked: blocked, Barriers: instrsOf(seals), Target: isRet}); h != nil {
		c.Violation(f, site, h.Instr.Pos(), "a return is reachable after the core was marked sealed without sealing the barriers: the node reports sealed while its barriers keep their keyrings and serve", h.Witness)
	} else {
		c.OK(f, site, seals[0].Pos(), "every return after the mark (other than the two tabled error legs) is preceded by sealAll")
	}
}

// C10.6 (siblings, envelope): like performBarrierRekey, the namespace-aware
// rotations issue their dependent durable writes with no atomic envelope —
// further instances of finding F6.
func c10gRotationEnvelope(c *eng.Ctx) {
	for _, t := range []struct{ fn, seq string }{
		{"vault.(*SealManager).performRootRotation", "stored keys, keyring, root key, legacy delete, shamir KEK, seal config"},
		{"vault.(*SealManager).RotateBarrierRootKey", "stored keys, keyring, root key, legacy delete"},
	} {
		f := c.Fn(t.fn)
		if f == nil {
			continue
		}
		c.Clause("R13", "C10.6")
		envelope := ""
		if len(kCalls(f, `BeginTx$`)) > 0 {
			envelope = "storage transaction"
		}
		if len(kCalls(f, `(?i)(rekey|rotat).*(marker|journal|intent)|(?i)(marker|journal|intent).*(rekey|rotat)`)) > 0 {
			envelope = "intent marker"
		}
		if envelope == "" {
			c.Violation(f, "durable-write-sequence", f.Pos(), "F6 sibling: the rotation is a sequence of dependent durable steps ("+t.seq+") issued one after another with no transaction and no recovery marker: a crash or storage failure after the stored keys were replaced and before the keyring record was re-encrypted leaves a store whose seal yields a root key that cannot open the keyring", nil)
		} else {
			c.OK(f, "durable-write-sequence", f.Pos(), "atomic envelope present: "+envelope)
		}
	}
}

// C10.5 (writer): the key CreateUpgrade publishes under upgrade/<term-1> is
// the key of its own term parameter, taken from the live keyring, and what is
// encrypted is that key's serialization.
func c10gUpgradeKeyPublished(c *eng.Ctx) {
	f := c.Fn("barrier.(*AESGCMBarrier).CreateUpgrade")
	if f == nil {
		return
	}
	c.Clause("R5", "C10.5")
	ser := kCalls(f, `barrier\.\(\*Key\)\.Serialize$`)
	enc := kCalls(f, `barrier\.\(\*AESGCMBarrier\)\.encryptTracked$`)
	if !c.Floor(f, "Key.Serialize", len(ser), 1) || !c.Floor(f, "encryptTracked", len(enc), 1) {
		return
	}
	for _, s := range ser {
		site := "key published on the upgrade path = TermKey(term) of the live keyring"
		k := kArgs(s)[0]
		bad := ""
		for _, o := range eng.Origins(k) {
			cl, ok := o.Val.(*ssa.Call)
			switch {
			case !ok || eng.CalleeName(&cl.Call) != "barrier.(*Keyring).TermKey" || len(cl.Call.Args) != 2:
				bad = o.Kind + ":" + o.Desc
			case eng.Expr(cl.Call.Args[0]) != "b.keyring":
				bad = "TermKey of " + eng.ExprDeep(cl.Call.Args[0])
			default:
				if p, isP := cl.Call.Args[1].(*ssa.Parameter); !isP || eng.VarName(p) != "term" {
					bad = "TermKey(" + eng.ExprDeep(cl.Call.Args[1]) + ")"
				}
			}
		}
		if bad == "" {
			c.OK(f, site, s.Pos(), eng.ExprDeep(k))
		} else {
			c.Violation(f, site, s.Pos(), "the key serialized for upgrade/<term-1> is "+bad+": standbys that follow the path install a key that is not the one records of that term were written with", nil)
		}
	}
	for _, e := range enc {
		c.Prov(f, "plaintext of the upgrade entry", e, kArgs(e)[4], `^call:barrier\.\(\*Key\)\.Serialize#0$`)
	}
}

// c10gFreshAccess: v is, on every path, vault/seal.NewAccess over a wrapper
// that is vault/seal.NewShamirWrapper() allocated in this function.
func c10gFreshAccess(v ssa.Value) bool {
	os := eng.Origins(v)
	if len(os) == 0 {
		return false
	}
	for _, o := range os {
		cl, ok := o.Val.(*ssa.Call)
		if !ok || eng.CalleeName(&cl.Call) != "vault/seal.NewAccess" || len(cl.Call.Args) != 1 {
			return false
		}
		if ok, _, _ := eng.OriginsMatch(cl.Call.Args[0], `^call:vault/seal\.NewShamirWrapper$`); !ok {
			return false
		}
	}
	return true
}

// c10gWrapperOwners classifies the Shamir wrapper whose key a
// SetAesGcmKeyBytes call sets, under the feasibility fe: "fresh" — a wrapper
// allocated in the function (NewShamirWrapper(), or the wrapper of a throw-away
// NewDefaultSeal(NewAccess(NewShamirWrapper()))); "live:<seal>" — the wrapper
// of a seal that exists outside the function (GetShamirWrapper of a parameter,
// of a field of Core / SealManager); anything else is reported verbatim.
func c10gWrapperOwners(site ssa.CallInstruction, fe *eng.Feas) []string {
	w := kArgs(site)[0]
	if ld, ok := w.(*ssa.UnOp); ok {
		if fa, ok := ld.X.(*ssa.FieldAddr); ok {
			w = fa.X // the ShamirWrapper the embedded aead wrapper belongs to
		}
	}
	var out []string
	for _, r := range eng.Roots(w, fe) {
		switch x := r.(type) {
		case *ssa.Call:
			if eng.CalleeName(&x.Call) == "vault/seal.NewShamirWrapper" {
				out = append(out, "fresh")
				continue
			}
		case *ssa.Extract:
			cl, ok := x.Tuple.(*ssa.Call)
			if ok && x.Index == 0 && cl.Call.IsInvoke() && eng.CalleeName(&cl.Call) == "<vault.Seal>.GetShamirWrapper" {
				for _, sr := range eng.Roots(cl.Call.Value, fe) {
					mk, isCall := sr.(*ssa.Call)
					switch {
					case isCall && eng.CalleeName(&mk.Call) == "vault.NewDefaultSeal" && len(mk.Call.Args) == 1 && c10gFreshAccess(mk.Call.Args[0]):
						out = append(out, "fresh")
					case isCall && eng.CalleeName(&mk.Call) == "vault.NewDefaultSeal":
						out = append(out, "aliased:NewDefaultSeal("+eng.ExprDeep(mk.Call.Args[0])+")")
					default:
						out = append(out, "live:"+eng.Expr(sr))
					}
				}
				continue
			}
		}
		out = append(out, "other:"+eng.ExprDeep(r))
	}
	return out
}

// C10.8 who may write the key-encryption key of a Shamir seal. The wrapper's
// SetAesGcmKeyBytes replaces the in-memory KEK that SetStoredKeys wraps the
// root key with; a live seal's KEK may change only on the tabled paths, with
// the tabled key, behind the tabled guard; candidate keys that are merely
// being checked (rekey / rotation / generate-root share verification) go into
// a wrapper allocated in the function. Seals never share a wrapper: every
// NewDefaultSeal is built over NewAccess(NewShamirWrapper()).
func c10gKEKWriters(c *eng.Ctx) {
	const setKey = `aead\.Wrapper\)\.SetAesGcmKeyBytes$`
	type row struct {
		class string   // "test" | "live" | "test-if:<param>" (fresh under the parameter, live otherwise)
		key   []string // allowed origins of the key installed on a live seal
		guard string   // callee whose success edge a live write lies behind ("" = see why)
		why   string
	}
	table := map[string]row{
		"vault.(*SealManager).updateRootRotation":  {"test", nil, "", "rotation share check: candidate key tried on a throw-away seal"},
		"vault.(*Core).BarrierRekeyUpdate":         {"test", nil, "", "rekey share check: candidate key tried on a throw-away seal"},
		"vault.(*SealManager).unsealKeyToRootKey":  {"test-if:useTestSeal", []string{`^param:combinedKey$`}, "", "useTestSeal (generate-root / rekey authentication): throw-away seal; otherwise the unseal path — the barrier is sealed and the key is verified by decrypting the stored keys with it"},
		"vault.(*Core).unsealWithRaft":             {"live", []string{`^param:combinedKey$`}, "", "raft unseal path: the barrier is sealed; the key is verified by the stored-key decryption that follows"},
		"vault.(*SealManager).performRootRotation": {"live", []string{`^param:newSealKey$`}, "", "new seal key of a verified rotation (callers tabled below)"},
		"vault.(*Core).performBarrierRekey":        {"live", []string{`^param:newSealKey$`}, "", "new seal key of a verified rekey (callers tabled in C10.6)"},
		"vault.(*Core).initializeInternal":         {"live", []string{`^call:vault\.\(\*Core\)\.generateShares#0$`, `^const:nil$`}, `<barrier\.SecurityBarrier>\.Unseal$`, "first seal key, after the new barrier was initialised and unsealed"},
		"vault.(*SealManager).InitializeBarrier":   {"live", []string{`^call:vault\.\(\*Core\)\.generateShares#0$`, `^const:nil$`}, `<barrier\.SecurityBarrier>\.Unseal$`, "first seal key of a namespace, after its barrier was initialised and unsealed"},
		"vault.(*Core).migrateSeal":                {"live", []string{`^call:<vault\.Seal>\.RecoveryKey#0$`}, `<vault\.Seal>\.RecoveryKey$`, "seal migration: the old seal's recovery key becomes the Shamir KEK"},
		"vault.(*Core).reloadShamirKey":            {"live", []string{`^field:<barrier\.SecurityBarrier>\.Get\(\)#0\.Value$`}, `<barrier\.SecurityBarrier>\.Get$`, "standby reload: the KEK record decrypted (authenticated) by the barrier"},
	}
	n := 0
	for _, f := range c.P.Funcs {
		if !eng.InPkg(f, "vault") {
			continue
		}
		for _, site := range kCalls(f, setKey) {
			n++
			top := eng.FuncName(eng.TopFunc(f))
			r, ok := table[top]
			c.Clause("R1", "C10.8")
			if !ok {
				c.Violation(f, "callers{ShamirWrapper.SetAesGcmKeyBytes}", site.Pos(), "the key-encryption key of a Shamir wrapper is set outside the reviewed table of KEK writers", nil)
				continue
			}
			c.OK(f, "callers{ShamirWrapper.SetAesGcmKeyBytes}", site.Pos(), r.class+": "+r.why)
			c.Clause("R5", "C10.8")
			check := func(what string, fe *eng.Feas, wantLive bool) {
				ownSite := "wrapper whose KEK is set{" + what + "}"
				owners := c10gWrapperOwners(site, fe)
				bad := ""
				for _, o := range owners {
					if isLive := strings.HasPrefix(o, "live:"); (wantLive && !isLive) || (!wantLive && o != "fresh") {
						bad = o
					}
				}
				switch {
				case len(owners) == 0:
					c.Undecided(f, ownSite, site.Pos(), "the wrapper cannot be traced to its allocation or its seal (moved? the rule cannot be evaluated)")
				case bad != "" && wantLive:
					c.Violation(f, ownSite, site.Pos(), "tabled as a write of the live seal's KEK, but the wrapper is "+bad, nil)
				case bad != "":
					c.Violation(f, ownSite, site.Pos(), "a candidate key that is only being checked must go into a wrapper allocated here, but the wrapper is "+bad+": the in-memory KEK of a seal that stays in use is overwritten with an unverified key, and SetStoredKeys will wrap the next root key with it", nil)
				default:
					c.OK(f, ownSite, site.Pos(), strings.Join(owners, ", "))
				}
			}
			live := r.class == "live"
			switch {
			case r.class == "test":
				check("throw-away", nil, false)
			case live:
				check("live seal", nil, true)
			default: // test-if:<param>
				prm := strings.TrimPrefix(r.class, "test-if:")
				check(prm+" set: throw-away", eng.Feasible(f, map[string]bool{`^` + prm + `$`: true}), false)
				check(prm+" unset: live seal", eng.Feasible(f, map[string]bool{`^` + prm + `$`: false}), true)
				live = true
			}
			if live {
				nfProv(c, f, "key installed as a live seal's KEK", site, kArgs(site)[1], nil, r.key...)
				if r.guard != "" {
					c.Clause("R2", "C10.8")
					c.Cut(f, "SetAesGcmKeyBytes on the live seal", []ssa.Instruction{site}, nfGCallOK(f, r.guard), nil)
				}
			}
		}
	}
	c.Clause("R1", "C10.8")
	c.Floor(nil, "calls of ShamirWrapper.SetAesGcmKeyBytes in package vault", n, 10)
	c.CallerTable("SealManager.performRootRotation", c.P.FindCalls(mustStatic(c, "vault.(*SealManager).performRootRotation"), nil), map[string]string{
		"vault.(*SealManager).updateRootRotation": "after the rotation shares reached the threshold and the root key was verified",
		"vault.(*SealManager).VerifyRotation":     "after verification of the new shares",
	}, 1)
	// seals never share a wrapper
	c.Clause("R5", "C10.8")
	mk := c.P.FindCalls(mustStatic(c, "vault.NewDefaultSeal"), func(fn *ssa.Function) bool { return strings.HasPrefix(eng.PkgPathOf(fn), eng.ModMain+"/internal/") })
	c.Floor(nil, "calls of NewDefaultSeal", len(mk), 5)
	for _, s := range mk {
		site := "a Shamir seal is built over its own fresh wrapper"
		if a := kArgs(s.Call); len(a) == 1 && c10gFreshAccess(a[0]) {
			c.OK(s.Fn, site, s.Call.Pos(), "NewAccess(NewShamirWrapper())")
		} else {
			c.Violation(s.Fn, site, s.Call.Pos(), "NewDefaultSeal over "+eng.ExprDeep(kArgs(s.Call)[0])+": the new seal shares the wrapper — and with it the in-memory KEK — of another seal; setting a key on either changes both", nil)
		}
	}
}
