package props

import (
	"fmt"
	"go/constant"
	"go/token"
	"go/types"
	"regexp"
	"sort"
	"strings"

	"golang.org/x/tools/go/ssa"

	"obsa/eng"
)

// Second-tier mechanisms of C14: the helpers that compute the storage keys and
// read/write the key metadata, the copy of the cached engine configuration,
// the JSON merge behind patch, the patch base, the upgrade gate and the
// per-key lock table.

// c14gMentions: v is computed from a value satisfying target (walks operands,
// local allocations and the element/field stores into them, e.g. varargs).
func c14gMentions(v ssa.Value, target func(ssa.Value) bool) bool {
	seen := map[ssa.Value]bool{}
	var uses func(v ssa.Value, d int) bool
	uses = func(v ssa.Value, d int) bool {
		if v == nil || seen[v] || d > 14 {
			return false
		}
		seen[v] = true
		if target(v) {
			return true
		}
		if a, ok := v.(*ssa.Alloc); ok {
			if refs := a.Referrers(); refs != nil {
				for _, r := range *refs {
					switch x := r.(type) {
					case *ssa.Store:
						if x.Addr == ssa.Value(a) && uses(x.Val, d+1) {
							return true
						}
					case *ssa.IndexAddr:
						if x.X == ssa.Value(a) && x.Referrers() != nil {
							for _, rr := range *x.Referrers() {
								if st, ok := rr.(*ssa.Store); ok && st.Addr == ssa.Value(x) && uses(st.Val, d+1) {
									return true
								}
							}
						}
					case *ssa.FieldAddr:
						if x.X == ssa.Value(a) && x.Referrers() != nil {
							for _, rr := range *x.Referrers() {
								if st, ok := rr.(*ssa.Store); ok && st.Addr == ssa.Value(x) && uses(st.Val, d+1) {
									return true
								}
							}
						}
					}
				}
			}
			return false
		}
		if in, ok := v.(ssa.Instruction); ok {
			for _, op := range in.Operands(nil) {
				if *op != nil && uses(*op, d+1) {
					return true
				}
			}
		}
		return false
	}
	return uses(v, 0)
}

func c14gIs(x ssa.Value) func(ssa.Value) bool {
	return func(v ssa.Value) bool { return v == x }
}

// c14gParamOfType: the first parameter of f whose type passes pred.
func c14gParamOfType(f *ssa.Function, pred func(types.Type) bool) *ssa.Parameter {
	for _, p := range f.Params {
		if pred(p.Type()) {
			return p
		}
	}
	return nil
}

func c14gIsBasic(kind types.BasicInfo) func(types.Type) bool {
	return func(t types.Type) bool {
		b, ok := t.Underlying().(*types.Basic)
		return ok && b.Info()&kind != 0
	}
}

// c14gWrapOf: v is keysutil.(*EncryptedKeyStorageWrapper).Wrap(getKeyEncryptor()#0, <parameter>);
// returns the storage parameter.
func c14gWrapOf(v ssa.Value) *ssa.Parameter {
	cl, ok := v.(*ssa.Call)
	if !ok || !strings.HasSuffix(eng.CalleeName(&cl.Call), "EncryptedKeyStorageWrapper).Wrap") || len(cl.Call.Args) != 2 {
		return nil
	}
	enc := c14ExtractOf(cl.Call.Args[0], 0)
	if enc == nil || !strings.HasSuffix(eng.CalleeName(&enc.Call), ").getKeyEncryptor") {
		return nil
	}
	p, _ := cl.Call.Args[1].(*ssa.Parameter)
	return p
}

func runC14Gaps2(c *eng.Ctx) {
	c14gVersionKey(c)
	c14gMetadataHelpers(c)
	c14gConfigCopies(c)
	c14gPatchMerge(c)
	c14gPatchBase(c)
	c14gUpgradeGate(c)
	c14gLockTable(c)
	c14gSaltCache(c)
	c14gBatchLoops(c)
}

// ---- the storage key of a version is a function of (key, version)
func c14gVersionKey(c *eng.Ctx) {
	f := c.Fn("kv.(*versionedKVBackend).getVersionKey")
	if f == nil {
		return
	}
	c.Clause("R5", "C14.2")
	pKey := c14gParamOfType(f, c14gIsBasic(types.IsString))
	pVer := c14gParamOfType(f, c14gIsBasic(types.IsInteger))
	if pKey == nil || pVer == nil {
		c.Unresolved("kv.(*versionedKVBackend).getVersionKey(key string, version uint64)")
		return
	}
	salts := eng.Calls(f, `^salt\.\(\*Salt\)\.SaltID$`)
	if !c.Floor(f, "SaltID call", len(salts), 1) {
		return
	}
	for _, s := range salts {
		a := s.Common().Args
		id := a[len(a)-1]
		hasKey, hasVer := c14gMentions(id, c14gIs(pKey)), c14gMentions(id, c14gIs(pVer))
		if hasKey && hasVer {
			c.OK(f, "prov{salted id of a version = f(key, version)}", s.Pos(), eng.ExprDeep(id))
		} else {
			c.Violation(f, "prov{salted id of a version = f(key, version)}", s.Pos(), fmt.Sprintf("the identifier that is salted (%s) depends on key=%v, version=%v: distinct versions (or distinct secrets) share one storage key", eng.ExprDeep(id), hasKey, hasVer), nil)
		}
	}
	rets := eng.SuccessReturns(f, 1)
	if !c.Floor(f, "success returns", len(rets), 1) {
		return
	}
	for _, r := range rets {
		vals, _, _ := eng.ReturnVals(r.(*ssa.Return), 0)
		for _, v := range vals {
			ok := false
			for _, s := range salts {
				if sv, isV := s.(ssa.Value); isV && c14gMentions(v, c14gIs(sv)) {
					ok = true
				}
			}
			if ok {
				c.OK(f, "prov{version key derived from the salted id}", r.Pos(), eng.ExprDeep(v))
			} else {
				c.Violation(f, "prov{version key derived from the salted id}", r.Pos(), "the key returned ("+eng.ExprDeep(v)+") is not built from SaltID(key|version)", nil)
			}
		}
	}
}

// ---- getKeyMetadata / writeKeyMetadata: one record per key, through one store
func c14gMetadataHelpers(c *eng.Ctx) {
	if f := c.Fn("kv.(*versionedKVBackend).getKeyMetadata"); f != nil {
		gets := eng.Calls(f, `^<logical\.Storage>\.Get$`)
		c.Clause("R5", "C14.2")
		if c.Floor(f, "metadata Get", len(gets), 1) {
			for _, g := range gets {
				a := g.Common().Args
				c.Prov(f, "key of the metadata record read", g, a[len(a)-1], `^param:key$`)
				if p := c14gWrapOf(g.Common().Value); p != nil {
					c.OK(f, "prov{store of the metadata record read = Wrap(getKeyEncryptor, storage parameter)}", g.Pos(), "Wrap(..., "+eng.VarName(p)+")")
				} else {
					c.Violation(f, "prov{store of the metadata record read = Wrap(getKeyEncryptor, storage parameter)}", g.Pos(), "the record is read from "+eng.ExprDeep(g.Common().Value)+", not from the encrypted-key wrapper around the caller's storage", nil)
				}
			}
			// (nil, nil) means "no such key" and nothing else
			c.Clause("R2", "C14.2")
			var absent, present []ssa.Instruction
			for _, r := range eng.Returns(f) {
				if len(r.Results) != 2 {
					continue
				}
				if eng.IsNilConst(r.Results[0]) && eng.IsNilConst(r.Results[1]) {
					absent = append(absent, r)
				}
			}
			present = eng.NonNilResultReturns(f, 0)
			if c.Floor(f, "return (nil, nil)", len(absent), 1) {
				c.Cut(f, "return (nil, nil): no such key", absent, eng.G(f, `^<logical\.Storage>\.Get\(\)#0 == nil$`, true), nil)
			}
			if c.Floor(f, "return of a record", len(present), 1) {
				c.Cut(f, "return of a record", present, eng.GCallOK(f, `^<logical\.Storage>\.Get$`), nil)
				c.Cut(f, "return of a record", present, eng.GCallOK(f, `protobuf/proto\.Unmarshal$`), nil)
			}
		}
	}
	if f := c.Fn("kv.(*versionedKVBackend).writeKeyMetadata"); f != nil {
		puts := eng.Calls(f, `^<logical\.Storage>\.Put$`)
		c.Clause("R5", "C14.2")
		pMeta := c14gParamOfType(f, func(t types.Type) bool { return c14TypeName(t) == "kv.KeyMetadata" })
		if pMeta == nil {
			c.Unresolved("kv.(*versionedKVBackend).writeKeyMetadata(meta *KeyMetadata)")
			return
		}
		if c.Floor(f, "metadata Put", len(puts), 1) {
			for _, p := range puts {
				if sp := c14gWrapOf(p.Common().Value); sp != nil {
					c.OK(f, "prov{store of the metadata record written = Wrap(getKeyEncryptor, storage parameter)}", p.Pos(), "Wrap(..., "+eng.VarName(sp)+")")
				} else {
					c.Violation(f, "prov{store of the metadata record written = Wrap(getKeyEncryptor, storage parameter)}", p.Pos(), "the record is written to "+eng.ExprDeep(p.Common().Value)+" while getKeyMetadata reads through the encrypted-key wrapper: the record written is not the record read", nil)
				}
				a := p.Common().Args
				entry := a[len(a)-1]
				ks, vs := eng.StructLitField(entry, "Key"), eng.StructLitField(entry, "Value")
				okK := len(ks) > 0
				for _, k := range ks {
					if ld, base := c14LoadOfField(k, "Key"); ld == nil || base != ssa.Value(pMeta) {
						okK = false
					}
				}
				okV := len(vs) > 0
				for _, v := range vs {
					m := c14ExtractOf(v, 0)
					if m == nil || !strings.HasSuffix(eng.CalleeName(&m.Call), "protobuf/proto.Marshal") || !c14gMentions(m.Call.Args[0], c14gIs(pMeta)) {
						okV = false
					}
				}
				if okK && okV {
					c.OK(f, "prov{metadata entry = (meta.Key, proto.Marshal(meta))}", p.Pos(), "key and value both come from the record handed in")
				} else {
					c.Violation(f, "prov{metadata entry = (meta.Key, proto.Marshal(meta))}", p.Pos(), fmt.Sprintf("the entry written is %s (key from meta.Key: %v, value = Marshal(meta): %v)", eng.ExprDeep(entry), okK, okV), nil)
				}
			}
		}
	}
}

// ---- every copy of the cached engine configuration copies every setting
func c14gConfigCopies(c *eng.Ctx) {
	f := c.Fn("kv.(*versionedKVBackend).config")
	if f == nil {
		return
	}
	c.Clause("R8", "C14.2")
	cfgT := c.P.NamedType("kv.Configuration")
	if cfgT == nil {
		c.Unresolved("kv.Configuration")
		return
	}
	st, _ := cfgT.Underlying().(*types.Struct)
	var fields []string
	for i := 0; st != nil && i < st.NumFields(); i++ {
		if st.Field(i).Exported() {
			fields = append(fields, st.Field(i).Name())
		}
	}
	sort.Strings(fields)
	if !c.Floor(f, "exported settings of kv.Configuration", len(fields), 3) {
		return
	}
	installed := map[ssa.Value]bool{} // objects this function installs as the cache
	for _, s := range eng.Stores(f, `\.globalConfig$`) {
		installed[s.Val] = true
	}
	isCacheLoad := func(v ssa.Value) bool {
		ld, _ := c14LoadOfField(v, "globalConfig")
		return ld != nil || installed[v]
	}
	nCopies, nRet := 0, 0
	seen := map[ssa.Value]bool{}
	for _, r := range eng.Returns(f) {
		vals, _, _ := eng.ReturnVals(r, 0)
		for _, v := range vals {
			if eng.IsNilConst(v) || seen[v] {
				continue
			}
			seen[v] = true
			nRet++
			site := "sibling{configuration handed out = full copy of the cached configuration}"
			const aliased = "config hands out the cached configuration object itself: callers (the config write handler) modify what they receive before it is persisted, so a config write that fails has already changed the cached cas_required / max_versions the data handlers enforce"
			if !c14IsAllocOf(v, "kv.Configuration") {
				if isCacheLoad(v) {
					c.Violation(f, "alias{configuration handed out is not the cached object}", r.Pos(), aliased, nil)
					continue
				}
				// the copy may be made by a helper of the package: every value it returns must be a
				// fresh literal with every setting copied from the parameter that receives the cache
				if cl, isCall := v.(*ssa.Call); isCall {
					if g := cl.Call.StaticCallee(); g != nil && eng.InPkg(g, "kv") && len(g.Blocks) > 0 && len(g.Params) == len(cl.Call.Args) {
						pi := -1
						for i, a := range cl.Call.Args {
							if isCacheLoad(a) {
								pi = i
							}
						}
						if pi < 0 {
							c.Violation(f, site, r.Pos(), "config returns "+eng.ExprDeep(v)+", which is not handed the cached configuration", nil)
							continue
						}
						src := ssa.Value(g.Params[pi])
						var bad []string
						isAlias := false
						nLit := 0
						for _, gr := range eng.Returns(g) {
							gvals, _, _ := eng.ReturnVals(gr, 0)
							if len(gvals) == 0 && len(gr.Results) > 0 {
								gvals = []ssa.Value{gr.Results[0]}
							}
							for _, gv := range gvals {
								switch {
								case c14Resolve(gv) == src:
									isAlias = true
								case !c14IsAllocOf(gv, "kv.Configuration"):
									bad = append(bad, "returns "+eng.ExprDeep(gv))
								default:
									nLit++
									set, missing := c14gCopyCheck(gv, fields, func(base ssa.Value) bool { return c14Resolve(base) == src })
									if set == 0 {
										bad = append(bad, "returns an empty Configuration")
									}
									bad = append(bad, missing...)
								}
							}
						}
						switch {
						case isAlias:
							c.Violation(f, "alias{configuration handed out is not the cached object}", r.Pos(), eng.FuncName(g)+" returns its argument: "+aliased, nil)
						case len(bad) > 0 || nLit == 0:
							c.Violation(f, site, r.Pos(), "the helper "+eng.FuncName(g)+" that copies the cached engine configuration is incomplete or mixed up: "+strings.Join(bad, "; ")+" — a warm cache changes cas_required / max_versions semantics", nil)
						default:
							nCopies++
							c.OK(f, site, r.Pos(), eng.FuncName(g)+" returns a fresh literal copying "+strings.Join(fields, ", ")+" from the cached configuration it is handed")
						}
						continue
					}
				}
				c.Violation(f, site, r.Pos(), "config returns "+eng.ExprDeep(v)+", not a literal copy of the cached configuration", nil)
				continue
			}
			set, missing := c14gCopyCheck(v, fields, isCacheLoad)
			if set == 0 {
				if installed[v] {
					c.Violation(f, "alias{configuration handed out is not the cached object}", r.Pos(), aliased, nil)
				} else {
					c.Violation(f, site, r.Pos(), "config returns an empty Configuration", nil)
				}
				continue
			}
			nCopies++
			if len(missing) == 0 {
				c.OK(f, site, r.Pos(), "copies "+strings.Join(fields, ", ")+" from the cached configuration")
			} else {
				c.Violation(f, site, r.Pos(), "the copy of the cached engine configuration is incomplete or mixed up: "+strings.Join(missing, "; ")+" — a warm cache changes cas_required / max_versions semantics", nil)
			}
		}
	}
	c.Floor(f, "configuration values returned", nRet, 2)
	c.Floor(f, "literal copies of the cached configuration", nCopies, 2)
}

// c14gCopyCheck: which of the settings the Configuration literal lit sets, and
// which are missing or not loaded from the same-named field of a source object.
func c14gCopyCheck(lit ssa.Value, fields []string, isSource func(base ssa.Value) bool) (set int, missing []string) {
	for _, fld := range fields {
		vs := eng.StructLitField(lit, fld)
		if len(vs) == 0 {
			missing = append(missing, fld+" (not set)")
			continue
		}
		set++
		for _, fv := range vs {
			if ld, base := c14LoadOfField(fv, fld); ld == nil || !isSource(base) {
				missing = append(missing, fld+" = "+eng.ExprDeep(fv))
			}
		}
	}
	return set, missing
}

// ---- the JSON merge behind patch: current data is the document, the request is the patch
func c14gPatchMerge(c *eng.Ctx) {
	if f := c.Fn("framework.HandlePatchOperation"); f != nil && len(f.Params) == 3 {
		c.Clause("R5", "C14.2")
		pRes, pPre := f.Params[1], f.Params[2]
		mp := eng.Calls(f, `json-patch[^ ]*\.MergePatch$`)
		if c.Floor(f, "MergePatch call", len(mp), 1) {
			for _, m := range mp {
				a := m.Common().Args
				if len(a) != 2 {
					c.Undecided(f, "prov{MergePatch(document = resource, patch = request input)}", m.Pos(), "unexpected MergePatch arity")
					continue
				}
				docRes, docPre := c14gMentions(a[0], c14gIs(pRes)), c14gMentions(a[0], c14gIs(pPre))
				patRes, patPre := c14gMentions(a[1], c14gIs(pRes)), c14gMentions(a[1], c14gIs(pPre))
				if docRes && !docPre && patPre && !patRes {
					c.OK(f, "prov{MergePatch(document = resource, patch = request input)}", m.Pos(), "document derives from the resource, patch from the (pre-processed) input")
				} else {
					c.Violation(f, "prov{MergePatch(document = resource, patch = request input)}", m.Pos(), fmt.Sprintf("document=%s patch=%s: the stored resource must be the document and the request the patch", eng.ExprDeep(a[0]), eng.ExprDeep(a[1])), nil)
				}
			}
		}
	}
	if f := c.Fn("kv.dataPatchPreprocessor$1"); f != nil && len(f.Params) == 1 {
		c.Clause("R5", "C14.2")
		rets := eng.SuccessReturns(f, 1)
		if c.Floor(f, "success returns", len(rets), 1) {
			for _, r := range rets {
				v := r.(*ssa.Return).Results[0]
				if eng.IsNilConst(v) {
					continue
				}
				if ta, ok := v.(*ssa.TypeAssert); ok {
					v = ta.X
				}
				if e, ok := v.(*ssa.Extract); ok {
					v = e.Tuple
				}
				lk, ok := v.(*ssa.Lookup)
				isData := false
				if ok && lk.X == ssa.Value(f.Params[0]) {
					if k, isC := lk.Index.(*ssa.Const); isC && k.Value != nil && k.Value.Kind() == constant.String && constant.StringVal(k.Value) == "data" {
						isData = true
					}
				}
				if isData {
					c.OK(f, "prov{patch document = the request's data field}", r.Pos(), `input["data"]`)
				} else {
					c.Violation(f, "prov{patch document = the request's data field}", r.Pos(), "the patch applied to the secret is "+eng.ExprDeep(r.(*ssa.Return).Results[0])+", not the request's data field", nil)
				}
			}
		}
	}
}

// ---- patch reads (and republishes) the current version only if it is live
func c14gPatchBase(c *eng.Ctx) {
	f := c.Fn("kv.(*versionedKVBackend).pathDataPatch$1")
	if f == nil {
		return
	}
	c.Clause("R2", "C14.5")
	sinks := append(eng.AsInstrs(eng.Calls(f, `^<logical\.Storage>\.Get$`)), eng.AsInstrs(eng.Calls(f, `^framework\.HandlePatchOperation$`))...)
	if !c.Floor(f, "read of the patch base / merge", len(sinks), 2) {
		return
	}
	c.Cut(f, "patch base read and merged", sinks, eng.G(f, `\.Versions\[.*\]\)? == nil$`, false), nil)
	c.Cut(f, "patch base read and merged", sinks, eng.G(f, `\.Versions\[.*\]\.Destroyed$`, false), nil)
	c.Cut(f, "patch base read and merged", sinks, eng.Or(eng.G(f, `\.Versions\[.*\]\.DeletionTime == nil$`, true), eng.G(f, `^time\.\(Time\)\.Before\(\)$`, false)), nil)
}

// ---- handlers are refused while the v1 -> v2 upgrade rewrites keys
func c14gUpgradeGate(c *eng.Ctx) {
	if w := c.Fn("kv.(*versionedKVBackend).upgradeCheck"); w != nil {
		c.Clause("R2", "C14.1")
		n := 0
		for _, cl := range eng.Closures(w) {
			nx := eng.Calls(cl, `^dyn:\^`)
			if len(nx) == 0 {
				continue
			}
			n++
			c.Cut(cl, "wrapped handler runs", eng.AsInstrs(nx), eng.GD(cl, `sync/atomic\.Bool\)\.Load\(\^?\w+\.upgrading\)$`, false), nil)
		}
		c.Floor(w, "wrapper closure calling the wrapped handler", n, 1)
	}
	if up := c.Fn("kv.(*versionedKVBackend).Upgrade"); up != nil {
		c.Clause("R3", "C14.1")
		n := 0
		for _, cl := range eng.Closures(up) {
			var rewrites []ssa.Instruction
			for _, cc := range eng.Calls(cl, `^dyn:\^`) {
				// the per-key rewrite: a captured func(string) error
				sig, ok := cc.Common().Value.Type().Underlying().(*types.Signature)
				if ok && sig.Params().Len() == 1 && sig.Results().Len() == 1 && c14gIsBasic(types.IsString)(sig.Params().At(0).Type()) {
					rewrites = append(rewrites, cc)
				}
			}
			if len(rewrites) == 0 {
				continue
			}
			n++
			var clears []ssa.Instruction
			for _, s := range eng.Calls(cl, `sync/atomic\.Bool\)\.Store$`) {
				a := s.Common().Args
				if len(a) == 2 && eng.Expr(a[1]) == "false" && strings.HasSuffix(eng.Expr(a[0]), ".upgrading") {
					clears = append(clears, s)
				}
			}
			if c.Floor(cl, "upgrading.Store(false)", len(clears), 1) {
				c.NotAfter(cl, "upgrading flag cleared", clears, "per-key upgrade", rewrites)
			}
		}
		c.Floor(up, "goroutine that rewrites the keys", n, 1)
	}
}

// ---- one lock table for the backend's lifetime
func c14gLockTable(c *eng.Ctx) {
	c.Clause("R6", "C14.1")
	fv := c.P.Field("kv.versionedKVBackend.locks")
	if fv == nil {
		c.Unresolved("kv.versionedKVBackend.locks")
		return
	}
	ws := c.P.FieldWriters(fv)
	bad := 0
	var first *ssa.Function
	var pos token.Pos
	for _, w := range ws {
		top := eng.TopFunc(w.Fn)
		if eng.FuncName(top) == "kv.VersionedKVFactory" {
			if first == nil {
				first, pos = top, w.Store.Pos()
			}
			continue
		}
		bad++
		c.Violation(top, "writer{kv.versionedKVBackend.locks}", w.Store.Pos(), "the per-key lock table is replaced outside the factory: handlers of one key may hold different lock objects", nil)
	}
	if bad == 0 && first != nil {
		c.OK(first, "writer{kv.versionedKVBackend.locks}", pos, fmt.Sprintf("%d writer(s), all in the factory", len(ws)))
	}
	c.Floor(nil, "writers of kv.versionedKVBackend.locks", len(ws), 1)
}

// ---- the version-key salt is cached only once it is durable: a salt that was
// generated through a transaction (the handlers hand Salt their open write
// transaction) disappears from storage when that transaction is rolled back,
// while the cached copy keeps deriving version keys until the next restart.
func c14gSaltCache(c *eng.Ctx) {
	f := c.Fn("kv.(*versionedKVBackend).Salt")
	if f == nil {
		return
	}
	c.Clause("R2", "C14.2")
	news := eng.Calls(f, `^salt\.NewSalt$`)
	if !c.Floor(f, "NewSalt call", len(news), 1) {
		return
	}
	var fills []ssa.Instruction
	for _, s := range eng.Stores(f, `\.salt$`) {
		for _, n := range news {
			if nv, ok := n.(ssa.Value); ok && c14gMentions(s.Val, c14gIs(nv)) {
				fills = append(fills, s)
			}
		}
	}
	if !c.Floor(f, "cache fill b.salt = NewSalt(...)", len(fills), 1) {
		return
	}
	// the storage NewSalt creates the salt through is the caller's
	for _, n := range news {
		a := n.Common().Args
		if len(a) >= 2 {
			if _, isParam := a[1].(*ssa.Parameter); !isParam {
				c.Undecided(f, "prov{storage the salt is created through}", n.Pos(), "NewSalt is not handed Salt's storage parameter: "+eng.ExprDeep(a[1]))
			}
		}
	}
	c.Cut(f, "cache fill with a salt created through the caller's storage", fills,
		eng.Or(eng.G(f, `\.\(logical\.Transaction\)#1$`, false), eng.G(f, `^salt\.\(\*Salt\)\.DidGenerate\(\)$`, false)), nil)
}

// ---------------------------------------------------------------------------
// ROBUST: a local closure that is only ever invoked directly and whose body is
// exactly one call returning that call's results stands for that call at its
// call site (persist := func() error { return b.writeKeyMetadata(...) }; err = persist()).

type c14Fwd struct {
	site  *ssa.Call     // the call of the closure in the enclosing function
	inner *ssa.Call     // the one call the closure makes
	cl    *ssa.Function // the closure
	// inner's arguments (receiver first for an invoke) as values of the enclosing
	// function: a constant/global, the argument passed at the site, or — for a
	// captured variable — the variable's cell (*ssa.Alloc); nil where unresolved
	args []ssa.Value
}

// c14OnlyCalled: every use of the closure value is a direct call of it.
func c14OnlyCalled(mc *ssa.MakeClosure) bool {
	onlyCallee := func(v ssa.Value) bool {
		if v.Referrers() == nil {
			return false
		}
		for _, r := range *v.Referrers() {
			switch x := r.(type) {
			case *ssa.DebugRef:
			case *ssa.Call:
				if x.Call.Value != v {
					return false
				}
				for _, a := range x.Call.Args {
					if a == v {
						return false
					}
				}
			default:
				return false
			}
		}
		return true
	}
	if mc.Referrers() == nil {
		return false
	}
	for _, r := range *mc.Referrers() {
		switch x := r.(type) {
		case *ssa.DebugRef:
		case *ssa.Call:
			if x.Call.Value != ssa.Value(mc) {
				return false
			}
		case *ssa.Store:
			cell, ok := x.Addr.(*ssa.Alloc)
			if !ok || x.Val != ssa.Value(mc) || cell.Referrers() == nil {
				return false
			}
			for _, cr := range *cell.Referrers() {
				switch y := cr.(type) {
				case *ssa.Store, *ssa.DebugRef:
				case *ssa.UnOp:
					if !onlyCallee(y) {
						return false
					}
				default:
					return false
				}
			}
		default:
			return false
		}
	}
	return true
}

func c14Forwards(f *ssa.Function) []c14Fwd {
	var out []c14Fwd
	for _, b := range f.Blocks {
		for _, in := range b.Instrs {
			site, ok := in.(*ssa.Call)
			if !ok || site.Call.IsInvoke() {
				continue
			}
			cl, mc := nfFuncValue(site.Call.Value)
			if cl == nil || mc == nil || cl.Parent() != f || len(cl.Blocks) != 1 || !c14OnlyCalled(mc) {
				continue
			}
			var inner *ssa.Call
			var ret *ssa.Return
			shape := true
			for _, ci := range cl.Blocks[0].Instrs {
				switch x := ci.(type) {
				case *ssa.Call:
					if inner != nil {
						shape = false
					}
					inner = x
				case *ssa.Return:
					ret = x
				case *ssa.UnOp:
					if x.Op != token.MUL {
						shape = false
					}
				case *ssa.Extract, *ssa.DebugRef, *ssa.MakeInterface, *ssa.ChangeInterface, *ssa.FieldAddr:
				default:
					shape = false
				}
			}
			if !shape || inner == nil || ret == nil {
				continue
			}
			// the closure returns exactly the call's results, in order
			for i, r := range ret.Results {
				if len(ret.Results) == 1 && r == ssa.Value(inner) {
					continue
				}
				if e, isE := r.(*ssa.Extract); !isE || e.Tuple != ssa.Value(inner) || e.Index != i {
					shape = false
				}
			}
			if !shape || inner.Call.Signature().Results().Len() != len(ret.Results) {
				continue
			}
			resolve := func(v ssa.Value) ssa.Value {
				for {
					switch x := v.(type) {
					case *ssa.MakeInterface:
						v = x.X
						continue
					case *ssa.ChangeInterface:
						v = x.X
						continue
					}
					break
				}
				switch x := v.(type) {
				case *ssa.Const, *ssa.Global, *ssa.Function:
					return v
				case *ssa.Parameter:
					for i, p := range cl.Params {
						if p == x && i < len(site.Call.Args) {
							return site.Call.Args[i]
						}
					}
				case *ssa.UnOp:
					if fv, isFV := x.X.(*ssa.FreeVar); isFV && x.Op == token.MUL {
						for i, cfv := range cl.FreeVars {
							if cfv == fv && i < len(mc.Bindings) {
								if a, isA := mc.Bindings[i].(*ssa.Alloc); isA {
									return a
								}
							}
						}
					}
				}
				return nil
			}
			fw := c14Fwd{site: site, inner: inner, cl: cl}
			if inner.Call.IsInvoke() {
				fw.args = append(fw.args, resolve(inner.Call.Value))
			}
			for _, a := range inner.Call.Args {
				fw.args = append(fw.args, resolve(a))
			}
			out = append(out, fw)
		}
	}
	return out
}

// c14CellOf: the variable cell a value is read from (a load of a local cell,
// or the cell itself as produced by c14Forwards); nil for a plain SSA value.
func c14CellOf(v ssa.Value) *ssa.Alloc {
	if a, ok := v.(*ssa.Alloc); ok {
		return a
	}
	if u, ok := v.(*ssa.UnOp); ok && u.Op == token.MUL {
		if a, ok := u.X.(*ssa.Alloc); ok {
			return a
		}
	}
	return nil
}

// c14SameVar: x denotes the same value as m — the same SSA value, or a read of
// the same variable cell (the caller checks that the cell is not reassigned in between).
func c14SameVar(x, m ssa.Value) bool {
	if x == m {
		return true
	}
	cx, cm := c14CellOf(x), c14CellOf(m)
	return cx != nil && cx == cm
}

// c14CellStores: the stores into the cell in its function; ok=false if a
// capturing closure may write it or its address escapes.
func c14CellStores(a *ssa.Alloc) (stores []ssa.Instruction, ok bool) {
	if a.Referrers() == nil {
		return nil, false
	}
	for _, r := range *a.Referrers() {
		switch x := r.(type) {
		case *ssa.Store:
			if x.Addr != ssa.Value(a) {
				return nil, false
			}
			stores = append(stores, x)
		case *ssa.UnOp, *ssa.DebugRef:
		case *ssa.MakeClosure:
			fn, _ := x.Fn.(*ssa.Function)
			if fn == nil {
				return nil, false
			}
			for i, bnd := range x.Bindings {
				if bnd != ssa.Value(a) || i >= len(fn.FreeVars) || fn.FreeVars[i].Referrers() == nil {
					continue
				}
				for _, fr := range *fn.FreeVars[i].Referrers() {
					switch fr.(type) {
					case *ssa.UnOp, *ssa.DebugRef:
					default:
						return nil, false
					}
				}
			}
		default:
			return nil, false
		}
	}
	return stores, true
}

// c14CalleeWrites: the static callee (same package, body loaded) calls Put or
// Delete directly on a storage parameter it was handed.
func c14CalleeWrites(cc *ssa.CallCommon, st *types.Interface) bool {
	g := cc.StaticCallee()
	if g == nil || len(g.Blocks) == 0 || !eng.InPkg(g, "kv") {
		return false
	}
	for _, cl := range eng.Calls(g, `^<logical\.Storage>\.(Put|Delete)$`) {
		if p, ok := cl.Common().Value.(*ssa.Parameter); ok && c14IsStorage(p, st) {
			return true
		}
	}
	return false
}

// c14FollowedPut: the unique call in f of a function of the same package that
// (1) calls Storage.Put exactly once, on a parameter, with an entry literal whose
// Key is a parameter and whose Value is proto.Marshal(<parameter>)#0, and (2)
// returns a nil error only behind that Put's success. Returns the call and the
// arguments f passes for the key and for the marshalled object.
func c14FollowedPut(f *ssa.Function) (site ssa.CallInstruction, key, obj ssa.Value) {
	n := 0
	for _, cl := range eng.Calls(f, `.`) {
		if _, isCall := cl.(*ssa.Call); !isCall {
			continue
		}
		cc := cl.Common()
		g := cc.StaticCallee()
		if g == nil || g.Pkg != f.Pkg || len(g.Blocks) == 0 || len(g.Params) != len(cc.Args) || g.Signature.Results().Len() != 1 {
			continue
		}
		puts := eng.Calls(g, `^<logical\.Storage>\.Put$`)
		if len(puts) != 1 {
			continue
		}
		if _, onParam := puts[0].Common().Value.(*ssa.Parameter); !onParam {
			continue
		}
		idx := func(v ssa.Value) int {
			for i, p := range g.Params {
				if ssa.Value(p) == v {
					return i
				}
			}
			return -1
		}
		a := puts[0].Common().Args
		entry := a[len(a)-1]
		ks, vs := eng.StructLitField(entry, "Key"), eng.StructLitField(entry, "Value")
		if len(ks) != 1 || len(vs) != 1 {
			continue
		}
		ki := idx(ks[0])
		m := c14ExtractOf(vs[0], 0)
		if ki < 0 || m == nil || !strings.HasSuffix(eng.CalleeName(&m.Call), "protobuf/proto.Marshal") {
			continue
		}
		mo := m.Call.Args[0]
		if mi, ok := mo.(*ssa.MakeInterface); ok {
			mo = mi.X
		}
		vi := idx(mo)
		if vi < 0 {
			continue
		}
		// success only behind the Put
		var succ []ssa.Instruction
		for _, r := range eng.SuccessReturns(g, 0) {
			// `return s.Put(...)` hands on the Put's own verdict
			if pv, isV := puts[0].(ssa.Value); isV && r.(*ssa.Return).Results[0] == pv {
				continue
			}
			succ = append(succ, r)
		}
		if len(succ) > 0 && eng.Reach(eng.Query{Fn: g, Blocked: eng.CallOKEdges(puts[0]), Target: eng.IsTarget(succ)}) != nil {
			continue
		}
		n++
		site, key, obj = cl, cc.Args[ki], cc.Args[vi]
	}
	if n != 1 {
		return nil, nil, nil
	}
	return site, key, obj
}

// ---------------------------------------------------------------------------
// ROBUST (second pass): values through local aliases, operations through bound
// method values and deferred closures — used by every handler family rule.

// c14Resolve follows local aliases: a read of a variable (its cell, or the
// captured variable a closure sees it through) that is assigned exactly once
// is the value assigned; interface boxing/conversions are looked through.
func c14Resolve(v ssa.Value) ssa.Value {
	for i := 0; i < 8 && v != nil; i++ {
		switch x := v.(type) {
		case *ssa.ChangeInterface:
			v = x.X
			continue
		case *ssa.ChangeType:
			v = x.X
			continue
		case *ssa.UnOp:
			if x.Op == token.MUL {
				if cell := nfCellOf(x.X); cell != nil {
					if vals := nfStoresTo(cell); len(vals) == 1 {
						v = vals[0]
						continue
					}
				}
			}
		}
		break
	}
	return v
}

// c14Same: x and m denote the same value (identical, aliases of one value, or
// reads of one variable cell).
func c14Same(x, m ssa.Value) bool {
	return c14SameVar(x, m) || c14Resolve(x) == c14Resolve(m)
}

// c14KeyLockOp: ci is <LockForKey(b.locks, key)>.<method>() for one of the
// handler's path keys — called directly (sync.(*RWMutex).M(&entry.RWMutex)),
// through a bound method value (m := lock.M; m()), with the lock entry read
// through a local alias or a captured variable.
func c14KeyLockOp(ci ssa.CallInstruction, method string, keys map[ssa.Value]bool) bool {
	nc := nfCallOf(ci)
	if ci.Common().IsInvoke() || len(nc.Args) != 1 {
		return false
	}
	var entry ssa.Value
	switch {
	case nc.Name == "sync.(*RWMutex)."+method:
		recv := c14Resolve(nc.Args[0])
		fa, ok := recv.(*ssa.FieldAddr)
		if !ok {
			return false
		}
		entry = c14Resolve(fa.X)
	case strings.HasSuffix(nc.Name, "locksutil.(*LockEntry)."+method):
		entry = c14Resolve(nc.Args[0])
	default:
		return false
	}
	lk, ok := entry.(*ssa.Call)
	if !ok || !strings.HasPrefix(eng.CalleeName(&lk.Call), "locksutil.LockForKey") || len(lk.Call.Args) != 2 {
		return false
	}
	ld, ok := c14Resolve(lk.Call.Args[0]).(*ssa.UnOp)
	if !ok || ld.Op != token.MUL {
		return false
	}
	lfa, ok := ld.X.(*ssa.FieldAddr)
	if !ok || c14TypeName(lfa.X.Type()) != "kv.versionedKVBackend" {
		return false
	}
	if fv := eng.FieldVar(lfa); fv == nil || fv.Name() != "locks" {
		return false
	}
	return keys[lk.Call.Args[1]] || keys[c14Resolve(lk.Call.Args[1])]
}

// c14Deferred: the defer instructions of f that certainly perform an operation
// satisfying is when the function exits: a deferred call that is the operation
// (directly or through a bound method value), or a deferred closure of f every
// path through which passes such a call.
func c14Deferred(f *ssa.Function, is func(ci ssa.CallInstruction) bool) []ssa.Instruction {
	var out []ssa.Instruction
	for _, b := range f.Blocks {
		for _, in := range b.Instrs {
			d, ok := in.(*ssa.Defer)
			if !ok {
				continue
			}
			if is(d) {
				out = append(out, d)
				continue
			}
			cl, mc := nfFuncValue(d.Call.Value)
			if cl == nil || mc == nil || cl.Parent() != f || len(cl.Blocks) == 0 {
				continue
			}
			var ops []ssa.Instruction
			for _, cb := range cl.Blocks {
				for _, cin := range cb.Instrs {
					if cc, isCall := cin.(*ssa.Call); isCall && is(cc) {
						ops = append(ops, cc)
					}
				}
			}
			if len(ops) > 0 && eng.Reach(eng.Query{Fn: cl, Barriers: ops, Target: c14IsRet}) == nil {
				out = append(out, d)
			}
		}
	}
	return out
}

// c14IsRollbackOf: ci is <txn>.Rollback(...) on the transaction value txn
// (invoke, or bound method value), txn possibly read through an alias / captured variable.
func c14IsRollbackOf(ci ssa.CallInstruction, txn ssa.Value) bool {
	cc := ci.Common()
	if cc.IsInvoke() {
		return cc.Method.Name() == "Rollback" && c14Resolve(cc.Value) == txn
	}
	nc := nfCallOf(ci)
	return strings.HasSuffix(nc.Name, ".Rollback") && nc.Name != eng.CalleeName(cc) && len(nc.Args) >= 1 && c14Resolve(nc.Args[0]) == txn
}

// c14MetaWrites: the metadata writes of a handler — writeKeyMetadata called
// directly, or through a forwarding closure that is only called directly —
// with the record each of them persists (as a value of the handler).
func c14MetaWrites(f *ssa.Function) ([]ssa.CallInstruction, map[ssa.CallInstruction]ssa.Value) {
	const pWkm = `^kv\.\(\*versionedKVBackend\)\.writeKeyMetadata$`
	wkm := eng.Calls(f, pWkm)
	rec := map[ssa.CallInstruction]ssa.Value{}
	for _, w := range wkm {
		rec[w] = w.Common().Args[3]
	}
	re := regexp.MustCompile(pWkm)
	for _, fw := range c14Forwards(f) {
		if re.MatchString(eng.CalleeName(fw.inner.Common())) && len(fw.args) == 4 && fw.args[3] != nil {
			wkm = append(wkm, fw.site)
			rec[fw.site] = fw.args[3]
		}
	}
	return wkm, rec
}

// c14FollowedVersionDeletes: calls in f of a function of package kv that
// deletes version data on behalf of its caller: every storage write it makes
// is <storage parameter>.Delete(getVersionKey(<key parameter>, n, <the same
// storage parameter>)#0) with n ranging over <metadata parameter>.Versions.
// Returned per call: the arguments f passes for the key and the metadata.
type c14VerDel struct {
	site      ssa.CallInstruction
	key, meta ssa.Value
}

func c14FollowedVersionDeletes(f *ssa.Function, st *types.Interface) []c14VerDel {
	var out []c14VerDel
	for _, cl := range eng.Calls(f, `.`) {
		if _, isCall := cl.(*ssa.Call); !isCall {
			continue
		}
		cc := cl.Common()
		g := cc.StaticCallee()
		if g == nil || !eng.InPkg(g, "kv") || len(g.Blocks) == 0 || len(g.Params) != len(cc.Args) {
			continue
		}
		dels := eng.Calls(g, `^<logical\.Storage>\.Delete$`)
		if len(dels) == 0 || len(eng.Calls(g, `^<logical\.Storage>\.Put$`)) > 0 {
			continue
		}
		idx := func(v ssa.Value) int {
			for i, p := range g.Params {
				if ssa.Value(p) == v {
					return i
				}
			}
			return -1
		}
		ki, mi := -1, -1
		ok := true
		for _, d := range dels {
			si := idx(d.Common().Value)
			a := d.Common().Args
			gv := c14ExtractOf(a[len(a)-1], 0)
			if si < 0 || !c14IsStorage(g.Params[si], st) || gv == nil || !strings.HasSuffix(eng.CalleeName(&gv.Call), ").getVersionKey") || len(gv.Call.Args) != 5 {
				ok = false
				break
			}
			k, s := idx(gv.Call.Args[2]), idx(gv.Call.Args[4])
			if k < 0 || s != si || (ki >= 0 && ki != k) {
				ok = false
				break
			}
			ki = k
			// the version numbers range over the Versions map of a *KeyMetadata parameter
			m := -1
			for i, p := range g.Params {
				if c14TypeName(p.Type()) == "kv.KeyMetadata" && c14VersionNumberOrigin(gv.Call.Args[3], p) == "all" {
					m = i
				}
			}
			if m < 0 || (mi >= 0 && mi != m) {
				ok = false
				break
			}
			mi = m
		}
		if ok && ki >= 0 && mi >= 0 {
			out = append(out, c14VerDel{site: cl, key: cc.Args[ki], meta: cc.Args[mi]})
		}
	}
	return out
}

// ---------------------------------------------------------------------------
// C14.4 batch handlers (delete / undelete / destroy of a list of versions):
// skipping one named version continues with the next one. No success exit is
// reachable from inside a per-version loop except across the loop's exit, and
// where the metadata write follows the loop every success exit from the loop's
// exit passes it (seed C14-f: `continue` turned into `return nil, nil`).
func c14gBatchLoops(c *eng.Ctx) {
	isVersionsField := func(v ssa.Value) bool {
		v = c14Resolve(v)
		if ta, ok := v.(*ssa.TypeAssert); ok {
			v = ta.X
		}
		g, ok := v.(*ssa.Call)
		if !ok || eng.CalleeName(&g.Call) != "framework.(*FieldData).Get" || len(g.Call.Args) != 2 {
			return false
		}
		_, isParam := g.Call.Args[0].(*ssa.Parameter)
		return isParam && eng.Expr(g.Call.Args[1]) == `"versions"`
	}
	nLoops := 0
	for _, fn := range []string{"kv.(*versionedKVBackend).pathDeleteWrite$1", "kv.(*versionedKVBackend).pathUndeleteWrite$1", "kv.(*versionedKVBackend).pathDestroyWrite$1"} {
		f := c.Fn(fn)
		if f == nil {
			continue
		}
		c.Clause("R2", "C14.4")
		succ := eng.SuccessReturns(f, 1)
		wkm, _ := c14MetaWrites(f)
		n := 0
		for _, b := range f.Blocks {
			iff := eng.IfOf(b)
			if iff == nil {
				continue
			}
			bo, ok := iff.Cond.(*ssa.BinOp)
			if !ok || !(bo.Op == token.LSS || bo.Op == token.GTR) {
				continue
			}
			lenSide := bo.Y
			if bo.Op == token.GTR {
				lenSide = bo.X
			}
			lc, ok := lenSide.(*ssa.Call)
			if !ok || eng.CalleeName(&lc.Call) != "len" || len(lc.Call.Args) != 1 || !isVersionsField(lc.Call.Args[0]) {
				continue
			}
			body, exit := eng.Edge{From: b, Succ: 0}, eng.Edge{From: b, Succ: 1}
			// a loop header: the body leads back to the test
			if eng.Reach(eng.Query{Fn: f, StartEdges: []eng.Edge{body}, Target: func(in ssa.Instruction) bool { return in == ssa.Instruction(iff) }}) == nil {
				continue
			}
			n++
			nLoops++
			site := "per-version loop: success only across the loop's exit"
			if h := eng.Reach(eng.Query{Fn: f, StartEdges: []eng.Edge{body}, Blocked: []eng.Edge{exit}, Target: eng.IsTarget(succ)}); h != nil {
				c.Violation(f, site, h.Instr.Pos(), "a success return is reachable from inside the loop over the request's version numbers without finishing the loop: the versions named after the skipped one are not processed (and what was already marked is neither persisted nor committed) while the caller is told the operation succeeded", h.Witness)
			} else {
				c.OK(f, site, iff.Cond.Pos(), "every nil-error return reachable from the loop body crosses the loop's exit edge")
			}
			// where the metadata write comes after this loop, success from the loop's exit passes it
			if eng.Reach(eng.Query{Fn: f, StartEdges: []eng.Edge{exit}, Target: eng.IsTarget(eng.AsInstrs(wkm))}) != nil {
				site = "per-version loop: success after the loop passes the metadata write"
				if h := eng.Reach(eng.Query{Fn: f, StartEdges: []eng.Edge{exit}, Barriers: eng.AsInstrs(wkm), Target: eng.IsTarget(succ)}); h != nil {
					c.Violation(f, site, h.Instr.Pos(), "after the per-version loop a success return is reachable without the metadata write: the marks made in the loop are dropped", h.Witness)
				} else {
					c.OK(f, site, iff.Cond.Pos(), "every nil-error return after the loop lies behind writeKeyMetadata")
				}
			}
		}
		c.Floor(f, "loops over the request's version numbers", n, 1)
	}
	c.Clause("R2", "C14.4")
	c.Floor(nil, "per-version loops of the batch handlers", nLoops, 4)
}
