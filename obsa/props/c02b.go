package props

import (
	"fmt"
	"go/types"
	"regexp"
	"sort"
	"strings"

	"golang.org/x/tools/go/ssa"

	"obsa/eng"
)

func c02OperationTables(c *eng.Ctx) {
	all, pos, ok1 := c.P.VarLitConsts("logical", "AllOperations")
	ext, _, ok2 := c.P.VarLitConsts("logical", "ExternalOperations")
	in, _, ok3 := c.P.VarLitConsts("logical", "InternalOperations")
	login, _, ok4 := c.P.VarLitConsts("logical", "LoginOperations")
	if !ok1 || !ok2 || !ok3 || !ok4 {
		c.Unresolved("logical.{All,External,Internal,Login}Operations literals")
		return
	}
	set := func(xs []string) map[string]bool {
		m := map[string]bool{}
		for _, x := range xs {
			m[x] = true
		}
		return m
	}
	sa, se, si := set(all), set(ext), set(in)
	okAll := true
	for x := range se {
		if si[x] {
			okAll = false
			c.Violation(nil, "table{External ∩ Internal = ∅}", pos, "operation "+x+" is both external and internal: internal-only operations become reachable from the API", nil)
		}
		if !sa[x] {
			okAll = false
			c.Violation(nil, "table{External ⊆ All}", pos, "operation "+x+" missing from AllOperations", nil)
		}
	}
	for x := range si {
		if !sa[x] {
			okAll = false
			c.Violation(nil, "table{Internal ⊆ All}", pos, "operation "+x+" missing from AllOperations", nil)
		}
	}
	for x := range sa {
		if !se[x] && !si[x] {
			okAll = false
			c.Violation(nil, "table{All = External ∪ Internal}", pos, "operation "+x+" is neither external nor internal", nil)
		}
	}
	// internal operations the rest of the rules rely on being internal
	for _, x := range []string{"revoke", "renew", "rollback", "alias-lookahead", "resolve-role"} {
		if !si[x] || se[x] {
			okAll = false
			c.Violation(nil, "table{internal operation "+x+"}", pos, "operation "+x+" must be internal-only", nil)
		}
	}
	for _, x := range login {
		if !se[x] {
			okAll = false
			c.Violation(nil, "table{Login ⊆ External}", pos, "login operation "+x+" is not external", nil)
		}
	}
	if okAll {
		sort.Strings(ext)
		sort.Strings(in)
		o := fmt.Sprintf("External=%v Internal=%v disjoint, union = AllOperations (%d), Login ⊆ External", ext, in, len(all))
		c.OK(nil, "table{operations}", pos, o)
	}
	// the validators consult the right table
	for fn, tbl := range map[string]string{
		"logical.ValidateExternalOperation": "logical.ExternalOperations",
		"logical.ValidateInternalOperation": "logical.InternalOperations",
		"logical.ValidateLoginOperation":    "logical.LoginOperations",
	} {
		f := c.Fn(fn)
		if f == nil {
			continue
		}
		found := false
		for _, cl := range eng.Calls(f, `^slices\.Contains`) {
			found = true
			c.Prov(f, "table consulted by "+fn, cl, cl.Common().Args[0], "^global:"+strings.ReplaceAll(tbl, ".", `\.`)+"$")
		}
		if !found {
			c.Violation(f, "table consulted by "+fn, f.Pos(), "validator no longer consults "+tbl+" through slices.Contains", nil)
		}
		// nil only when contained: every nil-error return... the loop returns error on !Contains
		succ := eng.SuccessReturns(f, 0)
		_ = succ
	}
}

// c02PolicyCache: every function of the policy store that writes or deletes a
// policy entry in storage also updates/removes the cache entry before it
// returns success.
func c02PolicyCache(c *eng.Ctx) {
	c.Clause("R3", "C02.7")
	type spec struct{ fn, write, cache string }
	for _, s := range []spec{
		{"policy.(*Store).setPolicyInternal", `\.Put$`, `\.(Add|Remove)$`},
		{"policy.(*Store).switchedDeletePolicy", `\.Delete$`, `\.Remove$`},
	} {
		f := c.Fn(s.fn)
		if f == nil {
			continue
		}
		writes := storageCalls(f, s.write)
		if !c.Floor(f, "policy storage write", len(writes), 1) {
			continue
		}
		noCache := c02NoCacheEdges(c, f) // no cache configured: nothing to invalidate
		cache := c02CacheSites(f, s.cache, noCache)
		// every nil-error return reachable after a storage write passes a cache update
		for _, w := range writes {
			rets := eng.SuccessReturns(f, f.Signature.Results().Len()-1)
			if h := eng.Reach(eng.Query{Fn: f, StartAfter: w, Barriers: cache, Blocked: noCache, Target: eng.IsTarget(rets)}); h != nil {
				fact := "a nil-error return is reachable after the storage write without updating the policy cache: the next request would still see the old policy"
				if len(cache) == 0 {
					fact = "no cache update call exists in this function any more; " + fact
				}
				c.Violation(f, "after{storage write} cache update before success", w.Pos(), fact, h.Witness)
			} else {
				c.OK(f, "after{storage write} cache update before success", w.Pos(), "every nil-error return after the storage write is preceded by a policy cache update/removal")
			}
		}
	}
}

// c02PolicyCacheKeys: every keyed operation on the policy cache (the type of
// Store.tokenPoliciesLRU) uses, as its key, the result of Store.cacheKey — the
// one expression readers and writers share — or a key enumerated from the
// cache itself (namespace invalidation). A writer or remover that derives its
// key differently (a part of the key, the bare name) leaves the entry the
// readers find untouched.
func c02PolicyCacheKeys(c *eng.Ctx) {
	c.Clause("R5", "C02.7")
	fv := c.P.Field("policy.Store.tokenPoliciesLRU")
	if fv == nil {
		c.Unresolved("policy.Store.tokenPoliciesLRU")
		return
	}
	if c.P.Func("policy.(*Store).cacheKey") == nil {
		c.Unresolved("policy.(*Store).cacheKey")
		return
	}
	keyed := map[string]bool{"Add": true, "Remove": true, "Get": true, "Contains": true, "Peek": true, "ContainsOrAdd": true, "PeekOrAdd": true}
	n, nWrite := 0, 0
	for _, fn := range c.P.Funcs {
		if !eng.InPkg(fn, "policy") {
			continue
		}
		for _, b := range fn.Blocks {
			for _, in := range b.Instrs {
				cl, ok := in.(ssa.CallInstruction)
				if !ok {
					continue
				}
				cc := cl.Common()
				callee := cc.StaticCallee()
				if callee == nil && !cc.IsInvoke() && len(cc.Args) >= 1 {
					// a keyed operation called through a bound method value (`rm := cache.Remove; rm(key)`), possibly
					// one of several values of a function variable: the key is the first argument of the call
					vals := []ssa.Value{cc.Value}
					if phi, ok := cc.Value.(*ssa.Phi); ok {
						vals = phi.Edges
					}
					for _, fvv := range vals {
						bf, mc := nfFuncValue(fvv)
						if bf == nil || mc == nil || !nfIsBoundWrapper(bf) || len(mc.Bindings) != 1 || !types.Identical(mc.Bindings[0].Type(), fv.Type()) {
							continue
						}
						name := strings.TrimSuffix(bf.Name(), "$bound")
						if !keyed[name] {
							continue
						}
						n++
						if name != "Get" && name != "Contains" && name != "Peek" {
							nWrite++
						}
						c.Prov(eng.TopFunc(fn), "key of policy cache "+name, cl, cc.Args[0], `^call:policy\.\(\*Store\)\.cacheKey$`)
						break
					}
					continue
				}
				if callee == nil || cc.IsInvoke() || len(cc.Args) < 2 || !keyed[callee.Name()] || !types.Identical(cc.Args[0].Type(), fv.Type()) {
					continue
				}
				n++
				if callee.Name() != "Get" && callee.Name() != "Contains" && callee.Name() != "Peek" {
					nWrite++
				}
				top := eng.TopFunc(fn)
				site := "key of policy cache " + callee.Name()
				key := cc.Args[1]
				// a key enumerated from the cache itself
				fromKeys := true
				roots := eng.Roots(key, nil)
				for _, r := range roots {
					rc, ok := r.(*ssa.Call)
					if !ok || rc.Call.StaticCallee() == nil || rc.Call.StaticCallee().Name() != "Keys" || len(rc.Call.Args) == 0 || !types.Identical(rc.Call.Args[0].Type(), fv.Type()) {
						fromKeys = false
					}
				}
				if fromKeys && len(roots) > 0 {
					c.OK(top, site+" (enumerated)", cl.Pos(), "key is an element of the cache's own Keys()")
					continue
				}
				c.Prov(top, site, cl, key, `^call:policy\.\(\*Store\)\.cacheKey$`)
			}
		}
	}
	c.Floor(nil, "keyed operations on the policy cache", n, 6)
	c.Floor(nil, "keyed write/remove operations on the policy cache", nWrite, 4)
}

func storageCalls(f *ssa.Function, pat string) []ssa.Instruction {
	var out []ssa.Instruction
	for _, cl := range eng.Calls(f, pat) {
		cc := cl.Common()
		if cc.IsInvoke() {
			t := eng.Short(cc.Value.Type().String())
			if strings.Contains(t, "logical.Storage") || strings.Contains(t, "barrier.View") || strings.Contains(t, "logical.Transaction") || strings.Contains(t, "physical.") {
				out = append(out, cl)
			}
		}
	}
	return out
}

func cacheCalls(f *ssa.Function, pat string) []ssa.Instruction {
	var out []ssa.Instruction
	for _, cl := range eng.Calls(f, pat) {
		n := eng.CalleeName(cl.Common())
		if strings.Contains(n, "lru") || strings.Contains(n, "LRU") || strings.Contains(n, "Cache") || strings.Contains(n, "cache") {
			out = append(out, cl)
		}
	}
	return out
}

// c02NoCacheEdges: the edges on which Store.tokenPoliciesLRU — read directly or
// through a local alias — is nil.
func c02NoCacheEdges(c *eng.Ctx, f *ssa.Function) []eng.Edge {
	fv := c.P.Field("policy.Store.tokenPoliciesLRU")
	out := c04FieldCmpEdges(f, fv, nil, "nil", true)
	seen := map[eng.Edge]bool{}
	for _, e := range out {
		seen[e] = true
	}
	for _, e := range eng.CondEdges(f, `tokenPoliciesLRU == nil$`, true) {
		if !seen[e] {
			out = append(out, e)
		}
	}
	return out
}

func c02IsCacheName(name string) bool {
	return strings.Contains(name, "lru") || strings.Contains(name, "LRU") || strings.Contains(name, "Cache") || strings.Contains(name, "cache")
}

// c02CacheSites: the instructions of f at which a policy-cache operation
// matching pat has certainly happened: a direct call, a call through a bound
// method value, a closure / same-package helper that performs it on every path
// (props/c04follow.go), or a call through a function VARIABLE every possible
// value of which either is such a method value or is assigned only on an edge
// on which no cache is configured (`evict := noop; if cache != nil { evict = cache.Remove }`).
func c02CacheSites(f *ssa.Function, pat string, noCache []eng.Edge) []ssa.Instruction {
	re := regexp.MustCompile(pat)
	is := func(name string) bool { return re.MatchString(name) && c02IsCacheName(name) }
	var out []ssa.Instruction
	seen := map[ssa.Instruction]bool{}
	add := func(in ssa.Instruction) {
		if !seen[in] {
			seen[in] = true
			out = append(out, in)
		}
	}
	for _, st := range nfMust(f, nil, func(nc nfCall, _ *nfFrame) bool { return is(nc.Name) }, 2) {
		add(st.At)
	}
	exempt := map[eng.Edge]bool{}
	for _, e := range noCache {
		exempt[e] = true
	}
	for _, ci := range nfAllCalls(f) {
		phi, ok := ci.Common().Value.(*ssa.Phi)
		if !ok || ci.Common().IsInvoke() {
			continue
		}
		all, some := true, false
		for i, e := range phi.Edges {
			fn, mc := nfFuncValue(e)
			if fn != nil && mc != nil && nfIsBoundWrapper(fn) && is(strings.TrimSuffix(eng.FuncName(fn), "$bound")) {
				some = true
				continue
			}
			// any other value must have been chosen on a no-cache edge
			pb := phi.Block().Preds[i]
			okEdge := false
			for si, sb := range pb.Succs {
				if sb == phi.Block() && exempt[eng.Edge{From: pb, Succ: si}] {
					okEdge = true
				}
			}
			if !okEdge {
				all = false
			}
		}
		if all && some {
			add(ci)
		}
	}
	return out
}
