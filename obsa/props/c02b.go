package props

import (
	"fmt"
	"sort"
	"strings"

	"golang.org/x/tools/go/ssa"

	"obsa/eng"
)

func c02OperationTables(c *eng.Ctx) {
	all, pos, ok1 := c.P.VarLitConsts("logical", "AllOperations")
	ext, _, ok2 := c.P.VarLitConsts("logical", "ExternalOperations")
	in, _, ok3 := c.P.VarLitConsts("logical", "InternalOperations")
	login, _, ok4 := c.P.VarLitConsts("logical", "LoginOperations")
	if !ok1 || !ok2 || !ok3 || !ok4 {
		c.Unresolved("logical.{All,External,Internal,Login}Operations literals")
		return
	}
	set := func(xs []string) map[string]bool {
		m := map[string]bool{}
		for _, x := range xs {
			m[x] = true
		}
		return m
	}
	sa, se, si := set(all), set(ext), set(in)
	okAll := true
	for x := range se {
		if si[x] {
			okAll = false
			c.Violation(nil, "table{External ∩ Internal = ∅}", pos, "operation "+x+" is both external and internal: internal-only operations become reachable from the API", nil)
		}
		if !sa[x] {
			okAll = false
			c.Violation(nil, "table{External ⊆ All}", pos, "operation "+x+" missing from AllOperations", nil)
		}
	}
	for x := range si {
		if !sa[x] {
			okAll = false
			c.Violation(nil, "table{Internal ⊆ All}", pos, "operation "+x+" missing from AllOperations", nil)
		}
	}
	for x := range sa {
		if !se[x] && !si[x] {
			okAll = false
			c.Violation(nil, "table{All = External ∪ Internal}", pos, "operation "+x+" is neither external nor internal", nil)
		}
	}
	// internal operations the rest of the rules rely on being internal
	for _, x := range []string{"revoke", "renew", "rollback", "alias-lookahead", "resolve-role"} {
		if !si[x] || se[x] {
			okAll = false
			c.Violation(nil, "table{internal operation "+x+"}", pos, "operation "+x+" must be internal-only", nil)
		}
	}
	for _, x := range login {
		if !se[x] {
			okAll = false
			c.Violation(nil, "table{Login ⊆ External}", pos, "login operation "+x+" is not external", nil)
		}
	}
	if okAll {
		sort.Strings(ext)
		sort.Strings(in)
		o := fmt.Sprintf("External=%v Internal=%v disjoint, union = AllOperations (%d), Login ⊆ External", ext, in, len(all))
		c.OK(nil, "table{operations}", pos, o)
	}
	// the validators consult the right table
	for fn, tbl := range map[string]string{
		"logical.ValidateExternalOperation": "logical.ExternalOperations",
		"logical.ValidateInternalOperation": "logical.InternalOperations",
		"logical.ValidateLoginOperation":    "logical.LoginOperations",
	} {
		f := c.Fn(fn)
		if f == nil {
			continue
		}
		found := false
		for _, cl := range eng.Calls(f, `^slices\.Contains`) {
			found = true
			c.Prov(f, "table consulted by "+fn, cl, cl.Common().Args[0], "^global:"+strings.ReplaceAll(tbl, ".", `\.`)+"$")
		}
		if !found {
			c.Violation(f, "table consulted by "+fn, f.Pos(), "validator no longer consults "+tbl+" through slices.Contains", nil)
		}
		// nil only when contained: every nil-error return... the loop returns error on !Contains
		succ := eng.SuccessReturns(f, 0)
		_ = succ
	}
}

// c02PolicyCache: every function of the policy store that writes or deletes a
// policy entry in storage also updates/removes the cache entry before it
// returns success.
func c02PolicyCache(c *eng.Ctx) {
	c.Clause("R3", "C02.7")
	type spec struct{ fn, write, cache string }
	for _, s := range []spec{
		{"policy.(*Store).setPolicyInternal", `\.Put$`, `\.(Add|Remove)$`},
		{"policy.(*Store).switchedDeletePolicy", `\.Delete$`, `\.Remove$`},
	} {
		f := c.Fn(s.fn)
		if f == nil {
			continue
		}
		writes := storageCalls(f, s.write)
		if !c.Floor(f, "policy storage write", len(writes), 1) {
			continue
		}
		cache := cacheCalls(f, s.cache)
		// every nil-error return reachable after a storage write passes a cache update
		for _, w := range writes {
			rets := eng.SuccessReturns(f, f.Signature.Results().Len()-1)
			noCache := eng.CondEdges(f, `tokenPoliciesLRU == nil$`, true) // no cache configured: nothing to invalidate
			if h := eng.Reach(eng.Query{Fn: f, StartAfter: w, Barriers: cache, Blocked: noCache, Target: eng.IsTarget(rets)}); h != nil {
				fact := "a nil-error return is reachable after the storage write without updating the policy cache: the next request would still see the old policy"
				if len(cache) == 0 {
					fact = "no cache update call exists in this function any more; " + fact
				}
				c.Violation(f, "after{storage write} cache update before success", w.Pos(), fact, h.Witness)
			} else {
				c.OK(f, "after{storage write} cache update before success", w.Pos(), "every nil-error return after the storage write is preceded by a policy cache update/removal")
			}
		}
	}
}

func storageCalls(f *ssa.Function, pat string) []ssa.Instruction {
	var out []ssa.Instruction
	for _, cl := range eng.Calls(f, pat) {
		cc := cl.Common()
		if cc.IsInvoke() {
			t := eng.Short(cc.Value.Type().String())
			if strings.Contains(t, "logical.Storage") || strings.Contains(t, "barrier.View") || strings.Contains(t, "logical.Transaction") || strings.Contains(t, "physical.") {
				out = append(out, cl)
			}
		}
	}
	return out
}

func cacheCalls(f *ssa.Function, pat string) []ssa.Instruction {
	var out []ssa.Instruction
	for _, cl := range eng.Calls(f, pat) {
		n := eng.CalleeName(cl.Common())
		if strings.Contains(n, "lru") || strings.Contains(n, "LRU") || strings.Contains(n, "Cache") || strings.Contains(n, "cache") {
			out = append(out, cl)
		}
	}
	return out
}
