package props

import (
	"fmt"
	"go/token"
	"go/types"
	"regexp"
	"sort"
	"strings"

	"golang.org/x/tools/go/ssa"

	"obsa/eng"
)

func init() {
	register(&Prop{
		ID: "C13",
		Explanation: "Structural necessary conditions of 'all storage backends and layers implement one key/value and listing contract' — the parts of the contract that are visible in the shape of the layers, not the contract's equalities: " +
			"(1) prefix views return keys relative to the view (the entry read through a view carries the truncated key; confinement itself is C12.2, evaluated there); " +
			"(2) layer transparency, as a family rule over EVERY storage-shaped type in the program (any type with List and ListPage of the storage signature: cache, key-encoding check, latency/error injectors, write notifier, their transactions, physical/logical views, barrier views, storage access shims, inmem/raft front ends, the plugin GRPC server): each Get/Put/Delete/List/ListPage that delegates to a same-named operation hands on the caller's key (or the layer's own key transform of it), 'after' and 'limit' unchanged, hands on the caller's value, reports success only across the delegated operation's success, returns what the delegated operation returned, all delegating operations of one layer type address the same wrapped store (one access path from the receiver: a transaction layer's Get reads the transaction its Put writes), and List(p) is ListPage(p, \"\", -1) wherever it is implemented by delegation to ListPage; " +
			"(3) sibling agreement of the paginated seek in the raft backend: every bolt cursor Seek whose position derives from filepath.Join(prefix, after) lies behind 'after is non-empty and the joined position still starts with the prefix, else seek to the prefix' — in the plain listing and in the transactional one alike (F4, repaired by 54d7235); the iteration stops at the first key without the prefix; list verification replays through the plain listing; the seek position of a paginated raft listing is never a cleaned path (filepath.Join/Clean of 'after' changes the byte order for values such as './x' or 'a/../x' and skips entries): it is prefix + after; the two paginate-by-slicing implementations (plugin GRPC client, keysutil encrypted storage) agree on 'skip the element equal to after' and 'limit applies only when positive'; " +
			"(4) the recursive scan/clear helpers list the view they were given page by page with 'after' taken from the previous page, descend only into entries with a trailing slash, report only the others, build every path as directory + listed name, and delete exactly the reported paths from the same view; " +
			"(5) the read cache is filled and invalidated only on the success edge of the wrapped operation, under the per-key lock, under the operation's key; a transaction's writes invalidate the parent cache only after the commit succeeded; " +
			"second-tier mechanisms: the file backend's paginate-by-slicing is held to the sibling rules (search key is 'after', the element equal to 'after' is skipped, the cut applies only to a positive limit) and sorts the names before any search, slice or return of a non-empty listing; the in-memory walk's page-full test counts the accumulator the listing returns; the plain and transactional raft listings and the in-memory walk compare 'after' with the very entry name they emit on that decision (after folder collapsing); a failed in-memory commit restores the parent tree from a snapshot taken before the replay; a raft transaction's Put/Delete reach a nil-error return only past t.updates[key] = a put record carrying the caller's key and value / a delete record without contents; a cache's LRU is written only by its constructor with a fresh LRU; HandleListPage lists the storage, prefix and limit it was given with 'after' taken from the end of the previous page and ends normally only on an empty page, a non-positive limit or a page shorter than the limit; a transaction begun on a prefix view wraps the transaction begun on the view's storage under the view's own prefix; as a family over every type with Commit and Rollback whose Commit commits a handle reached from the receiver (a transaction layer wrapping another transaction), each Get/Put/Delete/List/ListPage it declares hands that same handle to a call (or delegates to a sibling operation that does), never only the non-transactional parent; the file backend does not name the file of a key through a path-cleaning function of the key unless validatePath refuses keys that cleaning changes (known finding c13-file-trailing-slash); in both raft listings every bolt cursor move (Seek/Next/First/Last/Prev) hands its key to the loop's nil/prefix test before any other move is reachable (one advance per key examined; the in-memory walk has no cursor of its own); in scanViewPaginated every path from a successful ListPage to the normal end of that directory's paging (the outer loop's test or the final return) crosses 'the page was empty', 'the page was shorter than pageSize', or all three conjuncts of the single-empty-entry case (exactly one entry, that entry is \"\", pageSize above one), operands selected by identity; inside a page every entry is reported to the callback or queued on the frontier before the next one.",
		NotDecided: "get-after-put, immediate-children semantics, sorted order and 'paginated listing = slice of the full listing' as equalities over values and orders (they need a model and execution); the base implementations' own walks (inmem radix walk, file directory read, postgresql SQL, bolt cursor arithmetic beyond the seek guard); backends outside this repository.",
		Run:        runC13,
	})
}

// storage-shaped operations
var c13Ops = []string{"Get", "Put", "Delete", "List", "ListPage"}

func c13IsStorageListPage(f *ssa.Function) bool {
	if f.Name() != "ListPage" || f.Signature.Recv() == nil {
		return false
	}
	p := f.Signature.Params()
	r := f.Signature.Results()
	if p.Len() != 4 || r.Len() != 2 {
		return false
	}
	isStr := func(t types.Type) bool {
		b, ok := t.Underlying().(*types.Basic)
		return ok && b.Info()&types.IsString != 0
	}
	isInt := func(t types.Type) bool {
		b, ok := t.Underlying().(*types.Basic)
		return ok && b.Info()&types.IsInteger != 0
	}
	return isStr(p.At(1).Type()) && isStr(p.At(2).Type()) && isInt(p.At(3).Type())
}

// c13Recv returns "alias.(*T)" for a method "alias.(*T).M".
func c13Recv(f *ssa.Function) string {
	n := eng.FuncName(f)
	return strings.TrimSuffix(n, "."+f.Name())
}

func runC13(c *eng.Ctx, thorough bool) {
	// ---------- C13.2 layer transparency: family enumeration
	var typs []string
	byType := map[string]map[string]*ssa.Function{}
	for _, f := range c.P.Funcs {
		if f.Parent() != nil || f.Synthetic != "" || !c13IsStorageListPage(f) {
			continue
		}
		if strings.HasSuffix(eng.PkgPathOf(f), "/plugin/pb") { // generated protobuf stubs
			continue
		}
		t := c13Recv(f)
		if byType[t] != nil {
			continue
		}
		byType[t] = map[string]*ssa.Function{}
		typs = append(typs, t)
	}
	// also the layers that only override the writes (key-encoding check, cache transaction)
	for _, t := range []string{"physical.(*storageEncoding)", "physical.(*cacheTransaction)"} {
		if byType[t] == nil {
			byType[t] = map[string]*ssa.Function{}
			typs = append(typs, t)
		}
	}
	sort.Strings(typs)
	for _, f := range c.P.Funcs {
		if f.Parent() != nil || f.Synthetic != "" || f.Signature.Recv() == nil {
			continue
		}
		if ms := byType[c13Recv(f)]; ms != nil {
			for _, m := range c13Ops {
				if f.Name() == m {
					ms[m] = f
				}
			}
		}
	}
	for _, t := range []string{"physical.(*storageEncoding)", "physical.(*cacheTransaction)"} {
		if len(byType[t]) == 0 {
			c.Clause("R8", "C13.2")
			c.Unresolved(t + ".Put")
		}
	}
	c.Clause("R8", "C13.2")
	c.Floor(nil, "storage-shaped types", len(typs), 25)
	c.Notes = append(c.Notes, fmt.Sprintf("storage-shaped types discovered by signature: %d: %s", len(typs), strings.Join(typs, ", ")))

	// exceptions, one named symbol each
	errInReply := map[string]string{
		"sdkplugin.(*GRPCStorageServer)": "the plugin GRPC server reports the delegated operation's error inside the reply message (pb.ErrToString), its Go error result is always nil",
	}
	nDeleg := 0
	delegates := map[string]map[string][]c13Delegate{}
	for _, t := range typs {
		for _, m := range c13Ops {
			f := byType[t][m]
			if f == nil {
				continue
			}
			name := regexp.MustCompile(`\.` + m + `$`)
			var deleg []ssa.CallInstruction
			for _, cl := range eng.Calls(f, `\.`+m+`$`) {
				if _, isDefer := cl.(*ssa.Defer); isDefer {
					continue
				}
				cc := cl.Common()
				if !name.MatchString(eng.CalleeName(cc)) {
					continue
				}
				// same storage shape: (ctx, string|entry, ...) with the same number of operands
				n := len(cc.Args)
				if !cc.IsInvoke() {
					n-- // receiver
				}
				if n != len(f.Params)-1 {
					continue
				}
				deleg = append(deleg, cl)
			}
			if len(deleg) == 0 {
				if m == "List" {
					// List by delegation to ListPage?
					lps := eng.Calls(f, `\.ListPage$`)
					if len(lps) > 0 {
						nDeleg++
						for _, l := range lps {
							a := l.Common().Args
							after, limit := eng.Expr(a[len(a)-2]), eng.Expr(a[len(a)-1])
							c.Clause("R12", "C13.2")
							if after == `""` && limit == "-1" {
								c.OK(f, `List(p) = ListPage(p, "", -1)`, l.Pos(), "delegation with the neutral pagination arguments")
							} else {
								c.Violation(f, `List(p) = ListPage(p, "", -1)`, l.Pos(), "List delegates to ListPage with after="+after+" limit="+limit+": the full listing would be a slice", nil)
							}
							c.Clause("R5", "C13.2")
							c.Prov(f, "prefix handed on by List", l, a[len(a)-3], `^param:prefix$`)
						}
						continue
					}
				}
				c.Notes = append(c.Notes, "own implementation (not a delegating layer operation): "+eng.FuncName(f))
				continue
			}
			nDeleg++
			c13Delegating(c, t, m, f, deleg, errInReply[t] != "")
			if delegates[t] == nil {
				delegates[t] = map[string][]c13Delegate{}
			}
			for _, cl := range deleg {
				delegates[t][m] = append(delegates[t][m], c13Delegate{f, cl, c13DelegateOf(cl)})
			}
		}
	}
	c13SiblingDelegates(c, typs, delegates)
	for k, v := range errInReply {
		c.Exception(k, v)
	}
	c.Clause("R8", "C13.2")
	c.Floor(nil, "delegating layer operations", nDeleg, 70)

	c13Cache(c)
	cacheLockOwner(c, "C13.5")
	cacheLruUnderKeyLock(c, "C13.5") // shared with C08.5 (props/c08g2.go)
	raftListRecordsKept(c, "C13.2")  // shared with C08.2 (props/c08g2.go): listings inside a raft transaction
	c13Seek(c)
	c13SlicePagination(c)
	c13Views(c)
	c13Scan(c)
	runC13Gaps2(c)
}

// c13Delegating checks one operation f = T.m that calls the same-named
// operation of a wrapped store.
func c13Delegating(c *eng.Ctx, t, m string, f *ssa.Function, deleg []ssa.CallInstruction, errInReply bool) {
	params := f.Params[1:] // without receiver
	keyAllowed := []string{`^param:`, `^field:[A-Za-z]+\.[A-Za-z]+$`, `^call:` + reQuote(t) + `\.`,
		`^call:.*\.(ExpandKey|expandKey|encryptPath|ensureTailingSlash|sanitizePath)$`,
		// the same key transforms called through a method value bound earlier (expand := s.ExpandKey; expand(k))
		`^call:closure:` + reQuote(t) + `\.[A-Za-z]+\$bound$`,
		`^call:closure:.*\.(ExpandKey|expandKey|encryptPath|ensureTailingSlash|sanitizePath)\$bound$`}

	for _, cl := range deleg {
		cc := cl.Common()
		args := cc.Args
		if !cc.IsInvoke() {
			args = args[1:]
		}
		// args[0] is ctx
		for i := 1; i < len(args) && i < len(params); i++ {
			pn := eng.VarName(params[i])
			c.Clause("R5", "C13.2")
			switch {
			case m == "ListPage" && i >= 2:
				// after / limit unchanged
				c.Prov(f, m+" '"+pn+"' handed on unchanged", cl, args[i], `^param:`+reQuote(pn)+`$`, `^field:[a-z]+\.(After|Limit)$`)
			case m == "Put":
				c13PutEntry(c, f, cl, args[i], params[i], keyAllowed)
			default:
				c.Prov(f, m+" key handed on", cl, args[i], keyAllowed...)
				// the key must be built from the caller's key
				if !c13MentionsParam(args[i], params[i]) {
					c.Violation(f, m+" key derives from the caller's key", cl.Pos(), "the key handed to the wrapped "+m+" is not derived from the operation's parameter "+pn, nil)
				} else {
					c.OK(f, m+" key derives from the caller's key", cl.Pos(), eng.Expr(args[i]))
				}
			}
		}
	}

	// success only across the delegated operation's success
	idx := f.Signature.Results().Len() - 1
	succ := eng.SuccessReturns(f, idx)
	var okEdges []eng.Edge
	callVals := map[ssa.Value]bool{}
	for _, cl := range deleg {
		okEdges = append(okEdges, eng.CallOKEdges(cl)...)
		if v, ok := cl.(ssa.Value); ok {
			callVals[v] = true
		}
	}
	fromCall := func(v ssa.Value) bool {
		for _, o := range eng.Origins(v) {
			if callVals[o.Val] {
				return true
			}
			if ex, ok := o.Val.(*ssa.Extract); ok && callVals[ex.Tuple] {
				return true
			}
		}
		return false
	}
	if !errInReply {
		c.Clause("R2", "C13.2")
		var own []ssa.Instruction
		for _, r := range succ {
			ret := r.(*ssa.Return)
			vals, _, _ := eng.ReturnVals(ret, idx)
			fwd := len(vals) > 0
			for _, v := range vals {
				if v == nil || !fromCall(v) {
					fwd = false
				}
			}
			if !fwd {
				own = append(own, r)
			}
		}
		site := m + " succeeds only if the wrapped " + m + " did"
		if len(own) == 0 {
			c.OK(f, site, deleg[0].Pos(), "the error returned is the wrapped operation's")
		} else {
			blocked := append([]eng.Edge{}, okEdges...)
			if m == "Get" {
				// a layer's own cache may answer reads
				blocked = append(blocked, eng.CondEdges(f, `TwoQueueCache\[.*\]\)\.Get\(\)#1$`, true)...)
			}
			if h := eng.Reach(eng.Query{Fn: f, Blocked: blocked, Target: eng.IsTarget(own)}); h != nil {
				c.Violation(f, site, h.Instr.Pos(), "the layer can report success of "+m+" without the wrapped operation having succeeded", h.Witness)
			} else {
				c.OK(f, site, deleg[0].Pos(), "success is reachable only across the wrapped operation's success edge")
			}
		}
	}

	// reads: what is returned is what the wrapped operation returned
	if m == "Get" || m == "List" || m == "ListPage" {
		c.Clause("R5", "C13.2")
		for _, r := range eng.NonNilResultReturns(f, 0) {
			ret := r.(*ssa.Return)
			vals, _, _ := eng.ReturnVals(ret, 0)
			for _, v := range vals {
				if v == nil || eng.IsNilConst(v) {
					continue
				}
				site := m + " result is the wrapped result"
				if c13ResultFrom(v, callVals, m) {
					c.OK(f, site, ret.Pos(), eng.Expr(v))
				} else {
					c.Violation(f, site, ret.Pos(), "the value returned by "+m+" ("+eng.Expr(v)+") is not (built from) the wrapped operation's result", nil)
				}
			}
		}
	}
}

// c13MentionsParam: v is computed from the parameter p (p itself, a field of
// it, a call taking it).
func c13MentionsParam(v ssa.Value, p *ssa.Parameter) bool {
	seen := map[ssa.Value]bool{}
	var uses func(v ssa.Value, d int) bool
	uses = func(v ssa.Value, d int) bool {
		if v == nil || seen[v] || d > 12 {
			return false
		}
		seen[v] = true
		if v == ssa.Value(p) {
			return true
		}
		if a, ok := v.(*ssa.Alloc); ok {
			if refs := a.Referrers(); refs != nil {
				for _, r := range *refs {
					if st, ok := r.(*ssa.Store); ok && st.Addr == a && uses(st.Val, d+1) {
						return true
					}
				}
			}
			return false
		}
		if in, ok := v.(ssa.Instruction); ok {
			for _, op := range in.Operands(nil) {
				if *op != nil && uses(*op, d+1) {
					return true
				}
			}
		}
		return false
	}
	return uses(v, 0)
}

// c13PutEntry: the entry handed to the wrapped Put is the caller's entry or a
// literal built from its key (possibly transformed by the layer) and its value.
func c13PutEntry(c *eng.Ctx, f *ssa.Function, cl ssa.CallInstruction, arg ssa.Value, p *ssa.Parameter, keyAllowed []string) {
	if arg == ssa.Value(p) {
		c.OK(f, "Put entry handed on", cl.Pos(), "the caller's entry")
		return
	}
	ks := eng.StructLitField(arg, "Key")
	vs := eng.StructLitField(arg, "Value")
	// e := &T{}; *e = *entry; e.Key = transformed
	if al, ok := arg.(*ssa.Alloc); ok && len(vs) == 0 {
		copied := false
		if refs := al.Referrers(); refs != nil {
			for _, r := range *refs {
				if st, ok := r.(*ssa.Store); ok && st.Addr == al {
					if ld, ok := st.Val.(*ssa.UnOp); ok && ld.Op == token.MUL && ld.X == ssa.Value(p) {
						copied = true
					}
				}
			}
		}
		if copied {
			c.OK(f, "Put entry handed on", cl.Pos(), "a copy of the caller's entry")
			for _, k := range ks {
				c.Prov(f, "Put key handed on", cl, k, keyAllowed...)
				if !c13MentionsParam(k, p) {
					c.Violation(f, "Put key derives from the caller's entry", cl.Pos(), "the key of the entry handed on is not derived from the caller's entry", nil)
				} else {
					c.OK(f, "Put key derives from the caller's entry", cl.Pos(), eng.Expr(k))
				}
			}
			return
		}
	}
	if len(ks) == 0 || len(vs) == 0 {
		ok, bad, all := eng.OriginsMatch(arg, `^param:`+reQuote(eng.VarName(p))+`$`, `^field:[a-z]+\.Entry$`)
		if ok {
			c.OK(f, "Put entry handed on", cl.Pos(), fmt.Sprint(all))
		} else {
			c.Violation(f, "Put entry handed on", cl.Pos(), "the entry handed to the wrapped Put is neither the caller's entry nor a literal built from it (origin "+bad+")", nil)
		}
		return
	}
	for _, k := range ks {
		c.Prov(f, "Put key handed on", cl, k, keyAllowed...)
		if !c13MentionsParam(k, p) {
			c.Violation(f, "Put key derives from the caller's entry", cl.Pos(), "the key of the entry handed on is not derived from the caller's entry", nil)
		} else {
			c.OK(f, "Put key derives from the caller's entry", cl.Pos(), eng.Expr(k))
		}
	}
	for _, v := range vs {
		if c13MentionsParam(v, p) {
			c.OK(f, "Put value handed on", cl.Pos(), eng.Expr(v))
		} else {
			c.Violation(f, "Put value handed on", cl.Pos(), "the value of the entry handed on ("+eng.Expr(v)+") is not the caller's value", nil)
		}
	}
}

// c13ResultFrom: v is the delegated call's result, the layer's own cache hit,
// or a literal/copy whose content is read out of the delegated call's result.
func c13ResultFrom(v ssa.Value, callVals map[ssa.Value]bool, m string) bool {
	seen := map[ssa.Value]bool{}
	var from func(v ssa.Value, d int) bool
	from = func(v ssa.Value, d int) bool {
		if v == nil || seen[v] || d > 14 {
			return false
		}
		seen[v] = true
		if callVals[v] {
			return true
		}
		switch x := v.(type) {
		case *ssa.Extract:
			if callVals[x.Tuple] {
				return true
			}
			if cl, ok := x.Tuple.(*ssa.Call); ok && m == "Get" {
				n := eng.CalleeName(&cl.Call)
				if strings.Contains(n, "TwoQueueCache[") && strings.HasSuffix(n, ".Get") {
					return true
				}
			}
			return false
		case *ssa.Alloc:
			for _, fld := range []string{"Value", "Keys"} {
				for _, fv := range eng.StructLitField(x, fld) {
					if from(fv, d+1) {
						return true
					}
				}
			}
			if refs := x.Referrers(); refs != nil {
				for _, r := range *refs {
					if st, ok := r.(*ssa.Store); ok && st.Addr == x && from(st.Val, d+1) {
						return true
					}
				}
			}
			return false
		case *ssa.Phi:
			any := false
			for _, e := range x.Edges {
				if eng.IsNilConst(e) || e == v {
					continue
				}
				if !from(e, d+1) {
					return false
				}
				any = true
			}
			return any
		case *ssa.Call:
			return false
		}
		if in, ok := v.(ssa.Instruction); ok {
			for _, op := range in.Operands(nil) {
				if *op != nil && from(*op, d+1) {
					return true
				}
			}
		}
		return false
	}
	return from(v, 0)
}

// ---------- C13.5 read cache
func c13Cache(c *eng.Ctx) {
	lruMut := `TwoQueueCache\[.*\]\)\.(Add|Remove)$`
	for _, t := range []string{"physical.(*cache)", "physical.(*cacheTransaction)"} {
		for _, m := range []string{"Get", "Put", "Delete"} {
			f := c.P.Func(t + "." + m)
			if f == nil || f.Synthetic != "" {
				if t == "physical.(*cache)" || m != "Get" {
					c.Clause("R2", "C13.5")
					c.Unresolved(t + "." + m)
				}
				continue
			}
			muts := instrsOf(eng.Calls(f, lruMut))
			c.Clause("R2", "C13.5")
			if !c.Floor(f, "cache mutations in "+m, len(muts), 1) {
				continue
			}
			c.Cut(f, "cache mutation in "+m, muts, eng.GCallOK(f, `^<physical\.(Backend|Transaction)>\.`+m+`$`), nil)
			c.Clause("R9", "C13.5")
			held := eng.MustHold(f, eng.LockCall(`LockForKey`, "Lock", "RLock"), eng.LockCall(`LockForKey`, "Unlock", "RUnlock"))
			for _, mu := range muts {
				if held(mu) {
					c.OK(f, "locked{cache mutation}", mu.Pos(), "per-key lock held")
				} else {
					c.Violation(f, "locked{cache mutation}", mu.Pos(), "the cache is modified without the per-key lock", nil)
				}
			}
			c.Clause("R5", "C13.5")
			want := "key"
			if m == "Put" {
				want = "entry.Key"
			}
			for _, mu := range muts {
				a := mu.(ssa.CallInstruction).Common().Args
				got := eng.Expr(a[1])
				if got == want {
					c.OK(f, "cache entry filed under the operation's key", mu.Pos(), got)
				} else {
					c.Violation(f, "cache entry filed under the operation's key", mu.Pos(), "cache entry filed under "+got+" instead of "+want, nil)
				}
			}
			for _, lk := range eng.Calls(f, `locksutil\.LockForKey$`) {
				got := eng.Expr(lk.Common().Args[1])
				if got == want {
					c.OK(f, "per-key lock taken for the operation's key", lk.Pos(), got)
				} else {
					c.Violation(f, "per-key lock taken for the operation's key", lk.Pos(), "lock taken for "+got+" instead of "+want, nil)
				}
			}
			if m == "Get" {
				for _, g := range eng.Calls(f, `TwoQueueCache\[.*\]\)\.Get$`) {
					got := eng.Expr(g.Common().Args[1])
					if got == want {
						c.OK(f, "cache looked up under the operation's key", g.Pos(), got)
					} else {
						c.Violation(f, "cache looked up under the operation's key", g.Pos(), "cache looked up under "+got, nil)
					}
				}
			}
			if m == "Put" {
				// what is cached is a copy of what was written
				for _, mu := range muts {
					cm := mu.(ssa.CallInstruction)
					if !strings.HasSuffix(eng.CalleeName(cm.Common()), ".Add") {
						continue
					}
					ent := cm.Common().Args[2]
					vs := eng.StructLitField(ent, "Key")
					if len(vs) == 0 {
						c.Violation(f, "cached entry built from the written entry", mu.Pos(), "the cached entry is not a literal carrying the written entry's key", nil)
					}
					for _, v := range vs {
						if eng.Expr(v) == "entry.Key" {
							c.OK(f, "cached entry built from the written entry", mu.Pos(), "Key")
						} else {
							c.Violation(f, "cached entry built from the written entry", mu.Pos(), "cached Key = "+eng.Expr(v), nil)
						}
					}
					okCopy := false
					for _, cp := range eng.Calls(f, `^copy$`) {
						if eng.Expr(cp.Common().Args[1]) == "entry.Value" {
							okCopy = true
						}
					}
					if okCopy {
						c.OK(f, "cached value copied from the written value", mu.Pos(), "copy(_, entry.Value)")
					} else {
						c.Violation(f, "cached value copied from the written value", mu.Pos(), "no copy of entry.Value into the cached entry", nil)
					}
				}
			}
			if t == "physical.(*cacheTransaction)" {
				// the write is remembered for the parent's invalidation, on the success edge
				var upd []ssa.Instruction
				for _, in := range eng.Instrs(f, func(in ssa.Instruction) bool { _, ok := in.(*ssa.MapUpdate); return ok }) {
					mu := in.(*ssa.MapUpdate)
					if strings.HasSuffix(eng.Expr(mu.Map), ".modified") {
						upd = append(upd, in)
						if eng.Expr(mu.Key) != want {
							c.Violation(f, "modified set records the operation's key", in.Pos(), "records "+eng.Expr(mu.Key), nil)
						} else {
							c.OK(f, "modified set records the operation's key", in.Pos(), want)
						}
					}
				}
				c.Clause("R4", "C13.5")
				if c.Floor(f, "modified-set update in "+m, len(upd), 1) {
					for _, cl := range eng.Calls(f, `^<physical\.(Backend|Transaction)>\.`+m+`$`) {
						if !held(cl) {
							continue // uncached pass-through (ShouldCache false)
						}
						c.CleanupOnEdges(f, "wrapped "+m+" succeeded", eng.CallOKEdges(cl), "remember the key for the parent cache", upd)
					}
				}
			}
		}
	}
	if f := c.Fn("physical.(*cacheTransaction).Commit"); f != nil {
		c.Clause("R2", "C13.5")
		// the invalidation literal: whichever function literal of Commit removes from an LRU (selected by
		// what it does, not by its ordinal name), and the calls that enter it
		var invalFns []*ssa.Function
		for _, clo := range eng.Closures(f) {
			if len(eng.Calls(clo, `TwoQueueCache\[.*\]\)\.Remove$`)) > 0 {
				invalFns = append(invalFns, clo)
			}
		}
		var inval []ssa.Instruction
		for _, ci := range nfAllCalls(f) {
			if g, _ := nfFuncValue(ci.Common().Value); g != nil {
				for _, h := range invalFns {
					if g == h {
						inval = append(inval, ci)
					}
				}
			}
		}
		if c.Floor(f, "parent invalidation", len(inval), 1) {
			// after the wrapped commit succeeded: the call itself, or a literal / helper that forwards its verdict
			okCommit := eng.Guard{Desc: "success edge of ^<physical\\.Transaction>\\.Commit$"}
			for _, st := range nfMust(f, nil, func(nc nfCall, _ *nfFrame) bool { return nc.Name == "<physical.Transaction>.Commit" }, 1) {
				if cl, isCall := st.At.(ssa.CallInstruction); isCall && st.Fwd {
					okCommit.Edges = append(okCommit.Edges, eng.CallOKEdges(cl)...)
				}
			}
			c.Cut(f, "parent cache invalidation", inval, okCommit, nil)
			c.Clause("R5", "C13.5")
			for _, iv := range inval {
				// one invalidation per key remembered by Put/Delete
				s := ""
				if mc, ok := iv.(ssa.CallInstruction).Common().Value.(*ssa.MakeClosure); ok {
					for _, b := range mc.Bindings {
						for _, o := range eng.Origins(b) {
							s += eng.ExprDeep(o.Val) + ";"
						}
					}
				}
				for _, a := range iv.(ssa.CallInstruction).Common().Args {
					s += eng.ExprDeep(a) + ";"
				}
				if strings.Contains(s, "range(c.modified)") {
					c.OK(f, "every remembered key is invalidated", iv.Pos(), s)
				} else {
					c.Violation(f, "every remembered key is invalidated", iv.Pos(), "the invalidation does not range over the modified set: "+s, nil)
				}
			}
		}
		for _, g := range invalFns {
			c.Clause("R5", "C13.5")
			rm := eng.Calls(g, `TwoQueueCache\[.*\]\)\.Remove$`)
			if c.Floor(g, "parent lru Remove", len(rm), 1) {
				for _, r := range rm {
					c.Prov(g, "key invalidated in the parent", r, r.Common().Args[1], `^param:key$`, `^freevar:key$`)
				}
			}
		}
	}
	if f := c.Fn("physical.(*cache).Invalidate"); f != nil {
		c.Clause("R5", "C13.5")
		rm := eng.Calls(f, `TwoQueueCache\[.*\]\)\.Remove$`)
		if c.Floor(f, "lru Remove", len(rm), 1) {
			for _, r := range rm {
				c.Prov(f, "key invalidated", r, r.Common().Args[1], `^param:key$`)
			}
		}
	}
}

// ---------- C13.3 paginated seek guard, sibling agreement
func c13FromJoin(v ssa.Value) (any, all bool) {
	all = true
	for _, o := range eng.Origins(v) {
		if o.Kind == "call" && strings.HasSuffix(o.Desc, "path/filepath.Join") {
			any = true
		} else {
			all = false
		}
	}
	return any, any && all
}

func c13Seek(c *eng.Ctx) {
	nSeek := 0
	for _, f := range c.P.Funcs {
		if !eng.InPkg(f, "raft") {
			continue
		}
		for _, sk := range eng.Calls(f, `bbolt\.Cursor\)\.Seek$`) {
			pos := sk.Common().Args[1]
			any, all := c13FromJoin(pos)
			if !any {
				// the other shape of a paginated seek: the plain concatenation prefix + after, which
				// starts with the prefix by construction (no guard needed); see c13gSeekNotCleaned
				if c13gSeekConcat(pos) {
					nSeek++
					c.Clause("R8", "C13.3")
					c.OK(f, "paginated seek stays within the prefix", sk.Pos(), "position = prefix + after")
				}
				continue
			}
			nSeek++
			c.Clause("R8", "C13.3")
			if all {
				c.Violation(f, "paginated seek stays within the prefix", sk.Pos(), "the cursor seeks to filepath.Join(prefix, after) unconditionally: for after = \".\", \"..\" or \"../x\" the cleaned path leaves the prefix and the listing differs from the plain one", nil)
				continue
			}
			// edges on which the position variable takes the joined value
			var joinEdges []eng.Edge
			for _, b := range f.Blocks {
				for _, in := range b.Instrs {
					phi, ok := in.(*ssa.Phi)
					if !ok {
						continue
					}
					if !c13Feeds(pos, phi) {
						continue
					}
					for i, e := range phi.Edges {
						if _, isPhi := e.(*ssa.Phi); isPhi {
							continue
						}
						if a, _ := c13FromJoin(e); a {
							pred := phi.Block().Preds[i]
							for si, s := range pred.Succs {
								if s == phi.Block() {
									joinEdges = append(joinEdges, eng.Edge{From: pred, Succ: si})
								}
							}
						}
					}
				}
			}
			if len(joinEdges) == 0 {
				c.Undecided(f, "paginated seek stays within the prefix", sk.Pos(), "the seek position derives from filepath.Join but the assignment that selects it was not found")
				continue
			}
			c.CutEdges(f, "seek position := filepath.Join(prefix, after) [after non-empty]", joinEdges, eng.G(f, `^after == ""$`, false))
			c.CutEdges(f, "seek position := filepath.Join(prefix, after) [still under the prefix]", joinEdges, eng.G(f, `^bytes\.HasPrefix\(\)$`, true))
			c.Clause("R5", "C13.3")
			c.Prov(f, "cursor seek position", sk, pos, `^call:path/filepath\.Join$`, `^param:prefix$`)
			for _, o := range eng.Origins(pos) {
				if cl, ok := o.Val.(*ssa.Call); ok && strings.HasSuffix(o.Desc, "path/filepath.Join") {
					s := eng.ExprDeep(cl)
					if strings.Contains(s, "prefix") && strings.Contains(s, "after") {
						c.OK(f, "seek path joins prefix and after", cl.Pos(), s)
					} else {
						c.Violation(f, "seek path joins prefix and after", cl.Pos(), "joined path is "+s, nil)
					}
				}
			}
			// the HasPrefix test that guards the seek compares the joined path with the prefix
			okHP := false
			for _, hp := range eng.Calls(f, `^bytes\.HasPrefix$`) {
				a := hp.Common().Args
				if j, _ := c13FromJoin(a[0]); j {
					if ok, _, _ := eng.OriginsMatch(a[1], `^param:prefix$`); ok {
						okHP = true
					}
				}
			}
			if okHP {
				c.OK(f, "guard compares the joined path with the prefix", sk.Pos(), "bytes.HasPrefix(Join(prefix, after), prefix)")
			} else {
				c.Violation(f, "guard compares the joined path with the prefix", sk.Pos(), "no bytes.HasPrefix(joined, prefix) test in the function", nil)
			}
		}
	}
	c.Clause("R8", "C13.3")
	c.Floor(nil, "paginated cursor seeks", nSeek, 2)

	for _, fn := range []string{"raft.listPageInner", "raft.(*RaftTransaction).ListPage"} {
		f := c.Fn(fn)
		if f == nil {
			continue
		}
		c.Clause("R2", "C13.3")
		next := instrsOf(eng.Calls(f, `bbolt\.Cursor\)\.Next$`))
		if c.Floor(f, "cursor Next", len(next), 1) {
			c.Cut(f, "advance the cursor", next, eng.G(f, `^bytes\.HasPrefix\(\)$`, true), nil)
		}
		c.Clause("R5", "C13.3")
		n := 0
		for _, hp := range eng.Calls(f, `^bytes\.HasPrefix$`) {
			a := hp.Common().Args
			n++
			c.Prov(f, "prefix the keys are compared with", hp, a[1], `^param:prefix$`)
		}
		c.Floor(f, "HasPrefix comparisons", n, 1)
	}
	// the page is full when the number of entries that will be RETURNED reaches the limit (not some other
	// count, e.g. the keys present in storage): sibling agreement of the early exit — seed C13-b
	for _, fn := range []string{"raft.listPageInner", "raft.(*RaftTransaction).ListPage"} {
		f := c.Fn(fn)
		if f == nil {
			continue
		}
		c.Clause("R8", "C13.3")
		// what is returned on success
		retName := map[string]bool{}
		for _, r := range eng.SuccessReturns(f, 1) {
			vals, _, _ := eng.ReturnVals(r.(*ssa.Return), 0)
			for _, v := range vals {
				for _, root := range eng.Roots(v, nil) {
					if n := eng.VarName(root); n != "" {
						retName[n] = true
					}
				}
				if n := eng.VarName(v); n != "" {
					retName[n] = true
				}
			}
		}
		site := "page is full when the returned entries reach the limit"
		n := 0
		for _, e := range eng.CondEdges(f, `^len\(.*\) < limit$`, false) {
			iff := eng.IfOf(e.From)
			bo, ok := iff.Cond.(*ssa.BinOp)
			if !ok {
				continue
			}
			var lenArg ssa.Value
			for _, side := range []ssa.Value{bo.X, bo.Y} {
				if cl, ok := side.(*ssa.Call); ok && eng.CalleeName(&cl.Call) == "len" {
					lenArg = cl.Call.Args[0]
				}
			}
			if lenArg == nil {
				continue
			}
			// only the exit test inside the scan loop (the one that leads to an exit while the cursor is still valid)
			counted := eng.VarName(lenArg)
			if counted == "" {
				for _, root := range eng.Roots(lenArg, nil) {
					if nm := eng.VarName(root); nm != "" {
						counted = nm
					}
				}
			}
			n++
			if retName[counted] {
				c.OK(f, site, iff.Cond.Pos(), "len("+counted+") >= limit, and "+counted+" is what is returned")
			} else {
				c.Violation(f, site, iff.Cond.Pos(), "the page-full test counts "+eng.Expr(lenArg)+", which is not the list that is returned: pages come back short (or long) and the paginated listing is no longer a slice of the full one", nil)
			}
		}
		c.Floor(f, "page-full tests", n, 1)
	}
	if f := c.Fn("raft.(*FSM).ListPage$1"); f != nil {
		c.Clause("R5", "C13.3")
		lp := eng.Calls(f, `raft\.listPageInner$`)
		if c.Floor(f, "listPageInner call", len(lp), 1) {
			a := lp[0].Common().Args
			for i, nm := range []string{"prefix", "after", "limit"} {
				c.Prov(f, "listPageInner "+nm, lp[0], a[len(a)-3+i], `^freevar:`+nm+`$`)
			}
		}
	}
	nv := 0
	for _, f := range c.P.Funcs {
		if !eng.InPkg(f, "raft") || !strings.Contains(eng.FuncName(f), "erif") {
			continue
		}
		for range eng.Calls(f, `raft\.listPageInner$`) {
			nv++
			c.Clause("R8", "C13.3")
			c.OK(f, "list verification replays the plain listing", f.Pos(), "calls listPageInner")
		}
	}
	c.Clause("R8", "C13.3")
	c.Floor(nil, "list verification through listPageInner", nv, 1)
}

// c13Feeds: phi is on the value path (phi/convert/slice) to v.
func c13Feeds(v ssa.Value, phi *ssa.Phi) bool {
	seen := map[ssa.Value]bool{}
	var feeds func(v ssa.Value, d int) bool
	feeds = func(v ssa.Value, d int) bool {
		if v == nil || seen[v] || d > 8 {
			return false
		}
		seen[v] = true
		if v == ssa.Value(phi) {
			return true
		}
		switch x := v.(type) {
		case *ssa.Phi:
			for _, e := range x.Edges {
				if feeds(e, d+1) {
					return true
				}
			}
		case *ssa.Convert:
			return feeds(x.X, d+1)
		case *ssa.ChangeType:
			return feeds(x.X, d+1)
		case *ssa.Slice:
			return feeds(x.X, d+1)
		}
		return false
	}
	return feeds(v, 0)
}

// ---------- C13.3b paginate-by-slicing siblings
func c13SlicePagination(c *eng.Ctx) {
	n := 0
	for _, f := range c.P.Funcs {
		if f.Parent() != nil || f.Synthetic != "" || !c13IsStorageListPage(f) {
			continue
		}
		ss := eng.Calls(f, `^sort\.SearchStrings$`)
		if len(ss) == 0 {
			continue
		}
		n++
		c.Clause("R8", "C13.3")
		for _, s := range ss {
			c.Prov(f, "search key of the page start", s, s.Common().Args[1], `^param:after$`)
		}
		eq := eng.CondEdges(f, `\[.*sort\.SearchStrings\(\).*\] == after$`, true)
		if len(eq) == 0 {
			c.Violation(f, "page starts after the element equal to 'after'", ss[0].Pos(), "no test 'keys[idx] == after' follows the search: the page would include 'after' itself", nil)
		} else {
			found := false
			for _, in := range eng.Instrs(f, func(in ssa.Instruction) bool { b, ok := in.(*ssa.BinOp); return ok && b.Op == token.ADD }) {
				b := in.(*ssa.BinOp)
				if strings.Contains(eng.Expr(b.X), "sort.SearchStrings()") && eng.Expr(b.Y) == "1" {
					found = true
				}
			}
			if found {
				c.OK(f, "page starts after the element equal to 'after'", ss[0].Pos(), "keys[idx] == after ⇒ idx+1")
			} else {
				c.Violation(f, "page starts after the element equal to 'after'", ss[0].Pos(), "the index is not advanced past the element equal to 'after'", nil)
			}
		}
		c.Clause("R2", "C13.3")
		var cuts []ssa.Instruction
		for _, in := range eng.Instrs(f, func(in ssa.Instruction) bool {
			sl, ok := in.(*ssa.Slice)
			return ok && sl.High != nil
		}) {
			sl := in.(*ssa.Slice)
			for _, o := range eng.Origins(sl.High) {
				if o.Kind == "param" && o.Desc == "limit" {
					cuts = append(cuts, in)
					break
				}
			}
		}
		if c.Floor(f, "truncation to limit", len(cuts), 1) {
			c.Cut(f, "truncate the page to limit", cuts, eng.G(f, `^0 < limit$`, true), nil)
		}
	}
	c.Clause("R8", "C13.3")
	c.Floor(nil, "paginate-by-slicing implementations", n, 2)
}

// ---------- C13.1 keys returned through a view are relative to it
func c13Views(c *eng.Ctx) {
	for _, v := range []struct{ fn, trunc string }{
		{"logical.(*storageView).Get", "logical.(*storageView).TruncateKey"},
		{"physical.(*View).Get", "physical.(*View).truncateKey"},
	} {
		f := c.Fn(v.fn)
		if f == nil {
			continue
		}
		truncRe := regexp.MustCompile(reQuote(v.trunc) + `\(\)$`)
		c.Clause("R5", "C13.1")
		n := 0
		for _, r := range eng.NonNilResultReturns(f, 0) {
			ret := r.(*ssa.Return)
			vals, _, _ := eng.ReturnVals(ret, 0)
			for _, rv := range vals {
				if rv == nil || eng.IsNilConst(rv) {
					continue
				}
				for _, kv := range eng.StructLitField(rv, "Key") {
					n++
					okT := truncRe.MatchString(eng.Expr(kv))
					var stores []string
					if ld, ok := kv.(*ssa.UnOp); ok && !okT {
						if fa, ok := ld.X.(*ssa.FieldAddr); ok {
							if refs := fa.X.Referrers(); refs != nil {
								for _, rr := range *refs {
									fa2, ok := rr.(*ssa.FieldAddr)
									if !ok || fa2.Field != fa.Field {
										continue
									}
									if fr := fa2.Referrers(); fr != nil {
										for _, s := range *fr {
											if st, ok := s.(*ssa.Store); ok && st.Addr == fa2 {
												stores = append(stores, eng.Expr(st.Val))
												// the store must precede the read on every path: same block, earlier, or dominating
												if truncRe.MatchString(eng.Expr(st.Val)) && dominatedInstr(f, st, []ssa.Instruction{ld}) {
													okT = true
												}
											}
										}
									}
								}
							}
						}
					}
					if okT {
						c.OK(f, "key returned through the view is truncated", ret.Pos(), eng.Expr(kv))
					} else {
						c.Violation(f, "key returned through the view is truncated", ret.Pos(), "the entry returned carries "+eng.Expr(kv)+" (stores: "+strings.Join(stores, ",")+"), not the key relative to the view", nil)
					}
				}
			}
		}
		c.Floor(f, "returned entry literal", n, 1)
		if tf := c.Fn(v.trunc); tf != nil {
			for _, r := range eng.Returns(tf) {
				s := eng.ExprDeep(r.Results[0])
				if regexp.MustCompile(`^strings\.TrimPrefix\(full, [a-z]\.prefix\)$`).MatchString(s) {
					c.OK(tf, "truncate = strip the view prefix", r.Pos(), s)
				} else {
					c.Violation(tf, "truncate = strip the view prefix", r.Pos(), "truncate returns "+s, nil)
				}
			}
		}
	}
}

// ---------- C13.4 scan / clear helpers
func c13Scan(c *eng.Ctx) {
	if f := c.Fn("logical.scanViewPaginated"); f != nil {
		// the listing calls: view.ListPage(...) directly or through the method value bound to the view
		lps, lpRecv := c13gMethodCalls(f, "ListPage")
		c.Clause("R5", "C13.4")
		if c.Floor(f, "ListPage in the scan", len(lps), 1) {
			for _, l := range lps {
				a := l.Common().Args
				c.Prov(f, "view scanned", l, lpRecv[l], `^param:view$`)
				c.Prov(f, "page size", l, a[3], `^param:pageSize$`)
				okA := true
				var os []string
				for _, o := range eng.Origins(a[2]) {
					s := o.Kind + ":" + o.Desc
					os = append(os, s)
					if s == `const:""` {
						continue
					}
					if idx, isElem := c13gListedElem(o.Val, lps); isElem && c13gIsLastIndex(idx, lps) {
						continue
					}
					okA = false
				}
				if okA && len(os) == 2 {
					c.OK(f, "next page starts after the last listed element", l.Pos(), strings.Join(os, " | "))
				} else {
					c.Violation(f, "next page starts after the last listed element", l.Pos(), "'after' of the scan's ListPage originates from "+strings.Join(os, " | "), nil)
				}
				d := eng.Expr(a[1])
				if strings.HasPrefix(d, "φfrontier") {
					c.OK(f, "directory listed is taken from the frontier", l.Pos(), "frontier[n-1]")
				} else {
					c.Violation(f, "directory listed is taken from the frontier", l.Pos(), "the scan lists "+d, nil)
				}
			}
		}
		isPath := func(v ssa.Value) bool {
			b, ok := v.(*ssa.BinOp)
			if !ok || b.Op != token.ADD {
				return false
			}
			_, listed := c13gListedElem(b.Y, lps)
			return strings.HasPrefix(eng.Expr(b.X), "φfrontier") && listed
		}
		cbs := eng.Calls(f, `^dyn:cb$`)
		c.Clause("R5", "C13.4")
		if c.Floor(f, "callback invocations", len(cbs), 1) {
			for _, cb := range cbs {
				a := cb.Common().Args
				if isPath(a[len(a)-1]) {
					c.OK(f, "path reported = directory + listed name", cb.Pos(), "current + c")
				} else {
					c.Violation(f, "path reported = directory + listed name", cb.Pos(), "the callback receives "+eng.Expr(a[len(a)-1]), nil)
				}
			}
			c.Clause("R2", "C13.4")
			c.Cut(f, "report an entry", instrsOf(cbs), eng.G(f, `^strings\.HasSuffix\(\)$`, false), nil)
		}
		var pushes []ssa.Instruction
		for _, ap := range eng.Calls(f, `^append$`) {
			if !strings.HasPrefix(eng.Expr(ap.Common().Args[0]), "φfrontier") {
				continue
			}
			pushes = append(pushes, ap)
			okP := false
			if sl, ok := ap.Common().Args[1].(*ssa.Slice); ok {
				if al, ok := sl.X.(*ssa.Alloc); ok {
					if refs := al.Referrers(); refs != nil {
						for _, r := range *refs {
							if ia, ok := r.(*ssa.IndexAddr); ok {
								if ir := ia.Referrers(); ir != nil {
									for _, s := range *ir {
										if st, ok := s.(*ssa.Store); ok && isPath(st.Val) {
											okP = true
										}
									}
								}
							}
						}
					}
				}
			}
			c.Clause("R5", "C13.4")
			if okP {
				c.OK(f, "directory queued = directory + listed name", ap.Pos(), "current + c")
			} else {
				c.Violation(f, "directory queued = directory + listed name", ap.Pos(), "the frontier receives something else than current + c", nil)
			}
		}
		c.Clause("R2", "C13.4")
		if c.Floor(f, "frontier pushes", len(pushes), 1) {
			c.Cut(f, "descend into an entry", pushes, eng.G(f, `^strings\.HasSuffix\(\)$`, true), nil)
		}
		c.Clause("R11", "C13.4")
		for _, l := range lps {
			c.ErrChecked(f, l)
		}
	}
	for _, fn := range []string{"logical.ScanViewPaginated", "logical.ScanViewWithLogger"} {
		if f := c.Fn(fn); f != nil {
			c.Clause("R5", "C13.4")
			calls := eng.Calls(f, `logical\.(s|S)canViewPaginated$`)
			for _, cl := range calls {
				// the view itself, or a read-only transaction begun on it
				c.Prov(f, "view scanned", cl, cl.Common().Args[1], `^param:view$`, `^call:<logical\.Transactional>\.BeginReadOnlyTx#0$`)
			}
			for _, b := range eng.Calls(f, `^<logical\.Transactional>\.BeginReadOnlyTx$`) {
				c.Prov(f, "read transaction begun on the view", b, b.Common().Value, `^param:view$`, `^other:view\.\(logical\.Transactional\)#0$`)
			}
			c.Floor(f, "scanViewPaginated call", len(calls), 1)
		}
	}
	if f := c.Fn("logical.ClearViewWithPagination"); f != nil {
		c.Clause("R5", "C13.4")
		sc := eng.Calls(f, `logical\.ScanViewPaginated$`)
		if c.Floor(f, "scan in clear", len(sc), 1) {
			c.Prov(f, "view scanned by clear", sc[0], sc[0].Common().Args[1], `^param:view$`)
		}
		if g := c.Fn("logical.ClearViewWithPagination$1"); g != nil {
			ds := eng.Calls(g, `^<logical\.ClearableView>\.Delete$`)
			if c.Floor(g, "Delete in clear callback", len(ds), 1) {
				for _, d := range ds {
					c.Prov(g, "view cleared", d, d.Common().Value, `^freevar:view$`)
					c.Prov(g, "key deleted = path reported", d, d.Common().Args[1], `^param:path$`)
				}
				c.Clause("R2", "C13.4")
				var cont []ssa.Instruction
				for _, r := range eng.Returns(g) {
					if eng.Expr(r.Results[0]) == "true" {
						cont = append(cont, r)
					}
				}
				if c.Floor(g, "continue returns", len(cont), 1) {
					c.Cut(g, "continue clearing", cont, eng.GCallOK(g, `^<logical\.ClearableView>\.Delete$`), nil)
				}
			}
		}
	}
	if f := c.Fn("logical.ClearViewWithoutPagination"); f != nil {
		c.Clause("R5", "C13.4")
		ds := eng.Calls(f, `^<logical\.ClearableView>\.Delete$`)
		if c.Floor(f, "Delete in clear", len(ds), 1) {
			for _, d := range ds {
				c.Prov(f, "view cleared", d, d.Common().Value, `^param:view$`)
				s := eng.Expr(d.Common().Args[1])
				if strings.HasPrefix(s, "logical.CollectKeys()#0[") {
					c.OK(f, "key deleted was collected from the view", d.Pos(), s)
				} else {
					c.Violation(f, "key deleted was collected from the view", d.Pos(), "deletes "+s, nil)
				}
			}
		}
		for _, ck := range eng.Calls(f, `logical\.CollectKeys$`) {
			c.Prov(f, "view collected", ck, ck.Common().Args[1], `^param:view$`)
		}
	}
}

// ---------- C13.2 sibling agreement on the wrapped store
type c13Delegate struct {
	fn   *ssa.Function
	call ssa.CallInstruction
	path string
}

// c13DelegateOf renders the store a delegated operation is invoked on as an
// access path from the layer's receiver ("·.txn"): the receiver parameter's
// name is abstracted so that methods spelling it differently agree.
func c13DelegateOf(cl ssa.CallInstruction) string {
	cc := cl.Common()
	var recv ssa.Value
	if cc.IsInvoke() {
		recv = cc.Value
	} else if len(cc.Args) > 0 {
		recv = cc.Args[0]
	}
	s := eng.Expr(recv)
	if f := cl.Parent(); f != nil && len(f.Params) > 0 {
		rn := eng.VarName(f.Params[0])
		if s == rn {
			return "·"
		}
		if strings.HasPrefix(s, rn+".") {
			return "·" + s[len(rn):]
		}
	}
	return s
}

// c13SiblingDelegates: within one layer type, Get/Put/Delete/List/ListPage
// delegate to the same wrapped store (one access path from the receiver). A
// layer whose operations legitimately address several stores is tabled with
// the exact set it may use.
func c13SiblingDelegates(c *eng.Ctx, typs []string, delegates map[string]map[string][]c13Delegate) {
	c.Clause("R8", "C13.2")
	n := 0
	for _, t := range typs {
		ops := delegates[t]
		if len(ops) < 2 {
			continue
		}
		// majority path = the layer's wrapped store
		count := map[string]int{}
		for _, m := range c13Ops {
			seen := map[string]bool{}
			for _, d := range ops[m] {
				if !seen[d.path] {
					seen[d.path] = true
					count[d.path]++
				}
			}
		}
		var paths []string
		for p := range count {
			paths = append(paths, p)
		}
		sort.Slice(paths, func(i, j int) bool {
			return count[paths[i]] > count[paths[j]] || count[paths[i]] == count[paths[j]] && paths[i] < paths[j]
		})
		n++
		for _, m := range c13Ops {
			for _, d := range ops[m] {
				site := m + " delegates to the same wrapped store as its siblings"
				if d.path == paths[0] {
					c.OK(d.fn, site, d.call.Pos(), fmt.Sprintf("%s (used by %d of %d delegating operations of %s)", d.path, count[d.path], len(ops), t))
				} else {
					c.Violation(d.fn, site, d.call.Pos(), fmt.Sprintf("%s of %s is delegated to %s while its sibling operations delegate to %s: reads and writes of one layer would address different stores", m, t, d.path, paths[0]), nil)
				}
			}
		}
	}
	c.Floor(nil, "layer types with at least two delegating operations", n, 15)
}

// cacheLockOwner: wherever a cache's LRU is modified under a per-key lock, the
// lock table and the LRU belong to the same cache object (a transaction's
// private cache has locks of its own; taking those while invalidating the
// parent's LRU serialises nothing against the parent's readers) — seed C08-b.
// Evaluated for C13.5 and C08.5.
func cacheLockOwner(c *eng.Ctx, clause string) {
	c.Clause("R9", clause)
	n := 0
	for _, f := range c.P.Funcs {
		if !eng.InPkg(f, "physical") {
			continue
		}
		muts := eng.Calls(f, `TwoQueueCache\[.*\]\)\.(Add|Remove)$`)
		locks := eng.Calls(f, `^locksutil\.LockForKey`)
		if len(muts) == 0 || len(locks) == 0 {
			continue
		}
		for _, mu := range muts {
			owner := strings.TrimSuffix(c08g2Ident(mu.Common().Args[0]), ".lru") // identity through local aliases / captured variables (props/c08g2.go)
			ok := false
			var tables []string
			for _, lk := range locks {
				t := strings.TrimSuffix(c08g2Ident(lk.Common().Args[0]), ".locks")
				tables = append(tables, t)
				if t == owner {
					ok = true
				}
			}
			n++
			site := "lock table and LRU of the same cache"
			if ok {
				c.OK(f, site, mu.Pos(), owner)
			} else {
				c.Violation(f, site, mu.Pos(), "the LRU of "+owner+" is modified while holding a per-key lock of "+strings.Join(tables, ", ")+": readers of that cache are not excluded and can refill it with a stale value", nil)
			}
		}
	}
	c.Floor(nil, "locked LRU modifications", n, 5)
}
