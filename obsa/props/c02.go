package props

import (
	"go/token"
	"go/types"
	"regexp"

	"golang.org/x/tools/go/ssa"

	"obsa/eng"
)

func init() {
	register(&Prop{
		ID: "C02",
		Explanation: "Structural necessary conditions of 'no backend effect without a live token and an allowing policy', on every CFG path / call site: " +
			"(1) in Core.handleRequest the backend dispatch is unreachable unless CheckToken(…, unauth=false) returned a nil error, the use count was consumed and the request audit succeeded; CheckToken (specialised to unauth=false) returns a nil error only across the success edge of the token/ACL fetch and the Allowed edge of the policy check, with RootPrivsRequired taken from Router.RootPath; the fetch returns nil error only for a non-empty client token, a non-nil looked-up entry and a passing bound-CIDR check; performPolicyChecks sets Allowed only on the root / ACL-allowed(+sudo) arms; " +
			"(2) TokenStore.lookupInternal / lookupBatchToken return an entry only across the revocation-marker and expiry tests, and a token without a lease is revoked and not returned; disabled/missing entities are refused; " +
			"(3) the login handler is entered only for router-declared login paths, uses CheckToken(…, unauth=true) (which refuses root-protected paths), audits before dispatch and never serves auth/token/; " +
			"(4) who-may-call tables: every call of Router.Route and every direct logical.Backend.HandleRequest invoke in the server is in a reviewed table, internal callers pass requests built by the internal-request constructors or constant cubbyhole paths; " +
			"(6) relative paths, sealed core/namespace, trailing-slash writes and internal-only operations are refused before dispatch; " +
			"(7) policy writes/deletes invalidate the policy cache entry before reporting success, and every keyed operation on the policy cache (add, remove, get) uses the result of Store.cacheKey — the key readers use — or a key enumerated from the cache itself; (8) building a request's ACL never mutates or aliases the cached policy objects shared by all tokens (shared rule with C03.6); " +
			"(2b) a server-side-consistent token's inner id leaves checkSSCTokenInternal only across hmac.Equal on the recomputed HMAC, the unverified decode is reachable only for unauth requests as told by isLoginRequest, and PopulateTokenEntry looks the token up only across the success edge of that check; " +
			"(6b) inside a child namespace the root-only sys APIs (restrictedSysAPIs) and an own or inherited API lock are refused before request handling; " +
			"(7b) Store.ACL fetches each named policy in the namespace its map key resolves to; (7c) switchedGetPolicy returns a cached or stored policy object only across the no-expiration / not-yet-expired edge; (7d) Store.cacheKey appends the policy name verbatim to the namespace UUID and never passes it through a cleaning join (path.Join/Clean), so a name cannot address another namespace's cache entry; " +
			"(1g) in hierarchy mode a foreign-namespace group policy applies only across policyNS.HasParent(tokenNS); (3b) LoginPath / RootPath answer true only on the exact-match, prefix-entry or wildcard arm; " +
			"(11) every field of a policy stanza (PathRules) that NewACL reads is written by parsePaths or filled by the tagged HCL decode, a field parsed from a raw attribute (Expiration) is stored from that parse before the stanza is appended, and NewACL merges a stanza only across 'no expiration or not yet expired'; (9) sys/seal and sys/step-down act only after a populated and fetched token, live entity, successful audit and an allowing policy check built with RootPrivsRequired = true. (10) in ACL.AllowOperation each of read/update/create/patch reaches an allow only after the required-, denied- and allowed-parameter checks, and their refusing edges never allow (shared with C03.8). (7e) before a templated policy is expanded with identity values, both independent opt-in flags (slashes, wildcards) are consulted on every path, so that \"/\", \"*\" and \"+\" are refused as substituted values unless the policy allows them.",
		NotDecided: "that the ACL's decision is the right one (C03's clauses); absence of storage effects of a refused request as an observed effect; interleavings of policy/token mutation with requests; what each HTTP route outside Core.HandleRequest does.",
		Run:        runC02,
	})
}

func instrsOf[T ssa.Instruction](xs []T) []ssa.Instruction { return eng.AsInstrs(xs) }

func runC02(c *eng.Ctx, thorough bool) {
	c02Routes(c)
	c02MountRelative(c)
	unauthFalse := map[string]bool{`^unauth$`: false}
	unauthTrue := map[string]bool{`^unauth$`: true}

	// ---------------- C02.1 handleRequest
	if f := c.Fn("vault.(*Core).handleRequest"); f != nil {
		c.Clause("R2", "C02.1")
		dispatch := c02MaySinks(f, `vault\.\(\*Core\)\.doRoutingIfApproved$`)
		c.Floor(f, "dispatch call", len(dispatch), 1)
		c.Cut(f, "backend dispatch", dispatch, eng.G(f, `^vault\.\(\*Core\)\.CheckToken\(\)#4 == nil$`, true), nil)
		c.Cut(f, "backend dispatch", dispatch, nfGCallOK(f, `vault\.\(\*AuditBroker\)\.LogRequest$`), nil)
		use := nfGCallOK(f, `vault\.\(\*TokenStore\)\.UseToken$`)
		c.Cut(f, "backend dispatch", dispatch, eng.Or(eng.Guard{Desc: use.Desc, Edges: use.Edges}, eng.G(f, `^te == nil$`, true)), nil)
		c.Cut(f, "backend dispatch", dispatch, eng.G(f, `^logical\.ValidateExternalOperation\(\) == nil$`, true), nil)
		// CheckToken is called with the constant unauth=false
		c.Clause("R12", "C02.1")
		for _, ct := range eng.Calls(f, `vault\.\(\*Core\)\.CheckToken$`) {
			arg := ct.Common().Args[3]
			if cst, ok := arg.(*ssa.Const); ok && eng.Expr(cst) == "false" {
				c.OK(f, "const{CheckToken unauth=false}", ct.Pos(), "handleRequest authenticates with unauth=false")
			} else {
				c.Violation(f, "const{CheckToken unauth=false}", ct.Pos(), "handleRequest must call CheckToken with the constant unauth=false, found "+eng.Expr(arg), nil)
			}
		}
		// the only other Route call in handleRequest takes a RevokeRequest
		c.Clause("R5", "C02.4")
		for _, r := range eng.Calls(f, `routing\.\(\*Router\)\.Route$`) {
			c.Prov(f, "request routed directly by handleRequest", r, r.Common().Args[2], `^call:logical\.RevokeRequest$`)
		}
	}
	if f := c.Fn("vault.(*Core).doRoutingIfApproved"); f != nil {
		c.Clause("R1", "C02.4")
		sites := c.P.FindCalls(mustStatic(c, "vault.(*Core).doRoutingIfApproved"), nil)
		c.CallerTable("Core.doRoutingIfApproved", sites, map[string]string{
			"vault.(*Core).handleRequest":      "authenticated handler (C02.1)",
			"vault.(*Core).handleLoginRequest": "login handler (C02.3)",
		}, 2)
		// the one-line forwarding helper may be inlined into the approval gate; the who-may-call table of
		// Router.Route below then sees (and must approve) the gate as a direct caller
		if c.P.Func("vault.(*Core).doRouting") != nil {
			sites = c.P.FindCalls(mustStatic(c, "vault.(*Core).doRouting"), nil)
			c.CallerTable("Core.doRouting", sites, map[string]string{
				"vault.(*Core).doRoutingIfApproved": "only through the approval gate",
			}, 1)
		}
	}

	// ---------------- C02.1 CheckToken
	if f := c.Fn("vault.(*Core).CheckToken"); f != nil {
		c.Clause("R2", "C02.1")
		succ := eng.SuccessReturns(f, 4)
		c.Floor(f, "nil-error returns", len(succ), 1)
		c.Cut(f, "return with nil error (unauth=false)", succ, nfGCallOK(f, `vault\.\(\*Core\)\.fetchACLTokenEntryAndEntity$`), unauthFalse)
		c.Cut(f, "return with nil error (unauth=false)", succ, eng.G(f, `^vault\.\(\*Core\)\.performPolicyChecks\(\)\.Allowed$`, true), unauthFalse)
		c.Cut(f, "return with nil error (unauth=true)", succ, eng.G(f, `^vault\.\(\*Core\)\.performPolicyChecks\(\)\.Allowed$`, true), unauthTrue)
		// entity disabled / missing entity refusals
		c.Cut(f, "return with nil error", succ, eng.Or(eng.G(f, `^φentity\{.*\} == nil$`, true), eng.G(f, `^φentity\{.*\}\.Disabled$`, false)), nil)
		c.Cut(f, "return with nil error", succ, eng.Or(
			eng.G(f, `^φte\{.*\} == nil$`, true),
			eng.G(f, `^φte\{.*\}\.EntityID == ""$`, true),
			eng.G(f, `^φentity\{.*\} == nil$`, false)), nil)
		// root path + unauth => error
		c.Cut(f, "return with nil error (unauth=true)", succ, eng.G(f, `^routing\.\(\*Router\)\.RootPath\(\)$`, false), unauthTrue)
		// the CheckOpts literal
		c.Clause("R5", "C02.1")
		for _, pc := range eng.Calls(f, `vault\.\(\*Core\)\.performPolicyChecks$`) {
			opts := pc.Common().Args[6]
			rp := eng.StructLitField(opts, "RootPrivsRequired")
			ua := eng.StructLitField(opts, "Unauth")
			if len(rp) == 0 {
				c.Violation(f, "CheckOpts.RootPrivsRequired", pc.Pos(), "the policy check options no longer set RootPrivsRequired: sudo would not be required on root-protected paths", nil)
			}
			for _, v := range rp {
				c.Prov(f, "CheckOpts.RootPrivsRequired", pc, v, `^call:routing\.\(\*Router\)\.RootPath$`)
			}
			if len(ua) == 0 {
				c.Violation(f, "CheckOpts.Unauth", pc.Pos(), "the policy check options no longer set Unauth", nil)
			}
			for _, v := range ua {
				c.Prov(f, "CheckOpts.Unauth", pc, v, `^param:unauth$`)
			}
			c.Prov(f, "acl passed to performPolicyChecks", pc, pc.Common().Args[2], `^call:vault\.\(\*Core\)\.fetchACLTokenEntryAndEntity#0$`, `^const:nil$`)
			c.Prov(f, "token entry passed to performPolicyChecks", pc, pc.Common().Args[3], `^call:vault\.\(\*Core\)\.fetchACLTokenEntryAndEntity#1$`, `^const:nil$`)
		}
	}

	// ---------------- C02.1 fetchACLTokenEntryAndEntity
	if f := c.Fn("vault.(*Core).fetchACLTokenEntryAndEntity"); f != nil {
		c.Clause("R2", "C02.1")
		succ := eng.SuccessReturns(f, 4)
		c.Floor(f, "nil-error returns", len(succ), 1)
		c.Cut(f, "return with nil error", succ, eng.G(f, `^req\.ClientToken == ""$`, false), nil)
		c.Cut(f, "return with nil error", succ, eng.G(f, `^φte\{.*\} == nil$`, false), nil)
		lk := nfGCallOK(f, `vault\.\(\*TokenStore\)\.Lookup$`)
		c.Cut(f, "return with nil error", succ, eng.Or(eng.Guard{Desc: lk.Desc, Edges: lk.Edges}, eng.G(f, `^logical\.\(\*Request\)\.TokenEntry\(\) == nil$`, false)), nil)
		cidrInline := len(eng.Calls(f, `SockAddr>\.Contains$`)) > 0
		if cidrInline {
			c.Cut(f, "return with nil error", succ, eng.Or(
				eng.G(f, `^φvalid\{.*\}$`, true),
				eng.G(f, `^φte\{.*\}\.TTL == 0$`, true),
				eng.G(f, `^0 < len\(φte\{.*\}\.BoundCIDRs\)$`, false)), nil)
		} else {
			c02BoundCIDRHelper(c, f, succ)
		}
		c.Cut(f, "return with nil error", succ, nfGCallOK(f, `policy\.\(\*Store\)\.ACL$`), nil)
		c.Cut(f, "return with nil error", succ, nfGCallOK(f, `vault\.\(\*Core\)\.fetchEntityAndDerivedPolicies$`), nil)
		// valid=true only when a bound CIDR contains the remote address
		if cidrInline {
			trueEdges := eng.PhiEdgeSinks(f, "valid", func(v ssa.Value) bool { return eng.Expr(v) == "true" })
			c.Cut(f, "valid = true", trueEdges, eng.G(f, `SockAddr>\.Contains\(\)$`, true), nil)
		}
		c.Clause("R5", "C02.1")
		for _, r := range succ {
			ret := r.(*ssa.Return)
			vals, _, _ := eng.ReturnVals(ret, 0)
			for _, v := range vals {
				if eng.IsNilConst(v) {
					c.Violation(f, "acl returned with nil error", ret.Pos(), "a nil ACL may be returned together with a nil error: performPolicyChecks would skip the ACL check", nil)
				} else {
					c.Prov(f, "acl returned with nil error", ret, v, `^call:policy\.\(\*Store\)\.ACL#0$`)
				}
			}
			vals, _, _ = eng.ReturnVals(ret, 1)
			for _, v := range vals {
				c.Prov(f, "token entry returned with nil error", ret, v, `^call:vault\.\(\*TokenStore\)\.Lookup#0$`, `^call:logical\.\(\*Request\)\.TokenEntry$`)
			}
		}
		// the token looked up is the request's client token
		for _, l := range eng.Calls(f, `vault\.\(\*TokenStore\)\.Lookup$`) {
			c.Prov(f, "token id looked up", l, l.Common().Args[2], `^field:req\.ClientToken$`)
		}
	}

	// ---------------- C02.1 performPolicyChecks
	c02PolicyChecks(c)

	// ---------------- C02.2 token liveness on every lookup path (shared with C04.5 and C19.5)
	tokenLiveness(c, "C02.2")

	// ---------------- C02.3 login requests
	if f := c.Fn("vault.(*Core).handleCancelableRequest"); f != nil {
		c.Clause("R2", "C02.3")
		login := c02MaySinks(f, `vault\.\(\*Core\)\.handleLoginRequest$`)
		c.Floor(f, "handleLoginRequest call", len(login), 1)
		c.Cut(f, "handleLoginRequest", login, eng.G(f, `^vault\.\(\*Core\)\.isLoginRequest\(\)$`, true), nil)
		// C02.6: trailing-slash writes and internal operations never reach either handler
		c.Clause("R2", "C02.6")
		handlers := append(c02MaySinks(f, `vault\.\(\*Core\)\.handleRequest$`), login...)
		c.Floor(f, "handler calls", len(handlers), 2)
		c.Cut(f, "handleRequest/handleLoginRequest", handlers, eng.G(f, `^logical\.ValidateExternalOperation\(\) == nil$`, true), nil)
		c.Cut(f, "handleRequest/handleLoginRequest", handlers, eng.Or(
			eng.G(f, `^strings\.HasSuffix\(\)$`, false),
			eng.G(f, `^req\.Operation == "patch"$`, false)), nil)
		c.Cut(f, "handleRequest/handleLoginRequest", handlers, nfGCallOK(f, `vault\.\(\*Core\)\.PopulateTokenEntry$`), nil)
		// standby forwards use-limited tokens
		c.Cut(f, "handleRequest/handleLoginRequest", handlers, eng.Or(
			eng.G(f, `^\(\*sync/atomic\.Bool\)\.Load\(\)$`, false),
			eng.G(f, `^0 < req\.ClientTokenRemainingUses$`, false)), nil)
	}
	if f := c.Fn("vault.(*Core).isLoginRequest"); f != nil {
		c.Clause("R5", "C02.3")
		for _, r := range eng.Returns(f) {
			c.Prov(f, "isLoginRequest verdict", r, r.Results[0], `^call:routing\.\(\*Router\)\.LoginPath$`)
		}
	}
	if f := c.Fn("vault.(*Core).handleLoginRequest"); f != nil {
		c.Clause("R2", "C02.3")
		dispatch := c02MaySinks(f, `vault\.\(\*Core\)\.doRoutingIfApproved$`)
		c.Floor(f, "dispatch call", len(dispatch), 1)
		c.Cut(f, "login dispatch", dispatch, eng.G(f, `^vault\.\(\*Core\)\.CheckToken\(\)#4 == nil$`, true), nil)
		c.Cut(f, "login dispatch", dispatch, nfGCallOK(f, `vault\.\(\*AuditBroker\)\.LogRequest$`), nil)
		c.Cut(f, "login dispatch", dispatch, eng.G(f, `^strings\.HasPrefix\(\)$`, false), nil)
		c.Cut(f, "login dispatch", dispatch, eng.G(f, `^logical\.ValidateExternalOperation\(\) == nil$`, true), nil)
		c.Cut(f, "login dispatch", dispatch, eng.Or(eng.G(f, `^vault\.\(\*Core\)\.isUserLocked\(\)#1$`, false), eng.G(f, `^vault\.\(\*Core\)\.isUserLockoutDisabled\(\)#0$`, true)), nil)
		c.Clause("R12", "C02.3")
		for _, ct := range eng.Calls(f, `vault\.\(\*Core\)\.CheckToken$`) {
			arg := ct.Common().Args[3]
			if eng.Expr(arg) == "true" {
				c.OK(f, "const{CheckToken unauth=true}", ct.Pos(), "the login handler is the only caller passing unauth=true")
			} else {
				c.Violation(f, "const{CheckToken unauth=true}", ct.Pos(), "unexpected unauth argument "+eng.Expr(arg), nil)
			}
		}
		// token creation only for auth/ paths with a login operation
		c.Clause("R2", "C02.3")
		reg := c02MaySinks(f, `vault\.\(\*Core\)\.LoginCreateToken$`)
		if len(reg) == 0 {
			reg = c02MaySinks(f, `vault\.\(\*Core\)\.RegisterAuth$`)
		}
		if c.Floor(f, "token creation call (LoginCreateToken)", len(reg), 1) {
			c.Cut(f, "login token creation", reg, eng.G(f, `^logical\.ValidateLoginOperation\(\) == nil$`, true), nil)
			c.Cut(f, "login token creation", reg, eng.G(f, `doRoutingIfApproved\(\)#0\.Auth == nil$`, false), nil)
		}
	}
	// who may pass unauth=true
	c.Clause("R12", "C02.3")
	if m, miss := c.P.StaticCallee("vault.(*Core).CheckToken"); len(miss) == 0 {
		n := 0
		for _, s := range c.P.FindCalls(m, nil) {
			n++
			arg := s.Call.Common().Args[3]
			fn := eng.FuncName(eng.TopFunc(s.Fn))
			isConstFalse := eng.Expr(arg) == "false"
			if isConstFalse || fn == "vault.(*Core).handleLoginRequest" {
				c.OK(eng.TopFunc(s.Fn), "caller{CheckToken}", s.Call.Pos(), "unauth="+eng.Expr(arg))
			} else {
				c.Violation(eng.TopFunc(s.Fn), "caller{CheckToken}", s.Call.Pos(), "CheckToken called with unauth="+eng.Expr(arg)+" outside the login handler", nil)
			}
		}
		c.Floor(nil, "CheckToken callers", n, 2)
	} else {
		c.Unresolved("vault.(*Core).CheckToken")
	}

	// ---------------- C02.4 who may call the router / a backend directly
	c.Clause("R1", "C02.4")
	internalReq := `^call:logical\.(RevokeRequest|RenewRequest|RenewAuthRequest|RollbackRequest)$`
	routeTable := map[string]string{
		"vault.(*Core).handleRequest":                   "revocation of an ephemeral lease after inline auth: logical.RevokeRequest",
		"vault.(*Core).walkKvMountSecrets":              "metrics gauge: constant list operation on kv mounts",
		"vault.(*Core).wrapInCubbyhole":                 "stores the wrapped response under the new wrapping token: constant cubbyhole/ paths",
		"vault.(*ExpirationManager).Register":           "rollback of a failed registration: logical.RevokeRequest",
		"vault.(*ExpirationManager).renewAuthEntry":     "logical.RenewAuthRequest",
		"vault.(*ExpirationManager).renewEntry":         "logical.RenewRequest",
		"vault.(*ExpirationManager).revokeEntry":        "logical.RevokeRequest",
		"vault.(*RollbackManager).attemptRollback":      "logical.RollbackRequest",
		"vault.(*SystemBackend).handleWrappingLookup":   "constant cubbyhole/wrapinfo read with the validated wrapping token",
		"vault.(*SystemBackend).handleWrappingRewrap":   "constant cubbyhole/ paths with the validated wrapping token",
		"vault.(*SystemBackend).responseWrappingUnwrap": "constant cubbyhole/response read with the validated wrapping token",
	}
	if m, miss := c.P.StaticCallee("routing.(*Router).Route"); len(miss) == 0 {
		sites := c.P.FindCalls(m, func(fn *ssa.Function) bool { return !eng.InPkg(fn, "routing") })
		// the dispatch role is held by the approval gate (whose own callers are tabled above) and by every
		// forwarding helper that only the gate, transitively, calls: whether the one-line doRouting exists or
		// is inlined into the gate makes no difference to who can reach the router
		chain := c02DispatchChain(c, sites)
		for n := range chain {
			routeTable[n] = "the authenticated/login dispatch (C02.1, C02.3): the approval gate or a helper only it calls"
		}
		c.CallerTable("Router.Route", sites, routeTable, 12)
		c.Clause("R5", "C02.4")
		for _, s := range sites {
			top := eng.FuncName(eng.TopFunc(s.Fn))
			reqArg := s.Call.Common().Args[2]
			if chain[top] {
				c.Prov(s.Fn, "request routed", s.Call, reqArg, `^param:req$`)
				continue
			}
			switch top {
			case "vault.(*RollbackManager).attemptRollback":
				ops := eng.StructLitField(reqArg, "Operation")
				if len(ops) == 0 {
					c.Prov(s.Fn, "internal request routed", s.Call, reqArg, internalReq)
				}
				for _, ov := range ops {
					if eng.Expr(ov) == `"rollback"` {
						c.OK(s.Fn, "const{rollback request operation}", s.Call.Pos(), "request literal with the internal-only Operation \"rollback\"")
					} else {
						c.Violation(s.Fn, "const{rollback request operation}", s.Call.Pos(), "rollback manager routes a request with Operation "+eng.Expr(ov), nil)
					}
				}
			case "vault.(*ExpirationManager).Register", "vault.(*ExpirationManager).renewAuthEntry", "vault.(*ExpirationManager).renewEntry",
				"vault.(*ExpirationManager).revokeEntry":
				c.Prov(s.Fn, "internal request routed", s.Call, reqArg, internalReq)
			case "vault.(*Core).wrapInCubbyhole", "vault.(*SystemBackend).handleWrappingLookup", "vault.(*SystemBackend).handleWrappingRewrap", "vault.(*SystemBackend).responseWrappingUnwrap":
				// request literal with a constant cubbyhole path
				paths := eng.StructLitField(reqArg, "Path")
				if len(paths) == 0 {
					c.Violation(s.Fn, "prov{cubbyhole request path}", s.Call.Pos(), "request passed to Router.Route is not a local literal with a Path", nil)
				}
				for _, pv := range paths {
					c.Prov(s.Fn, "cubbyhole request path", s.Call, pv, `^const:"cubbyhole/(response|wrapinfo)"$`)
				}
			}
		}
		// also: the method value must not escape as a function value
		if uses := c.P.FuncValueUses("routing.(*Router).Route"); len(uses) > 0 {
			for _, u := range uses {
				c.Violation(eng.TopFunc(u.Fn), "funcvalue{Router.Route}", u.Fn.Pos(), "Router.Route is taken as a function value; its callers can no longer be enumerated", nil)
			}
		}
	} else {
		c.Unresolved("routing.(*Router).Route")
	}
	c.Clause("R1", "C02.4")
	if m, ok := c.P.IfaceCallee("logical.Backend", "HandleRequest"); ok {
		sites := c.P.FindCalls(m, func(fn *ssa.Function) bool {
			p := eng.PkgPathOf(fn)
			return p == eng.Alias["vault"] || p == eng.Alias["http"] || p == eng.Alias["routing"] || p == eng.ModMain+"/internal/command" || p == eng.Alias["server"]
		})
		c.CallerTable("logical.Backend.HandleRequest (direct)", sites, map[string]string{
			"routing.(*Router).routeCommon":                      "the router itself",
			"vault.(*Core).aliasNameFromLoginRequest":            "constant AliasLookaheadOperation (no backend side effects by contract)",
			"vault.(*Core).doResolveRoleLocked":                  "constant ResolveRoleOperation",
			"vault.(*SystemBackend).handleRateLimitQuotasUpdate": "constant ResolveRoleOperation to validate a role name",
			"vault.(*SystemBackend).pathInternalOpenAPI":         "constant HelpOperation",
			"http.handleLogicalRecovery":                         "recovery mode raw backend, behind the recovery token compare",
			"vault.(*Core).HandleRequest":                        "wrapper", // not an invoke; harmless if absent
		}, 5)
		c.Clause("R12", "C02.4")
		wantOp := map[string]string{
			"vault.(*Core).aliasNameFromLoginRequest":            `"alias-lookahead"`,
			"vault.(*Core).doResolveRoleLocked":                  `"resolve-role"`,
			"vault.(*SystemBackend).handleRateLimitQuotasUpdate": `"resolve-role"`,
			"vault.(*SystemBackend).pathInternalOpenAPI":         `"help"`,
		}
		for _, s := range sites {
			top := eng.FuncName(eng.TopFunc(s.Fn))
			want, ok := wantOp[top]
			if !ok {
				continue
			}
			args := s.Call.Common().Args
			reqArg := args[len(args)-1]
			ops := eng.StructLitField(reqArg, "Operation")
			if len(ops) == 0 {
				c.Violation(s.Fn, "const{Operation of direct backend request}", s.Call.Pos(), "request handed directly to a backend is not a local literal with a constant Operation", nil)
			}
			for _, ov := range ops {
				if eng.Expr(ov) == want {
					c.OK(s.Fn, "const{Operation of direct backend request}", s.Call.Pos(), "Operation = "+want)
				} else {
					c.Violation(s.Fn, "const{Operation of direct backend request}", s.Call.Pos(), "direct backend request with Operation "+eng.Expr(ov)+", table expects "+want, nil)
				}
			}
		}
	} else {
		c.Unresolved("logical.Backend")
	}
	if f := c.Fn("http.handleLogicalRecovery"); f != nil {
		c.Clause("R2", "C02.4")
		for _, cl := range eng.Closures(f) {
			hr := c02MaySinks(cl, `\.HandleRequest$`)
			if len(hr) == 0 {
				continue
			}
			c.Cut(cl, "raw backend request in recovery mode", hr, eng.G(cl, `crypto/subtle\.ConstantTimeCompare\(\) == 0$`, false), nil)
		}
	}

	// ---------------- C02.6 path normalisation and seal guards
	if f := c.Fn("vault.(*Core).switchedLockHandleRequest"); f != nil {
		c.Clause("R2", "C02.6")
		h := c02MaySinks(f, `vault\.\(\*Core\)\.handleCancelableRequest$`)
		h = append(h, c02MaySinks(f, `vault\.\(\*Core\)\.handleInlineAuth$`)...)
		c.Floor(f, "handleCancelableRequest/handleInlineAuth calls", len(h), 2)
		c.Cut(f, "request handling", h, eng.Or(eng.G(f, `^logical\.IsRelativePath\(\)$`, false), eng.G(f, `^c\.unsafeRelativePaths$`, true)), nil)
		c.Cut(f, "request handling", h, eng.G(f, `^vault\.\(\*Core\)\.Sealed\(\)$`, false), nil)
		c.Cut(f, "request handling", h, eng.Or(eng.G(f, `^vault\.\(\*Core\)\.NamespaceSealed\(\)$`, false), eng.G(f, `\.ID == "root"$`, true)), nil)
		c.Cut(f, "request handling", h, eng.G(f, `ResolveNamespaceFromRequest\(\)#0 == nil$`, false), nil)
		c.Cut(f, "request handling", h, eng.Or(eng.G(f, `^namespace\.\(\*Namespace\)\.HasParent\(\)$`, true), eng.G(f, `^err == nil$`, false)), nil)
	}
	if f := c.Fn("vault.(*Core).HandleRequest"); f != nil {
		c.Clause("R5", "C02.6")
		nres := 0
		for _, r := range eng.Returns(f) {
			// a refusal that hands back no response discloses nothing
			if eng.IsNilConst(r.Results[0]) {
				continue
			}
			nres++
			c.Prov(f, "HandleRequest result", r, r.Results[0], `^call:vault\.\(\*Core\)\.switchedLockHandleRequest#0$`)
		}
		c.Floor(f, "returns of HandleRequest that carry a response", nres, 1)
	}

	// ---------------- C02.4 operation tables
	c.Clause("R7", "C02.4")
	c02OperationTables(c)

	// ---------------- C02.7 policy cache invalidation
	c02PolicyCache(c)
	c02PolicyCacheKeys(c)

	// ---------------- C02.8 a token is judged by its own policies: the per-request ACL must not write into the cached policy objects
	aclOwnership(c, "C02.8")
	c03gCloneOwnership(c, "C02.8")

	// ---------------- C02.10 "the policies allow that operation": parameter constraints are checked for every operation that carries parameters (shared with C03.8)
	c03gParameterChecks(c, "C02.10")

	runC02Gaps2(c)
	runC02Gaps3(c, "C02.7")
}

// c02DispatchChain: doRoutingIfApproved plus the callers of Router.Route that are reached only from
// functions already in the chain and never used as a function value.
func c02DispatchChain(c *eng.Ctx, sites []eng.CallSite) map[string]bool {
	chain := map[string]bool{"vault.(*Core).doRoutingIfApproved": true}
	for changed := true; changed; {
		changed = false
		for _, s := range sites {
			n := eng.FuncName(eng.TopFunc(s.Fn))
			if chain[n] || !eng.InPkg(s.Fn, "vault") {
				continue
			}
			m, miss := c.P.StaticCallee(n)
			if len(miss) > 0 || len(c.P.FuncValueUses(n)) > 0 {
				continue
			}
			callers := c.P.FindCalls(m, nil)
			ok := len(callers) > 0
			for _, k := range callers {
				if !chain[eng.FuncName(eng.TopFunc(k.Fn))] {
					ok = false
				}
			}
			if ok {
				chain[n] = true
				changed = true
			}
		}
	}
	return chain
}

func mustStatic(c *eng.Ctx, names ...string) eng.CalleeMatcher {
	m, miss := c.P.StaticCallee(names...)
	for _, n := range miss {
		c.Unresolved(n)
	}
	return m
}

// tokenLiveness: a revoked, exhausted (NumUses < 0: the pending-revocation
// tombstone) or expired token never comes back from lookup. Evaluated for
// C02.2, and for C04.5 / C19.5 which rest on the same reader-side checks.
func tokenLiveness(c *eng.Ctx, clause string) {
	if f := c.Fn("vault.(*TokenStore).lookupInternal"); f != nil {
		c.Clause("R2", clause)
		var sinks []ssa.Instruction
		for _, r := range eng.NonNilResultReturns(f, 0) {
			ret := r.(*ssa.Return)
			// delegated batch-token return is covered by lookupBatchToken below
			if ok, _, _ := eng.OriginsMatch(ret.Results[0], `^call:vault\.\(\*TokenStore\)\.lookupBatchToken#0$`); ok {
				continue
			}
			if _, isPhi := ret.Results[0].(*ssa.Phi); isPhi {
				continue // handled through the phi edges below
			}
			sinks = append(sinks, r)
		}
		retEdges := eng.PhiEdgeSinks(f, "ret", func(v ssa.Value) bool { return !eng.IsNilConst(v) })
		c.Floor(f, "ret = entry assignments", len(retEdges), 1)
		all := append(append([]ssa.Instruction{}, sinks...), retEdges...)
		c.Floor(f, "entry-returning exits", len(all), 2)
		// the marker test is selected by what it is (a comparison of TokenEntry.NumUses with a constant that
		// separates tokenRevocationPending from every valid use count), not by how it is spelled (props/c04follow.go)
		c.Cut(f, "exit returning a token entry", all, eng.Or(c04MarkerExcluded(c, f), eng.G(f, `^tainted$`, true)), nil)
		c.Cut(f, "ret = entry (expiring token)", retEdges, eng.Or(eng.G(f, `^time\.\(Time\)\.Before\(\)$`, false), eng.G(f, `^tainted$`, true)), nil)
		c.Cut(f, "ret = entry (expiring token)", retEdges, eng.G(f, `FetchLeaseTimesByToken\(\)#0 == nil$`, false), nil)
		c.Cut(f, "ret = entry (expiring token)", retEdges, nfGCallOK(f, `vault\.\(\*ExpirationManager\)\.FetchLeaseTimesByToken$`), nil)
		// the non-expiring fast path requires the root policy and TTL == 0
		c.Cut(f, "fast-path return of the entry", sinks, eng.G(f, `\.TTL == 0$`, true), nil)
		c.Cut(f, "fast-path return of the entry", sinks, eng.G(f, `\.Policies\[0\] == "root"$`, true), nil)
		// le == nil: revoke and do not return the entry
		c.Clause("R4", clause)
		noLease := eng.CondEdges(f, `FetchLeaseTimesByToken\(\)#0 == nil$`, true)
		c.NilResultOnEdges(f, "token has no lease", noLease, 0, "token entry")
		succ := eng.SuccessReturns(f, 1)
		revoke := nfAts(nfPlain(nfSites(f, `vault\.\(\*ExpirationManager\)\.Revoke$`)))
		if len(noLease) > 0 {
			if h := eng.Reach(eng.Query{Fn: f, StartEdges: noLease, Barriers: revoke, Target: eng.IsTarget(succ)}); h != nil {
				c.Violation(f, "on{token has no lease} revoke before nil-error return", h.Instr.Pos(), "a nil-error return is reachable for a lease-less expiring token without calling expiration.Revoke", h.Witness)
			} else {
				c.OK(f, "on{token has no lease} revoke before nil-error return", revoke[0].Pos(), "every nil-error return on the no-lease arm is preceded by expiration.Revoke")
			}
		}
		// the compared time is the lease's expire time
		c.Clause("R5", clause)
		for _, b := range eng.Calls(f, `^time\.\(Time\)\.Before$`) {
			c.Prov(f, "expiry compared", b, b.Common().Args[0], `FetchLeaseTimesByToken.*ExpireTime`)
			c.Prov(f, "expiry compared with now", b, b.Common().Args[1], `^call:time\.Now$`)
		}
	}
	if f := c.Fn("vault.(*TokenStore).lookupBatchToken"); f != nil {
		c.Clause("R2", clause)
		sinks := eng.NonNilResultReturns(f, 0)
		c.Floor(f, "entry-returning exits", len(sinks), 1)
		c.Cut(f, "return of a batch token entry", sinks, eng.G(f, `^time\.\(Time\)\.After\(\)$`, false), nil)
		c.Cut(f, "return of a batch token entry", sinks, nfGCallOK(f, `vault\.\(\*TokenStore\)\.lookupBatchTokenInternal$`), nil)
		c.Cut(f, "return of a batch token entry", sinks, eng.Or(
			eng.G(f, `lookupBatchTokenInternal\(\)#0\.Parent == ""$`, true),
			eng.G(f, `^vault\.\(\*TokenStore\)\.Lookup\(\)#0 == nil$`, false)), nil)
	}

}

// c02BoundCIDRHelper: the bound-CIDR test is not in fetchACLTokenEntryAndEntity
// itself. Follow it into a static callee of the same package that carries the
// SockAddr.Contains call: the fetch succeeds only across that helper's nil-error
// edge, and the helper returns nil only for an exempt token (TTL == 0, no bound
// CIDRs) or across a Contains == true edge. Anything else cannot be evaluated.
func c02BoundCIDRHelper(c *eng.Ctx, f *ssa.Function, succ []ssa.Instruction) {
	c.Clause("R2", "C02.1")
	var helpers []*ssa.Function
	seen := map[*ssa.Function]bool{}
	for _, cl := range eng.Calls(f, `.`) {
		h := cl.Common().StaticCallee()
		if h == nil || seen[h] || h.Pkg != f.Pkg || len(h.Blocks) == 0 {
			continue
		}
		seen[h] = true
		if len(eng.Calls(h, `SockAddr>\.Contains$`)) > 0 {
			helpers = append(helpers, h)
		}
	}
	site := "sink{return with nil error} guard{bound-CIDR check}"
	if len(helpers) == 0 {
		c.Undecided(f, site, f.Pos(), "no bound-CIDR test (SockAddr.Contains) in this function or in a function of this package it calls directly (moved? the rule cannot be evaluated)")
		return
	}
	for _, h := range helpers {
		res := h.Signature.Results()
		if res.Len() == 0 || res.At(res.Len()-1).Type().String() != "error" {
			c.Undecided(f, site, h.Pos(), "the bound-CIDR test moved into "+eng.FuncName(h)+", whose verdict is not an error result; the rule cannot be evaluated")
			continue
		}
		pat := "^" + regexp.QuoteMeta(eng.FuncName(h)) + "$"
		c.Cut(f, "return with nil error", succ, nfGCallOK(f, pat), nil)
		hs := eng.SuccessReturns(h, res.Len()-1)
		if c.Floor(h, "nil-error returns of the bound-CIDR helper", len(hs), 1) {
			c.Cut(h, "bound-CIDR check passed (nil error)", hs, eng.Or(
				eng.G(h, `SockAddr>\.Contains\(\)$`, true),
				eng.G(h, `\.TTL == 0$`, true),
				eng.G(h, `^0 < len\(.*\.BoundCIDRs\)$`, false),
				eng.G(h, `len\(.*\.BoundCIDRs\)\)? == 0$`, true)), nil)
		}
	}
}

// c02FieldGuard: the edges on which a boolean field (given by identity, however
// the struct is reached: through the result cell, a local alias, the call
// result) has the value want.
func c02FieldGuard(c *eng.Ctx, f *ssa.Function, desc string, want bool, fields ...string) eng.Guard {
	set := map[*types.Var]bool{}
	for _, n := range fields {
		fv := c.P.Field(n)
		if fv == nil {
			c.Unresolved(n)
			continue
		}
		set[fv] = true
	}
	g := eng.Guard{Desc: "[" + desc + "]=" + map[bool]string{true: "true", false: "false"}[want]}
	for _, in := range eng.Instrs(f, func(in ssa.Instruction) bool {
		switch x := in.(type) {
		case *ssa.UnOp:
			if x.Op == token.MUL {
				if fv := eng.FieldVar(x.X); fv != nil && set[fv] {
					return true
				}
			}
		case *ssa.Field:
			return set[eng.FieldVar(x)]
		}
		return false
	}) {
		g.Edges = append(g.Edges, eng.BoolEdges(in.(ssa.Value), want)...)
	}
	return g
}

// c02PolicyChecks (C02.1): AuthResults.Allowed becomes true only on the root /
// ACL-allowed(+sudo) arms. Conditions are selected by the field they read, the
// verdict by the field it is stored into; a verdict stored as a computed boolean
// (a && b) is followed through its phi: the incoming non-false value counts as
// "may be true" on the edge it arrives by.
func c02PolicyChecks(c *eng.Ctx) {
	f := c.Fn("vault.(*Core).performPolicyChecks")
	if f == nil {
		return
	}
	c.Clause("R2", "C02.1")
	allowedField := c.P.Field("policy.AuthResults.Allowed")
	if allowedField == nil {
		c.Unresolved("policy.AuthResults.Allowed")
		return
	}
	var stores []*ssa.Store
	for _, st := range eng.Stores(f, `\.Allowed$`) {
		if eng.FieldVar(st.Addr) == allowedField {
			stores = append(stores, st)
		}
	}
	c.Floor(f, "stores to AuthResults.Allowed", len(stores), 2)
	isRoot := c02FieldGuard(c, f, "ACLResults.IsRoot", true, "policy.ACLResults.IsRoot")
	aclAllowed := c02FieldGuard(c, f, "ACLResults.Allowed", true, "policy.ACLResults.Allowed")
	rootPrivs := c02FieldGuard(c, f, "RootPrivs", true, "policy.ACLResults.RootPrivs", "policy.AuthResults.RootPrivs")
	// sinks: program points at which Allowed may become true
	type sink struct {
		in       ssa.Instruction
		what     string
		computed bool      // the value arriving here is not the constant true
		val      ssa.Value // that value (nil for the constant)
	}
	var sinks []sink
	for _, st := range stores {
		switch v := st.Val.(type) {
		case *ssa.Const:
			if eng.Expr(v) == "true" {
				sinks = append(sinks, sink{st, "ret.Allowed = true @" + eng.InstrStr(st), false, nil})
			}
		case *ssa.Phi:
			for i, e := range v.Edges {
				if cst, ok := e.(*ssa.Const); ok && eng.Expr(cst) == "false" {
					continue
				}
				_, isConst := e.(*ssa.Const)
				pb := v.Block().Preds[i]
				sinks = append(sinks, sink{pb.Instrs[len(pb.Instrs)-1], "ret.Allowed = " + eng.Expr(e) + " (arm of a computed verdict)", !isConst, e})
			}
		default:
			sinks = append(sinks, sink{st, "ret.Allowed = " + eng.Expr(v), true, v})
		}
	}
	var all []ssa.Instruction
	computed := false
	for _, s := range sinks {
		all = append(all, s.in)
		computed = computed || s.computed
		// either root, or ACL allowed, or no ACL check requested
		c.Cut(f, s.what, []ssa.Instruction{s.in}, eng.Or(isRoot, aclAllowed,
			eng.G(f, `^acl == nil$`, true),
			eng.G(f, `^opts\.Unauth$`, true)), nil)
	}
	if !c.Floor(f, "points at which Allowed may become true", len(all), 2) {
		return
	}
	// with an ACL and !Unauth: Allowed=true needs IsRoot, or Allowed and (RootPrivs or !RootPrivsRequired or help)
	asm := map[string]bool{`^acl == nil$`: false, `^opts\.Unauth$`: false}
	c.Cut(f, "ret.Allowed = true (acl != nil, !Unauth)", all, eng.Or(isRoot, aclAllowed), asm)
	sudo := eng.Or(isRoot, rootPrivs,
		eng.G(f, `^opts\.RootPrivsRequired$`, false),
		eng.G(f, `^req\.Operation == "help"$`, true))
	if computed {
		// the sudo part of the verdict is (partly) a boolean VALUE (x && !missing): a point at which a computed
		// value arrives is fine when it lies behind the sudo condition on every path, or when the value itself can
		// be true only under that condition (c02TrueOnlyUnder evaluates phi / ! / comparisons as data)
		site := "sink{ret.Allowed = true (acl != nil, !Unauth)} guard{" + sudo.Desc + "}"
		data := []c02DataGuard{
			{fields: []string{"policy.ACLResults.IsRoot"}, val: true},
			{fields: []string{"policy.ACLResults.RootPrivs", "policy.AuthResults.RootPrivs"}, val: true},
			{pat: regexp.MustCompile(`^opts\.RootPrivsRequired$`), val: false},
			{pat: regexp.MustCompile(`^req\.Operation == "help"$`), val: true},
		}
		for i := range data {
			for _, n := range data[i].fields {
				if fv := c.P.Field(n); fv != nil {
					data[i].fvs = append(data[i].fvs, fv)
				}
			}
		}
		var open *eng.Hit
		undecided := false
		for _, s := range sinks {
			h := eng.Reach(eng.Query{Fn: f, Blocked: sudo.Edges, Target: eng.IsTarget([]ssa.Instruction{s.in}), Assume: asm})
			if h == nil {
				continue
			}
			if s.computed && s.val != nil {
				switch c02TrueOnlyUnder(f, s.val, true, sudo.Edges, data, asm, 0) {
				case 1:
					continue
				case 0:
					undecided = true
					continue
				}
			}
			open = h
		}
		switch {
		case open != nil:
			c.Violation(f, site, open.Instr.Pos(), "sink reachable from entry without crossing the guard", open.Witness)
		case undecided:
			c.Undecided(f, site, all[0].Pos(), "the verdict is stored as a computed boolean whose shape the data evaluation does not cover; whether it can be true without sudo on a root-protected path must be reviewed by hand")
		default:
			c.OK(f, site, all[0].Pos(), "every point at which Allowed may become true lies behind the sudo condition, or carries a value that can be true only under it")
		}
	} else {
		c.Cut(f, "ret.Allowed = true (acl != nil, !Unauth)", all, sudo, asm)
	}
	// the ACL consulted is the one passed in, for the request passed in
	c.Clause("R5", "C02.1")
	for _, ao := range eng.Calls(f, `policy\.\(\*ACL\)\.AllowOperation$`) {
		c.Prov(f, "ACL consulted", ao, ao.Common().Args[0], `^param:acl$`)
		c.Prov(f, "request checked", ao, ao.Common().Args[2], `^param:req$`)
	}
	c.Floor(f, "AllowOperation call", len(eng.Calls(f, `policy\.\(\*ACL\)\.AllowOperation$`)), 1)
}

// c02DataGuard: a condition of a guard as DATA: a boolean value that reads one
// of the fields (by identity) or whose normal form matches pat, having value val.
type c02DataGuard struct {
	fields []string
	fvs    []*types.Var
	pat    *regexp.Regexp
	val    bool
}

// c02TrueOnlyUnder: can boolean value v have the value want only when the guard
// holds (a guard edge was crossed on the way to where v is chosen, or v's own
// value implies a data guard)? 1 = yes, -1 = no (it can have that value without
// the guard), 0 = shape not covered. Evaluates constants, !, phi (&& / || and
// if/else-assigned locals) and leaves (field reads, comparisons).
func c02TrueOnlyUnder(f *ssa.Function, v ssa.Value, want bool, guard []eng.Edge, data []c02DataGuard, asm map[string]bool, depth int) int {
	if depth > 8 || v == nil {
		return 0
	}
	switch x := v.(type) {
	case *ssa.Const:
		if s := eng.Expr(x); s == "true" || s == "false" {
			if (s == "true") == want {
				return -1
			}
			return 1 // can never have that value
		}
		return 0
	case *ssa.UnOp:
		if x.Op == token.NOT {
			return c02TrueOnlyUnder(f, x.X, !want, guard, data, asm, depth+1)
		}
	case *ssa.Phi:
		isGuard := map[eng.Edge]bool{}
		for _, e := range guard {
			isGuard[e] = true
		}
		res := 1
		for i, e := range x.Edges {
			pb := x.Block().Preds[i]
			crossed := false
			for si, sb := range pb.Succs {
				if sb == x.Block() && isGuard[eng.Edge{From: pb, Succ: si}] {
					crossed = true
				}
			}
			if crossed || eng.Reach(eng.Query{Fn: f, Blocked: guard, Assume: asm, Target: eng.IsTarget([]ssa.Instruction{pb.Instrs[len(pb.Instrs)-1]})}) == nil {
				continue
			}
			switch c02TrueOnlyUnder(f, e, want, guard, data, asm, depth+1) {
			case -1:
				return -1
			case 0:
				res = 0
			}
		}
		return res
	}
	// a leaf: a field read or a comparison
	n := eng.Normalize(v)
	baseVal := n.Pol
	if !want {
		baseVal = !n.Pol
	}
	leaf := n.Val
	if leaf == nil {
		leaf = v
	}
	for _, d := range data {
		if d.val != baseVal {
			continue
		}
		if d.pat != nil && n.Matches(d.pat) {
			return 1
		}
		for _, fv := range d.fvs {
			if _, ok := nfFieldRead(leaf, fv); ok {
				return 1
			}
		}
	}
	switch v.(type) {
	case *ssa.BinOp, *ssa.UnOp, *ssa.Field:
		return -1 // a plain condition that is not one of the guard's
	}
	return 0
}
