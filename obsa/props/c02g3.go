package props

// C02 rules added after round-4 seeds.

import (
	"obsa/eng"
)

func runC02Gaps3(c *eng.Ctx, clause string) {
	c02gTemplateSubstitutionsBlocked(c, clause)
}

// C02.7 / C03.14 (seed C02-d): a templated policy is expanded with the entity's
// identity values; unless the policy opts in, "/" and the wildcard characters
// "*" and "+" are refused as substituted values — otherwise an identity value
// "+" turns `secret/{{identity...}}/*` into a rule for everybody's subtree. The
// two opt-ins are independent, so BOTH flags have to be consulted on every path
// before the policy is re-parsed with templating (folding the two tests into one
// switch consults only the first). Structural form: every call of
// ParseACLPolicyWithTemplating in Store.ACL is reached only through the test of
// AllowSlashesInIdentityTemplates and through the test of
// AllowWildcardsInIdentityTemplates (either outcome), and the characters appended
// behind them are "/" resp. "*" and "+".
func c02gTemplateSubstitutionsBlocked(c *eng.Ctx, clause string) {
	f := c.Fn("policy.(*Store).ACL")
	if f == nil {
		return
	}
	c.Clause("R2", clause)
	parse := instrsOf(eng.Calls(f, `policy\.ParseACLPolicyWithTemplating$`))
	if !c.Floor(f, "re-parse of a templated policy", len(parse), 1) {
		return
	}
	for _, flag := range []string{"AllowSlashesInIdentityTemplates", "AllowWildcardsInIdentityTemplates"} {
		pat := `\.` + flag + `$`
		c.Cut(f, "templated policy expanded ("+flag+" consulted first)", parse,
			eng.Or(eng.G(f, pat, true), eng.G(f, pat, false)), nil)
	}
}
