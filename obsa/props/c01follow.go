package props

import (
	"go/types"
	"regexp"

	"golang.org/x/tools/go/ssa"

	"obsa/eng"
)

// Call location for C01 / C10 by what a call is, not how it is written
// (ROBUST.md). Built on the resolvers of c04follow.go (nfFuncValue, nfBody,
// nfOrigins, nfSites); what is added here is (a) one argument layout for the
// four spellings of a method call, so that a rule can index arguments without
// knowing the spelling, (b) "may" sites — calls through which an effect can
// happen, for rules that treat the effect as a sink — and (c) the bottom-up
// resolution of a closure / helper parameter to the arguments passed for it.

// kCall is a call with its target resolved and its arguments in the layout of
// the direct call: a concrete method has the receiver as Args[0] (also when
// called through a bound method value rv := x.M; rv(a)); an interface method
// has no receiver in Args (also through a bound method value) and carries the
// interface value in Recv; its Name is then eng's invoke name <pkg.Iface>.M.
type kCall struct {
	In     ssa.CallInstruction
	Name   string
	Args   []ssa.Value
	Recv   ssa.Value
	Method string // method name of an interface call, "" otherwise
}

func kCallOf(ci ssa.CallInstruction) kCall {
	cc := ci.Common()
	k := kCall{In: ci, Name: eng.CalleeName(cc), Args: cc.Args}
	if cc.IsInvoke() {
		k.Recv, k.Method = cc.Value, cc.Method.Name()
		return k
	}
	switch cc.Value.(type) {
	case *ssa.Function, *ssa.Builtin:
		return k
	}
	fn, mc := nfFuncValue(cc.Value)
	if fn == nil {
		return k
	}
	if mc == nil || !nfIsBoundWrapper(fn) || len(mc.Bindings) != 1 {
		// a call of a known closure / function value: named like the direct call
		if mc == nil {
			k.Name = eng.FuncName(fn)
		} else {
			k.Name = "closure:" + eng.FuncName(fn)
		}
		return k
	}
	recv := mc.Bindings[0]
	if m, ok := fn.Object().(*types.Func); ok && types.IsInterface(recv.Type()) {
		k.Name = "<" + eng.Short(types.TypeString(recv.Type(), nil)) + ">." + m.Name()
		k.Recv, k.Method = recv, m.Name()
		return k
	}
	nc := nfCallOf(ci)
	k.Name, k.Args = nc.Name, nc.Args
	return k
}

func kName(ci ssa.CallInstruction) string      { return kCallOf(ci).Name }
func kArgs(ci ssa.CallInstruction) []ssa.Value { return kCallOf(ci).Args }

// kRecv: the interface value an interface method is called on (invoke or bound).
func kRecv(ci ssa.CallInstruction) ssa.Value { return kCallOf(ci).Recv }

// kMethod: the method name of an interface call (invoke or bound), else "".
func kMethod(ci ssa.CallInstruction) string { return kCallOf(ci).Method }

// kCalls: the calls in f whose resolved target matches pat — eng.Calls plus
// calls through bound method values and through a local that holds a closure.
func kCalls(f *ssa.Function, pat string) []ssa.CallInstruction {
	re := regexp.MustCompile(pat)
	var out []ssa.CallInstruction
	if f == nil {
		return nil
	}
	for _, ci := range nfAllCalls(f) {
		if re.MatchString(kName(ci)) {
			out = append(out, ci)
		}
	}
	return out
}

// kMay is a call of the anchored function through which the effect may happen:
// the effect itself, or a call entering a closure of the same top-level
// function / a function of the same package that contains such a call.
type kMay struct {
	At   ssa.CallInstruction
	Effs []nfEff
}

func kMaySites(f *ssa.Function, pat string, depth int) []kMay {
	re := regexp.MustCompile(pat)
	return kMayBusy(f, nil, func(k kCall) bool { return re.MatchString(k.Name) }, depth, map[*ssa.Function]bool{})
}

func kMayBusy(f *ssa.Function, fr *nfFrame, is func(kCall) bool, depth int, busy map[*ssa.Function]bool) []kMay {
	var out []kMay
	if f == nil {
		return nil
	}
	busy[f] = true
	defer delete(busy, f)
	for _, ci := range nfAllCalls(f) {
		k := kCallOf(ci)
		if is(k) {
			out = append(out, kMay{At: ci, Effs: []nfEff{{Fn: f, Call: nfCall{In: ci, Name: k.Name, Args: k.Args, Recv: k.Recv}, Fr: fr}}})
			continue
		}
		if depth == 0 {
			continue
		}
		g := nfBody(ci, f)
		if g == nil || busy[g] {
			continue
		}
		inner := kMayBusy(g, &nfFrame{call: ci, up: fr}, is, depth-1, busy)
		if len(inner) == 0 {
			continue
		}
		m := kMay{At: ci}
		for _, i := range inner {
			m.Effs = append(m.Effs, i.Effs...)
		}
		out = append(out, m)
	}
	return out
}

func kMayAts(ms []kMay) []ssa.Instruction {
	var out []ssa.Instruction
	for _, m := range ms {
		out = append(out, m.At)
	}
	return out
}

func kMayEffs(ms []kMay) []nfEff {
	var out []nfEff
	seen := map[ssa.Instruction]bool{}
	for _, m := range ms {
		for _, e := range m.Effs {
			if !seen[e.Call.In] {
				seen[e.Call.In] = true
				out = append(out, e)
			}
		}
	}
	return out
}

// kArgAt is one argument passed for a parameter, with the function it stands in.
type kArgAt struct {
	Fn  *ssa.Function
	Val ssa.Value
}

// kParamArgs resolves parameter p of fn bottom-up: for a closure, the
// arguments at every call of it in the enclosing function (the closure value
// must not be used in any other way); for an unexported function or method
// that is never used as a value, the arguments at every static call of it in
// the program. ok is false when the uses cannot all be seen.
func kParamArgs(c *eng.Ctx, fn *ssa.Function, p *ssa.Parameter) ([]kArgAt, bool) {
	idx := -1
	for i, q := range fn.Params {
		if q == p {
			idx = i
		}
	}
	if idx < 0 {
		return nil, false
	}
	var out []kArgAt
	if parent := fn.Parent(); parent != nil {
		for _, b := range parent.Blocks {
			for _, in := range b.Instrs {
				mc, isMC := in.(*ssa.MakeClosure)
				if !isMC || mc.Fn != fn || mc.Referrers() == nil {
					continue
				}
				for _, r := range *mc.Referrers() {
					switch x := r.(type) {
					case ssa.CallInstruction:
						if x.Common().Value != ssa.Value(mc) {
							return nil, false // passed on as an argument
						}
					case *ssa.Store:
						if _, cell := x.Addr.(*ssa.Alloc); !cell || x.Val != ssa.Value(mc) {
							return nil, false
						}
					case *ssa.DebugRef:
					default:
						return nil, false
					}
				}
			}
		}
		fns := append([]*ssa.Function{parent}, eng.Closures(parent)...)
		for _, h := range fns {
			for _, ci := range nfAllCalls(h) {
				if ci.Common().IsInvoke() {
					continue
				}
				if g, _ := nfFuncValue(ci.Common().Value); g == fn && idx < len(ci.Common().Args) {
					out = append(out, kArgAt{h, ci.Common().Args[idx]})
				}
			}
		}
		return out, len(out) > 0
	}
	if fn.Object() == nil || fn.Object().Exported() || fn.Synthetic != "" {
		return nil, false
	}
	name := eng.FuncName(fn)
	if len(c.P.FuncValueUses(name)) > 0 {
		return nil, false
	}
	m, miss := c.P.StaticCallee(name)
	if len(miss) > 0 {
		return nil, false
	}
	for _, s := range c.P.FindCalls(m, nil) {
		if a := s.Call.Common().Args; idx < len(a) {
			out = append(out, kArgAt{s.Fn, a[idx]})
		}
	}
	return out, len(out) > 0
}

// kLiteralOf: the locally built struct an entry value denotes. When the value
// is a parameter of a closure / unexported helper it is followed to the single
// argument passed for it (two levels). decided is false when it is a parameter
// that cannot be followed: the rule cannot be evaluated.
func kLiteralOf(c *eng.Ctx, fn *ssa.Function, v ssa.Value) (*ssa.Function, ssa.Value, bool) {
	for depth := 0; depth < 2; depth++ {
		p, isParam := v.(*ssa.Parameter)
		if !isParam {
			return fn, v, true
		}
		args, ok := kParamArgs(c, fn, p)
		if !ok || len(args) != 1 {
			return fn, v, false
		}
		fn, v = args[0].Fn, args[0].Val
	}
	_, isParam := v.(*ssa.Parameter)
	return fn, v, !isParam
}

// kBoundIfaceCalls: the calls, anywhere in the program, of an interface method
// through a bound method value (rv := x.M; rv(a)) whose invoke name matches
// pat. Program-wide scans by method identity (Prog.FindCalls) see invokes only;
// rules that table "who calls this interface method" add these sites.
func kBoundIfaceCalls(c *eng.Ctx, keep func(fn *ssa.Function) bool, pat string) []eng.CallSite {
	re := regexp.MustCompile(pat)
	var out []eng.CallSite
	for _, f := range c.P.Funcs {
		if keep != nil && !keep(f) {
			continue
		}
		for _, ci := range nfAllCalls(f) {
			if ci.Common().IsInvoke() {
				continue
			}
			if k := kCallOf(ci); k.Method != "" && re.MatchString(k.Name) {
				out = append(out, eng.CallSite{Fn: f, Call: ci})
			}
		}
	}
	return out
}

// kCutEffects (R2 for an effect that may sit in a closure / helper): each
// effect must lie behind the success edge of a call matching guardPat. The
// rule is evaluated in the innermost function of the effect's call chain (the
// function the effect stands in, then its callers up to the anchored function
// f) that contains such a guard call; the sink there is the instruction through
// which the effect happens. When no function of the chain contains the guard
// the obligation is undecided (the guard moved out of sight).
func kCutEffects(c *eng.Ctx, f *ssa.Function, sinkDesc string, effs []nfEff, guardPat string) bool {
	okAll := true
	type job struct {
		h     *ssa.Function
		sinks []ssa.Instruction
	}
	var jobs []*job
	for _, e := range effs {
		chain := []*ssa.Function{e.Fn}
		for fr := e.Fr; fr != nil && fr.call != nil; fr = fr.up {
			chain = append(chain, fr.call.Parent())
		}
		var at *ssa.Function
		for _, h := range chain {
			if len(nfPlain(nfSites(h, guardPat))) > 0 {
				at = h
				break
			}
		}
		if at == nil {
			c.Undecided(f, "sink{"+sinkDesc+"} guard{success edge of "+guardPat+"}", e.Call.In.Pos(), "no function on the call chain of the effect calls "+guardPat+" (moved? the rule cannot be evaluated)")
			okAll = false
			continue
		}
		var j *job
		for _, x := range jobs {
			if x.h == at {
				j = x
			}
		}
		if j == nil {
			j = &job{h: at}
			jobs = append(jobs, j)
		}
		j.sinks = append(j.sinks, nfChainInstr(e, at))
	}
	for _, j := range jobs {
		if !c.Cut(j.h, sinkDesc, j.sinks, nfGCallOK(j.h, guardPat), nil) {
			okAll = false
		}
	}
	return okAll
}

// kReturnsField: call v enters a closure / same-package function all of whose
// returns yield (as result 0) a read of field fv, through whatever alias.
func kReturnsField(v ssa.Value, fv *types.Var) bool {
	cl, ok := v.(*ssa.Call)
	if !ok || fv == nil {
		return false
	}
	g := nfBody(cl, cl.Parent())
	if g == nil || g.Signature.Results().Len() != 1 {
		return false
	}
	fr := &nfFrame{call: cl}
	n := 0
	for _, r := range eng.Returns(g) {
		if r.Block().Comment == "recover" {
			continue
		}
		vals, _, escaped := eng.ReturnVals(r, 0)
		if escaped || len(vals) == 0 {
			return false
		}
		for _, x := range vals {
			n++
			if !nfIsField(x, fr, fv) {
				return false
			}
		}
	}
	return n > 0
}

// kFieldFalseEdges: the edges on which a bool field was found false through a
// call that returns it (isSealed := func() bool { ...; return b.sealed }).
func kFieldFalseEdges(f *ssa.Function, fv *types.Var) []eng.Edge {
	var out []eng.Edge
	for _, b := range f.Blocks {
		ifi := eng.IfOf(b)
		if ifi == nil {
			continue
		}
		nc := eng.Normalize(ifi.Cond)
		if !kReturnsField(nc.Val, fv) {
			continue
		}
		succ := 0 // base value false
		if nc.Pol {
			succ = 1
		}
		out = append(out, eng.Edge{From: b, Succ: succ})
	}
	return out
}
