package props

import (
	"fmt"
	"go/token"
	"go/types"
	"sort"
	"strings"

	"golang.org/x/tools/go/ssa"

	"obsa/eng"
)

// ---------------------------------------------------------------------------
// C20.3 threshold accounting at every reconstruction

const (
	c20RecCfg = `^call:<vault\.Seal>\.RecoveryConfig#0$`
	c20BarCfg = `^call:<vault\.Seal>\.BarrierConfig#0$`
)

// who may reconstruct, and where the threshold they compare against must come from.
// "self" = the configuration whose own progress slice is being combined (verification of freshly issued shares).
var c20Combiners = map[string]struct {
	why    string
	thr    []string // allowed origins of the configuration T in len(P) >= T.SecretThreshold; nil = self
	lock   string   // lock (receiver rendering) held by the function itself; "" = held by the callers below
	method string
}{
	"vault.(*SealManager).getUnsealKey":      {"unseal (root and namespaces)", []string{c20RecCfg, c20BarCfg, `^field:.*\.leaderBarrierConfig$`}, "", ""},
	"vault.(*Core).BarrierRekeyUpdate":       {"legacy barrier rekey", []string{c20RecCfg, c20BarCfg}, `^c\.rotationLock$`, "Lock"},
	"vault.(*Core).RecoveryRekeyUpdate":      {"legacy recovery rekey", []string{c20RecCfg}, `^c\.rotationLock$`, "Lock"},
	"vault.(*Core).RekeyVerify":              {"legacy rekey verification", nil, `^c\.rotationLock$`, "Lock"},
	"vault.(*Core).lockedGenerateRootUpdate": {"root token generation", []string{c20RecCfg, c20BarCfg}, `^c\.namespaceRootGenLock$`, "Lock"},
	"vault.(*SealManager).progressRotation":  {"key rotation", []string{`^param:existingConfig$`}, "", ""},
	"vault.(*SealManager).VerifyRotation":    {"key rotation verification", nil, `^sm\.lock$`, "Lock"},
}

// helpers that rely on their callers' lock: helper -> caller -> lock receiver rendering
var c20LockedCallers = map[string]map[string]string{
	"vault.(*SealManager).progressRotation": {"vault.(*SealManager).UpdateRotation": `^sm\.lock$`},
	"vault.(*SealManager).getUnsealKey":     {"vault.(*SealManager).unsealFragment": ""},
	"vault.(*SealManager).recordUnsealPart": {"vault.(*SealManager).unsealFragment": ""},
	"vault.(*SealManager).unsealFragment":   {"vault.(*SealManager).UnsealNamespace": `^sm\.lock$`, "vault.(*Core).unsealFragment": `^c\.stateLock$`},
}

func c20Threshold(c *eng.Ctx) {
	thrField := c.P.Field("vault.SealConfig.SecretThreshold")
	if thrField == nil {
		c.Unresolved("vault.SealConfig.SecretThreshold")
		return
	}
	m := mustStatic(c, "shamir.Combine")
	sites := c.P.FindCalls(m, func(fn *ssa.Function) bool { return !eng.InPkg(fn, "shamir") })
	// A function that is not a tabled combiner and hands one of its own
	// parameters to shamir.Combine is a forwarder (the reconstruction extracted
	// into a helper): the threshold accounting is then owed by its call sites,
	// with the argument bound to that parameter as the progress slice.
	argIdx := map[ssa.CallInstruction]int{}
	fwdField := map[ssa.CallInstruction]*ssa.FieldAddr{} // the progress field read off the forwarder's (struct) parameter
	{
		var expanded []eng.CallSite
		for _, s := range sites {
			fw := eng.TopFunc(s.Fn)
			a0 := s.Call.Common().Args[0]
			par, isPar := a0.(*ssa.Parameter)
			var fa *ssa.FieldAddr
			if !isPar {
				// shamir.Combine(cfg.Progress) with cfg a parameter of the helper
				if x, ok := c20FieldLoad(a0); ok {
					base := c20Strip(x.X)
					if ld := c20Load(base); ld != nil {
						base = ld
					}
					if pp, ok := base.(*ssa.Parameter); ok {
						par, isPar, fa = pp, true, x
					}
				}
			}
			if _, tabled := c20Combiners[eng.FuncName(fw)]; tabled || !isPar || fw != s.Fn || !eng.InPkg(fw, "vault") {
				expanded = append(expanded, s)
				continue
			}
			idx := -1
			for i, p := range fw.Params {
				if p == par {
					idx = i
				}
			}
			fm, _ := c.P.StaticCallee(eng.FuncName(fw))
			cs := c.P.FindCalls(fm, nil)
			if idx < 0 || len(cs) == 0 || !c20Forwarder(c, fw, s.Call, idx, fa, cs, thrField) {
				expanded = append(expanded, s)
				continue
			}
			for _, cc := range cs {
				argIdx[cc.Call] = idx
				if fa != nil {
					fwdField[cc.Call] = fa
				}
				expanded = append(expanded, cc)
			}
		}
		sites = expanded
	}
	c.Clause("R1", "C20.3a")
	tbl := map[string]string{}
	for k, v := range c20Combiners {
		tbl[k] = v.why
	}
	c.CallerTable("shamir.Combine", sites, tbl, 7)
	if uses := c.P.FuncValueUses("shamir.Combine", "shamir.Split"); len(uses) > 0 {
		for _, u := range uses {
			c.Violation(eng.TopFunc(u.Fn), "callers{shamir.Combine as value}", u.Fn.Pos(), "shamir.Combine/Split is taken as a function value: its callers are no longer enumerable", nil)
		}
	}

	progress := map[*types.Var]bool{}
	for _, s := range sites {
		f := s.Fn
		name := eng.FuncName(eng.TopFunc(f))
		spec := c20Combiners[name]
		call := s.Call
		arg := call.Common().Args[argIdx[call]]
		P := eng.ExprDeep(arg)
		pfa, isField := c20FieldLoad(arg)
		if fa := fwdField[call]; fa != nil {
			// the helper combines <its parameter>.<field>: here that is <arg>.<field>
			pfa, isField = fa, true
			P = eng.ExprDeep(arg) + "." + eng.FieldVar(fa).Name()
		}
		c.Clause("R5", "C20.3b")
		if !isField || c20HasEllipsis(P) {
			c.Violation(f, "combined slice is a progress field", call.Pos(), "the argument of shamir.Combine is not a load of a struct field (or renders too deep to compare): "+P, nil)
			continue
		}
		pv := eng.FieldVar(pfa)
		progress[pv] = true
		c.OK(f, "combined slice is a progress field", call.Pos(), "shamir.Combine("+P+"), field "+pv.Name())

		// sinks: the reconstruction and the threshold-1 shortcut P[0]
		var shortcut []ssa.Instruction
		for _, in := range eng.Instrs(f, func(in ssa.Instruction) bool { _, ok := in.(*ssa.IndexAddr); return ok }) {
			ia := in.(*ssa.IndexAddr)
			if c20ConstInt(ia.Index, 0) && eng.ExprDeep(ia.X) == P {
				shortcut = append(shortcut, in)
			}
		}
		// threshold guards: len(P) < T.SecretThreshold
		var enough []eng.Edge
		var Ts []ssa.Value
		for _, b := range f.Blocks {
			ifi := eng.IfOf(b)
			if ifi == nil {
				continue
			}
			lo, hi, ok := c20Less(ifi)
			if !ok {
				continue
			}
			ln := c20StaticCall(lo, "len")
			tfa, isT := c20FieldLoad(hi)
			if ln == nil || !isT || eng.ExprDeep(ln.Call.Args[0]) != P {
				continue
			}
			if fv := eng.FieldVar(tfa); fv != thrField {
				continue
			}
			enough = append(enough, c20BaseEdge(ifi, false))
			Ts = append(Ts, tfa.X)
		}
		c.Clause("R2", "C20.3b")
		g := eng.Guard{Desc: "[len(" + P + ") < T.SecretThreshold]=false", Edges: enough}
		c.Cut(f, "shamir.Combine("+P+")", []ssa.Instruction{call}, g, nil)
		if len(shortcut) > 0 {
			c.Cut(f, "threshold-1 shortcut "+P+"[0]", shortcut, g, nil)
		}
		if len(Ts) == 0 {
			continue
		}
		T := eng.ExprDeep(Ts[0])
		// the shortcut only for threshold 1, of the same configuration
		if len(shortcut) > 0 {
			var isOne []eng.Edge
			for _, b := range f.Blocks {
				ifi := eng.IfOf(b)
				if ifi == nil {
					continue
				}
				x, y, ok := c20Eq(ifi)
				if !ok || !c20ConstInt(y, 1) {
					continue
				}
				if tfa, isT := c20FieldLoad(x); isT && eng.FieldVar(tfa) == thrField && eng.ExprDeep(tfa.X) == T {
					isOne = append(isOne, c20BaseEdge(ifi, true))
				}
			}
			c.Cut(f, "threshold-1 shortcut "+P+"[0]", shortcut, eng.Guard{Desc: "[T.SecretThreshold == 1]=true", Edges: isOne}, nil)
		}
		// provenance of T
		c.Clause("R5", "C20.3c")
		for _, tv := range Ts {
			if spec.thr == nil {
				site := "threshold belongs to the configuration under verification"
				if P == eng.ExprDeep(tv)+"."+pv.Name() {
					c.OK(f, site, call.Pos(), "len(X."+pv.Name()+") is compared with X.SecretThreshold of the same X = "+eng.ExprDeep(tv))
				} else {
					c.Violation(f, site, call.Pos(), "shares collected in "+P+" are counted against the threshold of a different configuration: "+eng.ExprDeep(tv), nil)
				}
				continue
			}
			c.Prov(f, "configuration whose threshold gates reconstruction", call, tv, spec.thr...)
			c20ArmConfig(c, f, call, tv)
			// parameters: check what the callers pass
			for _, o := range eng.Origins(tv) {
				par, ok := o.Val.(*ssa.Parameter)
				if !ok {
					continue
				}
				idx := -1
				for i, p := range f.Params {
					if p == par {
						idx = i
					}
				}
				pm, _ := c.P.StaticCallee(name)
				cs := c.P.FindCalls(pm, nil)
				c.Floor(f, "callers passing the threshold configuration", len(cs), 1)
				for _, cc := range cs {
					c.Prov(cc.Fn, "configuration passed as "+eng.VarName(par), cc.Call, cc.Call.Common().Args[idx], c20RecCfg, c20BarCfg)
				}
			}
		}
		// error handling
		c.Clause("R11", "C20.3d")
		c.ErrChecked(f, call)
		c.Clause("R4", "C20.3d")
		c.NilResultOnEdges(f, "shamir.Combine failed", eng.CallFailEdges(call), 0, "key/result")
	}
	c.Floor(nil, "distinct progress fields combined", len(progress), 4)

	// ---- every write of a progress field: nil, or an accounted append
	var pvs []*types.Var
	for pv := range progress {
		pvs = append(pvs, pv)
	}
	sort.Slice(pvs, func(i, j int) bool { return pvs[i].Pos() < pvs[j].Pos() })
	nApp := 0
	appendFns := map[*ssa.Function]bool{}
	for _, pv := range pvs {
		for _, w := range c.P.FieldWriters(pv) {
			f := w.Fn
			c.Clause("R6", "C20.3e")
			site := "write of " + pv.Name()
			if eng.IsNilConst(w.Store.Val) {
				c.OK(f, site, w.Store.Pos(), "progress reset to nil")
				continue
			}
			app := c20StaticCall(w.Store.Val, "append")
			if app == nil {
				c.Violation(f, site, w.Store.Pos(), "a share-progress slice is assigned something other than nil or append(progress, share): "+eng.ExprDeep(w.Store.Val), nil)
				continue
			}
			nApp++
			appendFns[f] = true
			c20AccountedAppend(c, f, pv, w, app)
		}
	}
	c.Floor(nil, "accounted appends to progress slices", nApp, 7)

	// ---- locks
	c.Clause("R9", "C20.3g")
	held := func(f *ssa.Function, pat, method string) eng.HeldFunc {
		return eng.MustHold(f, eng.LockCall(pat, method), eng.LockCall(pat, "Unlock"))
	}
	check := func(f *ssa.Function, h eng.HeldFunc, in ssa.Instruction, what, lock string) {
		if h(in) {
			c.OK(f, "locked{"+what+"}", in.Pos(), "executes with "+lock+" held on every path")
		} else {
			c.Violation(f, "locked{"+what+"}", in.Pos(), "reachable without holding "+lock+": two concurrent submissions could both pass the duplicate check or combine a half-updated slice", nil)
		}
	}
	var names []string
	for n := range c20Combiners {
		names = append(names, n)
	}
	sort.Strings(names)
	for _, n := range names {
		spec := c20Combiners[n]
		if spec.lock == "" {
			continue
		}
		f := c.P.Func(n)
		if f == nil {
			continue
		}
		h := held(f, spec.lock, spec.method)
		for _, st := range sites {
			if eng.TopFunc(st.Fn) == f && st.Fn == f {
				check(f, h, st.Call, "shamir.Combine", spec.lock)
			}
		}
		for _, pv := range pvs {
			for _, w := range c.P.FieldWriters(pv) {
				if w.Fn == f && !eng.IsNilConst(w.Store.Val) {
					check(f, h, w.Store, "append to "+pv.Name(), spec.lock)
				}
			}
		}
	}
	var helpers []string
	for n := range c20LockedCallers {
		helpers = append(helpers, n)
	}
	sort.Strings(helpers)
	for _, hn := range helpers {
		callers := c20LockedCallers[hn]
		pm := mustStatic(c, hn)
		cs := c.P.FindCalls(pm, nil)
		c.Clause("R1", "C20.3g")
		t := map[string]string{}
		for cn, l := range callers {
			if l == "" {
				t[cn] = "lock held by its own callers (tabled separately)"
			} else {
				t[cn] = "holds " + l
			}
		}
		c.CallerTable(hn, cs, t, 1)
		c.Clause("R9", "C20.3g")
		for _, cc := range cs {
			l := callers[eng.FuncName(eng.TopFunc(cc.Fn))]
			if l == "" {
				continue
			}
			check(cc.Fn, held(cc.Fn, l, "Lock"), cc.Call, "call of "+hn, l)
		}
	}
}

// c20ArmConfig (R7, C20.3c): a function that may count the supplied shares
// against either the recovery or the barrier configuration chooses by
// seal.RecoveryKeySupported(): the shares handed to a seal with recovery keys
// are recovery-key shares (the key rebuilt from them is checked with
// VerifyRecoveryKey under that same predicate), so the threshold configured for
// them is RecoveryConfig's; without recovery keys it is the barrier's (or the
// raft leader's barrier configuration). Decided path-sensitively: the phi that
// merges the candidate configurations is resolved with the predicate fixed.
func c20ArmConfig(c *eng.Ctx, f *ssa.Function, call ssa.CallInstruction, tv ssa.Value) {
	spec := c20Combiners[eng.FuncName(eng.TopFunc(f))]
	both := 0
	for _, p := range spec.thr {
		if p == c20RecCfg || p == c20BarCfg {
			both++
		}
	}
	if both < 2 {
		return // a single kind of configuration is allowed here: nothing to select
	}
	c.Clause("R7", "C20.3c")
	const pred = `\.RecoveryKeySupported\(\)$`
	site := "threshold configuration follows RecoveryKeySupported()"
	if len(eng.CondEdges(f, pred, true)) == 0 {
		c.Undecided(f, site, call.Pos(), "the function may use the recovery or the barrier configuration but no longer branches on RecoveryKeySupported()")
		return
	}
	isRec := func(v ssa.Value) bool {
		ex, ok := v.(*ssa.Extract)
		if !ok || ex.Index != 0 {
			return false
		}
		cl, ok := ex.Tuple.(*ssa.Call)
		return ok && strings.HasSuffix(eng.CalleeName(&cl.Call), ".RecoveryConfig")
	}
	render := func(rs []ssa.Value) string {
		var out []string
		for _, r := range rs {
			out = append(out, eng.Expr(r))
		}
		return strings.Join(out, ", ")
	}
	with := eng.Roots(tv, eng.Feasible(f, map[string]bool{pred: true}))
	without := eng.Roots(tv, eng.Feasible(f, map[string]bool{pred: false}))
	if len(with) == 0 || len(without) == 0 {
		c.Undecided(f, site, call.Pos(), "the configuration could not be resolved on one of the two arms")
		return
	}
	for _, r := range with {
		if !isRec(r) {
			c.Violation(f, site, call.Pos(), "with recovery keys supported the supplied (recovery-key) shares are counted against "+render(with)+", not the recovery configuration: the gate opens at the wrong threshold (an auto-seal's barrier configuration has threshold 1)", nil)
			return
		}
	}
	for _, r := range without {
		if isRec(r) {
			c.Violation(f, site, call.Pos(), "without recovery keys the supplied unseal shares are counted against the recovery configuration ("+render(without)+")", nil)
			return
		}
	}
	c.OK(f, site, call.Pos(), "RecoveryKeySupported: "+render(with)+"; otherwise: "+render(without))
}

// c20AccountedAppend: store X.f = append(X.f, share) is behind a loop over the same X.f that compares
// every recorded share with `share` and refuses a match.
func c20AccountedAppend(c *eng.Ctx, f *ssa.Function, pv *types.Var, w eng.FieldStore, app *ssa.Call) {
	st := w.Store
	site := "append to " + pv.Name()
	c.Clause("R5", "C20.3e")
	// append(X.f, share) back into X.f
	src, isF := c20FieldLoad(app.Call.Args[0])
	vals := c20Appended(app)
	switch {
	case !isF || eng.FieldVar(src) != pv || eng.ExprDeep(src) != eng.ExprDeep(w.Addr):
		c.Violation(f, site+" extends the same slice", st.Pos(), eng.ExprDeep(w.Addr)+" = append("+eng.ExprDeep(app.Call.Args[0])+", ..): the slice extended is not the slice assigned", nil)
		return
	case len(vals) != 1:
		c.Violation(f, site+" adds exactly one share", st.Pos(), "the append does not add exactly one value", nil)
		return
	}
	share := vals[0]
	if _, isParam := share.(*ssa.Parameter); !isParam {
		c.Violation(f, site+" adds the submitted share", st.Pos(), "the appended value is "+eng.ExprDeep(share)+", not the key parameter", nil)
		return
	}
	c.OK(f, site+" extends the same slice by the submitted share", st.Pos(), eng.ExprDeep(w.Addr)+" = append(same, "+eng.ExprDeep(share)+")")

	// alternatives of the base: a freshly allocated record has no shares yet
	type alt struct {
		p     string
		fresh []eng.Edge
	}
	var alts []string
	var freshEdges []eng.Edge
	base := w.Addr.X
	if phi, ok := base.(*ssa.Phi); ok {
		for i, e := range phi.Edges {
			if a, isAlloc := e.(*ssa.Alloc); isAlloc && len(eng.StructLitField(a, pv.Name())) == 0 {
				pred := phi.Block().Preds[i]
				for si, s := range pred.Succs {
					if s == phi.Block() {
						freshEdges = append(freshEdges, eng.Edge{From: pred, Succ: si})
					}
				}
				continue
			}
			alts = append(alts, eng.ExprDeep(e)+"."+pv.Name())
		}
	} else {
		alts = append(alts, eng.ExprDeep(w.Addr))
	}
	_ = alt{}
	// the slice scanned for an already-recorded share is the slice the share is appended to:
	// every comparison of the submitted share with an element X[k] of a slice field reads the
	// same field of the same record (a scan over another progress slice of the record finds
	// nothing, and repeated shares count towards the threshold)
	{
		c.Clause("R7", "C20.3f")
		ssite := "distinct-share scan ranges over the slice the share is appended to"
		n, bad := 0, false
		for _, cl := range eng.Calls(f, `^(crypto/subtle\.ConstantTimeCompare|bytes\.Equal)$`) {
			cv, ok := cl.(*ssa.Call)
			if !ok || len(cv.Call.Args) != 2 {
				continue
			}
			for k := 0; k < 2; k++ {
				if cv.Call.Args[1-k] != share {
					continue
				}
				x, _, ok := c20ElemLoad(cv.Call.Args[k])
				if !ok {
					continue
				}
				xfa, isField := c20FieldLoad(x)
				if !isField {
					continue
				}
				n++
				same := eng.FieldVar(xfa) == pv
				if same {
					same = false
					for _, P := range alts {
						same = same || eng.ExprDeep(x) == P
					}
				}
				if !same && !bad {
					bad = true
					c.Violation(f, ssite, cv.Pos(), "the submitted share is compared with the elements of "+eng.ExprDeep(x)+" but appended to "+eng.ExprDeep(w.Addr)+": the scan looks at another slice (empty or unrelated at this point), so a share that was already recorded is accepted again and counts towards the threshold", nil)
				}
			}
		}
		if n > 0 && !bad {
			c.OK(f, ssite, st.Pos(), fmt.Sprintf("%d comparison(s) of the submitted share, all with elements of %s", n, eng.ExprDeep(w.Addr)))
		}
	}
	for _, P := range alts {
		c.Clause("R2", "C20.3f")
		dsite := "distinct-share check before append to " + P
		if c20HasEllipsis(P) {
			c.Undecided(f, dsite, st.Pos(), "slice expression renders too deep to compare: "+P)
			continue
		}
		loops := c20LoopsOver(f, P, false)
		if len(loops) == 0 {
			// The property needs "threshold of DISTINCT shares". Distinctness is enforced twice in this code base:
			// at recording time (the loop looked for here) and, for every reconstruction, by shamir.Combine's
			// duplicate-x rejection (clause C20.2d, checked separately). Where the recording-time loop is missing
			// the second mechanism still decides the property, so this is recorded as an observation, not a violation.
			if comb := c.P.Func("shamir.Combine"); comb != nil && len(eng.CondEdges(comb, `^makemap\[.*\](#1)?$`, false)) > 0 {
				c.Notes = append(c.Notes, "observation (not a property violation): "+eng.FuncName(f)+" appends to "+P+" without comparing the new share with the shares already recorded in that slice; a repeated share then counts towards the threshold and is only refused by shamir.Combine's duplicate-x check (the attempt fails instead of being answered 'already provided')")
				c.OK(f, dsite+" [by Combine]", st.Pos(), "no recording-time comparison over "+P+"; distinctness of the shares is enforced by shamir.Combine's duplicate-x rejection (C20.2d)")
				continue
			}
			c.Violation(f, dsite, st.Pos(), "no loop over "+P+" precedes the append and shamir.Combine no longer rejects duplicate x-coordinates: a repeated share counts towards the threshold", nil)
			continue
		}
		// comparisons of P[k] with the share
		isCmp := func(cl *ssa.Call) bool {
			n := eng.CalleeName(&cl.Call)
			if (n != "crypto/subtle.ConstantTimeCompare" && n != "bytes.Equal") || len(cl.Call.Args) != 2 {
				return false
			}
			for k := 0; k < 2; k++ {
				if x, _, ok := c20ElemLoad(cl.Call.Args[k]); ok && eng.ExprDeep(x) == P && cl.Call.Args[1-k] == share {
					return true
				}
			}
			return false
		}
		var cmps []ssa.Instruction
		for _, cl := range eng.Calls(f, `^(crypto/subtle\.ConstantTimeCompare|bytes\.Equal)$`) {
			if cv, ok := cl.(*ssa.Call); ok && isCmp(cv) {
				cmps = append(cmps, cv)
			}
		}
		// branches that test "some recorded share equals the new one"
		atom := func(v ssa.Value) bool {
			v = c20Strip(v)
			if cl, ok := v.(*ssa.Call); ok {
				return eng.CalleeName(&cl.Call) == "bytes.Equal" && isCmp(cl)
			}
			if bo, ok := v.(*ssa.BinOp); ok && bo.Op == token.EQL {
				for k, o := range []ssa.Value{bo.X, bo.Y} {
					other := bo.Y
					if k == 1 {
						other = bo.X
					}
					if cl, ok := c20Strip(o).(*ssa.Call); ok && isCmp(cl) && c20ConstInt(other, 1) {
						return true
					}
				}
			}
			return false
		}
		var dupTest func(v ssa.Value, seen map[ssa.Value]bool) (ok bool, n int)
		dupTest = func(v ssa.Value, seen map[ssa.Value]bool) (bool, int) {
			if seen[v] {
				return true, 0
			}
			seen[v] = true
			if atom(v) {
				return true, 1
			}
			switch x := v.(type) {
			case *ssa.Const:
				s := eng.Expr(x)
				return s == "true" || s == "false", 0
			case *ssa.Phi:
				n := 0
				for _, e := range x.Edges {
					ok, k := dupTest(e, seen)
					if !ok {
						return false, 0
					}
					n += k
				}
				return true, n
			}
			return false, 0
		}
		var notDup, isDup []eng.Edge
		for _, b := range f.Blocks {
			ifi := eng.IfOf(b)
			if ifi == nil {
				continue
			}
			nc := eng.Normalize(ifi.Cond)
			v := nc.Val
			if bo, ok := v.(*ssa.BinOp); ok && bo.Op == token.NEQ {
				// x != 1 normalises to base "x == 1" with flipped polarity: test the equality atom
				eq := false
				for k, o := range []ssa.Value{bo.X, bo.Y} {
					other := bo.Y
					if k == 1 {
						other = bo.X
					}
					if cl, ok := c20Strip(o).(*ssa.Call); ok && isCmp(cl) && c20ConstInt(other, 1) {
						eq = true
					}
				}
				if eq {
					notDup = append(notDup, c20BaseEdge(ifi, false))
					isDup = append(isDup, c20BaseEdge(ifi, true))
				}
				continue
			}
			if ok, n := dupTest(v, map[ssa.Value]bool{}); ok && n > 0 {
				notDup = append(notDup, c20BaseEdge(ifi, false))
				isDup = append(isDup, c20BaseEdge(ifi, true))
			}
		}
		okAll := true
		var exits []eng.Edge
		for _, l := range loops {
			exits = append(exits, l.exit)
		}
		exits = append(exits, freshEdges...)
		c.Cut(f, "append to "+P, []ssa.Instruction{st}, eng.Guard{Desc: "exit of a loop over " + P + " (or a freshly allocated record)", Edges: exits}, nil)
		for _, l := range loops {
			if len(cmps) == 0 {
				c.Violation(f, dsite, st.Pos(), "the loop over "+P+" never compares an element of "+P+" with the submitted share (subtle.ConstantTimeCompare / bytes.Equal)", nil)
				okAll = false
				break
			}
			// (an iteration may skip the comparison only on an edge on which a match was already found)
			if h := c20EveryIteration(f, l, isDup, cmps); h != nil {
				c.Violation(f, dsite, h.Instr.Pos(), "an iteration over "+P+" can complete without comparing the recorded share with the new one", h.Witness)
				okAll = false
				break
			}
			inLoop := c20EveryIteration(f, l, notDup, nil)
			afterLoop := eng.Reach(eng.Query{Fn: f, StartEdges: []eng.Edge{l.exit}, Blocked: notDup, Target: func(in ssa.Instruction) bool { return in == ssa.Instruction(st) }})
			if inLoop != nil && afterLoop != nil {
				c.Violation(f, dsite, afterLoop.Instr.Pos(), "the comparison's outcome is not honoured: the append is reachable without crossing a not-equal edge, neither per iteration nor after the loop", afterLoop.Witness)
				okAll = false
				break
			}
		}
		// a match, once found, stays found: the loop-carried flag may take a comparison's outcome only on
		// paths on which it was still false (seed C20-b: `found = found || cmp` -> `found = cmp` compares the
		// new share with the LAST recorded one only)
		for _, l := range loops {
			for _, in := range l.head.Instrs {
				flag, ok := in.(*ssa.Phi)
				if !ok {
					continue
				}
				if bt, ok := flag.Type().Underlying().(*types.Basic); !ok || bt.Kind() != types.Bool {
					continue
				}
				for i, e := range flag.Edges {
					if !l.set[l.head.Preds[i]] {
						continue // entry edge
					}
					ssite := "a match stays found across the loop over " + P
					if h := c20StickyFlag(f, l, flag, e, l.head.Preds[i], atom, 0); h != "" {
						c.Violation(f, ssite, flag.Pos(), "the match flag is overwritten by each comparison ("+h+"): only the last recorded share is compared with the new one, an earlier duplicate is accepted and counts towards the threshold", nil)
						okAll = false
					} else {
						c.OK(f, ssite, flag.Pos(), "the flag takes a comparison's outcome only while it is still false")
					}
				}
			}
		}
		if okAll {
			c.OK(f, dsite, st.Pos(), "every recorded share is compared with the new one and a match never reaches the append")
		}
	}
}

// c20StickyFlag checks the value v carried into the loop header (from block
// pred) for the boolean match flag `flag`: it must be `true`, the flag itself,
// or a comparison outcome that is only reachable while the flag was false.
// Returns "" if so, else a description of the offending value.
func c20StickyFlag(f *ssa.Function, l c20Loop, flag *ssa.Phi, v ssa.Value, pred *ssa.BasicBlock, atom func(ssa.Value) bool, d int) string {
	if d > 6 {
		return "value too deep: " + eng.Expr(v)
	}
	if v == ssa.Value(flag) {
		return ""
	}
	if cst, ok := v.(*ssa.Const); ok {
		if eng.Expr(cst) == "true" {
			return ""
		}
		return "reset to " + eng.Expr(cst)
	}
	if phi, ok := v.(*ssa.Phi); ok && phi != flag {
		for i, e := range phi.Edges {
			if h := c20StickyFlag(f, l, flag, e, phi.Block().Preds[i], atom, d+1); h != "" {
				return h
			}
		}
		return ""
	}
	{
		// a computed outcome: the block it arrives from must lie behind "flag == false"
		falseEdges := eng.BoolEdges(flag, false)
		if len(falseEdges) == 0 {
			return eng.Expr(v) + " assigned without testing the flag"
		}
		target := func(in ssa.Instruction) bool { return in.Block() == pred }
		if eng.Reach(eng.Query{Fn: f, StartEdges: []eng.Edge{l.body}, Blocked: falseEdges, Target: target}) != nil {
			return eng.Expr(v) + " assigned on a path on which the flag may already be true"
		}
		return ""
	}
}

// c20Forwarder checks the body of a helper fw that passes its parameter #idx
// to shamir.Combine (call comb): Combine's error is checked and a failure
// returns no key; a threshold-1 shortcut reading parameter[0] is behind
// [t == 1] for an integer parameter t of fw, and every call site binds t to
// the SecretThreshold of a configuration. Returns false (after recording why)
// if the helper cannot be treated as a transparent forwarder.
func c20Forwarder(c *eng.Ctx, fw *ssa.Function, comb ssa.CallInstruction, idx int, fa *ssa.FieldAddr, callers []eng.CallSite, thrField *types.Var) bool {
	par := fw.Params[idx]
	// is v the progress slice the helper combines (its parameter, or the field of its struct parameter)?
	isP := func(v ssa.Value) bool {
		if fa == nil {
			return c20Strip(v) == ssa.Value(par)
		}
		x, ok := c20FieldLoad(v)
		if !ok || eng.FieldVar(x) != eng.FieldVar(fa) {
			return false
		}
		base := c20Strip(x.X)
		if ld := c20Load(base); ld != nil {
			base = ld
		}
		return base == ssa.Value(par)
	}
	c.Clause("R11", "C20.3d")
	c.ErrChecked(fw, comb)
	c.Clause("R4", "C20.3d")
	c.NilResultOnEdges(fw, "shamir.Combine failed", eng.CallFailEdges(comb), 0, "key/result")
	var shortcut []ssa.Instruction
	for _, in := range eng.Instrs(fw, func(in ssa.Instruction) bool { _, ok := in.(*ssa.IndexAddr); return ok }) {
		ia := in.(*ssa.IndexAddr)
		if c20ConstInt(ia.Index, 0) && isP(ia.X) {
			shortcut = append(shortcut, in)
		}
	}
	if len(shortcut) == 0 {
		return true
	}
	c.Clause("R2", "C20.3b")
	what := eng.VarName(par)
	if fa != nil {
		what += "." + eng.FieldVar(fa).Name()
	}
	site := "threshold-1 shortcut " + what + "[0] in the forwarder"
	var isOne []eng.Edge
	tIdx := -1
	desc := ""
	for _, b := range fw.Blocks {
		ifi := eng.IfOf(b)
		if ifi == nil {
			continue
		}
		x, y, ok := c20Eq(ifi)
		if !ok || !c20ConstInt(y, 1) {
			continue
		}
		if fa != nil {
			// <same struct parameter>.SecretThreshold == 1
			if tfa, isT := c20FieldLoad(x); isT && eng.FieldVar(tfa) == thrField {
				base := c20Strip(tfa.X)
				if ld := c20Load(base); ld != nil {
					base = ld
				}
				if base == ssa.Value(par) {
					isOne = append(isOne, c20BaseEdge(ifi, true))
					desc = eng.VarName(par) + ".SecretThreshold"
				}
			}
			continue
		}
		for i, p := range fw.Params {
			if c20Strip(x) == ssa.Value(p) {
				tIdx = i
				isOne = append(isOne, c20BaseEdge(ifi, true))
				desc = eng.VarName(p)
			}
		}
	}
	if len(isOne) == 0 {
		c.Undecided(fw, site, shortcut[0].Pos(), "the helper reads "+what+"[0] without testing the threshold against 1: the rule cannot tell which threshold the shortcut belongs to")
		return false
	}
	c.Cut(fw, "threshold-1 shortcut "+what+"[0]", shortcut, eng.Guard{Desc: "[" + desc + " == 1]=true", Edges: isOne}, nil)
	if fa != nil {
		return true // the threshold is read off the same configuration the progress belongs to
	}
	c.Clause("R5", "C20.3b")
	for _, cc := range callers {
		tfa, isT := c20FieldLoad(cc.Call.Common().Args[tIdx])
		if isT && eng.FieldVar(tfa) == thrField {
			c.OK(cc.Fn, "threshold handed to "+eng.FuncName(fw), cc.Call.Pos(), eng.ExprDeep(cc.Call.Common().Args[tIdx]))
		} else {
			c.Violation(cc.Fn, "threshold handed to "+eng.FuncName(fw), cc.Call.Pos(), "the helper's threshold parameter is bound to "+eng.ExprDeep(cc.Call.Common().Args[tIdx])+", not to a configuration's SecretThreshold", nil)
		}
	}
	return true
}
