package props

import (
	"regexp"
	"strings"

	"golang.org/x/tools/go/ssa"

	"obsa/eng"
)

// runC01Gaps2: second-tier mechanisms of C01 — what the raw (bootstrap)
// writers store, the sibling readers of the record header, the helper that
// picks the accessor for sys/raw, the users of the StorageAccess indirection
// and the record format a new barrier writes.
func runC01Gaps2(c *eng.Ctx) {
	c01gWrappedBootstrapValues(c)
	c01gRekeyBackupValues(c)
	c01gHeaderSlices(c)
	c01gRawPathAgreement(c)
	c01gStorageAccessUsers(c)
	c01gWriterFormat(c)
	c01gNotFoundOnlyWhenAbsent(c)
	keyringZeroizeOwnership(c, "C01.7")
}

// C01.6: the two seal-wrapped bootstrap records (stored barrier keys, recovery
// key) carry, on every path to the raw write, proto.Marshal of what the seal's
// Encrypt returned, and the write lies behind Encrypt's success edge.
func c01gWrappedBootstrapValues(c *eng.Ctx) {
	const encBase = `<vault/seal\.Access>\.Encrypt`
	for _, fn := range []string{"vault.writeStoredKeys", "vault.(*autoSeal).SetRecoveryKey"} {
		f := c.Fn(fn)
		if f == nil {
			continue
		}
		// the raw write: in f, through a bound method value, or inside a closure / same-package helper
		effs := kMayEffs(kMaySites(f, `^<physical\.\w+>\.Put$`, 2))
		c.Clause("R5", "C01.6")
		if !c.Floor(f, "raw write of a seal-wrapped bootstrap record", len(effs), 1) {
			continue
		}
		fns := map[*ssa.Function]bool{f: true}
		for _, e := range effs {
			fns[e.Fn] = true
			ent, fr := nfResolveParam(e.Call.Args[len(e.Call.Args)-1], e.Fr)
			if _, isParam := ent.(*ssa.Parameter); isParam {
				c.Undecided(f, "seal-wrapped value", e.Call.In.Pos(), "the entry written raw is a parameter that cannot be followed to its argument (moved? the rule cannot be evaluated)")
				continue
			}
			if lf := nfValueFn(ent); lf != nil {
				fns[lf] = true
			}
			vals := eng.StructLitField(ent, "Value")
			if len(vals) == 0 {
				c.Violation(f, "seal-wrapped value", e.Call.In.Pos(), "the entry written raw is not a local literal: its value cannot be pinned to the seal's ciphertext", nil)
			}
			for _, v := range vals {
				nfProv(c, f, "value of the seal-wrapped bootstrap record", e.Call.In, v, fr, `^call:google\.golang\.org/protobuf/proto\.Marshal#0$`)
			}
		}
		nm := 0
		for g := range fns {
			for _, m := range kCalls(g, `^google\.golang\.org/protobuf/proto\.Marshal$`) {
				nm++
				nfProv(c, f, "message marshalled into the bootstrap record", m, kArgs(m)[0], nil, `^call:`+encBase+`#0$`)
			}
		}
		c.Floor(f, "proto.Marshal of the seal's ciphertext", nm, 1)
		c.Clause("R2", "C01.6")
		kCutEffects(c, f, "raw write of the wrapped record", effs, encBase+`$`)
	}
}

// C01.6: the PGP key backups written raw by the rekey update functions are
// built, after EncryptShares succeeded, only out of the shares EncryptShares
// returned (results.SecretShares as overwritten with its result).
func c01gRekeyBackupValues(c *eng.Ctx) {
	const encShares = `^helper/pgpkeys\.EncryptShares$`
	for _, fn := range []string{"vault.(*Core).BarrierRekeyUpdate", "vault.(*Core).RecoveryRekeyUpdate"} {
		f := c.Fn(fn)
		if f == nil {
			continue
		}
		// the raw write: in f, through a bound method value, or inside a closure / same-package helper
		effs := kMayEffs(kMaySites(f, `^<physical\.\w+>\.Put$`, 2))
		encs := kCalls(f, encShares)
		c.Clause("R2", "C01.6")
		if !c.Floor(f, "raw write of the key backup", len(effs), 1) || !c.Floor(f, "pgpkeys.EncryptShares", len(encs), 1) {
			continue
		}
		kCutEffects(c, f, "raw write of the key backup", effs, encShares)
		// the shares field is overwritten with the ciphertext and not again afterwards
		c.Clause("R5", "C01.6")
		var encStores, otherStores []ssa.Instruction
		for _, st := range eng.Stores(f, `\.SecretShares$`) {
			ok, _, _ := eng.OriginsMatch(st.Val, `^call:helper/pgpkeys\.EncryptShares#1$`)
			if ok {
				encStores = append(encStores, st)
			} else {
				otherStores = append(otherStores, st)
			}
		}
		if c.Floor(f, "results.SecretShares = EncryptShares()#1", len(encStores), 1) {
			c.NotAfter(f, "results.SecretShares = <PGP ciphertext>", encStores, "another write of results.SecretShares", otherStores)
		}
		// every share hex-encoded on the way to the backup is read out of that field
		var okEdges []eng.Edge
		for _, e := range encs {
			okEdges = append(okEdges, eng.CallOKEdges(e)...)
		}
		reach := eng.ReachableBlocks(f, okEdges)
		n := 0
		for _, h := range kCalls(f, `^encoding/hex\.EncodeToString$`) {
			if !reach[h.Block()] {
				continue
			}
			n++
			v := c01gUnwrapBuffer(kArgs(h)[0])
			c.Prov(f, "share placed in the raw key backup", h, v, `^op:.*\.SecretShares\[`)
		}
		c.Floor(f, "shares hex-encoded into the backup after PGP encryption", n, 1)
	}
}

// c01gUnwrapBuffer strips bytes.NewBuffer(x).Bytes() down to x.
func c01gUnwrapBuffer(v ssa.Value) ssa.Value {
	for {
		cl, ok := v.(*ssa.Call)
		if !ok {
			return v
		}
		switch eng.CalleeName(&cl.Call) {
		case "bytes.(*Buffer).Bytes", "bytes.NewBuffer":
			if len(cl.Call.Args) != 1 {
				return v
			}
			v = cl.Call.Args[0]
		default:
			return v
		}
	}
}

var c01gHead = regexp.MustCompile(`^(.*)\[:4\]$`)

// C01.3 (family): in every function of the barrier package, not only the
// storage readers, a [:4] slice handed to Uint32 is cut by len(x) >= 4.
func c01gHeaderSlices(c *eng.Ctx) {
	done := map[string]bool{ // checked (with their .Value[:4] shape) by the base table
		"barrier.(*AESGCMBarrier).lockSwitchedGet": true, "barrier.(*AESGCMBarrier).Unseal": true, "barrier.(*AESGCMBarrier).ReloadKeyring": true,
		"barrier.(*AESGCMBarrier).ReloadRootKey": true, "barrier.(*AESGCMBarrier).CheckUpgrade": true, "barrier.(*AESGCMBarrier).VerifyRoot": true,
	}
	c.Clause("R2", "C01.3")
	n := 0
	for _, f := range c.P.Funcs {
		if !eng.InPkg(f, "barrier") || done[eng.FuncName(f)] {
			continue
		}
		for _, u := range kCalls(f, `\(encoding/binary\.bigEndian\)\.Uint32$`) {
			a := kArgs(u)
			m := c01gHead.FindStringSubmatch(eng.Expr(a[len(a)-1]))
			if m == nil {
				continue
			}
			n++
			c.Cut(f, "slice "+m[0], []ssa.Instruction{u}, eng.G(f, `^len\(`+reQuote(m[1])+`\) < 4$`, false), nil)
		}
	}
	c.Floor(nil, "term slices outside the storage readers (in-memory Decrypt)", n, 1)
}

// C01.5: a sys/raw handler operates on exactly the key it had classified:
// the key handed to the accessor is the very value given to storageByPath.
func c01gRawPathAgreement(c *eng.Ctx) {
	c.Clause("R7", "C01.5")
	n := 0
	for _, s := range c.P.FindCalls(mustStatic(c, "vault.(*RawBackend).storageByPath"), nil) {
		classified := kArgs(s.Call)[len(kArgs(s.Call))-1]
		for _, in := range eng.Instrs(s.Fn, func(in ssa.Instruction) bool {
			ci, ok := in.(ssa.CallInstruction)
			return ok && kMethod(ci) != "" && strings.HasPrefix(kName(ci), "<vault.StorageAccess>.")
		}) {
			op := in.(ssa.CallInstruction)
			ex, ok := kRecv(op).(*ssa.Extract)
			if !ok || ex.Tuple != s.Call.Value() {
				continue
			}
			n++
			site := "raw " + kMethod(op) + " uses the key it classified"
			if key := kArgs(op)[1]; key == classified || eng.ExprDeep(key) == eng.ExprDeep(classified) {
				c.OK(s.Fn, site, op.Pos(), eng.Expr(key))
			} else {
				c.Violation(s.Fn, site, op.Pos(), "the accessor was chosen for "+eng.ExprDeep(classified)+" but is used on "+eng.ExprDeep(key)+": the unencrypted accessor of a seal-config key can be steered to another key", nil)
			}
		}
	}
	c.Floor(nil, "sys/raw operations on an accessor returned by storageByPath", n, 5)
}

// C01.5: who may write through the StorageAccess indirection (which is the
// unencrypted accessor for the root namespace's seals), and under which keys.
func c01gStorageAccessUsers(c *eng.Ctx) {
	m, ok := c.P.IfaceCallee("vault.StorageAccess", "Put", "Delete")
	if !ok {
		c.Unresolved("vault.StorageAccess")
		return
	}
	sites := c.P.FindCalls(m, nil)
	var inv []eng.CallSite
	for _, s := range sites {
		if s.Call.Common().IsInvoke() {
			inv = append(inv, s)
		}
	}
	inv = append(inv, kBoundIfaceCalls(c, nil, `^<vault\.StorageAccess>\.(Put|Delete)$`)...)
	c.Clause("R1", "C01.5")
	c.CallerTable("StorageAccess.Put/Delete (possibly unencrypted accessor)", inv, map[string]string{
		"vault.(*defaultSeal).SetBarrierConfig": "barrier seal configuration",
		"vault.(*autoSeal).SetBarrierConfig":    "barrier seal configuration",
		"vault.(*autoSeal).SetRecoveryConfig":   "recovery seal configuration",
		"vault.(*RawBackend).handleRawWrite":    "sys/raw: accessor chosen by storageByPath (guarded there)",
		"vault.(*RawBackend).handleRawDelete":   "sys/raw: accessor chosen by storageByPath",
	}, 4)
	bc, ok1 := c.P.ConstValue("vault.barrierSealConfigPath")
	rc, ok2 := c.P.ConstValue("vault.recoverySealConfigPath")
	if !ok1 || !ok2 {
		c.Unresolved("vault.barrierSealConfigPath / vault.recoverySealConfigPath")
		return
	}
	pin := map[string]string{
		"vault.(*defaultSeal).SetBarrierConfig": bc,
		"vault.(*autoSeal).SetBarrierConfig":    bc,
		"vault.(*autoSeal).SetRecoveryConfig":   rc,
	}
	c.Clause("R5", "C01.5")
	for _, s := range inv {
		k, ok := pin[eng.FuncName(eng.TopFunc(s.Fn))]
		if !ok {
			continue
		}
		c.Prov(s.Fn, "key written through the seal's configuration accessor", s.Call, kArgs(s.Call)[1], `^const:"`+regexp.QuoteMeta(k)+`"$`, `^field:d\.metaPrefix$`)
	}
}

// C01.2: the record format a barrier writes is the key-bound one: every
// writer of currentAESGCMVersionByte stores the constant AESGCMVersion2.
func c01gWriterFormat(c *eng.Ctx) {
	c.Clause("R6", "C01.2")
	fv := c.P.Field("barrier.AESGCMBarrier.currentAESGCMVersionByte")
	want, ok := c.P.ConstValue("barrier.AESGCMVersion2")
	if fv == nil || !ok {
		c.Unresolved("barrier.AESGCMBarrier.currentAESGCMVersionByte / barrier.AESGCMVersion2")
		return
	}
	ws := c.P.FieldWriters(fv)
	for _, w := range ws {
		site := "writer{currentAESGCMVersionByte}"
		k, isConst := w.Store.Val.(*ssa.Const)
		if isConst && k.Value != nil && k.Value.ExactString() == want {
			c.OK(w.Fn, site, w.Store.Pos(), "the writer format is AESGCMVersion2 (associated data = storage key)")
		} else {
			c.Violation(w.Fn, site, w.Store.Pos(), "the format byte new records are written with is "+eng.ExprDeep(w.Store.Val)+", not AESGCMVersion2: records are sealed without the storage key as associated data", nil)
		}
	}
	c.Floor(nil, "writers of currentAESGCMVersionByte", len(ws), 1)
}

// C01.3 (readers): a barrier read answers "no such entry" (nil entry, nil
// error) only when the backend returned no entry: the return is cut by the
// `entry == nil` edge of the backend Get. No test of the stored value's length
// or content may lead there — an emptied or truncated record is an error.
func c01gNotFoundOnlyWhenAbsent(c *eng.Ctx) {
	c.Clause("R2", "C01.3")
	n := 0
	for _, f := range c.P.Funcs {
		if !eng.InPkg(f, "barrier") || f.Signature.Results().Len() != 2 || structTypeName(f.Signature.Results().At(0).Type()) != "logical.StorageEntry" {
			continue
		}
		if len(kCalls(f, `<physical\.Backend>\.Get$`)) == 0 {
			continue
		}
		withValue := map[ssa.Instruction]bool{}
		for _, r := range eng.NonNilResultReturns(f, 0) {
			withValue[r] = true
		}
		var notFound []ssa.Instruction
		for _, r := range eng.SuccessReturns(f, 1) {
			if !withValue[r] {
				notFound = append(notFound, r)
			}
		}
		if len(notFound) == 0 {
			continue
		}
		n++
		c.Cut(f, "return of (no entry, no error)", notFound, eng.G(f, `^<physical\.Backend>\.Get\(\)#0 == nil$`, true), nil)
	}
	c.Floor(nil, "barrier readers with a not-found return", n, 1)
}

// keyringZeroizeOwnership (C01.7, shared with C10.2): a superseded keyring is
// zeroised only if it shares no root-key bytes with the keyring that stays
// live. Ownership facts of the Keyring type: Clone (and so AddKey, RemoveKey)
// hands the root-key slice on by reference; SetRootKey gives its result a
// freshly allocated copy. Hence every Zeroize site outside Seal must sit in a
// function that replaces the live keyring, and every keyring it makes live
// must come out of Keyring.SetRootKey (directly or through
// updateRootKeyCommon, whose results come out of SetRootKey). Zeroising after
// a swap to a clone wipes the live root key; the next keyring persist then
// encrypts the keyring record under, and publishes, an all-zero root key.
func keyringZeroizeOwnership(c *eng.Ctx, clause string) {
	const (
		setRoot   = `^call:barrier\.\(\*Keyring\)\.SetRootKey$`
		viaCommon = `^call:barrier\.\(\*AESGCMBarrier\)\.updateRootKeyCommon#0$`
	)
	// ownership facts
	c.Clause("R5", clause)
	copies := false
	if f := c.Fn("barrier.(*Keyring).SetRootKey"); f != nil {
		st := eng.Stores(f, `\.rootKey$`)
		if c.Floor(f, "store of the new root key", len(st), 1) {
			copies = true
			for _, s := range st {
				site := "SetRootKey gives its result its own root-key bytes"
				_, fresh := s.Val.(*ssa.MakeSlice)
				_, toRecv := s.Addr.(*ssa.FieldAddr)
				if fresh && toRecv && len(kCalls(f, `^copy$`)) > 0 {
					c.OK(f, site, s.Pos(), "freshly allocated slice filled by copy")
				} else {
					copies = false
					c.Violation(f, site, s.Pos(), "the root key installed is "+eng.ExprDeep(s.Val)+", not a fresh copy: the result aliases the caller's or the old keyring's bytes, which callers zeroise", nil)
				}
			}
		}
	}
	if f := c.Fn("barrier.(*AESGCMBarrier).updateRootKeyCommon"); f != nil {
		n := 0
		for _, r := range eng.NonNilResultReturns(f, 0) {
			vals, _, _ := eng.ReturnVals(r.(*ssa.Return), 0)
			for _, v := range vals {
				if eng.IsNilConst(v) {
					continue
				}
				n++
				c.Prov(f, "keyring handed out by updateRootKeyCommon", r, v, setRoot, `^const:nil$`)
			}
		}
		c.Floor(f, "keyring-returning exits of updateRootKeyCommon", n, 1)
	}
	// sites
	c.Clause("R1", clause)
	sites := c.P.FindCalls(mustStatic(c, "barrier.(*Keyring).Zeroize"), nil)
	checked := 0
	for _, s := range sites {
		top := eng.TopFunc(s.Fn)
		if eng.FuncName(top) == "barrier.(*AESGCMBarrier).Seal" {
			continue // drops the keyring altogether (C10.2)
		}
		checked++
		site := "zeroised keyring shares no root-key bytes with the live one"
		var swaps []*ssa.Store
		for _, st := range eng.Stores(s.Fn, `^b\.keyring$`) {
			if !eng.IsNilConst(st.Val) {
				swaps = append(swaps, st)
			}
		}
		if len(swaps) == 0 {
			c.Violation(s.Fn, site, s.Call.Pos(), "Zeroize in a function that does not replace the live keyring: the keyring wiped is, or shares its root key with, the live one", nil)
			continue
		}
		okAll := copies
		for _, st := range swaps {
			if ok, bad, _ := eng.OriginsMatch(st.Val, setRoot, viaCommon); !ok {
				okAll = false
				c.Violation(s.Fn, site, s.Call.Pos(), "the keyring made live before this Zeroize may originate from "+bad+", an operation that clones (shares the root-key slice by reference) instead of Keyring.SetRootKey, which copies: zeroising the replaced keyring wipes the live root key", nil)
			}
		}
		if okAll {
			c.OK(s.Fn, site, s.Call.Pos(), "every keyring made live here comes out of Keyring.SetRootKey (own root-key copy)")
		}
	}
	c.Floor(nil, "Zeroize sites outside Seal", checked, 3)
}
