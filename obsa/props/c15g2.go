package props

import (
	"go/token"
	"go/types"
	"regexp"
	"strconv"
	"strings"

	"golang.org/x/tools/go/ssa"

	"obsa/eng"
)

// Second-tier mechanisms of C15 (see GAPS.md): helpers, sibling endpoints and
// upgrade paths the truth of the property depends on, each in a function that
// carried no obligation before.
func runC15Gaps2(c *eng.Ctx) {
	c15gIssueKeyType(c)
	c15gExtKeyUsages(c)
	c15gNotBefore(c)
	c15gIssuerUsage(c)
	c15gVerbatimRoleTTL(c)
	c15gVerbatimRoleCopies(c)
	c15gLegacyRoleTTL(c)
	c15gSmallValidators(c)
	c15gIdentityGlobs(c)
	c15gLeafBehaviourTable(c)
	c15gFlagReset(c)
}

// ---- C15.3: a match flag judges one requested value only. Wherever a
// validator tests a boolean flag variable inside a loop (the loop over the
// requested values / names), the value tested does not come in over a back
// edge of a loop that contains the test: on every path from one iteration's
// verdict to the next the flag is assigned afresh (the constant false) before
// it can be set by a match. A flag initialised outside that loop keeps the
// `true` of an earlier value and lets every later value pass unchecked
// (seed C15-c: `valid := false` hoisted out of the per-value loop of
// validateOtherSANs together with the per-OID lookup).
func c15gFlagReset(c *eng.Ctx) {
	c.Clause("R8", "C15.3")
	for _, h := range []struct {
		fn    string
		floor int // verdict tests inside a loop expected today
	}{
		{"pki.validateOtherSANs", 1}, {"pki.validateNames", 1}, {"pki.validateUserId", 0}, {"pki.validateSerialNumber", 0}, {"pki.validateURISAN", 0},
	} {
		f := c.Fn(h.fn)
		if f == nil {
			continue
		}
		// natural loop of the back edge q -> b: b and every block reaching q without passing b
		loopOf := func(q, b *ssa.BasicBlock) map[*ssa.BasicBlock]bool {
			in := map[*ssa.BasicBlock]bool{b: true}
			work := []*ssa.BasicBlock{q}
			for len(work) > 0 {
				x := work[len(work)-1]
				work = work[:len(work)-1]
				if in[x] {
					continue
				}
				in[x] = true
				work = append(work, x.Preds...)
			}
			return in
		}
		n, bad := 0, false
		type verdict struct {
			tests int
			pos   token.Pos
			fact  string
		}
		perFlag := map[string]*verdict{}
		var order []string
		for _, blk := range f.Blocks {
			ifi := eng.IfOf(blk)
			if ifi == nil {
				continue
			}
			p, ok := eng.Normalize(ifi.Cond).Val.(*ssa.Phi)
			if !ok || eng.VarName(p) == "" || p.Type().Underlying().String() != "bool" {
				continue
			}
			name := eng.VarName(p)
			// is the test inside any loop at all?
			inLoop := false
			for _, b := range f.Blocks {
				for _, q := range b.Preds {
					if b.Dominates(q) && loopOf(q, b)[blk] {
						inLoop = true
					}
				}
			}
			if !inLoop {
				continue
			}
			n++
			v := perFlag[name]
			if v == nil {
				v = &verdict{pos: p.Pos()}
				perFlag[name] = v
				order = append(order, name)
			}
			v.tests++
			seen := map[*ssa.Phi]bool{}
			var carried *ssa.Phi
			var walk func(x *ssa.Phi)
			walk = func(x *ssa.Phi) {
				if seen[x] || carried != nil {
					return
				}
				seen[x] = true
				for i, e := range x.Edges {
					q := x.Block().Preds[i]
					if x.Block().Dominates(q) && loopOf(q, x.Block())[blk] {
						carried = x
						return
					}
					if ep, ok := e.(*ssa.Phi); ok && eng.VarName(ep) == name {
						walk(ep)
					}
				}
			}
			walk(p)
			if carried != nil && v.fact == "" {
				v.pos = ifi.Pos()
				v.fact = "the value of " + name + " tested inside the loop can be the one left by the previous iteration (it is merged at the head of an enclosing loop, " + eng.Expr(carried) + ", instead of being set to false inside it): once one requested value matched, the following ones are accepted without being compared with the role's list"
			}
		}
		for _, name := range order {
			v := perFlag[name]
			site := "flag " + name + " tested in a loop is assigned afresh in every iteration"
			if v.fact != "" {
				bad = true
				c.Violation(f, site, v.pos, v.fact, nil)
			} else {
				c.OK(f, site, v.pos, "no value of "+name+" reaches any of its "+strconv.Itoa(v.tests)+" test(s) over a back edge of a loop containing the test")
			}
		}
		if !bad && c.Floor(f, "flag tests inside a loop", n, h.floor) && n == 0 {
			c.OK(f, "flag tested in a loop is assigned afresh in every iteration", f.Pos(), "no boolean flag variable is tested inside a loop")
		}
	}
}

// ---- C15.7: issue/:role replaces the role's key type/bits by the request's only for key_type=any roles
func c15gIssueKeyType(c *eng.Ctx) {
	f := c.Fn("pki.(*backend).pathIssue")
	if f == nil {
		return
	}
	c.Clause("R2", "C15.7")
	st := instrsOf(eng.Stores(f, `^role\.(KeyType|KeyBits|SignatureBits)$`))
	if c.Floor(f, "stores into the role's key type/bits", len(st), 2) {
		c.Cut(f, "role key type/bits overwritten from the request", st, eng.G(f, `^role\.KeyType == "any"$`, true), nil)
	}
}

// ---- C15.6: extended key usages: role flag -> parameter bit -> template usage, pairwise
func c15gExtKeyUsages(c *eng.Ctx) {
	// (a) certutil.AddKeyUsages: an x509 usage is appended only behind the test of ITS bit
	pairs := [][2]string{
		{"AnyExtKeyUsage", "ExtKeyUsageAny"}, {"ServerAuthExtKeyUsage", "ExtKeyUsageServerAuth"}, {"ClientAuthExtKeyUsage", "ExtKeyUsageClientAuth"},
		{"CodeSigningExtKeyUsage", "ExtKeyUsageCodeSigning"}, {"EmailProtectionExtKeyUsage", "ExtKeyUsageEmailProtection"},
		{"IpsecEndSystemExtKeyUsage", "ExtKeyUsageIPSECEndSystem"}, {"IpsecTunnelExtKeyUsage", "ExtKeyUsageIPSECTunnel"}, {"IpsecUserExtKeyUsage", "ExtKeyUsageIPSECUser"},
		{"TimeStampingExtKeyUsage", "ExtKeyUsageTimeStamping"}, {"OcspSigningExtKeyUsage", "ExtKeyUsageOCSPSigning"},
		{"MicrosoftServerGatedCryptoExtKeyUsage", "ExtKeyUsageMicrosoftServerGatedCrypto"}, {"NetscapeServerGatedCryptoExtKeyUsage", "ExtKeyUsageNetscapeServerGatedCrypto"},
		{"MicrosoftCommercialCodeSigningExtKeyUsage", "ExtKeyUsageMicrosoftCommercialCodeSigning"}, {"MicrosoftKernelCodeSigningExtKeyUsage", "ExtKeyUsageMicrosoftKernelCodeSigning"},
	}
	bitOf := map[string]string{} // x509 value -> certutil bit
	nameOf := map[string]string{}
	for _, p := range pairs {
		bit, ok1 := c.P.ConstValue("certutil." + p[0])
		xv, ok2 := c.P.ImportedConst("certutil", "crypto/x509", p[1])
		if ok1 && ok2 {
			bitOf[xv] = bit
			nameOf[xv] = p[1]
		}
	}
	if f := c.Fn("certutil.AddKeyUsages"); f != nil && c.Floor(f, "resolved (parameter bit, x509 usage) pairs", len(bitOf), 10) {
		c.Clause("R2", "C15.6")
		n := 0
		for _, ap := range eng.Calls(f, `^append$`) {
			a := ap.Common().Args
			if len(a) != 2 || !strings.HasSuffix(eng.Expr(a[0]), ".ExtKeyUsage") || strings.Contains(eng.Expr(a[0]), "Params") {
				continue
			}
			for _, el := range c15sliceVals(a[1]) {
				k, ok := el.(*ssa.Const)
				if !ok || k.Value == nil {
					c.Violation(f, "extended key usage appended to the template", ap.Pos(), "a computed usage "+eng.ExprDeep(el)+" is appended: it cannot be tied to a bit of Params.ExtKeyUsage", nil)
					continue
				}
				xv := k.Value.ExactString()
				bit, known := bitOf[xv]
				if !known {
					c.Undecided(f, "extended key usage appended to the template", ap.Pos(), "x509.ExtKeyUsage("+xv+") has no tabled parameter bit (re-read)")
					continue
				}
				n++
				c.Cut(f, "append of x509."+nameOf[xv], []ssa.Instruction{ap}, eng.G(f, `^\(data\.Params\.ExtKeyUsage & `+bit+`\) == 0$`, false), nil)
			}
		}
		c.Floor(f, "appends of an extended key usage", n, 10)
	}
	// (b) pki.parseExtKeyUsages: a legacy role flag sets only its own bit
	if f := c.Fn("pki.parseExtKeyUsages"); f != nil {
		c.Clause("R2", "C15.6")
		flags := map[string]string{"ServerAuthExtKeyUsage": "ServerFlag", "ClientAuthExtKeyUsage": "ClientFlag", "CodeSigningExtKeyUsage": "CodeSigningFlag", "EmailProtectionExtKeyUsage": "EmailProtectionFlag"}
		flagOf := map[string]string{}
		for cn, fl := range flags {
			if v, ok := c.P.ConstValue("certutil." + cn); ok {
				flagOf[v] = fl
			} else {
				c.Unresolved("certutil." + cn)
			}
		}
		n := 0
		for _, in := range eng.Instrs(f, func(in ssa.Instruction) bool { b, ok := in.(*ssa.BinOp); return ok && b.Op == token.OR }) {
			bo := in.(*ssa.BinOp)
			k, ok := bo.Y.(*ssa.Const)
			if !ok {
				k, ok = bo.X.(*ssa.Const)
			}
			if !ok || k.Value == nil {
				c.Violation(f, "usage bit set from a role flag", bo.Pos(), "a computed bit set "+eng.ExprDeep(bo)+" is or-ed in", nil)
				continue
			}
			fl, known := flagOf[k.Value.ExactString()]
			if !known {
				c.Violation(f, "usage bit set from a role flag", bo.Pos(), "bit "+k.Value.ExactString()+" is set by parseExtKeyUsages but belongs to none of the legacy role flags", nil)
				continue
			}
			n++
			c.Cut(f, "bit of role."+fl+" set", []ssa.Instruction{in}, eng.G(f, `^role\.`+fl+`$`, true), nil)
		}
		c.Floor(f, "flag bits", n, 4)
		for _, cl := range eng.Calls(f, `^pki\.parseExtKeyUsagesValue$`) {
			c.Clause("R5", "C15.6")
			c15Prov(c, f, "named usages parsed", cl, cl.Common().Args[1], `^field:role\.ExtKeyUsage$`)
		}
	}
}

// ---- C15.4: the role's not_before bound
func c15gNotBefore(c *eng.Ctx) {
	f := c.Fn("pki.getCertificateNotBefore")
	if f == nil {
		return
	}
	forbidC, ok1 := c.P.ConstValue("pki.ForbidNotBeforeBound")
	durC, ok2 := c.P.ConstValue("pki.DurationNotBeforeBound")
	if !ok1 || !ok2 {
		c.Unresolved("pki.ForbidNotBeforeBound / pki.DurationNotBeforeBound")
		return
	}
	c.Clause("R2", "C15.4")
	succ := eng.SuccessReturns(f, 1)
	if !c.Floor(f, "success returns", len(succ), 1) {
		return
	}
	arm := func(k string) []eng.Edge {
		return eng.CondEdgesDeep(f, `^data\.role\.NotBeforeBound == pki\.\(notBeforeBound\)\.String\(`+k+`\)$`, true)
	}
	if fa := arm(forbidC); c.Floor(f, "switch arm not_before_bound = forbid", len(fa), 1) {
		c15unreach(c, f, "on{not_before_bound = forbid and not_before supplied} no success", eng.Query{StartEdges: fa, Target: eng.IsTarget(succ)}, succ[0].Pos(),
			"with not_before_bound=forbid a request carrying not_before never succeeds", "a request-supplied not_before is accepted although the role forbids it")
	}
	var before *ssa.Call
	for _, b := range eng.Calls(f, `^time\.\(Time\)\.Before$`) {
		before, _ = b.(*ssa.Call)
	}
	if da := arm(durC); c.Floor(f, "switch arm not_before_bound = duration", len(da), 1) {
		if before == nil {
			c.Violation(f, "on{not_before_bound = duration} not_before >= now - duration", f.Pos(), "no comparison of the requested not_before with now - not_before_duration", nil)
			return
		}
		c15unreach(c, f, "on{not_before_bound = duration} success needs not_before >= now - duration", eng.Query{StartEdges: da, Blocked: eng.BoolEdges(before, false), Target: eng.IsTarget(succ)}, before.Pos(),
			"the duration arm succeeds only across the edge on which the requested not_before is not before now - not_before_duration", "with not_before_bound=duration a request-supplied not_before can be accepted without the comparison against now - not_before_duration")
		c.Clause("R5", "C15.4")
		c15Prov(c, f, "not_before compared with the bound", before, before.Call.Args[0], `^call:time\.Parse#0$`)
		c15Prov(c, f, "bound of the duration arm", before, before.Call.Args[1], `^call:time\.\(Time\)\.Add$`)
	}
}

// ---- C15.8: the issuer's usage restriction is enforced with the issuing usage
func c15gIssuerUsage(c *eng.Ctx) {
	issuance, ok := c.P.ConstValue("pki.IssuanceUsage")
	if !ok {
		c.Unresolved("pki.IssuanceUsage")
		return
	}
	if f := c.Fn("pki.(*storageContext).fetchCAInfoByIssuerId"); f != nil {
		eu := eng.Calls(f, `^pki\.\(issuerEntry\)\.EnsureUsage$`)
		if c.Floor(f, "EnsureUsage call", len(eu), 1) {
			c.Clause("R2", "C15.8")
			c.Cut(f, "signing bundle returned", eng.SuccessReturns(f, 1), c15GCallOK(f, `^pki\.\(issuerEntry\)\.EnsureUsage$`), nil)
			c.Clause("R5", "C15.8")
			for _, e := range eu {
				c15Prov(c, f, "usage the issuer is checked for", e, e.Common().Args[1], `^param:usage$`)
			}
		}
	}
	c.Clause("R5", "C15.8")
	for _, h := range []struct{ fn, callee string }{
		{"pki.(*storageContext).fetchCAInfo", `^pki\.\(\*storageContext\)\.fetchCAInfoWithIssuer$`},
		{"pki.(*storageContext).fetchCAInfoWithIssuer", `^pki\.\(\*storageContext\)\.fetchCAInfoByIssuerId$`},
	} {
		f := c.Fn(h.fn)
		if f == nil {
			continue
		}
		cs := eng.Calls(f, h.callee)
		if c.Floor(f, "hand-on call", len(cs), 1) {
			for _, cl := range cs {
				c15Prov(c, f, "usage handed on", cl, cl.Common().Args[2], `^param:usage$`)
			}
		}
	}
	c.Clause("R12", "C15.8")
	for _, h := range []struct{ fn, callee string }{
		{"pki.(*backend).fetchCaSigningBundle", `^pki\.\(\*storageContext\)\.fetchCAInfo$`},
		{"pki.issueCertFromCsr", `^pki\.\(\*storageContext\)\.fetchCAInfoWithIssuer$`},
	} {
		f := c.Fn(h.fn)
		if f == nil {
			continue
		}
		cs := eng.Calls(f, h.callee)
		if !c.Floor(f, "signing bundle fetch", len(cs), 1) {
			continue
		}
		for _, cl := range cs {
			if got := eng.Expr(cl.Common().Args[2]); got == issuance {
				c.OK(f, "const{usage of a leaf issuance}", cl.Pos(), "IssuanceUsage")
			} else {
				c.Violation(f, "const{usage of a leaf issuance}", cl.Pos(), "the signing bundle of a leaf issuance is fetched with usage "+got+" instead of IssuanceUsage ("+issuance+"): an issuer restricted from issuing still signs", nil)
			}
		}
	}
}

// ---- C15.8: sign-verbatim/:role inherits the role's lifetime bounds
func c15gVerbatimRoleTTL(c *eng.Ctx) {
	f := c.Fn("pki.buildSignVerbatimRole")
	if f == nil {
		return
	}
	c.Clause("R5", "C15.8")
	for _, fld := range []string{"TTL", "MaxTTL"} {
		n := 0
		for _, st := range eng.Stores(f, `\.`+fld+`$`) {
			fa, ok := st.Addr.(*ssa.FieldAddr)
			if !ok || structTypeName(fa.X.Type()) != "pki.roleEntry" && !strings.HasSuffix(structTypeName(fa.X.Type()), ".roleEntry") {
				continue
			}
			n++
			c15Prov(c, f, "sign-verbatim role "+fld, st, st.Val, `^field:role\.`+fld+`$`)
		}
		c.Floor(f, "store of the sign-verbatim role's "+fld, n, 1)
	}
}

// ---- C15.8: the synthetic sign-verbatim role carries every constraint of the caller's role that
// it copies, whenever that constraint is set — independent of the role's OTHER fields. For each store
// entry.F = role.F: destination and source are the same field; and the store stays reachable when any
// single branch on a different field of `role` is decided either way (it is cut only by tests of the
// same source field, role == nil, or request data). The set of copied fields is tabled (floor per
// field), so a dropped copy is seen. (Seed C15-g: the max_ttl copy moved under `if role.TTL > 0`.)
func c15gVerbatimRoleCopies(c *eng.Ctx) {
	f := c.Fn("pki.buildSignVerbatimRole")
	if f == nil {
		return
	}
	var role *ssa.Parameter
	for _, p := range f.Params {
		if eng.VarName(p) == "role" {
			role = p
		}
	}
	if role == nil {
		c.Undecided(f, "copies of the caller's role", token.NoPos, "parameter role not found (re-read)")
		return
	}
	// the field of `role` a value is read from (through at most two loads: *role.F for pointer fields)
	srcField := func(v ssa.Value) *types.Var {
		for d := 0; d < 3 && v != nil; d++ {
			switch x := v.(type) {
			case *ssa.UnOp:
				if x.Op != token.MUL {
					return nil
				}
				v = x.X
			case *ssa.FieldAddr:
				if x.X == ssa.Value(role) {
					return eng.FieldVar(x)
				}
				return nil
			default:
				return nil
			}
		}
		return nil
	}
	// the field of the synthetic role a store writes (entry.F = …, or *entry.F = … for pointer fields)
	dstField := func(addr ssa.Value) *types.Var {
		for d := 0; d < 2 && addr != nil; d++ {
			switch x := addr.(type) {
			case *ssa.UnOp:
				if x.Op != token.MUL {
					return nil
				}
				addr = x.X
			case *ssa.FieldAddr:
				if isAllocOf(x.X, "pki.roleEntry") || strings.HasSuffix(structTypeName(x.X.Type()), "roleEntry") {
					if x.X != ssa.Value(role) {
						return eng.FieldVar(x)
					}
				}
				return nil
			default:
				return nil
			}
		}
		return nil
	}
	// branches on a field of role: If -> field
	condField := map[*ssa.BasicBlock]*types.Var{}
	for _, b := range f.Blocks {
		ifi := eng.IfOf(b)
		if ifi == nil {
			continue
		}
		var find func(v ssa.Value, d int) *types.Var
		find = func(v ssa.Value, d int) *types.Var {
			if v == nil || d > 4 {
				return nil
			}
			if fv := srcField(v); fv != nil {
				return fv
			}
			switch x := v.(type) {
			case *ssa.BinOp:
				if fv := find(x.X, d+1); fv != nil {
					return fv
				}
				return find(x.Y, d+1)
			case *ssa.UnOp:
				return find(x.X, d+1)
			case *ssa.Call:
				if _, bi := x.Call.Value.(*ssa.Builtin); bi {
					for _, a := range x.Call.Args {
						if fv := find(a, d+1); fv != nil {
							return fv
						}
					}
				}
			case *ssa.Convert:
				return find(x.X, d+1)
			}
			return nil
		}
		if fv := find(ifi.Cond, 0); fv != nil {
			condField[b] = fv
		}
	}
	copied := map[string]int{}
	for _, st := range eng.Stores(f, `.`) {
		src := srcField(st.Val)
		dst := dstField(st.Addr)
		if src == nil || dst == nil {
			continue
		}
		name := src.Name()
		copied[name]++
		c.Clause("R5", "C15.8")
		if src == dst {
			c.OK(f, "sign-verbatim role copies role."+name+" into the same field", st.Pos(), "entry."+dst.Name()+" = role."+name)
		} else {
			c.Violation(f, "sign-verbatim role copies role."+name+" into the same field", st.Pos(), "role."+name+" is stored into the synthetic role's "+dst.Name()+": the constraint "+name+" of the caller's role is not carried over", nil)
		}
		c.Clause("R2", "C15.8")
		site := "copy of role." + name + " independent of the role's other fields"
		bad := ""
		for b, fv := range condField {
			if fv == src {
				continue
			}
			for si := range b.Succs {
				if eng.Reach(eng.Query{Fn: f, Blocked: []eng.Edge{{From: b, Succ: si}}, Target: eng.IsTarget([]ssa.Instruction{st})}) == nil {
					bad = fv.Name()
				}
			}
		}
		if bad != "" {
			c.Violation(f, site, st.Pos(), "the copy of role."+name+" into the sign-verbatim role is only reached for one outcome of a test of role."+bad+": a role that sets "+name+" but not "+bad+" (or the other way round) loses the constraint on sign-verbatim/:role", nil)
		} else {
			c.OK(f, site, st.Pos(), "the store is reachable whatever the tests of the role's other fields decide")
		}
	}
	c.Clause("R6", "C15.8")
	for _, want := range []string{"TTL", "MaxTTL", "GenerateLease", "NotBeforeDuration", "NoStore", "Issuer", "BasicConstraintsValidForNonCA"} {
		c.Floor(f, "copy of role."+want+" into the sign-verbatim role", copied[want], 1)
	}
}

// ---- C15.8: the upgrade of a legacy role keeps its lifetime bounds
func c15gLegacyRoleTTL(c *eng.Ctx) {
	f := c.Fn("pki.(*backend).getRole")
	if f == nil {
		return
	}
	c.Clause("R5", "C15.8")
	for _, h := range []struct{ fld, legacy string }{{"TTL", "DeprecatedTTL"}, {"MaxTTL", "DeprecatedMaxTTL"}} {
		n := 0
		for _, st := range eng.Stores(f, `\.`+h.fld+`$`) {
			site := "legacy role " + h.fld + " parsed from its own legacy field"
			ex, ok := st.Val.(*ssa.Extract)
			var call *ssa.Call
			if ok {
				call, _ = ex.Tuple.(*ssa.Call)
			}
			if call == nil || !strings.HasSuffix(eng.CalleeName(&call.Call), "parseutil.ParseDurationSecond") || ex.Index != 0 {
				c.Violation(f, site, st.Pos(), "the role's "+h.fld+" is set to "+eng.ExprDeep(st.Val)+" while loading the role", nil)
				continue
			}
			n++
			if arg := eng.Expr(call.Call.Args[0]); strings.HasSuffix(arg, "."+h.legacy) {
				c.OK(f, site, st.Pos(), h.fld+" = ParseDurationSecond("+arg+")")
			} else {
				c.Violation(f, site, st.Pos(), h.fld+" is parsed from "+arg+" instead of the legacy field "+h.legacy+": the upgraded role loses its bound", nil)
			}
			c.Clause("R2", "C15.8")
			c.Cut(f, "store of the upgraded "+h.fld, []ssa.Instruction{st}, eng.Guard{Desc: "success edge of ParseDurationSecond", Edges: eng.CallOKEdges(call)}, nil)
			c.Clause("R5", "C15.8")
		}
		c.Floor(f, "upgrade store of "+h.fld, n, 1)
	}
}

// c15gFlagLeaves: the boolean phi named name in f: every merged value is a
// constant, and the constant true flows in only across a guard edge.
func c15gFlagLeaves(c *eng.Ctx, f *ssa.Function, name, what string, g eng.Guard) bool {
	var phis []*ssa.Phi
	for _, b := range f.Blocks {
		for _, in := range b.Instrs {
			p, ok := in.(*ssa.Phi)
			if !ok {
				break
			}
			if eng.VarName(p) == name {
				phis = append(phis, p)
			}
		}
	}
	site := "flag " + name + ": " + what
	if len(phis) == 0 {
		c.Undecided(f, site, token.NoPos, "flag "+name+" not found (re-read)")
		return false
	}
	for _, p := range phis {
		for _, l := range c15phiLeaves(p) {
			if s := eng.Expr(l); s != "true" && s != "false" {
				c.Violation(f, site, p.Pos(), name+" may start as / be set to the computed value "+eng.ExprDeep(l)+": acceptance no longer depends on a match alone", nil)
				return false
			}
		}
	}
	set := eng.PhiEdges(f, name, func(v ssa.Value) bool { return eng.Expr(v) == "true" })
	if !c.Floor(f, "assignments "+name+" = true", len(set), 1) {
		return false
	}
	return c.CutEdges(f, name+" = true ("+what+")", set, g)
}

// ---- C15.3: the small validators accept only behind a match against the role's list
func c15gSmallValidators(c *eng.Ctx) {
	const globT = `^github\.com/ryanuber/go-glob\.Glob\(\)$`
	c.Clause("R2", "C15.3")
	if f := c.Fn("pki.validateUserId"); f != nil {
		var yes []ssa.Instruction
		for _, r := range eng.Returns(f) {
			if eng.Expr(r.Results[0]) != "false" {
				yes = append(yes, r)
			}
		}
		if c.Floor(f, "accepting returns", len(yes), 2) {
			c.Cut(f, "user id accepted", yes, eng.Or(eng.G(f, `StrListContainsCaseInsensitive\(\)$`, true), eng.G(f, globT, true)), nil)
		}
	}
	if f := c.Fn("pki.validateSerialNumber"); f != nil {
		if c15gFlagLeaves(c, f, "valid", "subject serial number matches allowed_serial_numbers", eng.Or(eng.G(f, globT, true), eng.G(f, ` == serialNumber$`, true))) {
			var yes []ssa.Instruction
			for _, r := range eng.Returns(f) {
				if eng.Expr(r.Results[0]) == `""` {
					yes = append(yes, r)
				}
			}
			if c.Floor(f, "accepting returns", len(yes), 1) {
				c.Cut(f, "subject serial number accepted", yes, eng.G(f, `^φvalid\{`, true), nil)
			}
		}
	}
	if f := c.Fn("pki.validateURISAN"); f != nil {
		if c15gFlagLeaves(c, f, "valid", "URI matches allowed_uri_sans", eng.G(f, globT, true)) {
			c.Clause("R5", "C15.3")
			for _, r := range eng.Returns(f) {
				bad := ""
				for _, l := range c15phiLeaves(r.Results[0]) {
					if s := eng.Expr(l); s != "true" && s != "false" {
						bad = s
					}
				}
				if p, ok := r.Results[0].(*ssa.Phi); !ok || eng.VarName(p) != "valid" || bad != "" {
					c.Violation(f, "verdict returned", r.Pos(), "validateURISAN returns "+eng.ExprDeep(r.Results[0])+" instead of the match flag", nil)
				} else {
					c.OK(f, "verdict returned", r.Pos(), "the match flag")
				}
			}
			for _, gl := range eng.Calls(f, `go-glob\.Glob$`) {
				c15Prov(c, f, "URI matched", gl, gl.Common().Args[1], `^param:uri$`)
			}
			c.Clause("R2", "C15.3")
		}
	}
	if f := c.Fn("pki.validateOtherSANs"); f != nil {
		var yes []ssa.Instruction
		for _, r := range eng.Returns(f) {
			if eng.Expr(r.Results[0]) == `""` && eng.Expr(r.Results[1]) == `""` && eng.IsNilConst(r.Results[2]) {
				yes = append(yes, r)
			}
		}
		miss := eng.CondEdges(f, `^pki\.parseOtherSANs\(\)#0\[.*\]#1$`, false)
		noMatch := eng.CondEdges(f, `^φvalid\{`, false)
		if c.Floor(f, "accepting returns", len(yes), 2) && c.Floor(f, "lookup of the requested OID in the allowed map", len(miss), 1) && c.Floor(f, "test of the value match flag", len(noMatch), 1) {
			c15unreach(c, f, "on{requested OID not allowed} no acceptance", eng.Query{StartEdges: miss, Target: eng.IsTarget(yes)}, yes[0].Pos(),
				"an other-SAN whose OID is missing from allowed_other_sans is never followed by an accepting return", "an other-SAN with an OID the role does not allow can still be accepted (the miss does not refuse)")
			c15unreach(c, f, "on{requested value matches no allowed pattern} no acceptance", eng.Query{StartEdges: noMatch, Target: eng.IsTarget(yes)}, yes[0].Pos(),
				"an other-SAN value matching no allowed pattern is never followed by an accepting return", "an other-SAN value that matched nothing can still be accepted")
			c15gFlagLeaves(c, f, "valid", "other-SAN value matches an allowed pattern", eng.G(f, globT, true))
		}
	}
}

// ---- C15.3: glob characters from identity metadata are blocked unless the role allows them
func c15gIdentityGlobs(c *eng.Ctx) {
	c.Clause("R2", "C15.3")
	for _, fn := range []string{"pki.validateURISAN", "pki.validateNames"} {
		f := c.Fn(fn)
		if f == nil {
			continue
		}
		pop := instrsOf(eng.Calls(f, `identitytpl\.PopulateString$`))
		off := eng.CondEdges(f, `^data\.role\.AllowGlobsInIdentityTemplates$`, false)
		var block []ssa.Instruction
		for _, st := range eng.Stores(f, `\.BlockedSubstitutions$`) {
			star := false
			if sl, ok := st.Val.(*ssa.Slice); ok {
				for _, el := range c15sliceVals(sl) {
					if eng.Expr(el) == `"*"` {
						star = true
					}
				}
			}
			if star {
				block = append(block, st)
			}
		}
		if !c.Floor(f, "identity template population", len(pop), 1) || !c.Floor(f, "test of allow_globs_in_identity_templates", len(off), 1) || !c.Floor(f, "store BlockedSubstitutions = [*]", len(block), 1) {
			continue
		}
		c15unreach(c, f, "on{allow_globs_in_identity_templates off} template populated only with * blocked", eng.Query{StartEdges: off, Barriers: block, Target: eng.IsTarget(pop)}, pop[0].Pos(),
			"with allow_globs_in_identity_templates=false the identity template is populated only after BlockedSubstitutions = [*] was set", "with allow_globs_in_identity_templates=false the identity template can be populated without blocking *: entity metadata can widen the role's allowed names")
		c.Cut(f, "identity template population", pop, eng.Guard{Desc: "test of allow_globs_in_identity_templates", Edges: append(append([]eng.Edge{}, off...), eng.CondEdges(f, `^data\.role\.AllowGlobsInIdentityTemplates$`, true)...)}, nil)
	}
}

// ---- C15.8: the issuer's leaf_not_after_behavior: API names, stored enum and defaults agree
func c15gLeafBehaviourTable(c *eng.Ctx) {
	tab, _, ok := c.P.VarLitConsts("certutil", "notAfterBehaviorNames")
	if !ok || len(tab) < 3 {
		c.Unresolved("certutil.notAfterBehaviorNames")
		return
	}
	nameOf := map[string]string{}
	for _, kv := range tab {
		if i := strings.Index(kv, "="); i > 0 {
			nameOf[kv[:i]] = kv[i+1:]
		}
	}
	errC, ok := c.P.ConstValue("certutil.ErrNotAfterBehavior")
	if !ok {
		c.Unresolved("certutil.ErrNotAfterBehavior")
		return
	}
	parsers := map[string]bool{"pki.(*backend).pathUpdateIssuer": true, "pki.(*backend).pathPatchIssuer": true}
	c.Clause("R7", "C15.8")
	for fn := range parsers {
		f := c.Fn(fn)
		if f == nil {
			continue
		}
		n := 0
		for val, name := range nameOf {
			v := val
			edges := eng.PhiEdges(f, "newLeafBehavior", func(x ssa.Value) bool { _, isC := x.(*ssa.Const); return isC && eng.Expr(x) == v })
			// the zero value also flows in from the declaration: keep only edges leaving a switch arm
			var arms []eng.Edge
			for _, e := range edges {
				if eng.IfOf(e.From) == nil {
					arms = append(arms, e)
				}
			}
			if !c.Floor(f, "assignment newLeafBehavior = "+name, len(arms), 1) {
				continue
			}
			n++
			c.CutEdges(f, "leaf_not_after_behavior stored as "+name, arms, eng.G(f, ` == `+regexp.QuoteMeta(strconv.Quote(name))+`$`, true))
		}
		c.Floor(f, "leaf_not_after_behavior names parsed", n, 3)
	}
	c.Clause("R6", "C15.8")
	fv := c.P.Field("pki.issuerEntry.LeafNotAfterBehavior")
	if fv == nil {
		c.Unresolved("pki.issuerEntry.LeafNotAfterBehavior")
		return
	}
	n := 0
	for _, w := range c.P.FieldWriters(fv) {
		n++
		nm := eng.FuncName(eng.TopFunc(w.Fn))
		site := "writers{issuerEntry.LeafNotAfterBehavior}"
		val := eng.Expr(w.Store.Val)
		switch {
		case parsers[nm]:
			if p, ok := w.Store.Val.(*ssa.Phi); ok && eng.VarName(p) == "newLeafBehavior" {
				c.OK(w.Fn, site, w.Store.Pos(), "the behaviour parsed from the request")
			} else {
				c.Violation(w.Fn, site, w.Store.Pos(), "the issuer's leaf_not_after_behavior is set to "+val+", not the value parsed from the request", nil)
			}
		case val == errC:
			c.OK(w.Fn, site, w.Store.Pos(), "default err (leaves may not outlive the issuer)")
		default:
			c.Violation(w.Fn, site, w.Store.Pos(), "an issuer is created/upgraded with leaf_not_after_behavior = "+val+" ("+nameOf[val]+") instead of err: leaves outlive an issuer nobody configured to permit that", nil)
		}
	}
	c.Floor(nil, "writers of issuerEntry.LeafNotAfterBehavior", n, 3)
}

// ---------------------------------------------------------------------------
// "the calls of T in f", independent of how the call is written (ROBUST.md).

// c15Site is one call of a target function that f certainly performs at At.
type c15Site struct {
	Call ssa.CallInstruction // the call of the target itself (in f, or in a closure / helper f calls)
	At   ssa.Instruction     // the instruction of f that stands for it (== Call when direct)
	Name string              // resolved callee name
	args []ssa.Value         // receiver first (a bound receiver included)
}

// Arg is argument i of the call as a value of f's frame where that is evident:
// a variable the closure captured is replaced by the one value f stores into it.
func (s c15Site) Arg(i int) ssa.Value {
	if i >= len(s.args) {
		return nil
	}
	v := s.args[i]
	for d := 0; d < 4; d++ {
		ld, ok := v.(*ssa.UnOp)
		if !ok || ld.Op != token.MUL {
			break
		}
		if _, isFree := ld.X.(*ssa.FreeVar); !isFree {
			break
		}
		cell := nfCellOf(ld.X)
		if cell == nil {
			break
		}
		vals := nfStoresTo(cell)
		if len(vals) != 1 {
			break
		}
		v = vals[0]
	}
	return v
}

// c15FuncTargets: the functions a function-typed value may denote: a function / closure / bound
// method, or every value assigned to the local variable it is read from (fn := A; if c { fn = B }).
// nil when any candidate is not evident.
func c15FuncTargets(v ssa.Value) []*ssa.Function {
	if fn, _ := nfFuncValue(v); fn != nil {
		return []*ssa.Function{fn}
	}
	if ph, isPhi := v.(*ssa.Phi); isPhi {
		var out []*ssa.Function
		for _, l := range c15phiLeaves(ph) {
			fn, _ := nfFuncValue(l)
			if fn == nil {
				return nil
			}
			out = append(out, fn)
		}
		return out
	}
	ld, ok := v.(*ssa.UnOp)
	if !ok || ld.Op != token.MUL {
		return nil
	}
	cell := nfCellOf(ld.X)
	if cell == nil {
		return nil
	}
	var out []*ssa.Function
	for _, sv := range nfStoresTo(cell) {
		fn, _ := nfFuncValue(sv)
		if fn == nil {
			return nil
		}
		out = append(out, fn)
	}
	return out
}

// c15Sites: the calls in f whose resolved callee matches pat — written directly, through a bound
// method value, or one level down: through a local closure (also a closure variable assigned one
// of several closures) or an unexported function of the same package, provided EVERY candidate
// performs such a call on every path to its normal returns. Then the call of the closure/helper
// in f stands for the target call. What cannot be resolved is not a site (the caller's floor reports it).
func c15Sites(f *ssa.Function, pat string) []c15Site {
	re := regexp.MustCompile(pat)
	var out []c15Site
	for _, ci := range nfAllCalls(f) {
		nc := nfCallOf(ci)
		if re.MatchString(nc.Name) {
			out = append(out, c15Site{Call: ci, At: ci, Name: nc.Name, args: nc.Args})
			continue
		}
		cl, plain := ci.(*ssa.Call)
		if !plain || cl.Call.IsInvoke() {
			continue
		}
		if _, bi := cl.Call.Value.(*ssa.Builtin); bi {
			continue
		}
		targets := c15FuncTargets(cl.Call.Value)
		if len(targets) == 0 {
			continue
		}
		var inner []c15Site
		all := true
		for _, g := range targets {
			if g == nil || len(g.Blocks) == 0 || g.Synthetic != "" || g == f {
				all = false
				break
			}
			local := g.Parent() != nil && eng.TopFunc(g) == eng.TopFunc(f)
			samePkg := g.Parent() == nil && g.Pkg != nil && g.Pkg == eng.TopFunc(f).Pkg && !g.Object().Exported()
			if !local && !samePkg {
				all = false
				break
			}
			var here []c15Site
			var ats []ssa.Instruction
			for _, gi := range nfAllCalls(g) {
				if _, isCall := gi.(*ssa.Call); !isCall {
					continue
				}
				if gn := nfCallOf(gi); re.MatchString(gn.Name) {
					here = append(here, c15Site{Call: gi, At: ci, Name: gn.Name, args: gn.Args})
					ats = append(ats, gi)
				}
			}
			if len(here) == 0 || eng.Reach(eng.Query{Fn: g, Barriers: ats, Target: nfIsNormalReturn}) != nil {
				all = false
				break
			}
			inner = append(inner, here...)
		}
		if all {
			out = append(out, inner...)
		}
	}
	return out
}

func c15SiteAts(ss []c15Site) []ssa.Instruction {
	var out []ssa.Instruction
	seen := map[ssa.Instruction]bool{}
	for _, s := range ss {
		if !seen[s.At] {
			seen[s.At] = true
			out = append(out, s.At)
		}
	}
	return out
}

// ---------------------------------------------------------------------------
// call-result origins and success edges through a local forwarding closure (ROBUST.md n8 idiom:
// `newSerial := func() (*big.Int, error) { return GenerateSerialNumber() }; n, err := newSerial()`).
// Both helpers stay inside the function and its closures: a rule that says "THIS call's result is
// what is used / THIS call succeeded" must not accept a package helper that merely performs the call
// somewhere inside.

// c15GCallOK is eng.GCallOK (same description, hence the same obligation keys) over the calls
// of pat that f performs directly, through a bound method value, or through a closure of f that
// returns a nil error only across the call's own success.
func c15GCallOK(f *ssa.Function, pat string) eng.Guard {
	return nfOKOf("success edge of "+pat, nfSitesLocal(f, pat))
}

// c15Origins is nfOrigins (captured variables followed) with the result of a call of a local
// closure replaced by the origins of what that closure returns at the same result index.
func c15Origins(fn *ssa.Function, v ssa.Value) []eng.Origin {
	var out []eng.Origin
	seen := map[ssa.Value]bool{}
	var walk func(v ssa.Value, depth int)
	walk = func(v ssa.Value, depth int) {
		if v == nil || seen[v] {
			return
		}
		seen[v] = true
		for _, o := range nfOrigins(v, nil) {
			if o.Kind == "call" && depth < 4 {
				var call *ssa.Call
				idx := 0
				switch x := o.Val.(type) {
				case *ssa.Extract:
					call, _ = x.Tuple.(*ssa.Call)
					idx = x.Index
				case *ssa.Call:
					call = x
				}
				if call != nil && !call.Call.IsInvoke() {
					if g, _ := nfFuncValue(call.Call.Value); g != nil && g.Parent() != nil && len(g.Blocks) > 0 && eng.TopFunc(g) == eng.TopFunc(fn) {
						n := 0
						for _, r := range eng.Returns(g) {
							if idx < len(r.Results) {
								n++
								walk(r.Results[idx], depth+1)
							}
						}
						if n > 0 {
							continue
						}
					}
				}
			}
			out = append(out, o)
		}
	}
	walk(v, 0)
	return out
}

// c15Prov is c.Prov over c15Origins: the same obligation, the same words on failure.
func c15Prov(c *eng.Ctx, fn *ssa.Function, site string, at ssa.Instruction, v ssa.Value, allowed ...string) bool {
	if v == nil || fn == nil {
		return c.Prov(fn, site, at, v, allowed...)
	}
	if ok, _, _ := eng.OriginsMatch(v, allowed...); ok {
		return c.Prov(fn, site, at, v, allowed...)
	}
	var res []*regexp.Regexp
	for _, a := range allowed {
		res = append(res, regexp.MustCompile(a))
	}
	var all []string
	for _, o := range c15Origins(fn, v) {
		d := o.Kind + ":" + o.Desc
		all = append(all, d)
		m := false
		for _, re := range res {
			if re.MatchString(d) {
				m = true
			}
		}
		if !m {
			return c.Prov(fn, site, at, v, allowed...) // reports the violation in the usual words
		}
	}
	if len(all) == 0 {
		return c.Prov(fn, site, at, v, allowed...)
	}
	c.OK(fn, "prov{"+site+"}", at.Pos(), "origins ["+strings.Join(all, " ")+"] ⊆ allowed ["+strings.Join(allowed, " ")+"] (through a local closure / captured variable)")
	return true
}
