package props

import (
	"strconv"
	"strings"

	"golang.org/x/tools/go/ssa"

	"obsa/eng"
)

// c08ListWindow (C08.2): a transactional listing is replayed at commit time over
// a window that covers everything the transaction observed. A page that ended
// because the prefix ended has observed "nothing follows": its replay must not
// be limited to the number of entries seen, or a key appended by another
// writer goes unnoticed (finding F10, repaired by cc8438c).
func c08ListWindow(c *eng.Ctx) {
	f := c.Fn("raft.(*RaftTransaction).ListPage")
	if f == nil {
		return
	}
	cv := eng.Calls(f, `^raft\.createListVerificationEntry$`)
	c.Clause("R5", "C08.2")
	if !c.Floor(f, "createListVerificationEntry", len(cv), 1) {
		return
	}
	for _, call := range cv {
		a := call.Common().Args
		// prefix / after are the transaction's own arguments, the items are the keys present in storage
		c.Prov(f, "verified prefix", call, a[0], `^param:prefix$`)
		c.Prov(f, "verified after", call, a[1], `^param:after$`)
		lim := a[2]
		// the limit is either the number of present keys seen (page ended because the limit was reached:
		// a next entry exists and is part of the items) or effectively unlimited (the prefix ended)
		phi, isPhi := lim.(*ssa.Phi)
		site := "replay window covers the end of the prefix"
		if !isPhi {
			c.Violation(f, site, call.Pos(), "the replay limit is "+eng.ExprDeep(lim)+" on every path: when the scan reached the end of the prefix the replay is cut after the entries already seen and a key appended by another writer is not detected", nil)
			continue
		}
		var bounded, unbounded []eng.Edge
		okShape := true
		for i, e := range phi.Edges {
			pred := phi.Block().Preds[i]
			var edge eng.Edge
			for si, s := range pred.Succs {
				if s == phi.Block() {
					edge = eng.Edge{From: pred, Succ: si}
				}
			}
			if cst, ok := e.(*ssa.Const); ok && cst.Value != nil {
				n, err := strconv.ParseInt(cst.Value.ExactString(), 10, 64)
				if err == nil && (n <= 0 || n >= 1<<31-1) {
					unbounded = append(unbounded, edge)
					continue
				}
				okShape = false
				continue
			}
			if strings.HasPrefix(eng.Expr(e), "len(") {
				bounded = append(bounded, edge)
				continue
			}
			okShape = false
		}
		if !okShape || len(bounded) == 0 || len(unbounded) == 0 {
			c.Violation(f, site, call.Pos(), "the replay limit "+eng.ExprDeep(lim)+" is not {number of entries seen | unlimited}", nil)
			continue
		}
		c.Clause("R2", "C08.2")
		// the bounded replay only when a next entry was seen (and recorded as part of the items)
		c.CutEdges(f, "replay limited to the entries seen", bounded, eng.G(f, `^φnextPresentEntry\{.*\} == ""$`, false))
		c.Clause("R5", "C08.2")
		// the next entry is what the scan stopped at
		okNext := false
		for _, b := range f.Blocks {
			for _, in := range b.Instrs {
				if p, ok := in.(*ssa.Phi); ok && eng.VarName(p) == "nextPresentEntry" {
					okNext = true
					for _, e := range p.Edges {
						s := eng.Expr(e)
						if s != `""` && !strings.HasPrefix(s, "raft.listShouldIncludeEntry()#0") {
							okNext = false
						}
					}
				}
			}
		}
		if okNext {
			c.OK(f, "next entry = the entry the scan stopped at", call.Pos(), `nextPresentEntry ∈ {"", listShouldIncludeEntry()#0}`)
		} else {
			c.Violation(f, "next entry = the entry the scan stopped at", call.Pos(), "nextPresentEntry is assigned something else than the entry at which the scan stopped", nil)
		}
	}
	// the replay uses the recorded window
	if g := c.Fn("raft.(*fsmTxnCommitIndexApplicationState).doVerifyList"); g != nil {
		c.Clause("R5", "C08.2")
		lp := eng.Calls(g, `^raft\.listPageInner$`)
		if c.Floor(g, "listPageInner in doVerifyList", len(lp), 1) {
			a := lp[0].Common().Args
			for i, fld := range []string{"Prefix", "After", "Limit"} {
				s := eng.Expr(a[len(a)-3+i])
				if strings.HasSuffix(s, "."+fld) && strings.Contains(s, "parseListVerifyParams()") {
					c.OK(g, "replay "+fld+" = recorded "+fld, lp[0].Pos(), s)
				} else {
					c.Violation(g, "replay "+fld+" = recorded "+fld, lp[0].Pos(), "the replay lists with "+s, nil)
				}
			}
		}
	}
}
