package props

import (
	"go/constant"
	"go/token"
	"regexp"
	"strings"

	"golang.org/x/tools/go/ssa"

	"obsa/eng"
)

// ---- small SSA helpers shared by the C20 clauses (all additive, file-local names)

// c20Strip removes value-preserving conversions.
func c20Strip(v ssa.Value) ssa.Value {
	for {
		switch x := v.(type) {
		case *ssa.Convert:
			v = x.X
		case *ssa.ChangeType:
			v = x.X
		default:
			return v
		}
	}
}

// c20Load returns the address a value is loaded from (nil if v is not a load).
func c20Load(v ssa.Value) ssa.Value {
	if u, ok := c20Strip(v).(*ssa.UnOp); ok && u.Op == token.MUL {
		return u.X
	}
	return nil
}

// c20ConstInt reports whether v is the integer constant n.
func c20ConstInt(v ssa.Value, n int64) bool {
	c, ok := c20Strip(v).(*ssa.Const)
	if !ok || c.Value == nil || c.Value.Kind() != constant.Int {
		return false
	}
	i, exact := constant.Int64Val(c.Value)
	return exact && i == n
}

// c20ConstVal returns the integer value of a constant operand.
func c20ConstVal(v ssa.Value) (int64, bool) {
	c, ok := c20Strip(v).(*ssa.Const)
	if !ok || c.Value == nil || c.Value.Kind() != constant.Int {
		return 0, false
	}
	return constant.Int64Val(c.Value)
}

// c20StaticCall returns the call if v is a static call to a function whose display name is name.
func c20StaticCall(v ssa.Value, name string) *ssa.Call {
	c, ok := c20Strip(v).(*ssa.Call)
	if !ok || eng.CalleeName(&c.Call) != name {
		return nil
	}
	return c
}

// c20ElemLoad: v is a load of X[idx]; returns X and idx.
func c20ElemLoad(v ssa.Value) (x, idx ssa.Value, ok bool) {
	a := c20Load(v)
	if a == nil {
		return nil, nil, false
	}
	ia, isIA := a.(*ssa.IndexAddr)
	if !isIA {
		return nil, nil, false
	}
	return ia.X, ia.Index, true
}

// c20FieldLoad: v is a load of X.f; returns X and the FieldAddr.
func c20FieldLoad(v ssa.Value) (*ssa.FieldAddr, bool) {
	a := c20Load(v)
	if a == nil {
		return nil, false
	}
	fa, ok := a.(*ssa.FieldAddr)
	return fa, ok
}

// c20ParamDeps lists the parameters v is computed from (through phi, arithmetic, conversions, loads, calls' arguments).
func c20ParamDeps(v ssa.Value) []string {
	seen := map[ssa.Value]bool{}
	var out []string
	var walk func(v ssa.Value)
	walk = func(v ssa.Value) {
		if v == nil || seen[v] {
			return
		}
		seen[v] = true
		if p, ok := v.(*ssa.Parameter); ok {
			out = append(out, eng.VarName(p))
			return
		}
		in, ok := v.(ssa.Instruction)
		if !ok {
			return
		}
		var ops []*ssa.Value
		for _, op := range in.Operands(ops) {
			if op != nil && *op != nil {
				walk(*op)
			}
		}
	}
	walk(v)
	return out
}

// c20Loop is a loop whose continue/exit decision is the If terminating its header block.
type c20Loop struct {
	ifi        *ssa.If
	head       *ssa.BasicBlock
	set        map[*ssa.BasicBlock]bool
	body, exit eng.Edge
	base       string // deep normalised condition
	bodyOn     bool   // value of base on the body edge
}

// c20Loops returns the natural loops of f that are controlled by the If of their header.
func c20Loops(f *ssa.Function) []c20Loop {
	var out []c20Loop
	for _, h := range f.Blocks {
		ifi := eng.IfOf(h)
		if ifi == nil || len(h.Succs) != 2 {
			continue
		}
		set := map[*ssa.BasicBlock]bool{h: true}
		var stack []*ssa.BasicBlock
		self := false
		for _, t := range h.Preds {
			if t == h {
				self = true
			} else if h.Dominates(t) {
				stack = append(stack, t)
			}
		}
		if len(stack) == 0 && !self {
			continue
		}
		for len(stack) > 0 {
			b := stack[len(stack)-1]
			stack = stack[:len(stack)-1]
			if set[b] {
				continue
			}
			set[b] = true
			stack = append(stack, b.Preds...)
		}
		in0, in1 := set[h.Succs[0]], set[h.Succs[1]]
		if in0 == in1 {
			continue
		}
		l := c20Loop{ifi: ifi, head: h, set: set}
		nc := eng.NormalizeDeep(ifi.Cond)
		l.base = nc.Base
		if in0 {
			l.body, l.exit = eng.Edge{From: h, Succ: 0}, eng.Edge{From: h, Succ: 1}
			l.bodyOn = nc.Pol
		} else {
			l.body, l.exit = eng.Edge{From: h, Succ: 1}, eng.Edge{From: h, Succ: 0}
			l.bodyOn = !nc.Pol
		}
		out = append(out, l)
	}
	return out
}

// c20LoopsOver selects the loops that visit every element of the slice rendered as p:
// `for i := range p` / `for _, x := range p` / `for i := 0|1; i < len(p); i++`.
func c20LoopsOver(f *ssa.Function, p string, allowFromOne bool) []c20Loop {
	q := regexp.QuoteMeta(p)
	start := `0`
	if allowFromOne {
		start = `[01]`
	}
	re := regexp.MustCompile(`^(\(\(φ[\w.]*\{-1\|φ[\w.]* \+ 1\}\) \+ 1\)|\(φ[\w.]*\{` + start + `\|φ[\w.]* \+ 1\}\)) < \(?len\(` + q + `\)\)?$`)
	var out []c20Loop
	for _, l := range c20Loops(f) {
		if l.bodyOn && re.MatchString(l.base) {
			out = append(out, l)
		}
	}
	return out
}

// c20EveryIteration: starting on the body edge of l, the header is not reached again unless
// (barriers) one of the instructions executed and (blocked) one of the edges was crossed.
func c20EveryIteration(f *ssa.Function, l c20Loop, blocked []eng.Edge, barriers []ssa.Instruction) *eng.Hit {
	return eng.Reach(eng.Query{Fn: f, StartEdges: []eng.Edge{l.body}, Blocked: blocked, Barriers: barriers,
		Target: func(in ssa.Instruction) bool { return in == ssa.Instruction(l.ifi) }})
}

// c20FalseEdge: the edge of ifi on which its normalised base is false.
func c20BaseEdge(ifi *ssa.If, want bool) eng.Edge {
	nc := eng.Normalize(ifi.Cond)
	if nc.Pol == want {
		return eng.Edge{From: ifi.Block(), Succ: 0}
	}
	return eng.Edge{From: ifi.Block(), Succ: 1}
}

// c20Less decomposes an ordering test into (lo, hi) such that the normalised base reads lo < hi.
func c20Less(ifi *ssa.If) (lo, hi ssa.Value, ok bool) {
	nc := eng.Normalize(ifi.Cond)
	bo, isB := nc.Val.(*ssa.BinOp)
	if !isB {
		return nil, nil, false
	}
	switch bo.Op {
	case token.LSS, token.GEQ:
		return bo.X, bo.Y, true
	case token.GTR, token.LEQ:
		return bo.Y, bo.X, true
	}
	return nil, nil, false
}

// c20Eq decomposes an (in)equality test into its operands (constant on the right).
func c20Eq(ifi *ssa.If) (x, y ssa.Value, ok bool) {
	nc := eng.Normalize(ifi.Cond)
	bo, isB := nc.Val.(*ssa.BinOp)
	if !isB || (bo.Op != token.EQL && bo.Op != token.NEQ) {
		return nil, nil, false
	}
	if _, isC := bo.X.(*ssa.Const); isC {
		return bo.Y, bo.X, true
	}
	return bo.X, bo.Y, true
}

// c20EndsInPanic: block b ends in a panic.
func c20EndsInPanic(b *ssa.BasicBlock) bool {
	if len(b.Instrs) == 0 {
		return false
	}
	_, ok := b.Instrs[len(b.Instrs)-1].(*ssa.Panic)
	return ok
}

// c20Appended returns the values appended by a builtin append call with a literal variadic tail.
func c20Appended(call *ssa.Call) []ssa.Value {
	if len(call.Call.Args) != 2 {
		return nil
	}
	sl, ok := call.Call.Args[1].(*ssa.Slice)
	if !ok {
		return nil
	}
	a, ok := sl.X.(*ssa.Alloc)
	if !ok || a.Referrers() == nil {
		return nil
	}
	var out []ssa.Value
	for _, r := range *a.Referrers() {
		ia, ok := r.(*ssa.IndexAddr)
		if !ok || ia.Referrers() == nil {
			continue
		}
		for _, rr := range *ia.Referrers() {
			if st, ok := rr.(*ssa.Store); ok && st.Addr == ia {
				out = append(out, st.Val)
			}
		}
	}
	return out
}

// c20Irreducible8: x^8 + low is irreducible over GF(2) (no factor of degree 1..4).
func c20Irreducible8(low int64) bool {
	p := 0x100 | int(low&0xff)
	deg := func(a int) int {
		d := -1
		for a > 0 {
			d++
			a >>= 1
		}
		return d
	}
	mod := func(a, m int) int {
		dm := deg(m)
		for deg(a) >= dm {
			a ^= m << (deg(a) - dm)
		}
		return a
	}
	for d := 2; d < 32; d++ { // all polynomials of degree 1..4
		if mod(p, d) == 0 {
			return false
		}
	}
	return true
}

func c20HasEllipsis(s string) bool { return strings.Contains(s, "…") }
